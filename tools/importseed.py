#!/venv/bin/python
"""tools/importseed.py <out dir e.g. /tmp/seed/out/C03/a> <Cxx> [extra pids]: evaluate and store under /verif/seeded/<Cxx>-<variant>/"""
import json
import shutil
import subprocess
import sys
from pathlib import Path

src = Path(sys.argv[1])
pid = sys.argv[2]
extra = sys.argv[3:]
name = f"{pid}-{src.name}"
dst = Path("/verif/seeded") / name
p = subprocess.run(["/verif/tools/evalseed.py", str(src), pid, pid] + extra, stdout=subprocess.PIPE, text=True)
res = json.loads(p.stdout[p.stdout.index("{"):])
if not res["valid"]:
    print(name, "INVALID", {k: res.get(k) for k in ("applies", "suite_passes", "demo_fails_with_change", "demo_clean_passes")})
    sys.exit(1)
dst.mkdir(parents=True, exist_ok=True)
for f in ("patch.diff", "demo.py", "notes.md"):
    if (src / f).exists():
        shutil.copy(src / f, dst / f)
notes = (src / "notes.md").read_text() if (src / "notes.md").exists() else ""
meta = {"property": pid, "variant": src.name, "origin": "independent sub-agent given only the property text and a scratch worktree",
        "needs_to_manifest": notes[:1500],
        "confirmed": {"suite_with_change": res.get("suite"), "demo_fails_with_change": res["demo_fails_with_change"],
                      "demo_passes_without": res["demo_clean_passes"], "demo_output": res.get("demo_output")},
        "ran": "tools/evalseed.py: scratch worktree (suite + demo with/without), then ./check <pid> quick with EDGEGRAPH_REPO=<scratch worktree with the change> (/repo untouched)",
        "checks": {k: {"violation": v["violation"], "no_failing_input": v["no_failing_input"], "summary": v["lines"][:1], "first_message": v.get("message", "")[:300]}
                   for k, v in res["checks"].items()},
        "detected_by": res["detected_by"]}
(dst / "meta.json").write_text(json.dumps(meta, indent=1))
print(name, "detected_by", res["detected_by"])
