#!/venv/bin/python
"""usage: tools/harvest_corpus.py [name suffix, e.g. -c].  For every seeded change: run its target check against a scratch tree with the change applied and keep the shrunk
failing case as a corpus entry (corpus/<pid>/<leg>-<seed name>.json).  Corpus cases run first on every check."""
import json
import os
import subprocess
import sys
from pathlib import Path

V = Path("/verif")
repo = "/tmp/xrepo2"
subprocess.run(f"git -C /repo worktree remove --force {repo}", shell=True, stderr=subprocess.DEVNULL)
subprocess.run(f"git -C /repo worktree add -q --detach {repo} HEAD", shell=True, check=True)
env = dict(os.environ, EDGEGRAPH_REPO=repo)
try:
    for sd in sorted(p for p in (V / "seeded").iterdir() if (p / "patch.diff").exists() and (len(sys.argv) < 2 or p.name.endswith(sys.argv[1]))):
        pid = sd.name.split("-")[0]
        subprocess.run(f"git -C {repo} checkout -q -- . && git -C {repo} apply {sd / 'patch.diff'}", shell=True, check=True)
        p = subprocess.run(["./check", pid, "quick"], cwd=str(V), env=env, stdout=subprocess.PIPE, stderr=subprocess.STDOUT, text=True)
        kept = 0
        for l in p.stdout.splitlines():
            if l.startswith("VIOLATION") and "no-failing-input-found" not in l:
                rp = V / l.split("replay=")[1].split()[0]
                d = json.loads(rp.read_text())
                if d.get("kind") == "oracle" and "case" in d and "leg" in d:
                    dst = V / "corpus" / pid
                    dst.mkdir(parents=True, exist_ok=True)
                    (dst / f"{d['leg']}-{sd.name}-{kept}.json").write_text(json.dumps(d["case"]))
                    kept += 1
                    if kept >= 2:
                        break
        print(sd.name, "kept", kept, flush=True)
finally:
    subprocess.run(f"git -C {repo} checkout -q -- .", shell=True)
    subprocess.run(f"git -C /repo worktree remove --force {repo}", shell=True)
    # restore the generated file and evidence for the real tree
    subprocess.run(["./check", "C04", "quick"], cwd=str(V), stdout=subprocess.DEVNULL)
