#!/venv/bin/python
"""tools/crossmatrix.py [seed names...] — run every quick check against every seeded change.
Four slots in parallel, each with its own scratch copy of /verif (own coq build, own _work) and its own scratch worktree of
/repo (EDGEGRAPH_REPO); /repo itself is never touched.  Writes seeded/crossmatrix.json:
seed -> {pid: "V" (violation with a failing input) | "N" (no-failing-input-found) | "-"}, plus a "(clean tree)" row."""
import json
import os
import subprocess
import sys
from concurrent.futures import ThreadPoolExecutor
from pathlib import Path

SLOTS = 4
PIDS = ["C%02d" % i for i in range(1, 21)]
SEED_ROOT = Path(os.environ.get("SEED_ROOT", "/verif/seeded"))   # staging area of not yet imported seeds
DST = Path(os.environ.get("XM_OUT", "/verif/seeded/crossmatrix.json"))


def sh(cmd, cwd=None, env=None):
    p = subprocess.run(cmd, shell=True, cwd=cwd, env=env, stdout=subprocess.PIPE, stderr=subprocess.STDOUT, text=True)
    return p.returncode, p.stdout


TARGET_ONLY = "--target-only" in sys.argv


def run_checks(vc, rp, name=None):
    env = dict(os.environ, EDGEGRAPH_REPO=rp)
    row = {}
    for pid in ([name.split("-")[0]] if (TARGET_ONLY and name) else PIDS):
        rc, o = sh(f"./check {pid} quick", cwd=vc, env=env)
        v = [l for l in o.splitlines() if l.startswith("VIOLATION")]
        row[pid] = ("-" if rc == 0 else "X") if not v else ("N" if all("no-failing-input-found" in l for l in v) else "V")
    return row


def work(args):
    slot, seeds = args
    vc, rp = f"/tmp/xvc-{slot}", f"/tmp/xrepo-{slot}"
    sh(f"git -C /repo worktree remove --force {rp}; rm -rf {vc}; mkdir -p {vc} && rsync -a --exclude _work --exclude .git --exclude replays /verif/ {vc}/")
    sh(f"git -C /repo worktree add -q --detach {rp} HEAD")
    out = {}
    try:
        for sd in seeds:
            sh(f"git -C {rp} checkout -q -- . && git -C {rp} clean -fdq")
            if sd is None:
                out["(clean tree)"] = run_checks(vc, rp)
                print("(clean tree)", "".join(out["(clean tree)"][p] for p in PIDS), flush=True)
                continue
            rc, o = sh(f"git -C {rp} apply {sd / 'patch.diff'}")
            if rc != 0:
                out[sd.name] = {"error": o[-200:]}
                continue
            out[sd.name] = run_checks(vc, rp, sd.name)
            print(sd.name, "".join(out[sd.name].get(p, ".") for p in PIDS), flush=True)
    finally:
        sh(f"git -C /repo worktree remove --force {rp}; rm -rf {vc}")
    return out


def main():
    only = [a for a in sys.argv[1:] if not a.startswith("--")]
    seeds = sorted(p for p in SEED_ROOT.iterdir() if (p / "patch.diff").exists() and (not only or p.name in only))
    groups = [(k, seeds[k::SLOTS]) for k in range(SLOTS)]
    groups[0] = (0, [None] + groups[0][1])          # the unchanged tree first: no check may alarm
    out = DST.with_name("targetsweep.json") if TARGET_ONLY else DST
    res = json.loads(out.read_text()) if (only and out.exists()) else {}        # named seeds: merge into the existing file
    with ThreadPoolExecutor(max_workers=SLOTS) as ex:
        for r in ex.map(work, groups):
            res.update(r)
    out.write_text(json.dumps(res, indent=1, sort_keys=True))


if __name__ == "__main__":
    main()
