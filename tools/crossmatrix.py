#!/venv/bin/python
"""Run every quick check against every seeded change (tree given by EDGEGRAPH_REPO, default a fresh worktree).
Writes seeded/crossmatrix.json: seed -> {pid: "V" (violation with failing input) | "N" (no-failing-input-found) | "-"}."""
import json
import os
import subprocess
import sys
from pathlib import Path

HERE = Path(__file__).resolve().parent.parent
repo = os.environ.get("EDGEGRAPH_REPO")
if not repo:
    repo = "/tmp/xrepo"
    subprocess.run(f"git -C /repo worktree remove --force {repo}", shell=True, stderr=subprocess.DEVNULL)
    subprocess.run(f"git -C /repo worktree add -q --detach {repo} HEAD", shell=True, check=True)
    os.environ["EDGEGRAPH_REPO"] = repo
seeds = sorted(p for p in (Path("/verif/seeded")).iterdir() if (p / "patch.diff").exists())
only = sys.argv[1:]
pids = ["C%02d" % i for i in range(1, 21)]
out = {}
dst = HERE / "seeded" / "crossmatrix.json"
for sd in seeds:
    if only and sd.name not in only:
        continue
    subprocess.run(f"git -C {repo} checkout -q -- . && git -C {repo} apply {sd / 'patch.diff'}", shell=True, check=True)
    row = {}
    for pid in pids:
        p = subprocess.run(["./check", pid, "quick"], cwd=str(HERE), stdout=subprocess.PIPE, stderr=subprocess.STDOUT, text=True, env=os.environ)
        v = [l for l in p.stdout.splitlines() if l.startswith("VIOLATION")]
        row[pid] = "-" if not v else ("N" if all("no-failing-input-found" in l for l in v) else "V")
    out[sd.name] = row
    subprocess.run(f"git -C {repo} checkout -q -- .", shell=True)
    dst.parent.mkdir(exist_ok=True)
    dst.write_text(json.dumps(out, indent=1))
    print(sd.name, "".join(row[p] for p in pids), flush=True)
# clean tree last: no check may alarm
row = {}
for pid in pids:
    p = subprocess.run(["./check", pid, "quick"], cwd=str(HERE), stdout=subprocess.PIPE, stderr=subprocess.STDOUT, text=True, env=os.environ)
    row[pid] = "-" if "VIOLATION" not in p.stdout and p.returncode == 0 else "ALARM"
out["(clean tree)"] = row
dst.write_text(json.dumps(out, indent=1))
print("clean", row)
