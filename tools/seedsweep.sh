#!/bin/bash
# tools/seedsweep.sh <seed> ... : every quick check under other VERIF_SEED values, on a scratch copy of /verif (so that the
# evidence and build of /verif are left alone); prints only lines that are not clean.  /repo must not be modified meanwhile.
vc=/tmp/vsweep
rm -rf $vc; mkdir -p $vc; rsync -a --exclude _work --exclude .git --exclude replays /verif/ $vc/
for s in "$@"; do
  for i in $(seq -w 1 20); do
    (cd $vc && VERIF_SEED=$s ./check C$i quick 2>&1 | grep "^\[C$i\] tier\|VIOLATION\|KNOWN-FINDING\|harness error" | grep -v "tie_disagreements=0 oracle_failures=0 ")
  done
  echo "seed $s done"
done
rm -rf $vc
