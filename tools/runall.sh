#!/bin/bash
# run every quick (or thorough) check sequentially; print the summary lines
cd "$(dirname "$0")/.."
tier=${1:-quick}
for i in $(seq -w 1 20); do ./check C$i $tier 2>&1 | grep "^\[C$i\] tier\|VIOLATION\|KNOWN-FINDING\|harness error" ; done
