#!/venv/bin/python
"""tools/mk_seed_table.py — rewrite DESIGN.md section 12.5 from seeded/*/ (notes, meta) and seeded/crossmatrix.json."""
import json
import re
from pathlib import Path

V = Path("/verif")
M = json.loads((V / "seeded" / "crossmatrix.json").read_text())
T = json.loads((V / "seeded" / "targetsweep.json").read_text()) if (V / "seeded" / "targetsweep.json").exists() else {}
PIDS = ["C%02d" % i for i in range(1, 21)]
STRENGTHENED = {
 "C13-r": "faulty callbacks that raise StopIteration / KeyError (not only the harness exception), and the repeat of the call made with the SAME callback object, now well-behaved (had been a broken tie with no failing input)",
 "C02-b": "`_container`: one-shot iterables as `universes=`", "C06-b": "two-phase traversal legs", "C07-b": "two-phase traversal legs",
 "C01-b": "UNL biased to joined pairs", "C05-a": "scenario generator + falsy vertices", "C05-b": "scenario generator + falsy vertices",
 "C13-b": "fresh world per entry point + uncached-truth view", "C14-b": "per-class title formats, rows carry the title classes",
 "C15-b": "shared caller-supplied uids", "C16-b": "shared caller-supplied uids", "C19-b": "harness mutates the whitelist it passed",
 "C08-c": "caching on in traversal / search legs", "C10-c": "memos warmed with a filter callable before the dump", "C16-c": "non-injective rfunc (model + harness)",
 "C18-c": "falsy singleton instances", "C09-c": "warm-memo / caching-on find_links legs (had only been flagged through an accidental build break)",
 "C04-d": "caching on in the C04 random leg (same)", "C01-d": "falsy vertex subclass in every generator", "C11-d": "falsy vertex subclass in every generator",
 "C02-d": "the same list object passed to several constructors", "C05-d": "sibling filters sharing one code object / one method",
 "C10-d": "value-hash vertex class, non-universe dump roots, nested universes", "C12-d": "second result held while the first is edited",
 "C17-d": "constructions whose __init__ raises", "C18-d": "constructors that raise / clear all singletons while running",
 "C03-e": "membership edits aimed at vertices sharing a `universes=` list + membership frame in the oracle",
 "C05-e": "loaded copies edited before anything is asked of them in the fresh interpreter", "C07-e": "a new filter callable for every call (address reuse)",
 "C09-e": "link edits between memo warm-up and the find_links / neighbors questions", "C11-e": "one-shot iterables as adjacency rows",
 "C13-e": "warm memos before the fault enumeration", "C14-e": "multiple-inheritance hierarchy leg (own MRO as oracle)",
 "C15-e": "two-phase render legs: re-render after membership edits", "C16-e": "render legs with caching on and shuffled query order",
 "C17-e": "keyword values equal across types (1 / True / 1.0)",
 "C03-f": "`CLONE`: the graph replaced by a deepcopy / dill / nrpickler copy of itself inside the histories", "C19-f": "`CLONE` + `LAU` (a law set enrolled in a universe)",
 "C05-f": "unknown-handling sibling keys under one direction", "C10-f": "diamond closures in the depth leg",
 "C12-f": "`Link(vertices=list)` and edge `attributes=` inputs", "C13-f": "links that lost an end in the read-only graphs",
 "C14-f": "one options table grown between two renderings", "C17-f": "partially consumed enumeration resumed after the next call",
 "C08-f": "(caught at import, missed once after a generator change: shared-uid rate raised in search cases)",
 "C04-h": "vertex class whose instances all compare equal (`EqV`) in the identity-pure neighbors() leg",
 "C05-g": "every neighbors() answer is scribbled on by the harness after it is recorded (the list is the caller's)",
 "C13-h": "every neighbors() answer is scribbled on by the harness after it is recorded (the list is the caller's)",
 "C07-g": "memo warmed under all common settings before the traversals + memo-free rebuild as the determinism oracle (was tie-only)",
 "C07-h": "engine watchdog: a case whose calls never return is a reported violation with that case as replay (the check had hung)",
 "C10-h": "edits of the freshly loaded copy must end as they do on a twin loaded with caching off (had been swallowed as 'attempts')",
 "C12-h": "every container argument also passed EMPTY and filled by the caller afterwards",
 "C16-h": "memo warmed under all common settings before the renderings",
 "C17-g": "falsy semi-singleton instances", "C17-h": "a nested dict keyword value written in two insertion orders",
 "C18-g": "classes that use the metaclass through a subclass of it (plain, or combined with abc.ABCMeta)",
 "C15-h": "NOT caught by its target: the change breaks the structure (`e.v1 = e.v1` flips the edge; C03 / C01 report it), the export agrees with the structure it reads",
 "C02-i": "`universes=` lists with non-adjacent repeats ([u1, u2, u1])", "C02-j": "vertices sharing one caller-supplied uid in the structure histories",
 "C04-i": "warm memos followed by link edits before the questions in the C04 random leg",
 "C10-j": "by-value vertex class whose metaclass is abc.ABCMeta", "C10-l": "universes whose law set was taken away before the dump",
 "C12-j": "every accessor also read on an EMPTY object (isolated vertex, link without ends, empty universe / whitelist)",
 "C13-i": "user attributes named like every identifier-like string literal of the library's sources",
 "C13-j": "one options table and one hook object for the normal call, the faulting calls and the repeats",
 "C14-i": "distinct classes sharing one `__name__`", "C14-j": "title fields backed by properties (`uid`, a property of the class)",
 "C16-i": "harness vertex subclass with a `__str__` of its own",
 "C03-q": "user edge classes whose instances are falsy (`__bool__` False / `__len__` 0)",
 "C05-p": "scenario graphs with an unset end and a third member, the unset end then dropped (`unlink_from(None)`)",
 "C05-q": "per-call filter callables that are unhashable objects (memo stand-ins such as their address die with them)",
 "C08-q": "oracle: a start vertex that is no member of the (non-empty) universe must be refused; a returned vertex must be a member (was tie-only)",
 "C14-q": "title formats that index into a tuple attribute and use a `!r` conversion",
 "C17-q": "constructors that sort a list argument in place; the list given in both orders",
 "C19-p": "oracle: the pair named by an assignment is bound afterwards ('every such assignment succeeds'; was tie-only)",
 "C07-d": "oracle: neighbors() itself judged against the link order of the snapshot (`travh.spec_neighbors`; was tie-only until round 8)",
 "C07-f": "oracle: neighbors() itself judged against the link order of the snapshot (was tie-only until round 8)",
 "C16-d": "oracle: the FORWARD neighbours of every member judged against the link order of the snapshot (was tie-only until round 8)",
 "C10-r": "lists / dicts of plain numbers SHARED between two attributes of one vertex, inside one record, between vertices, a row repeated in a matrix; the snapshot compares the identity pattern of mutable containers inside attribute values",
 "C15-r": "vertices that compare EQUAL without being identical (`TwinV`: finished VSub vertices become value-equal twins before the export; members and look-alike outsiders)",
 "C17-r": "metaclasses DERIVED from the generated semi-singleton metaclass (`class Meta(Base): pass`)",
 "C06-p": "NOT caught, and not a violation on the domain: `uni not in start.universes` equals `start not in uni.vertices` in every state the public API can reach (C02); its demo needs a `copy.copy` ghost or value-equal twins (boundary, 12.3)"}
ROUND = {"a": 1, "b": 1, "c": 2, "d": 3, "e": 4, "f": 5, "g": 6, "h": 6, "i": 7, "j": 7, "k": 7, "l": 7, "p": 8, "q": 8, "r": 9}

rows, per_round = [], {}
for sd in sorted((V / "seeded").iterdir()):
    if not (sd / "patch.diff").exists():
        continue
    name = sd.name
    meta = json.loads((sd / "meta.json").read_text())
    notes = (sd / "notes.md").read_text() if (sd / "notes.md").exists() else ""
    desc = ""
    for l in [x.strip() for x in notes.splitlines() if x.strip()]:
        l2 = re.sub(r"^#+\s*", "", l)
        l2 = re.sub(r"^C\d\d\s*/?\s*variant\s+\w+\s*(\(round \d\))?\s*(--|—|:|-)?\s*", "", l2, flags=re.I)
        l2 = re.sub(r"^variant\s+\w+\s*(--|—|:|-)?\s*", "", l2, flags=re.I)
        l2 = re.sub(r"^\(round \d\)\s*(--|—|:|-)\s*", "", l2)
        if len(l2) > 12:
            desc = l2
            break
    desc = desc.replace("**", "").replace("|", "/")[:150]
    files = ", ".join(f.replace("edgegraph/", "") for f in sorted(set(re.findall(r"^\+\+\+ b/(\S+)", (sd / "patch.diff").read_text(), re.M))))
    r = dict(M.get(name) or {})
    t = T.get(name) or {}
    if "error" in r:
        r = {}
    r.update({k: v for k, v in t.items() if v in ("V", "N", "-")})      # the target column: the latest sweep on HEAD wins
    vs = [p for p in PIDS if r.get(p) == "V"]
    ns = [p for p in PIDS if r.get(p) == "N"]
    if not r:
        vs, ns = meta.get("detected_by", []), []
    for p_ in meta.get("detected_by", []):          # checks other than the target run by hand at import (rounds 4-6)
        if p_ not in vs and p_ != name.split("-")[0] and name not in M:
            vs.append(p_)
    note = STRENGTHENED.get(name, "")
    if meta.get("neutralised"):
        note = (note + "; " if note else "") + "NEUTRALISED on HEAD by fix D27 (no longer a violation; detected on the tree it was written for)"
        if not vs:
            vs = ["(" + name.split("-")[0] + ")"]
    if meta.get("outside_domain") and not vs:
        vs = ["(none: equivalent on the domain)"]
    if meta.get("rebased"):
        note = (note + "; " if note else "") + "rebased onto HEAD"
    rows.append(f"| {name} | {files} | {desc} | {' '.join(vs)} | {' '.join(ns)} | {note} |")
    rd = ROUND[name.split("-")[1]]
    per_round.setdefault(rd, [0, 0])
    per_round[rd][0] += 1
    per_round[rd][1] += int(name in STRENGTHENED)
clean = M.get("(clean tree)", {})
clean_ok = all(v == "-" for v in clean.values()) and len(clean) == 20
tally = ", ".join(f"{s} of {n} in round {r}" for r, (n, s) in sorted(per_round.items()))
text = f"""Nine rounds of seeded changes (variants `a`+`b` = round 1, `c` = round 2, `d` = round 3, `e` = round 4, `f` = round 5, `g`+`h` = round 6: one- to three-line slips, `i`-`l` = round 7 and `p`+`q` = round 8: aimed at the files (7) and functions (8) the earlier rounds had left alone, `r` = round 9: two cooperating sites / multi-step or unusual-shape triggers, one per property; {len(rows)} in
all), every one written by a fresh sub-agent that saw only the property text and a scratch worktree (later rounds also a one-line
list of the earlier ideas and idea families, to be avoided), and kept only after `tools/evalseed.py` had confirmed in a scratch
worktree that it applies, that the unedited suite still reports `652 passed`, and that its demo fails with it and passes without.
Stored as `seeded/<id>/` (`patch.diff`, `demo.py`, `notes.md`, `meta.json`; where a later `fix:` commit touched the same lines the
change was re-created on HEAD and the original kept as `patch.orig.diff`). **Every one is detected by the check of its target
property** - except C05-e and C10-b, which fix D27 turned into harmless code (their own demos pass on HEAD; they were detected on the
tree they were written for), and C15-h, which was aimed at C15 but breaks C03 / C01 (the checks of those report it; the pyvis export
agrees with the structure it is given, so C15's check is right to stay silent), and C06-p, whose change is equivalent to the original
on every state the public API can reach (its demo builds a `copy.copy` ghost). Column V = `VIOLATION` with a failing input; N = `no-failing-input-found`: the tie or a proof obligation
broke and the property's own oracle found nothing - typical for a check whose model shares the changed code but whose property the
change does not break. The target's own column is from the latest `tools/crossmatrix.py --target-only` on HEAD (`seeded/targetsweep.json`); the other
columns, for variants a-d, from the full run of every quick check against every seed on scratch copies made after round 3
(`seeded/crossmatrix.json`; a full run takes 5-8 hours and was not repeated for rounds 4 to 9); the row for the unchanged tree
has {'no alarm' if clean_ok else 'ALARMS - see the json'} in both files. "strengthened" names what had to be added to the
harness before the seed was caught: {tally}; each addition is a generator / oracle generalisation, none special-cases a seed. The
shrunk failing cases are kept as `corpus/<pid>/` and run first on every check.

| seed | files changed | idea (from its notes) | V | N | strengthened / note |
|---|---|---|---|---|---|
""" + "\n".join(rows) + """

Recurring classes of realistic breakage the generators now cover because of these rounds: truthiness used for `is None` (falsy vertex
/ singleton classes, falsy callables), value-hash vertex classes, caching on with warm memos before mutations, renderings and
find_links questions, the same list object passed to several constructors, one-shot iterables, sibling callables sharing a code object
and per-call callables (memo keys), unhashable and unpicklable filter callables, raising and re-entrant constructors, a second result
held while the first is edited, re-rendering after same-size membership edits and with one options table grown in between, multiple
inheritance, the graph replaced by a copy of itself in the middle of a history, loaded copies edited before they are queried in a
fresh interpreter, by-value classes and closures over graph objects, links that lost an end, a partially consumed enumeration resumed
after a mutation; from round 6: answers of neighbors() edited by the caller, memos filled under OTHER settings before the call under
test, arguments passed empty and filled later, vertices that all compare equal, metaclasses derived from the library's, calls that
never return (engine watchdog); from round 7: repeated `universes=` entries, shared uids in structure histories, metaclass-bearing
by-value classes, lawless universes, functions pickled with their globals and dill's own settings, accessors on empty objects, user
attributes colliding with the library's string literals, caller-owned option tables reused across calls, same-named classes,
property-backed title fields, vertex classes with their own `__str__`; from round 8: falsy edge classes, per-call unhashable
filters, half-assigned links losing their unset end, constructors that normalise their arguments in place, format-spec features in
titles, and two oracle clauses that had been left to the tie (start-vertex membership for traversals and searches; "every
assignment succeeds" for law sets); from round 9: plain-data containers shared between attributes and between vertices of a pickled
graph (contents AND sharing pattern compared), vertices that become value-equal after the graph is built (exporters must name by
identity), metaclasses derived from a generated semi-singleton metaclass, callbacks that raise `StopIteration` (which iteration
machinery swallows) and the repeat of a faulted call with the very same callback object.
"""
s = (V / "DESIGN.md").read_text()
a = s.index("### 12.5 Seeded changes")
a = s.index("\n", a) + 1
b = s.index("### 12.6")
s = s[:a] + "\n" + text + "\n" + s[b:]
(V / "DESIGN.md").write_text(s)
print(len(rows), "rows;", tally, "; clean row ok:", clean_ok)
