#!/venv/bin/python
"""Evaluate a seeded change:  tools/evalseed.py <seed dir with patch.diff + demo.py> <target Cxx> [pids to run ...]
1. confirm in a scratch worktree that the suite passes with the change, the demo fails with it and passes without;
2. run the given checks (default: the target) against a scratch worktree carrying the change (EDGEGRAPH_REPO - /repo itself
   is never touched), then once more against /repo so that /verif's generated file and evidence are those of the real tree;
   report which checks raise a VIOLATION."""
import json
import os
import subprocess
import sys
import tempfile
from pathlib import Path

REPO = "/repo"
VERIF = "/verif"


def sh(cmd, cwd=None, env=None, timeout=1800):
    p = subprocess.run(cmd, shell=True, cwd=cwd, env=env, stdout=subprocess.PIPE, stderr=subprocess.STDOUT, text=True, timeout=timeout)
    return p.returncode, p.stdout


def main():
    seed = Path(sys.argv[1]).resolve()
    target = sys.argv[2]
    pids = sys.argv[3:] or [target]
    patch = seed / "patch.diff"
    demo = seed / "demo.py"
    res = {"seed": str(seed), "target": target}
    wt = tempfile.mkdtemp(prefix="evalseed-", dir="/tmp")
    os.rmdir(wt)
    try:
        rc, out = sh(f"git -C {REPO} worktree add -q --detach {wt} HEAD")
        env = dict(os.environ, PYTHONPATH=wt, PYTHONHASHSEED="0")
        rc, out = sh(f"/venv/bin/python {demo}", cwd=wt, env=env)
        res["demo_clean_passes"] = rc == 0
        rc, out = sh(f"git apply {patch}", cwd=wt)
        res["applies"] = rc == 0
        if rc != 0:
            res["apply_error"] = out[-500:]
        else:
            rc, out = sh("/venv/bin/python -m pytest -q -p no:cacheprovider -n 8 2>&1 | tail -3", cwd=wt)
            res["suite"] = out.strip().splitlines()[-1] if out.strip() else ""
            res["suite_passes"] = "652 passed" in out and "failed" not in out
            rc, out = sh(f"/venv/bin/python {demo}", cwd=wt, env=env)
            res["demo_fails_with_change"] = rc != 0
            res["demo_output"] = out.strip().splitlines()[-1][:300] if out.strip() else ""
    finally:
        sh(f"git -C {REPO} worktree remove --force {wt}")
    res["valid"] = bool(res.get("applies") and res.get("suite_passes") and res.get("demo_fails_with_change") and res.get("demo_clean_passes"))
    if res["valid"]:
        # the checks run against a scratch worktree carrying the change (EDGEGRAPH_REPO); /repo itself is not touched
        wt2 = tempfile.mkdtemp(prefix="evalseed-run-", dir="/tmp")
        os.rmdir(wt2)
        sh(f"git -C {REPO} worktree add -q --detach {wt2} HEAD")
        try:
            rc, out = sh(f"git apply {patch}", cwd=wt2)
            env2 = dict(os.environ, EDGEGRAPH_REPO=wt2)
            res["checks"] = {}
            for pid in pids:
                rc, out = sh(f"./check {pid} quick", cwd=VERIF, env=env2, timeout=3600)
                lines = [l for l in out.splitlines() if l.startswith("VIOLATION") or l.startswith(f"[{pid}] tier")]
                res["checks"][pid] = {"exit": rc, "violation": any(l.startswith("VIOLATION") for l in lines),
                                      "no_failing_input": any("no-failing-input-found" in l for l in lines), "lines": lines[:4]}
                for l in lines:
                    if l.startswith("VIOLATION"):
                        rp = l.split("replay=")[1].split()[0]
                        try:
                            d = json.load(open(Path(VERIF) / rp))
                            res["checks"][pid]["message"] = str(d.get("messages", d.get("proof_problems", "")))[:400]
                        except Exception:
                            pass
                        break
        finally:
            sh(f"git -C {REPO} worktree remove --force {wt2}")
            # leave /verif's generated file, build and evidence as the real tree has them
            for pid in pids:
                sh(f"./check {pid} quick", cwd=VERIF, timeout=3600)
        res["detected_by"] = [p for p, r in res["checks"].items() if r["violation"]]
    print(json.dumps(res, indent=1))


if __name__ == "__main__":
    main()
