#!/bin/bash
# tools/runcopy.sh <tier> [seed]: every check of one tier on a scratch copy of /verif (evidence and build of /verif untouched).
tier=${1:-thorough}; seed=${2:-20260930}
vc=/tmp/vcopy-$tier-$seed
rm -rf $vc; mkdir -p $vc; rsync -a --exclude _work --exclude .git --exclude replays /verif/ $vc/
for i in $(seq -w 1 20); do
  (cd $vc && VERIF_SEED=$seed ./check C$i $tier 2>&1 | grep "^\[C$i\] tier\|VIOLATION\|KNOWN-FINDING\|harness error" | cut -c1-200)
done
rm -rf $vc
