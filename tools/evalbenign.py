#!/venv/bin/python
"""tools/evalbenign.py <dir with patch.diff> ...   — false-alarm probe.
Each patch is a behaviour-preserving refactoring written by an independent sub-agent.  For each one: a scratch worktree of /repo with the
patch applied (suite must pass), a scratch copy of /verif (own coq build, own _work), every quick check run there with EDGEGRAPH_REPO
pointing at the patched tree.  Reports which checks alarm.  Everything under /tmp is removed afterwards."""
import json
import os
import subprocess
import sys
from concurrent.futures import ThreadPoolExecutor
from pathlib import Path

SLOTS = 4
PIDS = os.environ.get("BN_PIDS", " ".join(f"C{i:02d}" for i in range(1, 21))).split()   # BN_PIDS="C10 C12": probe some checks only


def sh(cmd, cwd=None, env=None, timeout=7200):
    p = subprocess.run(cmd, shell=True, cwd=cwd, env=env, stdout=subprocess.PIPE, stderr=subprocess.STDOUT, text=True, timeout=timeout)
    return p.returncode, p.stdout


def work(args):
    slot, dirs = args
    vc, rp = f"/tmp/vc-{slot}", f"/tmp/bnrepo-{slot}"
    sh(f"git -C /repo worktree remove --force {rp}; rm -rf {vc}; mkdir -p {vc} && rsync -a --exclude _work --exclude .git --exclude replays /verif/ {vc}/")
    sh(f"git -C /repo worktree add -q --detach {rp} HEAD")
    out = {}
    try:
        for d in dirs:
            d = Path(d)
            name = f"{d.parent.name}-{d.name}"
            sh(f"git -C {rp} checkout -q -- . && git -C {rp} clean -fdq")
            rc, o = sh(f"git -C {rp} apply {d / 'patch.diff'}")
            if rc != 0:
                out[name] = {"error": "patch does not apply: " + o[-300:]}
                continue
            rc, o = sh("/venv/bin/python -m pytest -q -p no:cacheprovider -n 4 2>&1 | tail -1", cwd=rp)
            res = {"suite": o.strip(), "alarms": {}}
            env = dict(os.environ, EDGEGRAPH_REPO=rp)
            for pid in PIDS:
                rc, o = sh(f"./check {pid} quick", cwd=vc, env=env)
                v = [l for l in o.splitlines() if l.startswith("VIOLATION")]
                if rc != 0 or v:
                    msg = ""
                    if v:
                        try:
                            r = json.load(open(Path(vc) / v[0].split("replay=")[1].split()[0]))
                            msg = str(r.get("messages") or r.get("proof_problems") or r.get("detail") or "")[:600]
                        except Exception as e:  # noqa: BLE001
                            msg = repr(e)
                    res["alarms"][pid] = {"lines": v[:2], "summary": [l for l in o.splitlines() if l.startswith(f"[{pid}] tier")][:1], "message": msg}
            out[name] = res
            print(name, "suite:", res["suite"], "alarms:", {k: ("N" if "no-failing" in v["lines"][0] else "V") if v["lines"] else "exit" for k, v in res["alarms"].items()}, flush=True)
    finally:
        sh(f"git -C /repo worktree remove --force {rp}; rm -rf {vc}")
    return out


def main():
    dirs = [d for d in sys.argv[1:] if (Path(d) / "patch.diff").exists()]
    groups = [(k, dirs[k::SLOTS]) for k in range(SLOTS) if dirs[k::SLOTS]]
    res = {}
    with ThreadPoolExecutor(max_workers=SLOTS) as ex:
        for r in ex.map(work, groups):
            res.update(r)
    Path("/verif/benign").mkdir(exist_ok=True)
    p = Path("/verif/benign/results.json")
    old = json.loads(p.read_text()) if p.exists() else {}
    for k, v in res.items():
        if os.environ.get("BN_PIDS") and k in old and "alarms" in old[k] and "alarms" in v:
            v["alarms"] = {**{a: b for a, b in old[k]["alarms"].items() if a not in PIDS}, **v["alarms"]}   # partial probe: keep the other columns
            v["partial_reprobe"] = sorted(set(old[k].get("partial_reprobe", [])) | set(PIDS))
        old[k] = v
    p.write_text(json.dumps(old, indent=1, sort_keys=True))


if __name__ == "__main__":
    main()
