"""Shared machinery of the /verif checks: Coq build, assumption audit, in-kernel evaluation of
generated case files, evidence, known findings, replays.  See DESIGN.md sections 4 and 5."""
import fcntl
import hashlib
import json
import os
import re
import subprocess
import sys
import time
from concurrent.futures import ThreadPoolExecutor
from pathlib import Path

VERIF = Path(__file__).resolve().parent.parent
REPO = Path(os.environ.get("EDGEGRAPH_REPO", "/repo"))
COQ = VERIF / "coq"
WORK = VERIF / "_work"
EVID = VERIF / "evidence"
REPLAYS = VERIF / "replays"
NCPU = min(16, os.cpu_count() or 4)

FORBIDDEN = re.compile(
    r"\b(Admitted|admit|Axiom|Axioms|Parameter|Parameters|Conjecture|Conjectures|Hypothesis|Hypotheses|Variable|Variables)\b"
    r"|Unset\s+Guard|bypass_check|type-in-type|impredicative-set|Admit\s+Obligations|native_compute|Unset\s+Universe|Unset\s+Positivity")

TRUSTED_BASE = [
    "Coq 8.16.1 kernel incl. its vm_compute evaluator (no native_compute)",
    "axioms: none declared; Print Assumptions of every property theorem parsed on each run",
    "no extraction: the model is evaluated inside Coq (vm_compute) on generated cases",
    "Python harness: generators, snapshot through the public accessors, id canonicalisation, Gallina literal printer",
    "CPython list / identity / exception semantics as modelled (DESIGN sections 7 and 12.7)",
]


def sh(cmd, timeout=600, cwd=None, env=None):
    p = subprocess.run(cmd, shell=isinstance(cmd, str), cwd=cwd, env=env, timeout=timeout,
                       stdout=subprocess.PIPE, stderr=subprocess.STDOUT, text=True)
    return p.returncode, p.stdout


# ----------------------------------------------------------------------------------------------
# Coq build
# ----------------------------------------------------------------------------------------------
def _coqproject_files():
    return [l.strip() for l in (COQ / "_CoqProject").read_text().splitlines()
            if l.strip().endswith(".v")]


def regenerate():
    """Regenerate the translator output from /repo's working tree (only rewritten when changed).
    Returns a dict describing the translator status."""
    sys.path.insert(0, str(VERIF / "translate"))
    try:
        import helpers_to_coq  # noqa
    except ImportError:
        return {"status": "absent"}
    return helpers_to_coq.regenerate(REPO, COQ / "gen" / "GenNbrs.v")


def build(targets=None, timeout=1500):
    """Full .vo build of the project (incremental through make).  Serialised by a lock."""
    WORK.mkdir(exist_ok=True)
    with open(WORK / ".build.lock", "w") as lk:
        fcntl.flock(lk, fcntl.LOCK_EX)
        mk = COQ / "Makefile"
        cp = COQ / "_CoqProject"
        if (not mk.exists()) or mk.stat().st_mtime < cp.stat().st_mtime:
            rc, out = sh("coq_makefile -f _CoqProject -o Makefile", cwd=COQ)
            if rc != 0:
                return False, out
        tgt = " ".join(targets) if targets else ""
        rc, out = sh(f"timeout {timeout} make -k -j{NCPU} {tgt}", cwd=COQ, timeout=timeout + 30)
        return rc == 0, out


def vo_targets(texts):
    """the .vo files of the project modules named in `From EG Require Import ...` sentences of the given texts"""
    files = {Path(n).stem: n for n in _coqproject_files()}
    mods = []
    for t in texts:
        for m in re.finditer(r"From\s+EG\s+Require\s+(?:Import|Export)\s+([^.]*)\.", t):
            mods += m.group(1).split()
    return sorted({files[m] + "o" for m in mods if m in files})


def audit_sources():
    """grep the development for anything that would declare an axiom or weaken the kernel."""
    bad = []
    listed = [COQ / n for n in _coqproject_files()]
    listed += sorted((COQ / "Props").glob("*.v")) + sorted((COQ / "gen").glob("*.v"))
    for f in sorted(set(listed)):
        if not f.exists():
            continue
        txt = f.read_text()
        # strip comments (nested) before matching
        out, depth, i = [], 0, 0
        while i < len(txt):
            if txt.startswith("(*", i):
                depth += 1; i += 2
            elif txt.startswith("*)", i) and depth:
                depth -= 1; i += 2
            else:
                if depth == 0:
                    out.append(txt[i])
                i += 1
        code = "".join(out)
        for m in FORBIDDEN.finditer(code):
            tok = m.group(0)
            # Variable/Hypothesis are allowed inside a Section (checked by Print Assumptions too)
            if tok.split()[0] in ("Variable", "Variables", "Hypothesis", "Hypotheses"):
                before = code[:m.start()]
                if len(re.findall(r"^\s*Section\s", before, re.M)) > len(re.findall(r"^\s*End\s", before, re.M)):
                    continue
            line = code[:m.start()].count("\n") + 1
            bad.append(f"{f.relative_to(VERIF)}:{line}:{tok}")
    return bad


def props_assumptions(pid):
    """Re-compile Props/<pid>.v, capturing the Print Assumptions report of each theorem.
    Returns (theorems, closed_count, report) where report maps theorem -> 'closed' | [axioms]."""
    f = COQ / "Props" / f"{pid}.v"
    if not f.exists():
        return [], 0, {"_error": f"no theorem file Props/{pid}.v"}
    names = re.findall(r"^Print Assumptions\s+([A-Za-z0-9_']+)\.", f.read_text(), re.M)
    rc, out = sh(f"timeout 600 coqc -Q . EG Props/{pid}.v", cwd=COQ, timeout=630)
    report = {}
    if rc != 0:
        return names, 0, {"_error": out[-3000:], **{n: ["<not checked: theorem file does not compile>"] for n in names}}
    # split output into blocks: "Closed under the global context" or "Axioms:\n..."
    blocks = []
    cur = None
    for line in out.splitlines():
        if line.startswith("Closed under the global context"):
            if cur is not None:
                blocks.append(cur)
                cur = None
            blocks.append("closed")
        elif line.startswith("Axioms:"):
            if cur is not None:
                blocks.append(cur)
            cur = []
        elif cur is not None:
            if re.match(r"^\S", line):
                cur.append(line.split(":")[0].strip())
    if cur is not None:
        blocks.append(cur)
    closed = 0
    for i, n in enumerate(names):
        b = blocks[i] if i < len(blocks) else ["<no report>"]
        report[n] = b
        if b == "closed":
            closed += 1
    return names, closed, report


# ----------------------------------------------------------------------------------------------
# Gallina literal printing
# ----------------------------------------------------------------------------------------------
def cnat(n):
    return str(int(n))


def cbool(b):
    return "true" if b else "false"


def copt(x, f=cnat):
    return "None" if x is None else f"(Some {f(x)})"


def clist(xs, f=cnat):
    return "[" + "; ".join(f(x) for x in xs) + "]"


def cpair(a, b):
    return f"({a}, {b})"


def cstr(s):
    return '"' + s.replace('"', '""') + '"'


# ----------------------------------------------------------------------------------------------
# evaluating the model on generated cases inside Coq
# ----------------------------------------------------------------------------------------------
_RES = re.compile(r"=\s*(\[[^\]]*\])\s*:\s*list nat", re.S)


def _run_shard(args):
    path, = args
    rc, out = sh(f"timeout 900 coqc -Q {COQ} EG {path}", cwd=path.parent, timeout=930)
    return rc, out


def run_cases(pid, imports, checkfn, terms, shard=250, tag="cases", extra_defs="", case_type=None):
    """terms: list of Gallina terms, each an argument of `checkfn : case -> bool`.
    Returns (bad_indices, error_text_or_None)."""
    if not terms:
        return [], None
    d = WORK / pid
    d.mkdir(parents=True, exist_ok=True)
    for old in d.glob(f"{tag}_*.v*"):
        old.unlink()
    for old in d.glob(f".{tag}_*.aux"):
        old.unlink()
    shards = []
    ann = f" : {case_type}" if case_type else ""
    for k in range(0, len(terms), shard):
        p = d / f"{tag}_{k // shard}.v"
        body = [imports, "Set Printing Width 1000000.", "Set Printing Depth 1000000.", "Open Scope nat_scope.", extra_defs]
        chunk = terms[k:k + shard]
        for j, t in enumerate(chunk):
            body.append(f"Definition c{j}{ann} := {t}.")
        body.append("Definition results : list bool := [" + "; ".join(f"{checkfn} c{j}" for j in range(len(chunk))) + "].")
        body.append("Eval vm_compute in (mismatches results).")
        p.write_text("\n".join(body) + "\n")
        shards.append((p,))
    bad = []
    with ThreadPoolExecutor(max_workers=NCPU) as ex:
        results = list(ex.map(_run_shard, shards))
    def cleanup(keep):
        # compiled by-products always go; the generated sources stay only for shards that need a look (disk is limited)
        for sj, (pth,) in enumerate(shards):
            for ext in (".vo", ".vok", ".vos", ".glob"):
                pth.with_suffix(ext).unlink(missing_ok=True)
            (pth.parent / f".{pth.stem}.aux").unlink(missing_ok=True)
            if sj not in keep:
                pth.unlink(missing_ok=True)
    for si, (rc, out) in enumerate(results):
        if rc != 0:
            cleanup({si})
            return bad, f"coqc failed on {shards[si][0].name}: {out[-2000:]}"
        m = _RES.search(out)
        if not m:
            cleanup({si})
            return bad, f"unparsable coqc output on {shards[si][0].name}: {out[-2000:]}"
        idx = [int(x) for x in re.findall(r"\d+", m.group(1))]
        bad.extend(si * shard + i for i in idx)
    cleanup({b // shard for b in bad})
    return sorted(bad), None


def eval_term(pid, imports, term, tag="probe"):
    """Evaluate one Gallina term with vm_compute and return Coq's printed value (diagnostics)."""
    d = WORK / pid
    d.mkdir(parents=True, exist_ok=True)
    p = d / f"{tag}.v"
    p.write_text(f"{imports}\nSet Printing Width 100000.\nSet Printing Depth 1000000.\nOpen Scope nat_scope.\nEval vm_compute in ({term}).\n")
    rc, out = sh(f"timeout 300 coqc -Q {COQ} EG {p}", cwd=d, timeout=330)
    return out.strip()


# ----------------------------------------------------------------------------------------------
# known findings, replays, evidence
# ----------------------------------------------------------------------------------------------
def known_findings():
    p = VERIF / "known_findings.json"
    if not p.exists():
        return []
    return json.loads(p.read_text())


def canon(obj):
    return json.dumps(obj, sort_keys=True, separators=(",", ":"))


def write_replay(pid, seed, payload):
    REPLAYS.mkdir(exist_ok=True)
    h = hashlib.sha1(canon(payload).encode()).hexdigest()[:10]
    p = REPLAYS / f"{pid}-{seed}-{h}.json"
    payload = dict(payload)
    payload["property"] = pid
    p.write_text(json.dumps(payload, indent=1, sort_keys=True))
    return p.relative_to(VERIF)


def write_evidence(pid, tier, seed, coverage, assumptions, wall, violations):
    EVID.mkdir(exist_ok=True)
    ev = {"property_id": pid, "tier": tier, "seed": int(seed), "level": "proof",
          "coverage": coverage, "assumptions": assumptions, "wall_s": round(wall, 2),
          "violations": int(violations)}
    (EVID / f"{pid}.json").write_text(json.dumps(ev, indent=1, sort_keys=True, default=str))


class Timer:
    def __init__(self):
        self.t0 = time.time()

    def __call__(self):
        return time.time() - self.t0
