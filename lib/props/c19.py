"""C19 — a universe and its laws always point at each other; rule attributes are read-only."""
from ..engine import Leg, Prop
from .. import structh as H

W_LAWS = {"NU": 3, "NL": 3, "SL": 6, "SA": 6, "NV": 1, "UAV": 0.5, "NE": 0.3, "CLONE": 1.0, "LAU": 1.0}


def binding_violations(snap):
    msgs = []
    ks = snap["kind"]
    for u, k in enumerate(ks):
        if k != "KUniverse":
            continue
        for L, kl in enumerate(ks):
            if kl != "KLaws":
                continue
            a = snap["ulaws"][u] == L
            b = snap["lapp"][L] == u
            if a != b:
                msgs.append(f"universe {u}.laws is law set {L}: {a}, but law set {L}.applies_to is universe {u}: {b}")
    return msgs


class LawsHistory(Leg):
    name = "lawshist"
    imports = H.HIST_IMPORTS
    checkfn = "scheck MLaws"
    case_type = H.HIST_TYPE
    rule = ("lock-step histories (3-16 calls) of Universe(laws=...)/Universe()/UniverseLaws(rules)/u.laws = L|None/"
            "L.applies_to = u|None over pools of <=3 universes and <=5 law sets (re-assignment of a law set in use elsewhere is "
            "the norm); non-trivial = some assignment moved a law set that was bound, or assigned after None; distinct = distinct op list")
    quick_n = 500
    thorough_n = 12000
    shard = 60

    def generate(self, rng, n):
        for _ in range(n):
            yield {"ops": H.gen_history(rng, W_LAWS, rng.randint(3, 16), [["NU", [], None]])}

    def observe(self, case):
        try:
            res = H.execute(case["ops"])
        except H.CaseInvalid:
            return None
        return res

    def expected_rules(self, case, upto):
        """rules each law set was created with (by allocation id), replaying allocations from the snapshots"""
        return None

    def oracle(self, case, obs):
        if obs is None:
            return []
        m = H.clone_violations(case["ops"], obs, fields=("kind", "ulaws", "lapp", "rules", "uverts"))
        if m:
            return m
        created = {}
        prev_n = 0
        for i, (op, r) in enumerate(zip(case["ops"], obs)):
            snap = r["snap"]
            # record creation-time rules of new law sets
            for j in range(prev_n, len(snap["kind"])):
                if snap["kind"][j] == "KLaws":
                    if op[0] == "NL" and r["out"] == ["id", j] and len(op) > 2 and op[2] is not None:
                        created[j] = op[2]
                    else:
                        created[j] = H.DEFAULT_RULES
            prev_n = len(snap["kind"])
            if op[0] in ("SL", "SA", "NU", "NL") and r["out"][0] == "raise":
                return [f"call {i} {op} raised {r['out'][1]}"]
            # "every such assignment succeeds": the pair named by the call is bound afterwards
            if op[0] == "SL" and snap["ulaws"][op[1]] != op[2]:
                return [f"call {i} {op}: after `u.laws = L` universe {op[1]} has laws {snap['ulaws'][op[1]]}, not {op[2]}"]
            if op[0] == "SA" and snap["lapp"][op[1]] != op[2]:
                return [f"call {i} {op}: after `L.applies_to = u` law set {op[1]} applies to {snap['lapp'][op[1]]}, not {op[2]}"]
            m = binding_violations(snap)
            if m:
                return [f"after call {i} {op}: " + m[0]] + m[1:3]
            for j, bits in created.items():
                if snap["rules"][j] != bits:
                    return [f"after call {i} {op}: law set {j} reads back rules {snap['rules'][j]}, constructed with {bits}"]
        return []

    def term(self, case, obs):
        if obs is None:
            return None
        return H.c_history(case["ops"], obs)

    def model_value(self, case, obs):
        return "transcript empty " + H.C.clist([H.c_op(o) for o in case["ops"]], str)

    def nontrivial(self, case, obs):
        if obs is None:
            return False
        prev = None
        for op, r in zip(case["ops"], obs):
            snap = r["snap"]
            if prev is not None and op[0] in ("SL", "SA", "NU"):
                # a binding that existed before was broken or moved
                for L, u in enumerate(prev["lapp"]):
                    if u is not None and L < len(snap["lapp"]) and snap["lapp"][L] != u:
                        return True
            prev = snap
        return False

    def shrink_candidates(self, case):
        for c in H.shrink_ops(case["ops"]):
            yield {"ops": c}

    def stats(self, case, obs, acc):
        if obs is not None:
            H.op_stats(case["ops"], obs, acc)


class RulesReadOnly(Leg):
    """implementation-side only: the five rule attributes cannot be assigned after construction"""
    name = "rules_readonly"
    imports = "From EG Require Import Base."
    checkfn = "(fun b : bool => b)"
    case_type = "bool"
    exhaustive = True
    rule = ("all 64 rule combinations x 5 attributes: assignment must raise AttributeError and leave the getter unchanged; the "
            "whitelist passed at construction is edited afterwards (outer and inner level) and the read-back must not move")
    quick_n = 64
    thorough_n = 64

    def generate(self, rng, n):
        for bits in range(64):
            yield {"bits": bits}

    def observe(self, case):
        w = H.World()
        try:
            kw = H.rules_kwargs(case["bits"])
            L = H.UniverseLaws(**kw)
            wl = kw["edge_whitelist"]
            if wl is not None:                 # the caller goes on editing what it passed in (both levels)
                for inner in list(wl.values()):
                    inner[H.Universe] = H.UnDirectedEdge
                    inner.pop(H.Vertex, None)
                wl[H.VSub] = {}
            out = []
            for name, val in (("mixed_links", True), ("cycles", False), ("multipath", False), ("multiverse", True),
                              ("edge_whitelist", {})):
                try:
                    setattr(L, name, val)
                    out.append([name, "assigned"])
                except AttributeError:
                    out.append([name, "AttributeError"])
                except Exception as e:  # noqa: BLE001
                    out.append([name, type(e).__name__])
            return {"attempts": out, "after": H.rules_read(L)}
        finally:
            w.close()

    def oracle(self, case, obs):
        msgs = [f"assignment to {n} of a law set did not raise AttributeError ({r})" for n, r in obs["attempts"] if r != "AttributeError"]
        if obs["after"] != case["bits"]:
            msgs.append(f"rules read {obs['after']} after assignment attempts, constructed with {case['bits']}")
        return msgs

    def term(self, case, obs):
        return "true"


class SmallScope(LawsHistory):
    """thorough tier only: the complete space of short histories over a fixed pool"""
    name = "smallscope"
    exhaustive = True
    quick_n = 0
    thorough_n = 1
    shard = 400
    rule = ("EXHAUSTIVE for this bounded space (thorough tier): every history of length <= 4 of u.laws = L|None and "
            "L.applies_to = u|None over the pool {universes 0, 2 with their default law sets 1, 3, and a free law set 4}")
    SEED = [["NU", [], None], ["NU", [], None], ["NL", None, 5]]

    def generate(self, rng, n):
        if n <= 0:
            return
        al = []
        for u in (0, 2):
            for L in (1, 3, 4, None):
                al.append(["SL", u, L])
        for L in (1, 3, 4):
            for u in (0, 2, None):
                al.append(["SA", L, u])
        for ops in H.small_scope(self.SEED, al, 4):
            yield {"ops": ops}


class C19(Prop):
    pid = "C19"
    legs = [LawsHistory(), SmallScope(), RulesReadOnly()]
    assumptions = ["histories of well-typed calls; the bare constructor UniverseLaws(applies_to=u) is outside the statement's op set "
                   "(it stores the back pointer without telling u: theorem C19_bare_constructor_with_applies_to_breaks_binding)",
                   "rule attributes (edge_whitelist, mixed_links, cycles, multipath, multiverse) are not part of the Coq model: "
                   "their read-back and immutability are decided by the implementation-side oracle only"]
