"""C11 — adjacency builders build exactly the described graph; bad input rejected whole."""
from ..engine import Leg, Prop
from .. import common as C
from .. import structh as H
from .. import queryh as Q

W_PRE = {"NV": 4, "NU": 1, "NE": 2, "LFT": 1, "UAV": 1}


def c_bop(op):
    t = op[0]
    if t == "LAD":
        adj = C.clist([f"({k}, {H.c_ids(vs)})" for k, vs in op[2]], str)
        return f"BDict {adj} {op[1]}"
    if t == "LAM":
        rows = C.clist([C.clist([C.cbool(bool(H.CELLS[c])) for c in row], str) for row in op[3]], str)
        return f"BMatrix {rows} {H.c_ids(op[2])} {op[1]}"
    return f"BStep ({H.c_op(op)})"


def dedup(xs):
    out = []
    for x in xs:
        if x not in out:
            out.append(x)
    return out


def judge_builder(op, prev, cur, out):
    n = len(prev["kind"])
    t = op[0]
    if t == "LAM":
        side, rows = op[2], op[3]
        bad = len(side) != len(rows) or any(len(r) != len(rows) for r in rows)
        if bad:
            if out != ["raise", "ValueError"] or cur != prev:
                return [f"malformed matrix must raise ValueError before anything is touched; got {out}, graph changed: {cur != prev}"]
            return []
        pairs = [(side[i], side[j]) for i, r in enumerate(rows) for j, c in enumerate(r) if H.CELLS[c]]
        members = list(side)
        members = dedup(members)
    else:
        pairs = [(k, v) for k, vs in op[2] for v in vs]
        members = dedup([x for k, vs in op[2] for x in [k] + list(vs)])
    if out[0] != "id" or out[1] != n:
        return [f"builder returned {out}, expected a new universe (object {n})"]
    u = out[1]
    if cur["kind"][u] != "KUniverse" or cur["uverts"][u] != members:
        return [f"members of the returned universe are {cur['uverts'][u]}, expected {members} (first-mention / side-array order)"]
    new_links = [i for i in range(n, len(cur["kind"])) if cur["kind"][i] in H.LINK_KINDS]
    if len(new_links) != len(pairs):
        return [f"{len(new_links)} links created for {len(pairs)} listed pairs"]
    for l, (a, b) in zip(new_links, pairs):
        if cur["kind"][l] != op[1] or cur["lverts"][l] != [a, b]:
            return [f"link {l} is {cur['kind'][l]} {cur['lverts'][l]}, expected {op[1]} {[a, b]} (input order, key/row -> value/column)"]
    for i in range(n):
        if cur["lverts"][i] != prev["lverts"][i]:
            return [f"pre-existing link {i} changed"]
        if cur["vlinks"][i][:len(prev["vlinks"][i])] != prev["vlinks"][i]:
            return [f"pre-existing links of vertex {i} were not kept in place: {prev['vlinks'][i]} -> {cur['vlinks'][i]}"]
        exp_new = [l for l, (a, b) in zip(new_links, pairs) if i in (a, b)]
        if cur["vlinks"][i][len(prev["vlinks"][i]):] != exp_new:
            return [f"new links of vertex {i} are {cur['vlinks'][i][len(prev['vlinks'][i]):]}, expected {exp_new}"]
        if prev["kind"][i] == "KUniverse" and cur["uverts"][i] != prev["uverts"][i]:
            return [f"pre-existing universe {i} changed"]
        exp_u = prev["vunis"][i] + ([u] if i in members else [])
        if cur["vunis"][i] != exp_u:
            return [f"universes of vertex {i} are {cur['vunis'][i]}, expected {exp_u}"]
    return []


class BuilderHistory(Leg):
    name = "builders"
    imports = "From EG Require Import Base State Nbrs Struct StructCheck Builders BuildersCheck."
    checkfn = "bcheck"
    case_type = "list (bop * (outcome * state))"
    rule = ("lock-step: a random prefix builds vertices with prior links and universes, then load_adj_dict / load_adj_matrix is called "
            "with random adjacency (empty rows, self and repeated entries, list and tuple values, odd truthy cell values, all five link "
            "classes) or a malformed matrix (non-square, wrong side-array length); model and implementation compared on the whole "
            "graph; oracle = the statement (members in first-mention order, one link per pair in input order and orientation, "
            "pre-existing links/universes in place) plus read-back through neighbors()/find_links; non-trivial = adjacency has a "
            "self entry or a repeated entry or the vertices had prior links")
    quick_n = 300
    thorough_n = 8000
    shard = 40

    def generate(self, rng, n):
        for _ in range(n):
            pre = H.gen_history(rng, W_PRE, rng.randint(2, 7), [["NV", False, [], []]])
            res = H.execute(pre)
            kinds = res[-1]["snap"]["kind"]
            vs = [i for i, k in enumerate(kinds) if k in H.VERTEX_KINDS]
            k = rng.choice(H.LINK_KINDS)
            ops = list(pre)
            for _ in range(rng.randint(1, 2)):
                if rng.random() < 0.5:
                    keys = rng.sample(vs, rng.randint(0, min(4, len(vs))))
                    adj = [[key, [rng.choice(vs) for _ in range(rng.choice([0, 1, 2, 2, 3]))]] for key in keys]
                    ops.append(["LAD", k, adj])
                else:
                    side = [rng.choice(vs) for _ in range(rng.randint(0, 4))] if rng.random() < 0.3 else rng.sample(vs, rng.randint(0, min(4, len(vs))))
                    nrows = len(side)
                    r = rng.random()
                    if r < 0.12:
                        nrows = max(0, nrows + rng.choice([-1, 1]))
                    rows = [[rng.choice([0, 0, 0, 1, 1, rng.randrange(len(H.CELLS))]) for _ in range(len(side) if not (0.12 <= r < 0.24 and i == 0) else len(side) + 1)] for i in range(nrows)]
                    ops.append(["LAM", k, side, rows])
                # the ids allocated by the builder are unknown to the generator: stop after builder calls that allocate a lot
            yield {"ops": ops}

    def observe(self, case):
        try:
            res = H.execute(case["ops"])
        except H.CaseInvalid:
            return None
        # read-back of the last successfully built universe
        return res

    def oracle(self, case, obs):
        if obs is None:
            return []
        prev = {"kind": [], "vlinks": [], "lverts": [], "vunis": [], "uverts": [], "ulaws": [], "lapp": [], "rules": []}
        for i, (op, r) in enumerate(zip(case["ops"], obs)):
            if op[0] in ("LAD", "LAM"):
                p2 = {k: v for k, v in prev.items() if k not in ("rules",)}
                c2 = {k: v for k, v in r["snap"].items() if k not in ("rules",)}
                m = judge_builder(op, p2, c2, r["out"])
                if m:
                    return [f"call {i} {op}: " + m[0]]
            prev = r["snap"]
        return []

    def term(self, case, obs):
        if obs is None:
            return None
        return C.clist([f"({c_bop(o)}, ({H.c_outcome(r['out'])}, {H.c_state(r['snap'])}))" for o, r in zip(case["ops"], obs)], str)

    def model_value(self, case, obs):
        return "btranscript empty " + C.clist([c_bop(o) for o in case["ops"]], str)

    def nontrivial(self, case, obs):
        if obs is None:
            return False
        for op in case["ops"]:
            if op[0] == "LAD" and any(k in vs or len(set(vs)) != len(vs) for k, vs in op[2]):
                return True
            if op[0] == "LAM" and any(H.CELLS[row[i]] for i, row in enumerate(op[3]) if i < len(row)):
                return True
        return False

    def shrink_candidates(self, case):
        ops = case["ops"]
        for i in range(len(ops) - 1, -1, -1):
            if ops[i][0] in ("LAD", "LAM"):
                yield {"ops": ops[:i] + ops[i + 1:]}
                if ops[i][0] == "LAD":
                    for j in range(len(ops[i][2])):
                        yield {"ops": ops[:i] + [["LAD", ops[i][1], ops[i][2][:j] + ops[i][2][j + 1:]]] + ops[i + 1:]}

    def stats(self, case, obs, acc):
        if obs is not None:
            H.op_stats(case["ops"], obs, acc)


class ReadBack(Leg):
    """implementation-side: reading the result back with neighbors()/find_links reproduces the adjacency"""
    name = "readback"
    imports = "From EG Require Import Base."
    checkfn = "(fun b : bool => b)"
    case_type = "bool"
    rule = ("fresh vertices only: load_adj_dict / load_adj_matrix, then neighbors(v, FORWARD) must list adj[v] as a multiset for a "
            "directed class, its symmetric closure for an undirected class (a self entry gives v itself), and find_links sizes agree")
    quick_n = 200
    thorough_n = 4000

    def generate(self, rng, n):
        for _ in range(n):
            nv = rng.randint(1, 5)
            k = rng.choice(["KDir", "KDirSub", "KUnd", "KUndSub"])
            adj = [[v, [rng.randrange(nv) for _ in range(rng.choice([0, 1, 2, 3]))]] for v in range(nv) if rng.random() < 0.8]
            yield {"nv": nv, "k": k, "adj": adj, "matrix": rng.random() < 0.5, "cls": [rng.choice(H.NV_CLASSES) for _ in range(nv)]}

    def observe(self, case):
        nv, k = case["nv"], case["k"]
        cls = case.get("cls") or [False] * nv
        ops = [["NV", cls[i], [], []] for i in range(nv)]
        if case["matrix"]:
            cnt = {(a, b): 1 for a, vs in case["adj"] for b in vs}
            rows = [[1 if (i, j) in cnt else 0 for j in range(nv)] for i in range(nv)]
            ops.append(["LAM", k, list(range(nv)), rows])
        else:
            ops.append(["LAD", k, case["adj"]])
        qs = [["NB", v, "Fwd", "UErr", None] for v in range(nv)] + [["FL", a, b, True, "UErr", None] for a in range(nv) for b in range(nv)]
        r = Q.build_and_query(ops, qs)
        return None if r is None else {"answers": r["answers"], "qs": qs}

    def oracle(self, case, obs):
        if obs is None:
            return []
        nv, k = case["nv"], case["k"]
        pairs = [(a, b) for a, vs in case["adj"] for b in vs]
        if case["matrix"]:
            pairs = sorted(set(pairs))
        for q, a in zip(obs["qs"], obs["answers"]):
            if q[0] == "NB":
                v = q[1]
                if k in ("KDir", "KDirSub"):
                    exp = sorted(b for (x, b) in pairs if x == v)
                else:
                    exp = sorted([b for (x, b) in pairs if x == v] + [x for (x, b) in pairs if b == v and x != v])
                if a[0] != "list" or sorted(a[1]) != exp:
                    return [f"neighbors({v}) reads back {a}, adjacency gives {exp} ({k})"]
            else:
                x, y = q[1], q[2]
                if k in ("KDir", "KDirSub"):
                    cnt = sum(1 for p in pairs if p == (x, y))
                else:
                    cnt = sum(1 for p in pairs if p == (x, y) or (p == (y, x) and x != y))
                if a[0] != "set" or len(a[1]) != cnt:
                    return [f"find_links({x},{y}) reads back {a}, expected {cnt} links ({k})"]
        return []

    def term(self, case, obs):
        return "true"

    def nontrivial(self, case, obs):
        return any(a in vs or len(set(vs)) != len(vs) for a, vs in case["adj"])


class C11(Prop):
    pid = "C11"
    legs = [BuilderHistory(), ReadBack()]
    assumptions = ["adjacency keys and values are vertex-like objects; matrix cells are judged by truthiness"]
