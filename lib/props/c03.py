"""C03 — every mutation has exactly its documented effect and no other; equality with the reference model."""
from ..engine import Leg, Prop
from .. import structh as H

W_ALL = {"NV": 3, "NU": 1.5, "NE": 4, "SV1": 4, "SV2": 4, "A2L": 2, "RFL": 2, "LAV": 2, "LUF": 2, "LFT": 4, "UNL": 4,
         "UAV": 1.5, "URV": 1, "VAU": 1, "VRU": 1, "CACHE": 0.3, "CLONE": 1.0}


def other_end(lverts, l, a):
    """TwoEndedLink.other on a snapshot; 'ERR' when v1/v2 would raise IndexError"""
    vs = lverts[l]
    if len(vs) < 2:
        return "ERR"
    if vs[0] == a:
        return vs[1]
    if vs[1] == a:
        return vs[0]
    return None


def frame_violations(op, prev, cur, out):
    """documented effect of one call, judged on the implementation's own before/after snapshots"""
    n = len(prev["kind"])
    t = op[0]

    def unchanged(field, except_ids=()):
        for i in range(n):
            if i not in except_ids and cur[field][i] != prev[field][i]:
                return f"{field}[{i}] changed from {prev[field][i]} to {cur[field][i]}"
        return None
    if t in ("NE", "LFT") and out[0] == "id" and out[1] >= n:
        l = out[1]
        a, b = (op[2], op[3]) if t == "NE" else (op[1], op[3])
        if cur["lverts"][l] != [a, b]:
            return [f"new link {l} has ends {cur['lverts'][l]}, expected {[a, b]}"]
        for v in {a, b} - {None}:
            if cur["vlinks"][v] != prev["vlinks"][v] + [l]:
                return [f"links of end {v} are {cur['vlinks'][v]}, expected {prev['vlinks'][v] + [l]}"]
        m = unchanged("vlinks", {a, b}) or unchanged("lverts") or unchanged("vunis") or unchanged("uverts")
        if m:
            return ["edge creation: " + m]
        if len(cur["kind"]) != n + 1:
            return [f"edge creation allocated {len(cur['kind']) - n} objects"]
    if t == "NE" and out == ["raise", "TypeError"]:
        if cur != prev:
            return ["constructor TypeError changed the graph"]
    if t == "LFT" and op[4]:
        a, b = op[1], op[3]
        joining = [l for l in prev["vlinks"][a] if other_end(prev["lverts"], l, a) == b]
        errs = [l for l in prev["vlinks"][a] if other_end(prev["lverts"], l, a) == "ERR"]
        if joining and not errs:
            if out != ["id", joining[0]] or cur != prev:
                return [f"dontdup: existing joining link {joining[0]} should be returned and nothing created; got {out}"]
    if t in ("SV1", "SV2") and out[0] == "none":
        l, new = op[1], op[2]
        idx = 0 if t == "SV1" else 1
        old_list = prev["lverts"][l]
        exp = list(old_list)
        exp[idx] = new
        if cur["lverts"][l] != exp:
            return [f"end assignment: ends of link {l} are {cur['lverts'][l]}, expected {exp}"]
        old = old_list[idx]
        for w in range(n):
            e = list(prev["vlinks"][w])
            if prev["kind"][w] in H.VERTEX_KINDS:
                if w == old and old not in exp and l in e:
                    e.remove(l)
                if w == new and l not in e:
                    e.append(l)
            if cur["vlinks"][w] != e:
                return [f"end assignment: links of vertex {w} are {cur['vlinks'][w]}, expected {e}"]
        m = unchanged("lverts", {l}) or unchanged("vunis") or unchanged("uverts")
        if m:
            return ["end assignment: " + m]
    if t in ("UAV", "URV", "VAU", "VRU") and out[0] == "none":
        u, v = (op[1], op[2]) if t in ("UAV", "URV") else (op[2], op[1])
        m = unchanged("vunis", {v}) or unchanged("uverts", {u}) or unchanged("vlinks") or unchanged("lverts")
        if m:
            return [f"membership change of vertex {v} in universe {u}: " + m]
    if t == "UNL" and out[0] != "raise":
        a, b = op[1], op[2]
        joining = [l for l in prev["vlinks"][a] if other_end(prev["lverts"], l, a) == b]
        if op[3]:
            if out != ["none"]:
                return [f"unlink(destroy=True) returned {out}"]
        elif out != ["set", sorted(joining)]:
            return [f"unlink(destroy=False) returned {out}, joining links are {sorted(joining)}"]
        for w in range(n):
            e = [l for l in prev["vlinks"][w] if not (w in (a, b) and l in joining)]
            if cur["vlinks"][w] != e:
                return [f"unlink: links of vertex {w} are {cur['vlinks'][w]}, expected {e}"]
        for l in range(n):
            e = [x for x in prev["lverts"][l] if not (l in joining and x in (a, b))]
            if cur["lverts"][l] != e:
                return [f"unlink: ends of link {l} are {cur['lverts'][l]}, expected {e}"]
        m = unchanged("vunis") or unchanged("uverts")
        if m:
            return ["unlink: " + m]
    return []


class ApiHistory(Leg):
    name = "apihist"
    imports = H.HIST_IMPORTS
    checkfn = "scheck MGraph"
    case_type = H.HIST_TYPE
    rule = ("lock-step histories (4-18 calls) over the whole structure + explicit-builder alphabet with small pools (aliasing is "
            "the norm); the model's links/ends/universes/members and every return value are compared after every call; the oracle "
            "judges edge creation, end assignment, unlink and dontdup against their documented before/after effect; "
            "non-trivial = contains an end assignment or unlink on a state with a self-loop / parallel link / None end, or a raise")
    quick_n = 600
    thorough_n = 15000
    shard = 50

    def generate(self, rng, n):
        for _ in range(n):
            yield {"ops": H.gen_history(rng, W_ALL, rng.randint(4, 18), [["NV", False, [], []], ["NV", False, [], []]])}

    def observe(self, case):
        try:
            return H.execute(case["ops"])
        except H.CaseInvalid:
            return None

    def oracle(self, case, obs):
        if obs is None:
            return []
        m = H.clone_violations(case["ops"], obs)
        if m:
            return m
        prev = {"kind": [], "vlinks": [], "lverts": [], "vunis": [], "uverts": [], "ulaws": [], "lapp": [], "rules": []}
        for i, (op, r) in enumerate(zip(case["ops"], obs)):
            cur = r["snap"]
            p2 = {k: v for k, v in prev.items() if k not in ("ulaws", "lapp", "rules")}
            c2 = {k: v for k, v in cur.items() if k not in ("ulaws", "lapp", "rules")}
            m = frame_violations(op, p2, c2, r["out"])
            if m:
                return [f"call {i} {op}: " + m[0]]
            prev = cur
        return []

    def term(self, case, obs):
        if obs is None:
            return None
        return H.c_history(case["ops"], obs)

    def model_value(self, case, obs):
        return "transcript empty " + H.C.clist([H.c_op(o) for o in case["ops"]], str)

    def nontrivial(self, case, obs):
        if obs is None:
            return False
        for op, r in zip(case["ops"], obs):
            if r["out"][0] == "raise":
                return True
            if op[0] in ("SV1", "SV2", "UNL"):
                for v in r["snap"]["lverts"]:
                    if None in v or len(set(v)) != len(v):
                        return True
        return False

    def shrink_candidates(self, case):
        for c in H.shrink_ops(case["ops"]):
            yield {"ops": c}

    def stats(self, case, obs, acc):
        if obs is not None:
            H.op_stats(case["ops"], obs, acc)


class C03(Prop):
    pid = "C03"
    legs = [ApiHistory()]
    assumptions = ["histories of well-typed calls", "objects compare by identity",
                   "explicit.unlink iterates a Python set; the model iterates the joining links in links order "
                   "(final state independent of that order: unlink_order_independent when proved; compared on final states)"]
