"""C13 — read-only operations never change the graph, even when a user callback raises."""
from ..engine import Leg, Prop
from .. import common as C
from .. import structh as H
from .. import queryh as Q
from .. import renderh as R
from edgegraph.structure import Vertex
from edgegraph.traversal import helpers, breadthfirst, depthfirst
from edgegraph.output import plaintext, plantuml, nrpickler
from edgegraph.output import pyvis as egpyvis


class Boom(Exception):
    pass


FAULT_KINDS = {"Boom": Boom, "StopIteration": StopIteration, "KeyError": KeyError}


class Faulty:
    """wraps a callback: counts its invocations and raises at the fail_at-th one (Boom, or an exception the iteration
    machinery itself gives a meaning to: StopIteration, as a filter that calls next() on a used-up iterator raises)"""

    def __init__(self, fn, fail_at=None, exc="Boom"):
        self.fn, self.fail_at, self.n, self.exc = fn, fail_at, 0, FAULT_KINDS[exc]

    def disarm(self):
        """the same callback object, well-behaved from now on"""
        self.fail_at, self.n = None, 0
        return self

    def __call__(self, *a):
        self.n += 1
        if self.n == self.fail_at:
            raise self.exc()
        return self.fn(*a)


def entry_points(w, u, start):
    """name -> (callback names, function(callbacks dict) -> canonical result)"""
    ids = w.id_of
    uni = w.objs[u]
    st = w.objs[start]

    def lst(xs):
        return [ids(x) for x in xs]

    def take(gen, k):
        out = []
        for x in gen:
            out.append(ids(x))
            if len(out) >= k:
                break
        return out
    accept = lambda *a: True                                   # noqa: E731
    by_link = lambda e, *a: ids(e) % 2 == 0 or True            # noqa: E731
    label = lambda v: f"v{ids(v)}"                             # noqa: E731
    key = lambda v: R.std_key(ids(v))                          # noqa: E731

    class Hook:
        """the callable that sits in the options table: the SAME object, in the same table, for the normal call, every faulting
        call and every repeat (a caller does not rebuild its options between calls); it forwards to the current callback"""
        target = None

        def __call__(self, *a):
            return self.target(*a)
    hook = Hook()
    puml_opts = {**R.make_options(1), Vertex: {**R.make_options(1)[Vertex], "user_render_func": hook}}

    def run_puml(cb):
        hook.target = cb["user_render_func"]
        return R.canon_text(w, plantuml.render_to_plantuml_src(uni, puml_opts))

    def canon(x):
        if isinstance(x, dict):
            # ("show_attrs" is compiled in place by the renderer - list of patterns -> one pattern of the same meaning; that is
            # its documented way of working and no change of what the table says)
            return sorted((str(k), canon(v)) for k, v in x.items() if k != "show_attrs")
        if isinstance(x, (list, tuple)):
            return [canon(v) for v in x]
        return x if isinstance(x, (int, str, bool, float, type(None))) else f"object {id(x)}"
    w.args_view = lambda: canon(puml_opts)       # the caller's own arguments are part of what must read as before
    AN, NB = helpers.DIR_SENS_ANY, helpers.LNK_UNKNOWN_NEIGHBOR
    eps = {
        "neighbors": (["filterfunc"], {"filterfunc": by_link},
                      lambda cb: lst(helpers.neighbors(st, direction_sensitive=AN, unknown_handling=NB, filterfunc=cb["filterfunc"]))),
        "find_links": (["filterfunc"], {"filterfunc": lambda e: True},
                       lambda cb: sorted(lst(helpers.find_links(st, st, direction_sensitive=False, filterfunc=cb["filterfunc"])))),
        "bfs": ([], {}, lambda cb: ids(breadthfirst.bfs(uni, st, "tag", 3))),
        "dfs_recursive": ([], {}, lambda cb: ids(depthfirst.dfs_recursive(uni, st, "tag", 3))),
        "dfs_iterative": ([], {}, lambda cb: ids(depthfirst.dfs_iterative(uni, st, "tag", 3))),
        "basic_render": (["rfunc", "sort"], {"rfunc": label, "sort": key},
                         lambda cb: plaintext.basic_render(uni, rfunc=cb["rfunc"], sort=cb["sort"])),
        "render_to_plantuml_src": (["user_render_func"], {"user_render_func": lambda v, o: f"object v{ids(v)}\n"},
                                   run_puml),
        "make_pyvis_net": (["rvfunc", "refunc"], {"rvfunc": label, "refunc": lambda e: f"e{ids(e)}"},
                           lambda cb: [(e["from"], e["to"]) for e in egpyvis.make_pyvis_net(uni, rvfunc=cb["rvfunc"], refunc=cb["refunc"]).edges]),
        "pyvis_render_customizable": (["rvfunc", "refunc"], {"rvfunc": label, "refunc": lambda e: f"e{ids(e)}"},
                                      lambda cb: len(egpyvis.pyvis_render_customizable(uni, rvfunc=cb["rvfunc"], refunc=cb["refunc"]).nodes)),
        "nrpickler.dumps": ([], {}, lambda cb: len(nrpickler.dumps(uni)) > 0),
    }
    for name, fn, gfn in (("bft", breadthfirst.bft, breadthfirst.ibft), ("dft_recursive", depthfirst.dft_recursive, depthfirst.idft_recursive),
                          ("dft_iterative", depthfirst.dft_iterative, depthfirst.idft_iterative)):
        eps[name] = (["ff_via", "ff_result"], {"ff_via": by_link, "ff_result": accept},
                     lambda cb, fn=fn: lst(fn(uni, st, direction_sensitive=AN, unknown_handling=NB, ff_via=cb["ff_via"], ff_result=cb["ff_result"])))
        eps["i" + name + " (partially consumed)"] = (["ff_via", "ff_result"], {"ff_via": by_link, "ff_result": accept},
                                                     lambda cb, gfn=gfn: take(gfn(uni, st, direction_sensitive=AN, unknown_handling=NB,
                                                                                  ff_via=cb["ff_via"], ff_result=cb["ff_result"]), 2))
    return eps


def attr_view(w):
    """every attribute of every object with its value (name-mangled class-private state - the neighbour memo - excluded: not observable)"""
    out = []
    for o in w.objs:
        d = {}
        for k, v in vars(o).items():
            if H.is_class_private(k):
                continue
            d[k] = [id(x) for x in v] if isinstance(v, list) else id(v) if not isinstance(v, (int, str, bool, type(None))) else v
        out.append(d)
    out.append({"caller's options table": w.__dict__["args_view"]() if "args_view" in w.__dict__ else None})
    return out


class FaultEnumeration(Leg):
    name = "faults"
    imports = "From EG Require Import Base."
    checkfn = "(fun b : bool => b)"
    case_type = "bool"
    rule = ("per generated universe (random surrounding multigraph, attributes on half the vertices) and for caching off / on: every "
            "read-only entry point (neighbors, find_links, 3 traversals in list form and as partially consumed generators, 3 searches, "
            "basic_render, render_to_plantuml_src with user_render_func, make_pyvis_net, pyvis_render_customizable, nrpickler.dumps) "
            "is run once counting the invocations n_c of each callback c, then again with a fault at the k-th invocation for EVERY "
            "k <= n_c (complete per case); after each run vars() of every object and the structural snapshot must equal the ones "
            "before (in half the cases the vertices carry user attributes named like every identifier-like string literal of the library's sources; the options table "
            "handed to the PlantUML renderer is one object for all runs and must read as before, too), neighbors() of every vertex must answer as the uncached recomputation did before the call (each entry point "
            "meets a fresh copy of the graph; with caching on its memos are cold in half of the cases and warm in the others), and the call repeated with well-behaved callbacks must "
            "give the normal answer; non-trivial = >= 3 fault points")
    quick_n = 40
    thorough_n = 600

    def generate(self, rng, n):
        for _ in range(n):
            ops, u, vids = R.gen_render_graph(rng)
            ops = [(["NE", rng.choice(["KDir", "KUnd", "KDirSub", "KUndSub"])] + op[2:]) if op[0] == "NE" else op for op in ops]
            ops = [op for op in ops if op[0] != "LAV"]
            ops = [(["NE", op[1], op[2] if op[2] is not None else vids[0], op[3] if op[3] is not None else vids[0]]) if op[0] == "NE" else op for op in ops]
            members = ops[-1][1]
            if not members:
                ops[-1] = ["NU", [vids[0]], None]
                members = [vids[0]]
            yield {"ops": ops, "u": u, "start": rng.choice(members), "caching": rng.random() < 0.5, "warm": rng.random() < 0.5,
                   "collisions": rng.random() < 0.5,
                   "exc": rng.choice(["Boom", "Boom", "StopIteration", "StopIteration", "KeyError"])}   # what the faulty callback raises

    def _build(self, case):
        w = H.World()
        for op in case["ops"]:
            w.do(op)
        for i, o in enumerate(w.objs):
            if H.kind_of(o) in H.VERTEX_KINDS and i % 2:
                o.tag = i
        if case.get("collisions"):
            H.decorate_with_collisions(w)       # user attributes named like the strings the library's own sources use
        Vertex.NEIGHBOR_CACHING = case["caching"]
        if case["caching"] and case.get("warm"):
            Q.warm_memo(w)             # half of the caching-on cases meet warm memos, the others cold ones
        return w

    @staticmethod
    def _qview(w):
        """what neighbors() reports for every vertex (two argument sets), with the caching flag as it is"""
        out = {}
        for i, o in enumerate(w.objs):
            if H.kind_of(o) in H.VERTEX_KINDS:
                out[i] = [Q.run_query(w, ["NB", i, "Fwd", "UNb", None]), Q.run_query(w, ["NB", i, "AnyDir", "UErr", None]),
                          Q.run_query(w, ["NB", i, "Fwd", "UErr", None])]
        return out

    def observe(self, case):
        from . import c05
        problems = []
        points = 0
        try:
            w0 = self._build(case)
            names = list(entry_points(w0, case["u"], case["start"]))
            w0.close()
        except H.CaseInvalid:
            return None
        for name in names:
            # a fresh copy of the graph per entry point, so that every one meets cold neighbour memos
            w = self._build(case)
            try:
                cbnames, cbs, run = entry_points(w, case["u"], case["start"])[name]
                snap0, attrs0 = w.snapshot(), attr_view(w)
                truth = c05.uncached(w, lambda: self._qview(w))
                wrapped = {c: Faulty(cbs[c]) for c in cbnames}
                try:
                    normal = run(wrapped)
                except Exception as e:  # noqa: BLE001
                    normal = ["raise", type(e).__name__]
                if w.snapshot() != snap0 or attr_view(w) != attrs0:
                    problems.append(f"{name}: the graph changed during a normal call")
                    break
                view = self._qview(w)
                if view != truth:
                    bad = next(i for i in truth if view[i] != truth[i])
                    problems.append(f"{name}: after the call neighbors() of vertex {bad} reports {view[bad]}, before it {truth[bad]} "
                                    f"(caching {'on' if case['caching'] else 'off'})")
                    break
                counts = {c: wrapped[c].n for c in cbnames}
                for c in cbnames:
                    for k in range(1, min(counts[c], 40) + 1):
                        points += 1
                        wr = {x: Faulty(cbs[x], fail_at=k if x == c else None, exc=case.get("exc", "Boom")) for x in cbnames}
                        try:
                            run(wr)
                            ended = "returned"
                        except Exception as e:  # noqa: BLE001
                            ended = type(e).__name__
                        if w.snapshot() != snap0 or attr_view(w) != attrs0:
                            diff = [(i, set(a) ^ set(b)) for i, (a, b) in enumerate(zip(attrs0, attr_view(w))) if a != b][:3]
                            problems.append(f"{name}: a fault at invocation {k} of {c} ({ended}) left the graph changed: {diff}")
                            break
                        if self._qview(w) != truth:
                            problems.append(f"{name}: after a fault at invocation {k} of {c} ({ended}) neighbors() answers changed")
                            break
                        wr2 = {x: Faulty(cbs[x]) for x in cbnames}
                        try:
                            again = run(wr2)
                        except Exception as e:  # noqa: BLE001
                            again = ["raise", type(e).__name__]
                        if again != normal:
                            problems.append(f"{name}: after a fault at invocation {k} of {c}, repeating the call gives {str(again)[:80]} "
                                            f"instead of {str(normal)[:80]}")
                            break
                        # ... and with the SAME callback objects, which behave from now on
                        for x in wr.values():
                            x.disarm()
                        try:
                            again = run(wr)
                        except Exception as e:  # noqa: BLE001
                            again = ["raise", type(e).__name__]
                        if again != normal:
                            problems.append(f"{name}: after a fault ({ended}) at invocation {k} of {c}, repeating the call with the same, now "
                                            f"well-behaved callback gives {str(again)[:80]} instead of {str(normal)[:80]}")
                            break
                    if problems:
                        break
            finally:
                w.close()
            if problems:
                break
        return {"problems": problems, "fault_points": points}

    def oracle(self, case, obs):
        return [] if obs is None else obs["problems"]

    def term(self, case, obs):
        return None if obs is None else "true"

    def nontrivial(self, case, obs):
        return obs is not None and obs["fault_points"] >= 3

    def stats(self, case, obs, acc):
        if obs is not None:
            acc["fault_points"] = acc.get("fault_points", 0) + obs["fault_points"]
            acc["caching_on"] = acc.get("caching_on", 0) + int(case["caching"])

    def shrink_candidates(self, case):
        return []


# ---- tie to the model: neighbors() with a raising filter, threaded through the memo -------------
def filtf_py(w, fid):
    if fid is None:
        return None
    if fid < 10:
        return Q.std_filt(w, fid)

    def make():
        def f(e, v2):
            l = w.id_of(e)
            if l == fid - 10:
                raise Boom()
            return (l + fid) % 2 == 0
        return f
    return Q._memo(w, "filtf", fid, make)


class NbFault(Leg):
    name = "nbfault"
    imports = "From EG Require Import Base State Nbrs Struct StructCheck Cache Faults FaultsCheck."
    checkfn = "fcheck"
    case_type = "state * bool * list (fq * fa)"
    rule = ("state import: random multigraphs; a sequence of 6-12 neighbors() calls on few vertices and keys, some with a filter that "
            "raises on one chosen link, caching off / on (so a faulted call must not leave a memo entry and a later hit must equal "
            "the recomputation); the answers (list / exception / the callback's own exception) are compared with the model "
            "neighbors_cf threaded through its memo; non-trivial = some call raised the callback's exception")
    quick_n = 200
    thorough_n = 5000
    shard = 40

    def generate(self, rng, n):
        for _ in range(n):
            ops, vids, lids, _ = Q.gen_graph_ops(rng, nv=rng.randint(1, 4), nl=rng.randint(1, 7), universes=False)
            qs = []
            for _ in range(rng.randint(6, 12)):
                f = rng.choice([None, 2, 10 + rng.choice(lids), 10 + rng.choice(lids)]) if lids else None
                qs.append([rng.choice(vids), rng.choice(["Fwd", "AnyDir"]), rng.choice(["UNb", "UErr"]), f])
            yield {"ops": ops, "queries": qs, "caching": rng.random() < 0.7}

    def observe(self, case):
        w = H.World()
        try:
            for op in case["ops"]:
                w.do(op)
            snap = w.snapshot()
            Vertex.NEIGHBOR_CACHING = case["caching"]
            answers = []
            for (v, d, u, f) in case["queries"]:
                vert = w.get(v, H.VERTEX_KINDS)
                try:
                    r = helpers.neighbors(vert, direction_sensitive=Q.DIRC[d], unknown_handling=Q.UNKC[u], filterfunc=filtf_py(w, f))
                    answers.append(["list", [w.id_of(x) for x in r]])
                    Q._scribble(r)           # the answer is the caller's own list
                except Boom:
                    answers.append(["boom"])
                except Exception as e:  # noqa: BLE001
                    answers.append(["raise", type(e).__name__])
            return {"snap": snap, "answers": answers, "unchanged": w.snapshot() == snap}
        except H.CaseInvalid:
            return None
        finally:
            w.close()

    def oracle(self, case, obs):
        if obs is None:
            return []
        return [] if obs["unchanged"] else ["a neighbors() call changed the graph"]

    def term(self, case, obs):
        if obs is None:
            return None
        qs = []
        for (v, d, u, f), a in zip(case["queries"], obs["answers"]):
            ans = f"FAList {H.c_oids(a[1])}" if a[0] == "list" else "FABoom" if a[0] == "boom" else f"FAErr {a[1] if a[1] in H.EXN else 'IllTyped'}"
            qs.append(f"(FQ {v} {d} {u} {C.copt(f)}, {ans})")
        return f"({H.c_state(obs['snap'])}, {C.cbool(case['caching'])}, {C.clist(qs, str)})"

    def model_value(self, case, obs):
        return "fanswers " + self.term(case, obs)

    def nontrivial(self, case, obs):
        return obs is not None and any(a == ["boom"] for a in obs["answers"])

def filt_switch(w, fid):
    """one callback OBJECT per (world, fid) whose fault can be switched on and off (`armed`): ids below 10 are the total
    std_filt tables; 10 + L raises Boom on link L while armed and otherwise accepts links with (link id + fid) even
    (Coq twins: FaultsCheck.std_filtf when armed, TravFaults.std_calm when not)"""
    if fid is None:
        return None

    def make():
        base = Q.std_filt(w, fid) if fid < 10 else None

        def f(e, v2):
            if base is not None:
                return base(e, v2)
            l = w.id_of(e)
            if f.armed and l == fid - 10:
                raise Boom()
            return (l + fid) % 2 == 0
        f.armed = False
        return f
    return Q._memo(w, "filtsw", fid, make)


class TravFault(Leg):
    name = "travfault"
    imports = "From EG Require Import Base State Nbrs Struct StructCheck Cache Faults FaultsCheck Trav TravFaults."
    checkfn = "tfcheck"
    case_type = "state * bool * list (tfq * tfa)"
    rule = ("state import: random multigraphs with a universe; a sequence of 5-10 calls - bft / dft_recursive / dft_iterative with an "
            "ff_via callback and neighbors() with the same callback OBJECT - where the callback is armed (raises on one chosen link) "
            "or behaving from call to call, caching off / on: a traversal aborted by the callback must leave the graph unchanged and "
            "only truthful memo entries, so that the retried call answers as on a cold memo; every outcome (list / exception / the "
            "callback's own exception) is compared with the model TravFaults.tf_run threaded through its memo; non-trivial = some "
            "traversal ended with the callback's exception after another vertex's neighbours had been computed")
    quick_n = 200
    thorough_n = 5000
    shard = 40
    KIND = {"KBft": breadthfirst.bft, "KDfr": depthfirst.dft_recursive, "KDfi": depthfirst.dft_iterative}

    def generate(self, rng, n):
        for _ in range(n):
            ops, vids, lids, uid = Q.gen_graph_ops(rng, nv=rng.randint(2, 5), nl=rng.randint(2, 8), odd=rng.choice([0.0, 0.0, 0.2]))
            if not lids:
                continue
            fids = [10 + rng.choice(lids) for _ in range(2)] + [rng.choice([None, 2, 3])]
            d, u = rng.choice(["Fwd", "AnyDir", "AnyDir"]), rng.choice(["UNb", "UNb", "UErr", "UNon"])
            qs = []
            for _ in range(rng.randint(5, 10)):
                f = rng.choice(fids)
                armed = rng.random() < 0.5
                if rng.random() < 0.65:
                    qs.append(["TR", armed, rng.choice(list(self.KIND)), rng.choice([uid, None]) if uid is not None else None,
                               rng.choice(vids), d, u, f])
                else:
                    qs.append(["NB", armed, rng.choice(vids), d, u, f])
            yield {"ops": ops, "queries": qs, "caching": rng.random() < 0.75}

    def observe(self, case):
        w = H.World()
        try:
            for op in case["ops"]:
                w.do(op)
            snap = w.snapshot()
            Vertex.NEIGHBOR_CACHING = case["caching"]
            answers, changed, stale = [], None, None
            for qi, q in enumerate(case["queries"]):
                armed, f = q[1], q[-1]
                cb = filt_switch(w, f)
                if cb is not None:
                    cb.armed = armed
                def call():
                    try:
                        if q[0] == "NB":
                            r = helpers.neighbors(w.get(q[2], H.VERTEX_KINDS), direction_sensitive=Q.DIRC[q[3]],
                                                  unknown_handling=Q.UNKC[q[4]], filterfunc=cb)
                        else:
                            uni = w.get(q[3], ["KUniverse"]) if q[3] is not None else None
                            r = self.KIND[q[2]](uni, w.get(q[4], H.VERTEX_KINDS), direction_sensitive=Q.DIRC[q[5]],
                                                unknown_handling=Q.UNKC[q[6]], ff_via=cb)
                        ans = ["list", [w.id_of(x) for x in r]]
                        Q._scribble(r)       # the answer is the caller's own list
                        return ans
                    except Boom:
                        return ["boom"]
                    except Exception as e:  # noqa: BLE001
                        return ["raise", type(e).__name__]
                answers.append(call())
                if not armed and stale is None:
                    # "repeating the call with a well-behaved callback gives the normal answer": the same call with the memo
                    # out of the way (flag off: nothing read, nothing written)
                    Vertex.NEIGHBOR_CACHING = False
                    try:
                        truth = call()
                    finally:
                        Vertex.NEIGHBOR_CACHING = case["caching"]
                    if truth != answers[-1]:
                        stale = [qi, truth]
                if changed is None and w.snapshot() != snap:
                    changed = qi
            return {"snap": snap, "answers": answers, "changed": changed, "stale": stale}
        except H.CaseInvalid:
            return None
        finally:
            Vertex.NEIGHBOR_CACHING = False
            w.close()

    def oracle(self, case, obs):
        if obs is None:
            return []
        m = []
        if obs["changed"] is not None:
            q = case["queries"][obs["changed"]]
            m.append(f"call {obs['changed']} ({q}) ended with {obs['answers'][obs['changed']]} and changed the graph")
        if obs.get("stale"):
            qi, truth = obs["stale"]
            m.append(f"call {qi} ({case['queries'][qi]}, callback behaving) answered {obs['answers'][qi]} after the earlier calls "
                     f"{case['queries'][:qi]}; the normal answer (memo out of the way) is {truth}")
        return m

    def term(self, case, obs):
        if obs is None:
            return None
        qs = []
        for q, a in zip(case["queries"], obs["answers"]):
            ans = (f"TFList {H.c_oids(a[1])}" if a[0] == "list" else "TFRaise UserError" if a[0] == "boom"
                   else f"TFRaise {a[1] if a[1] in H.EXN else 'IllTyped'}")
            if q[0] == "NB":
                t = f"TFNb {C.cbool(q[1])} {q[2]} {q[3]} {q[4]} {C.copt(q[5])}"
            else:
                t = f"TFTrav {C.cbool(q[1])} {q[2]} {C.copt(q[3])} {q[4]} {q[5]} {q[6]} {C.copt(q[7])} 0"
            qs.append(f"({t}, {ans})")
        return f"({H.c_state(obs['snap'])}, {C.cbool(case['caching'])}, {C.clist(qs, str)})"

    def model_value(self, case, obs):
        return "tfanswers " + self.term(case, obs)

    def shrink_candidates(self, case):
        qs = case["queries"]
        for i in range(len(qs)):
            if len(qs) > 1:
                yield {**case, "queries": qs[:i] + qs[i + 1:]}

    def nontrivial(self, case, obs):
        return obs is not None and any(a == ["boom"] and q[0] == "TR" for q, a in zip(case["queries"], obs["answers"]))


class C13(Prop):
    pid = "C13"
    legs = [FaultEnumeration(), NbFault(), TravFault()]
    assumptions = ["a callback's fault is its own exception propagating; callbacks do not mutate the graph themselves (re-entrancy "
                   "is outside the statement)", "the private neighbour memo is not an observable attribute",
                   "in the Coq model only neighbors() has a write effect (the memo); the renderers, traversals and searches are pure "
                   "functions of the heap, so for them the theorem is by typing and the fault enumeration on the implementation decides"]
