"""C10 — nrpickler round-trips any graph to an isomorphic, usable, detached copy."""
import io
import re
import json
import os
import pickle
import pickletools
import subprocess
import sys
import tempfile

import dill

from ..engine import Leg, Prop
from .. import common as C
from .. import structh as H
from .. import queryh as Q
from .. import renderh as R
from .. import picklesub as PS
from edgegraph.structure import Vertex
from edgegraph.traversal import helpers
from edgegraph.output import nrpickler

import warnings
# dill announces its by-reference fallback for classes that refer to their own instances (cases with a class attribute into the
# graph, finding D23) on stderr: noise for a check whose output is read line by line
warnings.filterwarnings("ignore", category=getattr(dill, "PicklingWarning", Warning), module="dill")


class _Timeout(BaseException):
    pass


class _deadline:
    """with _deadline(seconds): ...  - raises _Timeout inside the block when the time is up (main thread, SIGALRM)"""

    def __init__(self, seconds):
        self.seconds = seconds

    def _fire(self, *a):
        raise _Timeout()

    def __enter__(self):
        import signal
        self.old = signal.signal(signal.SIGALRM, self._fire)
        signal.alarm(self.seconds)

    def __exit__(self, *exc):
        import signal
        signal.alarm(0)
        signal.signal(signal.SIGALRM, self.old)
        return False


def _scratch_function():
    """a function as an interactive session / exec / runpy / an importlib-mode test module defines it: its module cannot be
    imported by name, so dill pickles it by value together with the globals it uses"""
    ns = {"__name__": "scratchpad_of_the_harness", "K": 41}
    exec("def calc():\n    return K + 1\n", ns)
    return ns["calc"]


def dumps_kw(case):
    kw = dict(case.get("dill") or {})
    if case.get("proto") is not None:
        kw["protocol"] = case["proto"]
    return kw


def build_graph(case):
    """returns (world, root universe); world left OPEN (caller closes)"""
    w = H.World()
    scratch = _scratch_function() if case.get("scratchfn") else None
    for op in case["ops"]:
        w.do(op)
    gpos, gtab = [0.5, 2, None, True], {1: 2.5, 2: [7, 8]}      # plain data shared BETWEEN vertices
    for i, o in enumerate(w.objs):
        if H.kind_of(o) in H.VERTEX_KINDS:
            if case.get("shared"):
                # containers of plain numbers that are SHARED: one list under two names of one vertex, twice inside one
                # record, between connected vertices; a row repeated inside a matrix; the copy must hold the same contents
                # and the same sharing
                pos = [1.5, 2.5, float(i)]
                if i % 2 == 0:
                    o.position = pos
                    o.anchor = pos
                if i % 3 != 0:
                    row = [3, 1, i]
                    o.record = ("weights", row, row, {"again": row})
                o.gpos = gpos
                if i % 2:
                    o.gtab = gtab
                    o.grid = [[0] * 3] * 3
            if i % 2:
                o.tag = i
            if i % 3 == 0:
                o.payload = ["x", i, ("t", i)]
            if case.get("big") and i % 4 == 0:
                o.blob = "b" * 70000
            if case.get("closures") and i % 3 == 1:
                # a callback stored on the vertex that closes over ANOTHER graph object (dill pickles it by value)
                o.cb = (lambda t: (lambda: t.uid))(w.objs[(i * 7 + 1) % len(w.objs)])
            if scratch is not None and i % 3 != 1:
                o.calc = scratch             # one function object shared by several vertices; it reads a global of its own module
    if case.get("lawless"):
        for i, o in enumerate(w.objs):
            if H.kind_of(o) == "KUniverse" and (i % 3 != 2):
                o.laws = None
    H.install_main_classes()
    H.MainV.ROOT = next((o for o in w.objs if type(o) is H.MainV), None) if case.get("main_root") else None
    root = w.objs[case["u"]]
    # the dump may start anywhere in the graph: the universe, one of its vertices (the universe is then reached through the
    # vertex), or a link
    if case.get("root") == "vertex" and root.vertices:
        root = root.vertices[len(root.vertices) // 2]
    elif case.get("root") == "link":
        ls = [l for v in root.vertices for l in v.links]
        if ls:
            root = ls[len(ls) // 2]
    elif case.get("root") == "closure":
        # a new vertex whose only connection to the graph is the closure of a callback stored on it
        holder = Vertex()
        holder.cb = (lambda t: (lambda: t))(root)
        root = holder
    if case.get("warm"):
        Vertex.NEIGHBOR_CACHING = True
        unpicklable = PS.LockedFilter()
        for o in w.objs:
            if H.kind_of(o) in H.VERTEX_KINDS:
                try:
                    helpers.neighbors(o, direction_sensitive=helpers.DIR_SENS_ANY, unknown_handling=helpers.LNK_UNKNOWN_NEIGHBOR)
                    if case.get("warm") == "unpicklable":
                        # a query with a filter callable that cannot be pickled: it ends up as a key of the vertex's private memo
                        helpers.neighbors(o, direction_sensitive=helpers.DIR_SENS_FORWARD, unknown_handling=helpers.LNK_UNKNOWN_NEIGHBOR,
                                          filterfunc=unpicklable)
                    if case.get("warm") == "filtered":
                        # memo entries keyed by a callable (picklable by reference) on every vertex
                        helpers.neighbors(o, direction_sensitive=helpers.DIR_SENS_FORWARD, unknown_handling=helpers.LNK_UNKNOWN_NEIGHBOR,
                                          filterfunc=PS.pfilter)
                except Exception:  # noqa: BLE001
                    pass
    Vertex.NEIGHBOR_CACHING = bool(case.get("cache_dump"))
    return w, root


def fresh_load(data, loader, caching):
    with tempfile.NamedTemporaryFile(dir=str(C.WORK), suffix=".pkl", delete=False) as f:
        f.write(data)
        path = f.name
    try:
        env = dict(os.environ, PYTHONPATH=f"{C.VERIF}:{C.REPO}", PYTHONHASHSEED="0")
        for attempt in range(2):
            p = subprocess.run([sys.executable, "-m", "lib.picklesub", path, loader, "1" if caching else "0"], cwd=str(C.VERIF), env=env,
                               stdout=subprocess.PIPE, stderr=subprocess.PIPE, text=True, timeout=120)
            if p.returncode == 0:
                return json.loads(p.stdout)
            err = p.stderr.strip().splitlines()[-1] if p.stderr.strip() else f"exit {p.returncode}"
        return {"error": err}
    finally:
        os.unlink(path)


class RoundTrip(Leg):
    name = "roundtrip"
    time_limit = 600           # up to four fresh interpreters per case (each limited to 120 s) and 30 s for the dump itself
    imports = "From EG Require Import Base."
    checkfn = "(fun b : bool => b)"
    case_type = "bool"
    rule = ("random graphs (cycles, self-loops, parallel edges, a universe inside a surrounding graph, subclasses, runtime attributes incl. "
            "nested containers, (1 in 5) 70 kB strings, closures over graph objects and a function of a module that cannot be imported (pickled by value with its "
            "globals), warm neighbour caches) dumped with nrpickler.dumps under a random protocol "
            "0-5 and random dill settings (recurse / byref), loaded with pickle and dill, in-process and in a FRESH interpreter, caching off / on on either side; the copy's "
            "canonical snapshot (qualified class names, uids, attributes, ordered links / ends / members, sharing) must equal the "
            "original's, every structural query and traversal must answer alike, and no object may be shared with the original")
    quick_n = 30
    thorough_n = 500
    extended_factor = 2
    escalation_cap = 2

    def generate(self, rng, n):
        for i in range(n):
            ops, u, vids = R.gen_render_graph(rng)
            if rng.random() < 0.4:      # several / nested / mutually nested universes (a universe is a vertex too)
                u2 = u + 2
                ops = ops + [["NU", [v for v in vids if rng.random() < 0.5], None], ["UAV", u, u2]]
                if rng.random() < 0.4:
                    ops.append(["UAV", u2, u])
                if rng.random() < 0.3:
                    ops.append(["UAV", u, u])
                if vids and rng.random() < 0.5:
                    ops.append(["NE", "KDir", rng.choice(vids), u2])
            main_root = False
            if rng.random() < 0.25:     # vertices of a class living in __main__ (by value), sometimes with a class attribute into the graph
                ops = [([op[0], 5] + op[2:]) if op[0] == "NV" and len(op) == 4 and rng.random() < 0.6 else op for op in ops]
                main_root = rng.random() < 0.5
            if rng.random() < 0.3:      # vertices of a class that dill must pickle by value (defined in a function, uses super())
                ops = [([op[0], rng.choice([4, 4, 7])] + op[2:]) if op[0] == "NV" and len(op) == 4 and rng.random() < 0.5 else op for op in ops]
            if rng.random() < 0.3:      # vertices with value semantics (__eq__ / __hash__ on the uid)
                ops = [([op[0], 3] + op[2:]) if op[0] == "NV" and len(op) == 4 and rng.random() < 0.7 else op for op in ops]
            yield {"ops": ops, "u": u, "root": rng.choice(["universe", "universe", "vertex", "link", "closure"]), "main_root": main_root,
                   "closures": rng.random() < 0.3, "scratchfn": rng.random() < 0.3,
                   "shared": rng.random() < 0.4,         # lists / dicts of plain numbers shared between attributes and between vertices
                   "lawless": rng.random() < 0.3,        # some universes have had their law set taken away (`u.laws = None`)
                   # dill's own settings, which nrpickler.dumps hands through
                   # (byref=True asks for classes by reference: not for graphs whose classes cannot be imported by name)
                   "dill": rng.choice([None, None, None, {"recurse": True}, {"recurse": True}, {"recurse": False, "byref": False}]
                                      + ([] if any(op[0] == "NV" and op[1] in (4, 5, 7) for op in ops) else [{"byref": True}])),
                   "proto": rng.choice([0, 1, 2, 3, 4, 5, None]), "warm": rng.choice([False, True, "filtered", "filtered", "unpicklable"]),
                   "cache_dump": rng.random() < 0.5, "cache_load": rng.random() < 0.6, "big": rng.random() < 0.2,
                   "fresh": i % 4 == 0}

    def observe(self, case):
        C.WORK.mkdir(exist_ok=True)
        problems = []
        w, root = build_graph(case)
        try:
            try:
                with _deadline(30):
                    data = nrpickler.dumps(root, **dumps_kw(case))
            except _Timeout:
                return {"problems": ["nrpickler.dumps did not return within 30 s on a graph of "
                                     f"{len(w.objs)} objects (the recursive picklers take milliseconds)"]}
            except Exception as e:  # noqa: BLE001
                return {"problems": [f"nrpickler.dumps raised {type(e).__name__}: {e}"]}
            Vertex.NEIGHBOR_CACHING = False
            orig_snap = PS.snapshot(root)
            orig_q = PS.queries(root)
            orig_ids = {id(o) for o in w.objs}
            for loader in ("pickle", "dill"):
                Vertex.NEIGHBOR_CACHING = case["cache_load"]
                try:
                    copy = pickle.loads(data) if loader == "pickle" else dill.loads(data)
                except Exception as e:  # noqa: BLE001
                    problems.append(f"{loader}.loads raised {type(e).__name__}: {e}")
                    continue
                try:
                    snap = PS.snapshot(copy)
                    q = PS.queries(copy)
                except Exception as e:  # noqa: BLE001
                    problems.append(f"copy loaded with {loader} is unusable in-process (caching={case['cache_load']}): {type(e).__name__}: {e}")
                    continue
                finally:
                    Vertex.NEIGHBOR_CACHING = False
                if snap != orig_snap:
                    problems.append(f"copy loaded with {loader} is not isomorphic: {_first_diff(orig_snap, snap)}")
                if q != orig_q:
                    problems.append(f"copy loaded with {loader} answers queries differently: {_first_diff(orig_q, q)}")
                seen, order = PS.canon_walk(copy)
                if any(id(o) in orig_ids for o in order):
                    problems.append(f"copy loaded with {loader} shares an object with the original")
                try:
                    stale = PS.mutate_and_compare(copy, twin=pickle.loads(data) if loader == "pickle" else dill.loads(data))      # the copy is a live graph of its own (edited last: it is discarded)
                except Exception as e:  # noqa: BLE001
                    stale = f"editing the loaded copy raised {type(e).__name__}: {e}"
                if stale:
                    problems.append(f"copy loaded with {loader}: {stale}")
                if PS.snapshot(root) != orig_snap:
                    problems.append(f"editing the copy loaded with {loader} changed the original")
            # (vertices of a class living in THIS process's __main__ are loaded in-process only: dill writes parts of such a
            # class by reference, which another interpreter's __main__ cannot resolve - with nrpickler and with plain dill alike)
            if case["fresh"] and not any(type(o) is H.MainV for o in w.objs):
                for loader in ("pickle", "dill"):
                    r = fresh_load(data, loader, case["cache_load"])
                    if "error" in r:
                        problems.append(f"fresh interpreter ({loader}, caching={case['cache_load']}): {r['error']}")
                        continue
                    if r["snapshot"] != json.loads(json.dumps(orig_snap)):
                        problems.append(f"fresh interpreter ({loader}): copy not isomorphic: {_first_diff(json.loads(json.dumps(orig_snap)), r['snapshot'])}")
                    if r["queries"] != json.loads(json.dumps(orig_q)):
                        problems.append(f"fresh interpreter ({loader}, caching={case['cache_load']}): queries differ: {_first_diff(json.loads(json.dumps(orig_q)), r['queries'])}")
                    if r.get("stale"):
                        problems.append(f"fresh interpreter ({loader}): {r['stale']}")
        finally:
            H.MainV.ROOT = None
            w.close()
        return {"problems": problems}

    def oracle(self, case, obs):
        return obs["problems"][:3]

    def term(self, case, obs):
        return "true"

    def nontrivial(self, case, obs):
        return True

    def stats(self, case, obs, acc):
        acc["fresh_interpreter_cases"] = acc.get("fresh_interpreter_cases", 0) + int(case["fresh"])
        acc.setdefault("protocols", {})
        acc["protocols"][str(case["proto"])] = acc["protocols"].get(str(case["proto"]), 0) + 1


def _first_diff(a, b, path=""):
    if isinstance(a, dict) and isinstance(b, dict):
        for k in a:
            if a[k] != b.get(k):
                return _first_diff(a[k], b.get(k), path + "/" + str(k))
        return f"{path}: extra keys {set(b) - set(a)}"
    if isinstance(a, list) and isinstance(b, list) and len(a) == len(b):
        for i, (x, y) in enumerate(zip(a, b)):
            if x != y:
                return _first_diff(x, y, path + f"[{i}]")
    return f"{path}: {str(a)[:120]} -> {str(b)[:120]}"


def opcodes(data):
    return [(op.name, arg if not isinstance(arg, (bytes, str)) or len(arg) < 200 else len(arg)) for op, arg, pos in pickletools.genops(data)
            if op.name != "FRAME"]


class StreamEquality(Leg):
    name = "stream"
    imports = "From EG Require Import Base."
    checkfn = "(fun b : bool => b)"
    case_type = "bool"
    rule = ("opcode stream of nrpickler.dumps compared with recursive dill.dumps (recursion limit raised) modulo FRAME, protocols 0-5, "
            "on the same random graphs (incl. 70 kB string attributes that take pickle's large-object write path, a function pickled by value "
            "with its globals, dill's recurse setting)")
    quick_n = 36
    thorough_n = 1200
    extended_factor = 3
    escalation_cap = 2

    def generate(self, rng, n):
        for _ in range(n):
            ops, u, vids = R.gen_render_graph(rng)
            yield {"ops": ops, "u": u, "proto": rng.randrange(6), "big": rng.random() < 0.25, "warm": rng.random() < 0.3, "cache_dump": False,
                   # (no closures over graph objects here: dill fills such cells afterwards when the object is on its recursion
                   # stack and directly when it is not - the two streams then differ legitimately; the round trip leg has them)
                   "scratchfn": rng.random() < 0.3, "dill": rng.choice([None, None, {"recurse": True}])}

    def observe(self, case):
        w, root = build_graph(case)
        try:
            a = nrpickler.dumps(root, **dumps_kw(case))
            old = sys.getrecursionlimit()
            sys.setrecursionlimit(50000)
            try:
                b = dill.dumps(root, **dumps_kw(case))
            finally:
                sys.setrecursionlimit(old)
            oa, ob = opcodes(a), opcodes(b)
            if oa == ob:
                return {"equal": True}
            i = next((i for i, (x, y) in enumerate(zip(oa, ob)) if x != y), min(len(oa), len(ob)))
            return {"equal": False, "at": i, "nr": str(oa[i:i + 3]), "dill": str(ob[i:i + 3]), "lens": [len(oa), len(ob)]}
        except Exception as e:  # noqa: BLE001
            return {"equal": False, "error": f"{type(e).__name__}: {e}"}
        finally:
            w.close()

    def oracle(self, case, obs):
        return [] if obs["equal"] else [f"protocol {case['proto']}: nrpickler's stream differs from recursive dill's: {obs}"]

    def term(self, case, obs):
        return "true"


class Depth(Leg):
    name = "depth"
    time_limit = 1500          # chains of up to 20000 vertices pickled under sys.setprofile: minutes on a loaded machine (the
                               # subprocess has its own limit of 600 s, reported as an error of the case)
    imports = "From EG Require Import Base."
    checkfn = "(fun b : bool => b)"
    case_type = "bool"
    exhaustive = False
    rule = ("chains of 50 .. 6000 (thorough: 20000) vertices pickled in a subprocess whose recursion limit is 400: nrpickler.dumps must succeed and "
            "round-trip, and the maximal Python stack depth reached inside dumps must not grow with the chain length")
    quick_n = 3
    thorough_n = 6
    extended_factor = 1

    def generate(self, rng, n):
        for length in [50, 1000, 6000, 500, 20000, 10000][:n]:
            yield {"length": length}
        # a callback stored on one vertex that closes over the far end of the chain
        yield {"length": 3000, "closure": True}
        # the same with helper closures that share an inner function (a diamond, not a cycle)
        yield {"length": 3000, "closure": "diamond"}
        # a script-level vertex class (pickled by value) that keeps a class attribute pointing into the chain
        yield {"length": 600, "main_root": True}

    def observe(self, case):
        script = r'''
import sys, pickle
sys.path.insert(0, %r)
from edgegraph.structure import Vertex, Universe
from edgegraph.builder import explicit
from edgegraph.output import nrpickler
n = %d
class Item(Vertex):
    ROOT = None
    def __init__(self, **k):
        super().__init__(**k)
VCLS = Item if %r else Vertex
vs = [VCLS(attributes={"i": i}) for i in range(n)]
Item.ROOT = vs[0] if VCLS is Item else None
CLOSURE = %r
if CLOSURE:
    # the ONLY way from the pickled root into the chain is the closure of a callback stored on the root
    root = Vertex()
    if CLOSURE == "diamond":
        def make(t):
            log = lambda: None                      # noqa: E731
            describe = lambda: log                  # noqa: E731
            return lambda: (log, describe, t)[2]    # log is reachable along two closure paths
        root.cb = make(vs[0])
    else:
        root.cb = (lambda t: (lambda: t))(vs[0])
else:
    root = None
for a, b in zip(vs, vs[1:]):
    explicit.link_directed(a, b)
u = Universe(vertices=vs)
depth = {"max": 0}
import threading
def prof(frame, event, arg):
    if event == "call":
        d = 0
        f = frame
        while f is not None:
            d += 1
            f = f.f_back
        if d > depth["max"]:
            depth["max"] = d
sys.setrecursionlimit(400)
sys.setprofile(prof)
try:
    data = nrpickler.dumps(root if CLOSURE else u)
finally:
    sys.setprofile(None)
sys.setrecursionlimit(100000)
c = pickle.loads(data)
if CLOSURE:
    c = c.cb().universes[0]
ok = len(c.vertices) == n and [v.i for v in c.vertices] == list(range(n)) and all(len(v.links) in (1, 2) for v in c.vertices)
print(depth["max"], int(ok))
''' % (str(C.REPO), case["length"], bool(case.get("main_root")), case.get("closure") or False)
        p = subprocess.run([sys.executable, "-c", script], stdout=subprocess.PIPE, stderr=subprocess.PIPE, text=True, timeout=600)
        if p.returncode != 0:
            return {"error": (p.stderr.strip().splitlines() or ["?"])[-1]}
        d, ok = p.stdout.split()
        return {"depth": int(d), "ok": ok == "1"}

    def oracle(self, case, obs):
        if "error" in obs:
            what = "vertices of a __main__ class whose class attribute points at the first one" if case.get("main_root") else "vertices"
            return [f"chain of {case['length']} {what} under recursion limit 400: {obs['error']}"]
        m = []
        if not obs["ok"]:
            m.append(f"chain of {case['length']} vertices did not round-trip")
        if obs["depth"] > 120:
            m.append(f"stack depth {obs['depth']} inside dumps for a chain of {case['length']} (must stay constant)")
        return m

    def term(self, case, obs):
        return "true"

    def stats(self, case, obs, acc):
        acc.setdefault("depths", {})
        acc["depths"][str(case["length"])] = obs.get("depth")


# ---- tie to the model: the scheduler re-orders nothing ------------------------------------------
class _Tracer:
    """interns write chunks; numbers objects by first appearance"""

    def __init__(self):
        self.chunks, self.objs, self.keep = {}, {}, []

    def chunk(self, b):
        b = bytes(b)
        return 2 * self.chunks.setdefault(b, len(self.chunks))

    def obj(self, o):
        if id(o) not in self.objs:
            self.objs[id(o)] = len(self.objs)
            self.keep.append(o)
        return self.objs[id(o)]


def trace_recursive(root, proto):
    """per-invocation action lists of dill's own (recursive) save(): ((memo length at entry, object), actions)"""
    T = _Tracer()
    buf = io.BytesIO()
    p = dill.Pickler(buf, protocol=proto)
    orig_write = p.write
    stack = [[]]
    table = []
    state = {"memo": False}

    def twrite(data):
        if not state["memo"]:
            stack[-1].append(("W", T.chunk(data)))
        return orig_write(data)
    p.write = twrite
    orig_memoize = p.memoize

    def memoize(obj):
        stack[-1].append(("M", T.obj(obj)))
        state["memo"] = True
        try:
            return orig_memoize(obj)
        finally:
            state["memo"] = False
    p.memoize = memoize
    orig_save = p.save

    def save(obj, save_persistent_id=True):
        x = T.obj(obj)
        stack[-1].append(("S", x))
        entry = len(p.memo)
        stack.append([])
        try:
            return orig_save(obj, save_persistent_id)
        finally:
            body = stack.pop()
            table.append(((entry, x), body))
    p.save = save
    old = sys.getrecursionlimit()
    sys.setrecursionlimit(50000)
    try:
        # what dump() does, minus framing
        if p.proto >= 2:
            twrite(pickle.PROTO + bytes([p.proto]))
        p.save(root)
    finally:
        sys.setrecursionlimit(old)
    top = stack[0]
    return T, table, top


_PUT_ASCII = re.compile(rb"^p[0-9]+\n$")


def _is_put(b):
    """one complete PUT-family opcode (what memoize() writes): PUT / BINPUT / LONG_BINPUT / MEMOIZE"""
    return bool(_PUT_ASCII.match(b)) or (len(b) == 2 and b[:1] == b"q") or (len(b) == 5 and b[:1] == b"r") or b == b"\x94"


def trace_nonrecursive(root, proto, T):
    """the chunks the real _NonrecursivePickler hands to the FILE, in order (observed at the file object, the pickler's public
    boundary: nothing inside the pickler is hooked, so its internals may be renamed or re-cut freely); PUT/MEMOIZE writes are
    recognised by their bytes and appear as put(k)"""
    stream = []
    state = {"count": 0}

    class Tap(io.BytesIO):
        def write(self, b):
            b = bytes(b)
            if _is_put(b):
                stream.append(2 * state["count"] + 1)
                state["count"] += 1
            else:
                stream.append(T.chunk(b))
            return super().write(b)
    p = nrpickler._NonrecursivePickler(Tap(), protocol=proto)
    p.dump(root)
    return stream, state["count"]


class Scheduler(Leg):
    name = "sched"
    imports = "From EG Require Import Base Pickler."
    checkfn = "pcheck2"
    case_type = "list ((nat * nat) * list action) * list nat * nat * (nat * list nat)"
    rule = ("small random graphs (4 in 10 with vertices of a by-value class, whose classes and functions the repaired pickler saves "
            "atomically: their object ids are the model's `atomic` set; 3 in 10 with a function pickled by value with its globals, whose late memo fetch the "
            "pickler queues as a promise): dill's own recursive save() is traced into per-invocation action lists (write / memoize / save "
            "child, keyed by memo length at entry and object), which become the model's `expand` table; the model's queue scheduler "
            "AND its recursive saver must then both produce exactly the chunk stream (PUT/MEMOIZE positions included) and memo "
            "length observed on the real _NonrecursivePickler; protocols 0-5")
    quick_n = 30
    thorough_n = 400
    shard = 5

    def generate(self, rng, n):
        for _ in range(n):
            ops, vids, lids, _ = Q.gen_graph_ops(rng, nv=rng.randint(1, 3), nl=rng.randint(0, 3), odd=0.0, universes=False)
            members = [v for v in vids if rng.random() < 0.8] or [vids[0]]
            u = sum({"NV": 1, "NE": 1, "NL": 1, "NU": 2}.get(op[0], 0) for op in ops)
            ops.append(["NU", members, None])
            if rng.random() < 0.4:
                ops = [([op[0], 4] + op[2:]) if op[0] == "NV" and len(op) == 4 and rng.random() < 0.7 else op for op in ops]
            yield {"ops": ops, "u": u, "proto": rng.randrange(6), "warm": False, "cache_dump": False, "scratchfn": rng.random() < 0.3}

    def observe(self, case):
        w, root = build_graph(case)
        try:
            T, table, top = trace_recursive(root, case["proto"])
            stream, mlen = trace_nonrecursive(root, case["proto"], T)
            import types
            atoms = [i for i, o in enumerate(T.keep) if isinstance(o, type)]      # (the model's answer does not depend on the atomic set)
            return {"table": [[list(k), body] for k, body in table], "top": top, "stream": stream, "mlen": mlen, "atoms": atoms}
        except Exception as e:  # noqa: BLE001
            return {"error": f"{type(e).__name__}: {e}"}
        finally:
            w.close()

    def oracle(self, case, obs):
        return [f"tracing failed: {obs['error']}"] if "error" in obs else []

    def term(self, case, obs):
        if "error" in obs:
            return None
        def act(a):
            return {"W": "Write", "M": "Memo", "S": "Save"}[a[0]] + f" {a[1]}"
        # the root invocation is the single Save at top level (after the PROTO header write)
        top = obs["top"]
        hdr = [a for a in top if a[0] == "W"]
        roots = [a for a in top if a[0] == "S"]
        if len(roots) != 1:
            return None
        ROOT = 999
        table = [f"((0, {ROOT}), {C.clist([act(a) for a in top], str)})"]
        for (entry, x), body in obs["table"]:
            table.append(f"(({entry}, {x}), {C.clist([act(a) for a in body], str)})")
        # STOP is written by dump() after the loop: append it to the expected stream comparison by adding a Write at the root's end
        # (the harness's stream ends with STOP; the model's root body gets a trailing Write of that chunk)
        stop = obs["stream"][-1]
        table[0] = f"((0, {ROOT}), {C.clist([act(a) for a in top] + [f'Write {stop}'], str)})"
        return f"({C.clist(table, str)}, {H.c_ids(obs.get('atoms', []))}, {ROOT}, ({obs['mlen']}, {H.c_ids(obs['stream'])}))"

    def nontrivial(self, case, obs):
        return "error" not in obs and obs["mlen"] >= 5

    def stats(self, case, obs, acc):
        if "error" not in obs:
            acc["stream_chunks"] = acc.get("stream_chunks", 0) + len(obs["stream"])
            acc["memoised"] = acc.get("memoised", 0) + obs["mlen"]


class C10(Prop):
    pid = "C10"
    legs = [RoundTrip(), StreamEquality(), Depth(), Scheduler()]
    assumptions = ["pickle / dill decode an opcode stream as documented; dill's per-type save behaviour is a parameter of the theorem "
                   "(expand), traced from real runs for the tie",
                   "standing hypothesis of the model: one invocation of dill's save() is a function of the memo at entry and the object "
                   "only. dill violates it for classes and functions pickled by value (its _postproc bookkeeping follows the recursion "
                   "stack) - defect D22; the repaired code saves those objects atomically (recursively), modelled by `atomic`, and the "
                   "round-trip legs exercise them (function-local classes using super(), dumps under a deadline)",
                   "the theorem covers the scheduling logic only: that the bytes "
                   "decode to an isomorphic graph is decided by the round-trip legs (in-process and fresh interpreter)"]
