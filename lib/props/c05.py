"""C05 — neighbour caching is transparent: cached answers always equal recomputed ones."""
from ..engine import Leg, Prop
from .. import common as C
from .. import structh as H
from .. import queryh as Q
from edgegraph.structure import Vertex

W_CACHE = {"NV": 2, "NE": 3, "SV1": 3, "SV2": 3, "A2L": 1.5, "RFL": 1.5, "LAV": 1.5, "LUF": 1.5, "LFT": 2, "UNL": 2,
           "CACHE": 2, "NU": 0.3, "UAV": 0.3, "CLONE": 0.6}
KEYS = [("Fwd", "UNb", None), ("Bwd", "UNb", None), ("AnyDir", "UErr", None), ("Fwd", "UNon", 2), ("Fwd", "UErr", None)]
# sibling filters under ONE (direction, unknown) setting: distinct callables that share a code object (ids 0-2) or a
# method (ids 3-4) - the memo must key on the callable's identity, nothing coarser
SIBLINGS = [("Fwd", "UNon", None), ("Bwd", "UNon", None), ("Bwd", "UErr", None), ("Fwd", "UNon", 0), ("Fwd", "UNon", 1), ("AnyDir", "UNb", 3), ("AnyDir", "UNb", 4), ("AnyDir", "UNb", 2)]
KEYS = KEYS + SIBLINGS
TRAVS = ["BFT", "DFR", "DFI"]


def uncached(w, fn):
    """the same call with the flag forced off (no memo read, no memo write)"""
    flag = Vertex.NEIGHBOR_CACHING
    Vertex.NEIGHBOR_CACHING = False
    try:
        return fn()
    finally:
        Vertex.NEIGHBOR_CACHING = flag


def execute_c(ops, ephemeral=False):
    """ops: structure ops, ["QNB", v, d, u, f] queries, ["QTR", kind, start] traversals.  After every
    query the uncached answer is recorded next to the answer given."""
    w = H.World()
    w.ephemeral_filters = bool(ephemeral)      # every query hands a NEW filter callable to neighbors() and drops it afterwards
    res = []
    try:
        for op in ops:
            if op[0] == "QNB":
                q = ["NB"] + op[1:]
                w.get(op[1], H.VERTEX_KINDS)
                out = Q.run_query(w, q)
                truth = uncached(w, lambda: Q.run_query(w, q))
                res.append({"out": out, "truth": truth, "snap": w.snapshot(), "flag": Vertex.NEIGHBOR_CACHING})
            elif op[0] == "QTR":
                q = [op[1], None, op[2], "Fwd", "UNb", None, None]
                w.get(op[2], H.VERTEX_KINDS)
                out = Q.run_query(w, q)
                truth = uncached(w, lambda: Q.run_query(w, q))
                res.append({"out": out, "truth": truth, "snap": w.snapshot(), "flag": Vertex.NEIGHBOR_CACHING})
            else:
                out = w.do(op)
                res.append({"out": out, "snap": w.snapshot(), "flag": Vertex.NEIGHBOR_CACHING})
    finally:
        w.close()
    return res


def c_cop(op):
    if op[0] == "QNB":
        return f"CNb {op[1]} {op[2]} {op[3]} {C.copt(op[4])}"
    return f"CMut ({H.c_op(op)})"


def c_cop2(op):
    if op[0] == "QTR":
        return f"CTrav {'T' + op[1][0] + op[1][1:].lower()} None {op[2]} Fwd UNb None"
    return f"C1 ({c_cop(op)})"


class CacheHistory(Leg):
    name = "cachehist"
    imports = "From EG Require Import Base State Nbrs Struct StructCheck Cache CacheCheck CacheTrav."
    checkfn = "ccheck2"
    case_type = "list (cop2 * (outcome * state))"
    rule = ("lock-step histories (8-26 steps) interleaving every link mutator (from either end, the edge itself, explicit.unlink, "
            "link_from_to), toggles of Vertex.NEIGHBOR_CACHING at arbitrary points, and neighbors() queries drawn from 5 argument "
            "keys over a pool of <=5 vertices (so the same key is asked again after mutations), plus bft/dft traversals; every "
            "answer is compared with the model AND with the same call recomputed with the flag forced off; non-trivial = a query "
            "repeats a (vertex, key) asked earlier with the flag on and a mutation in between")
    quick_n = 400
    thorough_n = 10000
    shard = 40

    def generate(self, rng, n):
        for i in range(n):
            if i % 2:
                yield {"ops": self.scenario(rng), "ephemeral": rng.random() < 0.25}
                continue
            seed_ops = [["NV", False, [], []], ["NV", rng.choice([False, False, 2]), [], []], ["CACHE", True]]
            nops = rng.randint(8, 26)
            # generate mutators against live objects, interleaving queries
            w = H.World()
            ops = []
            try:
                for op in seed_ops:
                    w.do(op)
                    ops.append(op)
                tags = list(W_CACHE)
                wts = [W_CACHE[t] for t in tags]
                while len(ops) < nops:
                    ks = w.kinds()
                    vs = [i for i, k in enumerate(ks) if k in H.VERTEX_KINDS]
                    if rng.random() < 0.45:
                        if rng.random() < 0.85:
                            k = rng.choice(KEYS[:3] if rng.random() < 0.6 else KEYS)
                            op = ["QNB", rng.choice(vs), k[0], k[1], k[2]]
                        else:
                            op = ["QTR", rng.choice(TRAVS), rng.choice(vs)]
                        ops.append(op)
                        if op[0] == "QNB":
                            Q.run_query(w, ["NB"] + op[1:])
                        continue
                    sub = H.gen_history.__wrapped__(rng, W_CACHE, 1, w) if hasattr(H.gen_history, "__wrapped__") else None
                    op = gen_one(rng, w, tags, wts)
                    if op is None:
                        continue
                    w.do(op)
                    ops.append(op)
            finally:
                w.close()
            yield {"ops": ops, "ephemeral": rng.random() < 0.25}

    def scenario(self, rng):
        """warm the memo of EVERY vertex, optionally switch the flag off, mutate once or twice through any public
        mutator, switch the flag on, ask every vertex again: each invalidation obligation is exercised directly"""
        w = H.World()
        ops = []
        try:
            nv = rng.randint(2, 4)
            for _ in range(nv):
                op = ["NV", rng.choice([False, False, False, 2]), [], []]     # 2 = a vertex whose truth value is False
                w.do(op)
                ops.append(op)
            halves = []
            for _ in range(rng.randint(1, 4)):
                op = ["NE", rng.choice(H.LINK_KINDS), rng.randrange(nv), rng.randrange(nv)]
                if rng.random() < 0.2:
                    op[rng.choice([2, 3])] = None            # an end left unset ...
                    halves.append(len(w.objs))
                w.do(op)
                ops.append(op)
                if halves and halves[-1] == len(w.objs) - 1 and rng.random() < 0.6:
                    op = ["LAV", halves[-1], rng.randrange(nv)]      # ... and a further member attached to the same link
                    w.do(op)
                    ops.append(op)
            keys = rng.sample(KEYS[:4], rng.randint(1, 2)) if rng.random() < 0.6 else rng.sample([KEYS[3]] + SIBLINGS, 3)
            ops.append(["CACHE", True])
            w.do(ops[-1])
            warm = [["QNB", v, k[0], k[1], k[2]] for v in range(nv) for k in keys]
            ops += warm
            if rng.random() < 0.5:
                ops.append(["CACHE", False])
                w.do(ops[-1])
            tags = [t for t in W_CACHE if t not in ("CACHE", "NV", "NU", "UAV")]
            wts = [W_CACHE[t] for t in tags]
            k = 0
            if halves and rng.random() < 0.5:
                op = ["LUF", rng.choice(halves), None]       # the unset end is dropped from the link: the others move up
                w.do(op)
                ops.append(op)
                k = 1
            while k < rng.randint(1, 2):
                op = gen_one(rng, w, tags, wts)
                if op is None:
                    continue
                w.do(op)
                ops.append(op)
                k += 1
            ops.append(["CACHE", True])
            ops += warm
            if rng.random() < 0.3:
                ops.append(["QTR", rng.choice(TRAVS), rng.randrange(nv)])
        finally:
            w.close()
        return ops

    def observe(self, case):
        try:
            return execute_c(case["ops"], case.get("ephemeral"))
        except H.CaseInvalid:
            return None

    def oracle(self, case, obs):
        if obs is None:
            return []
        for i, (op, r) in enumerate(zip(case["ops"], obs)):
            if "truth" in r and r["out"] != r["truth"]:
                return [f"step {i} {op} (caching {'on' if r['flag'] else 'off'}) answered {r['out']}; recomputed with caching disabled: {r['truth']}"]
        return []

    def term(self, case, obs):
        if obs is None:
            return None
        items = []
        for op, r in zip(case["ops"], obs):
            if op[0] in H.INVISIBLE:
                continue                  # no step of the model (a copy of the graph goes on answering like the original)
            out = r["out"]
            co = H.c_outcome(out) if out[0] != "list" else f"Ret (VList {H.c_oids(out[1])})"
            items.append(f"({c_cop2(op)}, ({co}, {H.c_state(r['snap'])}))")
        return C.clist(items, str)

    def model_value(self, case, obs):
        return "ctranscript2 empty " + C.clist([c_cop2(o) for o in case["ops"] if o[0] not in H.INVISIBLE], str)

    def nontrivial(self, case, obs):
        if obs is None:
            return False
        seen = {}
        mutated_since = {}
        for op, r in zip(case["ops"], obs):
            if op[0] == "QNB":
                key = tuple(op[1:])
                if key in seen and mutated_since.get(key):
                    return True
                if r["flag"]:
                    seen[key] = True
                    mutated_since[key] = False
            elif op[0] not in ("QTR", "CACHE"):
                for k in mutated_since:
                    mutated_since[k] = True
        return False

    def shrink_candidates(self, case):
        ops = case["ops"]
        for i in range(len(ops) - 1, -1, -1):
            if ops[i][0] in ("QNB", "QTR", "CACHE"):
                yield {**case, "ops": ops[:i] + ops[i + 1:]}
        plain = [o for o in ops]
        for cand in H.shrink_ops([o if o[0] not in ("QNB", "QTR") else ["CACHE", None] for o in plain]):
            pass
        # drop one structural op (ids may shift: invalid candidates are rejected by CaseInvalid)
        for i in range(len(ops) - 1, -1, -1):
            if ops[i][0] not in ("QNB", "QTR", "CACHE", "NV", "NE", "LFT", "NU"):
                yield {**case, "ops": ops[:i] + ops[i + 1:]}

    def stats(self, case, obs, acc):
        if obs is None:
            return
        for op, r in zip(case["ops"], obs):
            acc.setdefault("ops", {})
            acc["ops"][op[0]] = acc["ops"].get(op[0], 0) + 1
            if op[0] == "QNB":
                acc["queries_flag_on"] = acc.get("queries_flag_on", 0) + int(r["flag"])


def gen_one(rng, w, tags, wts):
    """one well-typed structural op against the live world (same pools as structh.gen_history)"""
    t = rng.choices(tags, wts)[0]
    ks = w.kinds()
    vs = [i for i, k in enumerate(ks) if k in H.VERTEX_KINDS]
    ls = [i for i, k in enumerate(ks) if k in H.LINK_KINDS]
    us = [i for i, k in enumerate(ks) if k == "KUniverse"]
    pick = rng.choice

    def ov():
        return pick(vs) if vs and rng.random() < 0.85 else None
    if t == "NV" and len(vs) < 5:
        return ["NV", False, [], []]
    if t == "NU" and len(us) < 1:
        return ["NU", [pick(vs)] if vs else [], None]
    if t == "NE" and len(ls) < 5:
        return ["NE", pick(H.LINK_KINDS), ov(), ov()]
    if t in ("SV1", "SV2", "LAV", "LUF") and ls:
        return [t, pick(ls), ov()]
    if t in ("A2L", "RFL") and vs and ls:
        return [t, pick(vs), pick(ls)]
    if t == "LFT" and vs and len(ls) < 6:
        return ["LFT", pick(vs), pick(H.LINK_KINDS), pick(vs), rng.random() < 0.3]
    if t == "UNL" and vs:
        return ["UNL", pick(vs), pick(vs), True]
    if t == "UAV" and us and vs:
        return ["UAV", pick(us), pick(vs)]
    if t == "CACHE":
        return ["CACHE", rng.random() < 0.6]
    if t == "CLONE" and vs:
        return ["CLONE", rng.choice(["deepcopy", "dill", "nrpickle"])]
    return None


class FreshProcess(Leg):
    """the process-boundary clause: a graph un-pickled into a fresh interpreter, caching on there"""
    name = "freshproc"
    time_limit = 600           # fresh interpreters (each limited to 120 s)
    imports = "From EG Require Import Base."
    checkfn = "(fun b : bool => b)"
    case_type = "bool"
    extended_factor = 1
    rule = ("random graphs with warm caches dumped with nrpickler, loaded by pickle and dill in a FRESH interpreter with "
            "NEIGHBOR_CACHING on; neighbors() of every vertex (asked twice: miss then hit) and the three traversals must answer "
            "as on the original with caching off")
    quick_n = 4
    thorough_n = 60

    def generate(self, rng, n):
        from .. import renderh as R
        for _ in range(n):
            ops, u, vids = R.gen_render_graph(rng)
            yield {"ops": ops, "u": u, "proto": None, "warm": rng.random() < 0.7, "cache_dump": rng.random() < 0.5, "cache_load": True,
                   "big": False, "fresh": True}

    def observe(self, case):
        from . import c10
        return c10.RoundTrip().observe(case)

    def oracle(self, case, obs):
        return obs["problems"][:3]

    def term(self, case, obs):
        return "true"


class C05(Prop):
    pid = "C05"
    legs = [CacheHistory(), FreshProcess()]
    assumptions = ["filters are pure functions of (link, vertex) identity and compare by function identity as memo keys",
                   "the fresh-interpreter clause is decided on the implementation only (leg freshproc and the C10 legs): the model has "
                   "no process boundary; since fix D27 a loaded copy starts with empty memos, and the statistics table is not part of the "
                   "model state",
                   "an unhashable filter callable is never memoised by the code (fix D25) while the model memoises under its id: the "
                   "answers agree, only the (unobserved) memo differs"]
