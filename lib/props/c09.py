"""C09 — find_links returns exactly the links neighbors() would follow from a to b."""
import itertools

from ..engine import Prop
from .. import common as C
from .. import structh as H
from .. import queryh as Q
from .c04 import QueryLeg, expected_neighbors


def ffl_py(fid, l):
    if fid is None or fid == 0:
        return True
    if fid == 1:
        return False
    return l % 2 == 0


def expected_find_links(snap, a, b, ds, u, fid):
    """C09's statement as a table over a snapshot; None when it does not speak (a listed link with <2 ends)."""
    out = []
    for l in snap["vlinks"][a]:
        ends = snap["lverts"][l]
        if len(ends) < 2:
            return None
        if ends[0] == a:
            o = ends[1]
        elif ends[1] == a:
            o = ends[0]
        else:
            o = None
        if o != b:
            continue
        k = snap["kind"][l]
        if not ds:
            q = True
        elif k in ("KUnd", "KUndSub"):
            q = True
        elif k in ("KDir", "KDirSub"):
            q = ends[0] == a
        elif u == "UErr":
            return ["raise", "NotImplementedError"]
        else:
            q = (u == "UNb")
        if q and ffl_py(fid, l) and l not in out:
            out.append(l)
    return ["set", sorted(out)]


def judge_fl(snap, queries, answers):
    idx = {}
    for q, a in zip(queries, answers):
        idx[tuple(q)] = a
    for q, a in zip(queries, answers):
        if q[0] != "FL":
            continue
        e = expected_find_links(snap, q[1], q[2], q[3], q[4], q[5])
        if e is not None and e != a:
            return [f"find_links(a={q[1]}, b={q[2]}, direction_sensitive={q[3]}, {q[4]}, filter={q[5]}) = {a}, the statement gives {e}; "
                    f"links(a)={snap['vlinks'][q[1]]} ends={[snap['lverts'][l] for l in snap['vlinks'][q[1]]]} "
                    f"classes={[snap['kind'][l] for l in snap['vlinks'][q[1]]]}"]
        # size equation with neighbors() under the corresponding settings (same link-only filter: ids 0,1,2 agree)
        if a[0] == "set" and q[5] in (None, 0, 1, 2):
            nb = idx.get(("NB", q[1], "Fwd" if q[3] else "AnyDir", q[4], q[5]))
            if nb is not None and nb[0] == "list" and len(a[1]) != nb[1].count(q[2]):
                return [f"size equation: |find_links({q[1]},{q[2]},ds={q[3]},{q[4]},f={q[5]})| = {len(a[1])} but {q[2]} occurs "
                        f"{nb[1].count(q[2])}x in neighbors({q[1]})"]
    return []


class FlLeg(QueryLeg):
    def oracle(self, case, obs):
        if obs is None:
            return []
        m = judge_fl(obs["snap"], case["queries"], obs["answers"])
        if not obs["unchanged"]:
            m = m + ["a query changed the graph"]
        return m


class FlRows(FlLeg):
    name = "flrows"
    exhaustive = True
    rule = ("exhaustive one-link matrix for find_links: 5 link classes x {a origin, a destination, a is b (self-loop), link joins a "
            "to a third vertex} x link-id parity x direction flag x 3 unknown modes x {no filter, accept, reject, by link}, queried "
            "for (a,b) and (b,a); plus the neighbors() queries the size equation needs")
    quick_n = 40
    thorough_n = 40

    def generate(self, rng, n):
        for k, pos, par in itertools.product(H.LINK_KINDS, ("origin", "dest", "self", "elsewhere"), (0, 1)):
            ops = [["NL", None, None]] * par + [["NV", False, [], []], ["NV", False, [], []], ["NV", False, [], []]]
            a, b, c = par, par + 1, par + 2
            if pos == "origin":
                ops.append(["NE", k, a, b])
            elif pos == "dest":
                ops.append(["NE", k, b, a])
            elif pos == "self":
                ops.append(["NE", k, a, a])
            else:
                ops.append(["NE", k, a, c])
            pairs = [(a, a)] if pos == "self" else [(a, b), (b, a)]
            queries = []
            for (x, y) in pairs:
                for ds in (True, False):
                    for u in Q.UNKS:
                        for f in (None, 0, 1, 2):
                            queries.append(["FL", x, y, ds, u, f])
                            queries.append(["NB", x, "Fwd" if ds else "AnyDir", u, f])
            yield {"ops": ops, "queries": queries}

    def nontrivial(self, case, obs):
        return True


class FlMulti(FlLeg):
    name = "flmulti"
    rule = ("random mixed multigraphs (as C04), random ordered pairs incl. a is b, all settings sampled; set equality with the "
            "model and with the statement's table; size equation against neighbors(); non-trivial = some answer has >= 2 links")
    quick_n = 250
    thorough_n = 6000

    def generate(self, rng, n):
        for _ in range(n):
            ops, vids, lids, uid = Q.gen_graph_ops(rng, nv=rng.randint(1, 4), nl=rng.randint(1, 8), universes=False)
            queries = []
            for _ in range(4):
                a, b = rng.choice(vids), rng.choice(vids)
                ds, u, f = rng.random() < 0.5, rng.choice(Q.UNKS), rng.choice([None, 0, 1, 2])
                queries.append(["FL", a, b, ds, u, f])
                queries.append(["NB", a, "Fwd" if ds else "AnyDir", u, f])
            case = {"ops": ops, "queries": queries, "caching": rng.random() < 0.5}    # caching on: every memo warmed first
            if case["caching"] and lids and rng.random() < 0.6:
                # ... and then the links are edited (an end retargeted, an end dropped, a pair unlinked) before the questions:
                # find_links reads the links, neighbors() its memo - the size equation ties them together
                th = []
                for _ in range(rng.randint(1, 2)):
                    k = rng.random()
                    if k < 0.5:
                        th.append([rng.choice(["SV1", "SV2"]), rng.choice(lids), rng.choice(vids)])
                    elif k < 0.75:
                        th.append(["LUF", rng.choice(lids), rng.choice(vids)])
                    else:
                        th.append(["UNL", rng.choice(vids), rng.choice(vids), True])
                case["then_ops"] = th
                # ask about the ends of the edited links in particular
                ends, nid = {}, 0
                for op in ops:
                    if op[0] == "NE":
                        ends[nid] = (op[2], op[3])
                    nid += {"NV": 1, "NE": 1, "NL": 1, "NU": 2}.get(op[0], 0)
                for t in th:
                    if t[0] in ("SV1", "SV2", "LUF"):
                        for x in ends.get(t[1], ()):
                            for y in set(ends.get(t[1], ())) | {t[2]}:
                                if x is not None and y is not None:
                                    ds, u = rng.random() < 0.5, rng.choice(["UNb", "UNon"])
                                    queries.append(["FL", x, y, ds, u, None])
                                    queries.append(["NB", x, "Fwd" if ds else "AnyDir", u, None])
            yield case

    def nontrivial(self, case, obs):
        return obs is not None and any(a[0] == "set" and len(a[1]) >= 2 for a in obs["answers"])


class AfterUnlink(FlLeg):
    name = "afterunlink"
    rule = ("random two-ended multigraphs (both ends assigned, no third members), unlink(a, b) through the real API, then "
            "find_links for (a,b) and (b,a) under every setting must be empty, and every other ordered pair must answer as before "
            "the unlink; non-trivial = the unlink removed >= 1 link and another pair still has links")
    quick_n = 200
    thorough_n = 5000

    def generate(self, rng, n):
        for _ in range(n):
            ops, vids, lids, uid = Q.gen_graph_ops(rng, nv=rng.randint(2, 4), nl=rng.randint(1, 8), odd=0.0, universes=False)
            a, b = rng.choice(vids), rng.choice(vids)
            yield {"ops": ops, "a": a, "b": b, "vids": vids, "caching": rng.random() < 0.5}

    def _queries(self, case):
        qs = []
        for x in case["vids"]:
            for y in case["vids"]:
                for ds in (True, False):
                    qs.append(["FL", x, y, ds, "UNb", None])
                    qs.append(["FL", x, y, ds, "UNon", 2])
        return qs

    def observe(self, case):
        qs = self._queries(case)
        c = bool(case.get("caching"))       # caching on: the memos are warm when unlink() and the queries run
        before = Q.build_and_query(case["ops"], qs, caching=c)
        after = Q.build_and_query(case["ops"], qs, caching=c, then_ops=[["UNL", case["a"], case["b"], True]])
        if before is None or after is None:
            return None
        return {"snap": after["snap"], "answers": after["answers"], "before": before["answers"], "unchanged": after["unchanged"]}

    def term(self, case, obs):
        if obs is None:
            return None
        return Q.c_qcase(obs["snap"], self._queries(case), obs["answers"])

    def oracle(self, case, obs):
        if obs is None:
            return []
        a, b = case["a"], case["b"]
        for q, before, after in zip(self._queries(case), obs["before"], obs["answers"]):
            pair = {q[1], q[2]}
            if pair == {a, b}:
                if after != ["set", []]:
                    return [f"after unlink({a},{b}) find_links({q[1]},{q[2]},ds={q[3]},{q[4]},f={q[5]}) = {after}, expected empty"]
            elif after != before:
                return [f"unlink({a},{b}) changed find_links({q[1]},{q[2]},ds={q[3]},{q[4]},f={q[5]}) from {before} to {after}"]
        return []

    def nontrivial(self, case, obs):
        if obs is None:
            return False
        qs = self._queries(case)
        removed = any({q[1], q[2]} == {case["a"], case["b"]} and bf[0] == "set" and bf[1] for q, bf in zip(qs, obs["before"]))
        others = any({q[1], q[2]} != {case["a"], case["b"]} and af[0] == "set" and af[1] for q, af in zip(qs, obs["answers"]))
        return removed and others

    def shrink_candidates(self, case):
        for c in H.shrink_ops(case["ops"]):
            d = dict(case)
            d["ops"] = c
            yield d


class C09(Prop):
    pid = "C09"
    legs = [FlRows(), FlMulti(), AfterUnlink()]
    assumptions = ["filters are pure functions of link identity",
                   "links with fewer than two ends are outside the statement (modelled and tied: IndexError)"]

    def extra_obligations(self):
        import re
        txt = (C.COQ / "NbrsGen.v").read_text()
        names = re.findall(r"^(?:Theorem|Corollary)\s+(\w+)", txt, re.M)
        ok = (C.COQ / "NbrsGen.vo").exists() and (C.COQ / "NbrsGen.vo").stat().st_mtime >= (C.COQ / "gen" / "GenNbrs.v").stat().st_mtime
        return len(names), (len(names) if ok else 0), {"file": "NbrsGen.v", "obligations": names, "discharged": ok}
