"""C07 — traversal order is the canonical BFS / DFS order induced by link order."""
from ..engine import Prop
from .. import travh as T


def bfs_levels(snap, nbs, uni, start):
    """shortest hop distance of every reachable vertex, from neighbors() answers"""
    dist = {start: 0}
    frontier = [start]
    while frontier:
        nxt = []
        for v in frontier:
            a = T.nb_of(nbs, v)
            if a[0] != "list":
                return None
            for w in a[1]:
                if T.in_uni(snap, uni, w) and w not in dist:
                    dist[w] = dist[v] + 1
                    nxt.append(w)
        frontier = nxt
    return dist


class OrderLeg(T.TravLeg):
    name = "order"
    rule = ("state import as for C06, comparing SEQUENCES: bft against the canonical scan (neighbours of the i-th listed vertex "
            "examined in neighbors() order) and shortest-distance monotonicity; dft_recursive against the recursive pre-order; "
            "dft_iterative against the pre-order over reversed neighbour lists (explicit stack); repeat call and rebuilt graph must "
            "give the same sequence; non-trivial = some listing has >= 3 vertices")
    quick_n = 150
    thorough_n = 4000

    def phase_oracle(self, case, obs):
        snap = obs["snap"]
        for q, a, x in zip(case["queries"], obs["answers"], obs["extra"]):
            t, uni, st, d, u, fv, fr = q
            if x["again"] != a:
                return [f"{t} is not deterministic: {a} then {x['again']} for {q}"]
            if fv is None or isinstance(fv, int):
                # "a function of the graph's link order alone": the neighbour lists the order is made of, read off the links
                for i, got in x["nbs"].items():
                    want = T.spec_neighbors(snap, int(i), d, u, fv)
                    if got != want and not (got[0] == "raise" and want[0] == "raise"):
                        return [f"neighbors() of vertex {i} under ({d}, {u}, filter {fv}) answers {got}; by the order of its links "
                                f"{snap['vlinks'][int(i)]} (ends {[snap['lverts'][l] for l in snap['vlinks'][int(i)]]}) it is {want}"]
            if a[0] != "list" or fr is not None:
                continue
            if uni is not None and (len(snap["uverts"][uni]) == 0 or st not in snap["uverts"][uni]):
                continue
            lst = a[1]
            if t == "BFT":
                exp = T.reach_set(snap, x["nbs"], uni, st)
                dist = bfs_levels(snap, x["nbs"], uni, st)
                if dist is not None and all(v in dist for v in lst):
                    ds = [dist[v] for v in lst]
                    if ds != sorted(ds):
                        return [f"bft: hop distance decreases along the output {lst} (distances {ds}) for {q}"]
            elif t == "DFR":
                exp = T.preorder(snap, x["nbs"], uni, st)
            else:
                exp = T.preorder(snap, x["nbs"], uni, st, rev=True)
            if exp is not None and lst != exp:
                return [f"{t} listed {lst}; the canonical order induced by link order is {exp} for {q}"]
        return []

    def oracle(self, case, obs):
        m = super().oracle(case, obs)
        if m or obs is None:
            return m
        again = T.observe_trav(case)
        if again is None or again["answers"] != obs["answers"] or again.get("phase2", {}).get("answers") != obs.get("phase2", {}).get("answers"):
            return ["rebuilding the same graph in the same order gave different sequences"]
        if case.get("caching"):
            # "a function of the graph's link order alone": the same graph rebuilt with the neighbour memo out of use
            plain = T.observe_trav({**case, "caching": False, "warm": False})
            if plain is None or plain["answers"] != obs["answers"] or plain.get("phase2", {}).get("answers") != obs.get("phase2", {}).get("answers"):
                return ["rebuilding the same graph in the same order, with neighbor caching off and nothing asked before, gave different sequences: "
                        f"{[plain and plain['answers'], plain and plain.get('phase2', {}).get('answers')]} against {[obs['answers'], obs.get('phase2', {}).get('answers')]}"]
        return []


class C07(Prop):
    pid = "C07"
    legs = [OrderLeg()]
    assumptions = ["ff_via / ff_result are pure and time-invariant", "neighbors() order is Vertex.links order (C04)"]
