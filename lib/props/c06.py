"""C06 — every traversal visits exactly the reachable in-universe vertices, once each."""
from ..engine import Prop
from .. import travh as T


def fres_py(fid, v):
    if fid is None or fid == 0:
        return True
    if fid == 1:
        return False
    return v is not None and v % 2 == 0


class ReachLeg(T.TravLeg):
    name = "reach"
    rule = ("state import: random mixed multigraphs (1-6 vertices, 0-9 links of five classes, cycles, self-loops, parallel edges, "
            "occasionally None ends / third members), a universe holding a random subset (or none, or empty), 2 start vertices x "
            "{universe, None} x random direction/unknown/ff_via x {no ff_result, one ff_result} x the 3 traversals (list + generator "
            "form); oracle = independent reachability computed from neighbors() answers; non-trivial = some listing has >= 3 vertices")
    quick_n = 150
    thorough_n = 4000

    def phase_oracle(self, case, obs):
        snap = obs["snap"]
        if not obs["unchanged"]:
            return ["a traversal changed the graph"]
        by_setting = {}
        for q, a, x in zip(case["queries"], obs["answers"], obs["extra"]):
            t, uni, st, d, u, fv, fr = q
            if x["gen"] != a:
                return [f"{t} list form {a} differs from generator form {x['gen']} for {q}"]
            if a[0] != "list":
                continue
            lst = a[1]
            pre_ok = not (uni is not None and (len(snap["uverts"][uni]) == 0 or st not in snap["uverts"][uni]))
            if not pre_ok and len(snap["uverts"][uni]) == 0:
                continue            # an empty universe: bft answers an empty listing, the depth-first forms refuse (tie)
            if not pre_ok:
                # "through vertices belonging to the universe": a start vertex that is no member is refused (ValueError, as
                # documented for every traversal) - a listing from it reaches what the statement excludes
                return [f"{t} listed {lst} from start {st}, which is not a member of universe {uni} (members {snap['uverts'][uni]}), for {q}"]
            if len(set(lst)) != len(lst):
                return [f"{t} lists a vertex twice: {lst} for {q}"]
            by_setting.setdefault((uni, st, d, u, fv, fr), {})[t] = lst
            if fr is None:
                R = T.reach_set(snap, x["nbs"], uni, st)
                if R is None:
                    return [f"{t} returned {lst} although neighbors() raises at a reachable vertex, for {q}"]
                if not lst or lst[0] != st:
                    return [f"{t} does not start with the start vertex: {lst} for {q}"]
                if set(lst) != set(R):
                    return [f"{t} listed {sorted(lst, key=str)}, reachable in-universe set is {sorted(R, key=str)} for {q}"]
            else:
                base = by_setting.get((uni, st, d, u, fv, None), {}).get(t)
                if base is not None and lst != [v for v in base if fres_py(fr, v)]:
                    return [f"{t} with ff_result={fr} gave {lst}; unfiltered listing {base} filtered is {[v for v in base if fres_py(fr, v)]}"]
        for key, d in by_setting.items():
            if len(d) == 3 and len({frozenset(map(str, v)) for v in d.values()}) != 1:
                return [f"the three traversals disagree as sets for {key}: {d}"]
        return []


class C06(Prop):
    pid = "C06"
    legs = [ReachLeg()]
    assumptions = ["the recursive variant is exercised on graphs far below the interpreter's recursion limit (a path of about 990 vertices exhausts the default limit: documented nature of dft_recursive, not modelled)",
                   "ff_via / ff_result are pure; graphs whose followed links have both ends assigned are judged by the reachability "
                   "oracle, half-assigned edges are covered by the tie (model: None neighbour skipped inside a universe, "
                   "AttributeError without one)"]
