"""C16 — plain-text rendering: one well-formed line per vertex listing its neighbours."""
from ..engine import Prop
from .. import structh as H
from .. import queryh as Q
from .. import renderh as R
from .. import travh as T


def tok(i, merged=False):
    return "None" if i is None else (f"w{i % 2}" if merged else f"v{i}")


def stable_sorted(xs):
    return sorted(xs, key=R.std_key)


class PlainLeg(R.RenderLeg):
    name = "plain"
    rule = ("state import: random universes (isolated vertices, self-loops, parallel / undirected edges, neighbours outside the "
            "universe, occasionally an unknown link class or a half-assigned edge) rendered with repr, an injective rfunc and a NON-injective rfunc (two members render alike), with and without sort key; "
            "exact string comparison with the model; oracle = the statement (one line per member in universe / stably sorted order: "
            "rendering, ' -> ', renderings of neighbors() joined by ', '); non-trivial = some member has no neighbour or >= 2")
    quick_n = 200
    thorough_n = 5000

    def queries_for(self, rng, u):
        return [["PLAIN", u, s, r] for s in (False, True) for r in (False, True, 2)]

    def observe(self, case):
        obs = super().observe(case)
        if obs is None:
            return None
        # neighbors() of every member, asked separately on a rebuilt graph with caching off (for the oracle)
        u = case["queries"][0][1]
        for ph, ops in ((obs, case["ops"]), (obs.get("phase2"), case["ops"] + case.get("ops2", []))):
            if ph is None:
                continue
            members = ph["snap"]["uverts"][u]
            nb = Q.build_and_query(ops, [["NB", v, "Fwd", "UErr", None] for v in members])
            ph["members"] = members
            ph["nbs"] = nb["answers"] if nb else None
        return obs

    def phase_oracle(self, case, obs):
        if obs.get("nbs") is None:
            return []
        if not obs["unchanged"]:
            return ["basic_render changed the graph"]
        members = obs["members"]
        # "its FORWARD neighbours": read off the member's links in their order (the yardstick of C04, lib/travh.spec_neighbors)
        for v, got in zip(members, obs["nbs"]):
            want = T.spec_neighbors(obs["snap"], v, "Fwd", "UErr", None)
            if got != want and not (got[0] == "raise" and want[0] == "raise"):
                return [f"FORWARD neighbours of member {v}: neighbors() answers {got}; by the order of its links "
                        f"{obs['snap']['vlinks'][v]} it is {want}"]
        for q, a in zip(case["queries"], obs["answers"]):
            srt = q[2]
            if not members:
                if a != ["text", None]:
                    return [f"empty universe rendered as {a}, expected None"]
                continue
            order = stable_sorted(members) if srt else members
            lines = []
            bad = None
            for v in order:
                nbs = obs["nbs"][members.index(v)]
                if nbs[0] != "list":
                    bad = nbs
                    break
                ns = stable_sorted(nbs[1]) if srt else nbs[1]
                lines.append(tok(v, q[3] == 2) + " -> " + ", ".join(tok(x, q[3] == 2) for x in ns))
            exp = bad if bad else ["text", "\n".join(lines)]
            if a != exp:
                return [f"basic_render(sort={srt}, rfunc={q[3]}) = {a!r}; the statement gives {exp!r}"]
        return []

    def nontrivial(self, case, obs):
        return obs is not None and obs.get("nbs") is not None and any(a[0] == "list" and len(a[1]) != 1 for a in obs["nbs"])


class C16(Prop):
    pid = "C16"
    legs = [PlainLeg()]
    assumptions = ["rfunc / repr renderings are canonicalised to v<id>; Python's sorted() is stable (modelled by a stable insertion sort)"]
