"""C14 — PlantUML source shows each member vertex and each internal link once, oriented."""
import re

from ..engine import Prop, Leg
from .. import structh as H
from .. import renderh as R

MRO = {"KVertex": ["KVertex", "Base", "Object"], "KVertexSub": ["KVertexSub", "KVertex", "Base", "Object"],
       "KUniverse": ["KUniverse", "KVertex", "Base", "Object"], "KDir": ["KDir", "TwoEnded", "Link", "Base", "Object"],
       "KDirSub": ["KDirSub", "KDir", "TwoEnded", "Link", "Base", "Object"], "KUnd": ["KUnd", "TwoEnded", "Link", "Base", "Object"],
       "KUndSub": ["KUndSub", "KUnd", "TwoEnded", "Link", "Base", "Object"], "KOther": ["KOther", "TwoEnded", "Link", "Base", "Object"]}


def nearest(kind, ci):
    for c in MRO[kind]:
        if c in R.CONF_KEYS[ci]:
            return c
    return None


class PumlLeg(R.RenderLeg):
    name = "puml"
    rule = ("state import: random universes (self-loops, parallel and mixed directed / undirected edges, edge and vertex subclasses, "
            "isolated vertices, links leaving the universe) rendered under 4 option tables (defaults; subclasses configured; only "
            "base classes configured; an unconfigured link class); the text is parsed back into declaration headers and relation "
            "lines and compared with the model's document (declarations in order with the nearest configured class, relation "
            "multiset with orientation and sides); oracle = the statement; non-trivial = some internal link is a self-loop or parallel")
    quick_n = 200
    thorough_n = 5000
    # render_to_plantuml_src walks a SET of links: when two different links make it raise (an unconfigured class: ValueError;
    # a link that lost an end: IndexError) the exception TYPE depends on the set's iteration order, i.e. on memory addresses.
    # The model fixes one order, so graphs holding links that lost an end are left to the other renderers' legs and to C13.
    lost_end_links = False

    def queries_for(self, rng, u):
        return [["PUML", u, ci] for ci in range(5)] + [["PUML", u, 1, "grow_from", 4]]

    def phase_oracle(self, case, obs):
        if not obs["unchanged"]:
            return ["render_to_plantuml_src changed the graph"]
        snap = obs["snap"]
        u = case["queries"][0][1]
        members = snap["uverts"][u]
        for q, a in zip(case["queries"], obs["answers"]):
            ci = q[2]
            if not members:
                if a != ["doc", None]:
                    return [f"empty universe rendered as {a}, expected None"]
                continue
            if a[0] != "doc":
                continue
            if a[1] is None:
                return ["non-empty universe rendered as None"]
            decls, rels = a[1]
            if a[2] != 1 or a[3] != 1 or not a[4]:
                return ["text is not enclosed by exactly one @startuml / @enduml pair"]
            exp_decls = [[v, R.PCODE.get(nearest(snap["kind"][v], ci), 0)] for v in members]
            if [d[:2] for d in decls] != exp_decls:
                return [f"declarations {[d[:2] for d in decls]}, expected each member once in order with its nearest configured class: "
                        f"{exp_decls} (table {ci})"]
            # every link whose two ends are members: exactly one relation line v1 -> v2 with its class's sides, each end
            # named by the title its own nearest configured class gives it
            def vcode(v):
                return R.PCODE.get(nearest(snap["kind"][v], ci), 0) if ci != 0 else R.PCODE["KVertex"]
            internal = {}
            allrel = {}
            for l, k in enumerate(snap["kind"]):
                if k in H.LINK_KINDS and len(snap["lverts"][l]) >= 2 and any(l in snap["vlinks"][m] for m in members):
                    e = snap["lverts"][l][:2]
                    if e[0] is None or e[1] is None:
                        continue
                    key = (e[0], e[1], R.PCODE.get(nearest(k, ci), 0), vcode(e[0]), vcode(e[1]))
                    allrel[key] = allrel.get(key, 0) + 1
                    if e[0] in members and e[1] in members:
                        internal[key] = internal.get(key, 0) + 1
            got = {}
            for r in rels:
                got[tuple(r)] = got.get(tuple(r), 0) + 1
            for key, n in internal.items():
                if got.get(key, 0) < n:
                    return [f"{n} internal link(s) {key} (v1, v2, link class, title class of v1, of v2) but {got.get(key, 0)} such relation "
                            f"line(s) (table {ci}); lines: {sorted(got)}"]
            for key, n in got.items():
                if allrel.get(key, 0) != n:
                    return [f"{n} relation line(s) {key} but {allrel.get(key, 0)} such link(s) exist (table {ci})"]
        return []

    def nontrivial(self, case, obs):
        if obs is None:
            return False
        snap = obs["snap"]
        u = case["queries"][0][1]
        mem = snap["uverts"][u]
        inside = [tuple(v[:2]) for v in snap["lverts"] if len(v) >= 2 and v[0] in mem and v[1] in mem]
        return any(a == b for a, b in inside) or len(set(inside)) != len(inside)


class HierarchyLeg(Leg):
    """"the options of the nearest configured class in its hierarchy" for class hierarchies the Coq model has no names for:
    ad-hoc vertex and edge classes with MULTIPLE inheritance; nearest = first configured class in the class's own __mro__
    (the order Python itself resolves attributes in).  Judged on the implementation; the Gallina term is `true`."""
    name = "hierarchy"
    imports = "From EG Require Import Base."
    checkfn = "(fun b : bool => b)"
    case_type = "bool"
    rule = ("random class hierarchies (3-6 vertex classes and 2-4 edge classes over Vertex / DirectedEdge / UnDirectedEdge, single "
            "and multiple inheritance, diamonds), a random subset configured with distinguishable type keywords, title formats and "
            "arrow sides (title fields: plain attributes, the uid property, a property of the class, an indexed tuple attribute, a `!r` conversion; 2 in 5 hierarchies reuse class names); small graphs over instances of all classes; every declaration header and every relation line must carry "
            "the options of the first configured class in type(x).__mro__; non-trivial = some class has two bases")
    quick_n = 120
    thorough_n = 3000
    TYPES = ["object", "class", "entity", "card", "node", "frame", "queue", "storage"]
    SIDES = [("", ">"), ("", ""), ("<", ">"), ("o", ">"), ("*", ""), ("x", "x")]

    def generate(self, rng, n):
        for _ in range(n):
            nv, ne = rng.randint(3, 6), rng.randint(2, 4)
            vbases, ebases = [], []
            for i in range(nv):          # bases by index into the classes created so far; -1 = Vertex
                k = rng.choice([1, 1, 2, 2, 3]) if i >= 2 else 1
                vbases.append(sorted(rng.sample(range(-1, i), min(k, i + 1)), reverse=rng.random() < 0.5))
            for i in range(ne):          # -1 = DirectedEdge, -2 = UnDirectedEdge
                k = rng.choice([1, 2]) if i >= 2 else 1
                pool = list(range(i)) + [rng.choice([-1, -2])]
                ebases.append(rng.sample(pool, min(k, len(pool))))
            vconf = [rng.random() < 0.5 for _ in range(nv)]
            econf = [rng.random() < 0.5 for _ in range(ne)]
            verts = [rng.randrange(nv) for _ in range(rng.randint(2, 6))]
            edges = [[rng.randrange(ne), rng.randrange(len(verts)), rng.randrange(len(verts))] for _ in range(rng.randint(1, 6))]
            # samename: distinct classes that share one __name__ (two modules each with their own `Node`; a class factory)
            yield {"vbases": vbases, "ebases": ebases, "vconf": vconf, "econf": econf, "verts": verts, "edges": edges,
                   "samename": rng.random() < 0.4}

    @staticmethod
    def _classes(bases, roots, prefix, samename=False):
        out = []
        for i, bs in enumerate(bases):
            name = f"{prefix}{i % 2 if samename else i}"
            # every generated class has a computed field of its own (a property), usable in title formats like `uid`
            ns = {"label": property(lambda self: f"L{self.nm}")} if prefix == "V" else {}
            try:
                out.append(type(name, tuple(out[b] if b >= 0 else roots[b] for b in bs), dict(ns)))
            except TypeError:           # no consistent method resolution order for these bases: fall back to the first one
                b = bs[0]
                out.append(type(name, (out[b] if b >= 0 else roots[b],), dict(ns)))
        return out

    def observe(self, case):
        from edgegraph.structure import Vertex, Universe, DirectedEdge, UnDirectedEdge
        from edgegraph.output import plantuml
        vcls = self._classes(case["vbases"], {-1: Vertex}, "V", case.get("samename"))
        ecls = self._classes(case["ebases"], {-1: DirectedEdge, -2: UnDirectedEdge}, "E", case.get("samename"))
        opts = {"skinparams": {}, Vertex: {"type": "object", "show_attrs": ["^nm$"], "title_format": "root_{nm}"},
                DirectedEdge: {"v1side": "", "v2side": ">"}, UnDirectedEdge: {"v1side": "", "v2side": ""}}
        for i, c in enumerate(vcls):
            if case["vconf"][i]:
                # title fields: a plain attribute, the uid (a property of BaseObject), a property of the class itself
                # ... and format-spec features: an index into a tuple-valued attribute, a conversion
                field = ["{nm}", "{nm}_{uid}", "{label}", "{pos[0]}_{nm!r}"][i % 4] if "samename" in case else "{nm}"
                opts[c] = {"type": self.TYPES[1 + i % 7], "show_attrs": ["^(nm|uid|label|pos)$"] if "samename" in case else ["^nm$"],
                           "title_format": f"c{i}_{field}"}
        for i, c in enumerate(ecls):
            if case["econf"][i]:
                opts[c] = {"v1side": self.SIDES[2 + i % 4][0], "v2side": self.SIDES[2 + i % 4][1]}
        uni = Universe()
        vs = []
        for j, ci in enumerate(case["verts"]):
            v = vcls[ci](universes=[uni])
            v.nm = f"n{j}"
            v.pos = (j, j + 1)
            vs.append(v)
        es = [ecls[k](vs[a], vs[b]) for k, a, b in case["edges"]]

        def vopt(v):
            return next(opts[c] for c in type(v).__mro__ if c in opts)

        def title(v):
            return vopt(v)["title_format"].format(nm=v.nm, uid=v.uid, label=getattr(v, "label", None), pos=v.pos)
        exp_decl = [[vopt(v)["type"], title(v), type(v).__name__] for v in vs]
        exp_rel = sorted(f"{title(e.v1)} {o['v1side']}--{o['v2side']} {title(e.v2)}"
                         for e in es for o in [next(opts[c] for c in type(e).__mro__ if c in opts)])
        try:
            src = plantuml.render_to_plantuml_src(uni, opts)
        except Exception as e:  # noqa: BLE001
            return {"raise": type(e).__name__, "exp_decl": exp_decl, "exp_rel": exp_rel}
        decl, rel = [], []
        for line in (src or "").split("\n"):
            m = R.DECL.match(line)
            if m:
                decl.append([m.group(1), m.group(2), m.group(3)])
            elif re.match(r"^\S+ \S*--\S* \S+$", line):
                rel.append(line)
        return {"decl": decl, "rel": sorted(rel), "exp_decl": exp_decl, "exp_rel": exp_rel,
                "multi": any(len(c.__bases__) > 1 for c in vcls + ecls)}

    def oracle(self, case, obs):
        if "raise" in obs:
            return [f"render_to_plantuml_src raised {obs['raise']} although Vertex and both edge classes are configured"]
        if obs["decl"] != obs["exp_decl"]:
            return [f"declarations {obs['decl']}; by the classes' own MRO they are {obs['exp_decl']}"]
        if obs["rel"] != obs["exp_rel"]:
            return [f"relation lines {obs['rel']}; by the classes' own MRO they are {obs['exp_rel']}"]
        return []

    def term(self, case, obs):
        return "true"

    def nontrivial(self, case, obs):
        return bool(obs.get("multi"))


class C14(Prop):
    pid = "C14"
    legs = [PumlLeg(), HierarchyLeg()]
    assumptions = ["titles use the `$id` format (canonicalised to ids); str.format / dir() / regex-selected attribute lines are "
                   "produced by Python and not modelled", "configured classes are made visible in the text by distinct `type` "
                   "keywords and arrow sides in the harness's option tables"]
