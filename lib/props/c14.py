"""C14 — PlantUML source shows each member vertex and each internal link once, oriented."""
from ..engine import Prop
from .. import structh as H
from .. import renderh as R

MRO = {"KVertex": ["KVertex", "Base", "Object"], "KVertexSub": ["KVertexSub", "KVertex", "Base", "Object"],
       "KUniverse": ["KUniverse", "KVertex", "Base", "Object"], "KDir": ["KDir", "TwoEnded", "Link", "Base", "Object"],
       "KDirSub": ["KDirSub", "KDir", "TwoEnded", "Link", "Base", "Object"], "KUnd": ["KUnd", "TwoEnded", "Link", "Base", "Object"],
       "KUndSub": ["KUndSub", "KUnd", "TwoEnded", "Link", "Base", "Object"], "KOther": ["KOther", "TwoEnded", "Link", "Base", "Object"]}


def nearest(kind, ci):
    for c in MRO[kind]:
        if c in R.CONF_KEYS[ci]:
            return c
    return None


class PumlLeg(R.RenderLeg):
    name = "puml"
    rule = ("state import: random universes (self-loops, parallel and mixed directed / undirected edges, edge and vertex subclasses, "
            "isolated vertices, links leaving the universe) rendered under 4 option tables (defaults; subclasses configured; only "
            "base classes configured; an unconfigured link class); the text is parsed back into declaration headers and relation "
            "lines and compared with the model's document (declarations in order with the nearest configured class, relation "
            "multiset with orientation and sides); oracle = the statement; non-trivial = some internal link is a self-loop or parallel")
    quick_n = 200
    thorough_n = 5000

    def queries_for(self, rng, u):
        return [["PUML", u, ci] for ci in range(4)]

    def oracle(self, case, obs):
        if obs is None:
            return []
        if not obs["unchanged"]:
            return ["render_to_plantuml_src changed the graph"]
        snap = obs["snap"]
        u = case["queries"][0][1]
        members = snap["uverts"][u]
        for q, a in zip(case["queries"], obs["answers"]):
            ci = q[2]
            if not members:
                if a != ["doc", None]:
                    return [f"empty universe rendered as {a}, expected None"]
                continue
            if a[0] != "doc":
                continue
            if a[1] is None:
                return ["non-empty universe rendered as None"]
            decls, rels = a[1]
            if a[2] != 1 or a[3] != 1 or not a[4]:
                return ["text is not enclosed by exactly one @startuml / @enduml pair"]
            exp_decls = [[v, R.PCODE.get(nearest(snap["kind"][v], ci), 0)] for v in members]
            if [d[:2] for d in decls] != exp_decls:
                return [f"declarations {[d[:2] for d in decls]}, expected each member once in order with its nearest configured class: "
                        f"{exp_decls} (table {ci})"]
            # every link whose two ends are members: exactly one relation line v1 -> v2 with its class's sides, each end
            # named by the title its own nearest configured class gives it
            def vcode(v):
                return R.PCODE.get(nearest(snap["kind"][v], ci), 0) if ci != 0 else R.PCODE["KVertex"]
            internal = {}
            allrel = {}
            for l, k in enumerate(snap["kind"]):
                if k in H.LINK_KINDS and len(snap["lverts"][l]) >= 2 and any(l in snap["vlinks"][m] for m in members):
                    e = snap["lverts"][l][:2]
                    if e[0] is None or e[1] is None:
                        continue
                    key = (e[0], e[1], R.PCODE.get(nearest(k, ci), 0), vcode(e[0]), vcode(e[1]))
                    allrel[key] = allrel.get(key, 0) + 1
                    if e[0] in members and e[1] in members:
                        internal[key] = internal.get(key, 0) + 1
            got = {}
            for r in rels:
                got[tuple(r)] = got.get(tuple(r), 0) + 1
            for key, n in internal.items():
                if got.get(key, 0) < n:
                    return [f"{n} internal link(s) {key} (v1, v2, link class, title class of v1, of v2) but {got.get(key, 0)} such relation "
                            f"line(s) (table {ci}); lines: {sorted(got)}"]
            for key, n in got.items():
                if allrel.get(key, 0) != n:
                    return [f"{n} relation line(s) {key} but {allrel.get(key, 0)} such link(s) exist (table {ci})"]
        return []

    def nontrivial(self, case, obs):
        if obs is None:
            return False
        snap = obs["snap"]
        u = case["queries"][0][1]
        mem = snap["uverts"][u]
        inside = [tuple(v[:2]) for v in snap["lverts"] if len(v) >= 2 and v[0] in mem and v[1] in mem]
        return any(a == b for a, b in inside) or len(set(inside)) != len(inside)


class C14(Prop):
    pid = "C14"
    legs = [PumlLeg()]
    assumptions = ["titles use the `$id` format (canonicalised to ids); str.format / dir() / regex-selected attribute lines are "
                   "produced by Python and not modelled", "configured classes are made visible in the text by distinct `type` "
                   "keywords and arrow sides in the harness's option tables"]
