"""C01 — vertex-link association symmetric and duplicate-free after every history."""
from ..engine import Leg, Prop
from .. import structh as H

W_LINKS = {"NV": 3, "NU": 0.5, "NE": 4, "SV1": 4, "SV2": 4, "A2L": 3, "RFL": 3, "LAV": 3, "LUF": 3, "LFT": 2, "UNL": 2,
           "CACHE": 0.3}
SEED_OPS = [["NV", False, [], []], ["NV", False, [], []]]


def assoc_violations(snap):
    msgs = []
    ks = snap["kind"]
    for v, k in enumerate(ks):
        if k not in H.VERTEX_KINDS:
            continue
        if len(set(snap["vlinks"][v])) != len(snap["vlinks"][v]):
            msgs.append(f"vertex {v} lists a link twice: links={snap['vlinks'][v]}")
        for l, kl in enumerate(ks):
            if kl not in H.LINK_KINDS:
                continue
            a = l in snap["vlinks"][v]
            b = v in snap["lverts"][l]
            if a != b:
                msgs.append(f"asymmetric: link {l} in links(vertex {v}) = {a}, vertex {v} in vertices(link {l}) = {b}")
    return msgs


class LinkHistory(Leg):
    name = "linkhist"
    imports = H.HIST_IMPORTS
    checkfn = "scheck MLinks"
    case_type = H.HIST_TYPE
    weights = W_LINKS
    maxops = 16
    rule = ("lock-step histories (4-16 calls) over edge constructors (any end may be None, equal, or ill-kinded), v1/v2 assignment, "
            "add_to_link/remove_from_link, add_vertex/unlink_from, link_from_to(dontdup)/unlink, generated against the live objects with "
            "pools of <=6 vertices / <=6 links so aliasing is the norm; non-trivial = some state has a self-loop, a None end or a vertex "
            "listed twice, or some call raised; distinct = distinct op list")
    quick_n = 500
    thorough_n = 12000
    shard = 60

    def generate(self, rng, n):
        for _ in range(n):
            yield {"ops": H.gen_history(rng, self.weights, rng.randint(4, self.maxops), SEED_OPS)}

    def observe(self, case):
        try:
            return H.execute(case["ops"])
        except H.CaseInvalid:
            return None

    def oracle(self, case, obs):
        if obs is None:
            return []
        for i, r in enumerate(obs):
            m = assoc_violations(r["snap"])
            if m:
                return [f"after call {i} {case['ops'][i]}: " + m[0]] + m[1:3]
        return []

    def term(self, case, obs):
        if obs is None:
            return None
        return H.c_history(case["ops"], obs)

    def model_value(self, case, obs):
        return "transcript empty " + H.C.clist([H.c_op(o) for o in case["ops"]], str)

    def nontrivial(self, case, obs):
        if obs is None:
            return False
        for r in obs:
            if r["out"][0] == "raise":
                return True
            for v in r["snap"]["lverts"]:
                if None in v or len(set(v)) != len(v):
                    return True
        return False

    def shrink_candidates(self, case):
        for c in H.shrink_ops(case["ops"]):
            yield {"ops": c}

    def stats(self, case, obs, acc):
        if obs is not None:
            H.op_stats(case["ops"], obs, acc)


class SmallScope(LinkHistory):
    """thorough tier only: the complete space of short histories over a fixed pool"""
    name = "smallscope"
    exhaustive = True
    quick_n = 0
    thorough_n = 1
    shard = 400
    rule = ("EXHAUSTIVE for this bounded space (thorough tier): every history of length <= 3 over the alphabet {v1/v2 assignment, "
            "add_to_link, remove_from_link, add_vertex, unlink_from with each of {vertex 0, vertex 1, None}; unlink(a, b); "
            "link_from_to(a, DirectedEdge|UnDirectedEdge, b, dontdup)} on the pool {2 vertices, 1 directed edge 0->1}")
    SEED = [["NV", False, [], []], ["NV", False, [], []], ["NE", "KDir", 0, 1]]

    def alphabet(self):
        al = []
        for x in (0, 1, None):
            al += [["SV1", 2, x], ["SV2", 2, x], ["LAV", 2, x], ["LUF", 2, x]]
        for v in (0, 1):
            al += [["A2L", v, 2], ["RFL", v, 2]]
        for a in (0, 1):
            for b in (0, 1):
                al.append(["UNL", a, b, True])
                for k in ("KDir", "KUnd"):
                    for dd in (False, True):
                        al.append(["LFT", a, k, b, dd])
        return al

    def generate(self, rng, n):
        if n <= 0:
            return
        for ops in H.small_scope(self.SEED, self.alphabet(), 3):
            yield {"ops": ops}


class C01(Prop):
    pid = "C01"
    legs = [LinkHistory(), SmallScope()]
    assumptions = ["histories of well-typed calls (ids allocated, vertex where a vertex is expected)",
                   "no user subclass overrides __eq__/__hash__; objects compare by identity"]
