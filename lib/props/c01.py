"""C01 — vertex-link association symmetric and duplicate-free after every history."""
from ..engine import Leg, Prop
from .. import structh as H

W_LINKS = {"NV": 3, "NU": 0.5, "NE": 4, "SV1": 4, "SV2": 4, "A2L": 3, "RFL": 3, "LAV": 3, "LUF": 3, "LFT": 2, "UNL": 2,
           "CACHE": 0.3, "CLONE": 0.7}
SEED_OPS = [["NV", False, [], []], ["NV", False, [], []]]


def assoc_violations(snap):
    msgs = []
    ks = snap["kind"]
    for v, k in enumerate(ks):
        if k not in H.VERTEX_KINDS:
            continue
        if len(set(snap["vlinks"][v])) != len(snap["vlinks"][v]):
            msgs.append(f"vertex {v} lists a link twice: links={snap['vlinks'][v]}")
        for l, kl in enumerate(ks):
            if kl not in H.LINK_KINDS:
                continue
            a = l in snap["vlinks"][v]
            b = v in snap["lverts"][l]
            if a != b:
                msgs.append(f"asymmetric: link {l} in links(vertex {v}) = {a}, vertex {v} in vertices(link {l}) = {b}")
    return msgs


class LinkHistory(Leg):
    name = "linkhist"
    imports = H.HIST_IMPORTS
    checkfn = "scheck MLinks"
    case_type = H.HIST_TYPE
    weights = W_LINKS
    maxops = 16
    rule = ("lock-step histories (4-16 calls) over edge constructors (any end may be None, equal, or ill-kinded), v1/v2 assignment, "
            "add_to_link/remove_from_link, add_vertex/unlink_from, link_from_to(dontdup)/unlink, generated against the live objects with "
            "pools of <=6 vertices / <=6 links so aliasing is the norm; non-trivial = some state has a self-loop, a None end or a vertex "
            "listed twice, or some call raised; distinct = distinct op list")
    quick_n = 500
    thorough_n = 12000
    shard = 60

    def generate(self, rng, n):
        for _ in range(n):
            yield {"ops": H.gen_history(rng, self.weights, rng.randint(4, self.maxops), SEED_OPS)}

    def observe(self, case):
        try:
            return H.execute(case["ops"])
        except H.CaseInvalid:
            return None

    def oracle(self, case, obs):
        if obs is None:
            return []
        m = H.clone_violations(case["ops"], obs)
        if m:
            return m
        for i, r in enumerate(obs):
            m = assoc_violations(r["snap"])
            if m:
                return [f"after call {i} {case['ops'][i]}: " + m[0]] + m[1:3]
        return []

    def term(self, case, obs):
        if obs is None:
            return None
        return H.c_history(case["ops"], obs)

    def model_value(self, case, obs):
        return "transcript empty " + H.C.clist([H.c_op(o) for o in case["ops"]], str)

    def nontrivial(self, case, obs):
        if obs is None:
            return False
        for r in obs:
            if r["out"][0] == "raise":
                return True
            for v in r["snap"]["lverts"]:
                if None in v or len(set(v)) != len(v):
                    return True
        return False

    def shrink_candidates(self, case):
        for c in H.shrink_ops(case["ops"]):
            yield {"ops": c}

    def stats(self, case, obs, acc):
        if obs is not None:
            H.op_stats(case["ops"], obs, acc)


class SmallScope(LinkHistory):
    """thorough tier only: the complete space of short histories over a fixed pool"""
    name = "smallscope"
    exhaustive = True
    quick_n = 0
    thorough_n = 1
    shard = 400
    rule = ("EXHAUSTIVE for this bounded space (thorough tier): every history of length <= 3 over the alphabet {v1/v2 assignment, "
            "add_to_link, remove_from_link, add_vertex, unlink_from with each of {vertex 0, vertex 1, None}; unlink(a, b); "
            "link_from_to(a, DirectedEdge|UnDirectedEdge, b, dontdup)} on the pool {2 vertices, 1 directed edge 0->1}")
    SEED = [["NV", False, [], []], ["NV", False, [], []], ["NE", "KDir", 0, 1]]

    def alphabet(self):
        al = []
        for x in (0, 1, None):
            al += [["SV1", 2, x], ["SV2", 2, x], ["LAV", 2, x], ["LUF", 2, x]]
        for v in (0, 1):
            al += [["A2L", v, 2], ["RFL", v, 2]]
        for a in (0, 1):
            for b in (0, 1):
                al.append(["UNL", a, b, True])
                for k in ("KDir", "KUnd"):
                    for dd in (False, True):
                        al.append(["LFT", a, k, b, dd])
        return al

    def generate(self, rng, n):
        if n <= 0:
            return
        for ops in H.small_scope(self.SEED, self.alphabet(), 3):
            yield {"ops": ops}


class EqualLinks(Leg):
    """links that are == but not the same object.  Vertex.add_to_link's own documentation promises identity semantics
    ("== duplicate links are allowed, `is` duplicate links are ignored"); the implementation tests `link not in self._links`.
    Judged on the implementation (the Coq model is identity-based: ids); the Gallina term is `true`."""
    name = "eqlinks"
    imports = "From EG Require Import Base."
    checkfn = "(fun b : bool => b)"
    case_type = "bool"
    exhaustive = True
    rule = ("fixed cases: an edge subclass with value equality (__eq__ / __hash__ on an attribute `kind`), two equal edges created "
            "between the same / different vertices through the constructor, add_to_link and link_from_to; after each call: a link "
            "is in a vertex's links (by identity) iff the vertex is among the link's vertices (by identity)")
    quick_n = 3
    thorough_n = 3

    def generate(self, rng, n):
        for how in ("constructor", "add_to_link", "other_pair"):
            yield {"how": how}

    def observe(self, case):
        from edgegraph.structure import Vertex, DirectedEdge

        class Road(DirectedEdge):
            def __eq__(self, other):
                return isinstance(other, Road) and getattr(other, "kind", None) == getattr(self, "kind", None)

            def __hash__(self):
                return hash(getattr(self, "kind", None))
        a, b, c = Vertex(), Vertex(), Vertex()
        r1 = Road(a, b, attributes={"kind": "x"})
        if case["how"] == "constructor":
            r2 = Road(a, b, attributes={"kind": "x"})
        elif case["how"] == "add_to_link":
            r2 = Road(attributes={"kind": "x"})
            r2.add_vertex(a)
            b.add_to_link(r2)
        else:
            r2 = Road(c, a, attributes={"kind": "x"})
        bad = []
        for ln, l in (("first", r1), ("second", r2)):
            for vn, v in (("a", a), ("b", b), ("c", c)):
                in_links = any(x is l for x in v.links)
                in_verts = any(x is v for x in l.vertices)
                if in_links != in_verts:
                    bad.append(f"the {ln} edge {'lists' if in_verts else 'does not list'} vertex {vn}, which "
                               f"{'lists' if in_links else 'does not list'} it")
        return {"bad": bad}

    def oracle(self, case, obs):
        return [f"two == edges ({case['how']}): " + "; ".join(obs["bad"])] if obs["bad"] else []

    def term(self, case, obs):
        return "true"


class C01(Prop):
    pid = "C01"
    legs = [LinkHistory(), SmallScope(), EqualLinks()]
    assumptions = ["histories of well-typed calls (ids allocated, vertex where a vertex is expected)",
                   "in the lock-step legs no user subclass overrides __eq__/__hash__ (the model names objects by identity); links that "
                   "are == without being identical are exercised by the fixed cases of leg eqlinks (known finding D24)"]
