"""C18 — TrueSingleton: lock-step histories of constructions and clears over several classes."""
from ..engine import Leg, Prop
from .. import common as C

ARGS = [((), {}), ((1,), {}), ((1, 2), {"k": 3}), (("x",), {"y": None}), ((-1,), {}), ((-2,), {}),
        ((), {"a": 1, "b": 2}), ((), {"a": 2})]


class InitFails(Exception):
    pass


TRAP = {"mode": None}     # "fail": every __init__ raises;  "clear": every __init__ first clears ALL true singletons (re-entrancy)


def normalise(ops, obs):
    """CF (the constructor raises) and CR (the constructor clears every singleton while it runs) in terms of the plain
    operations, by the liveness the STATEMENT implies (computed from the operations alone):
      on a live class neither runs __init__, so both are plain constructions;
      CF on a class that is not live changes nothing and must raise;  CR there is `clear all` followed by the construction.
    Returns (ops', obs', messages)."""
    live = set()
    nops, nobs = [], []
    for i, (op, o) in enumerate(zip(ops, obs)):
        if op[0] == "X":
            live = set() if op[1] is None else live - {op[1]}
            nops.append(op)
            nobs.append(o)
        elif op[0] == "C" or op[1] in live:
            if o[0] == "initfails":
                return nops, nobs, [f"op {i} {op}: class {op[1]} is live, so __init__ must not run - yet it ran (and raised)"]
            live.add(op[1])
            nops.append(["C", op[1], op[2]])
            nobs.append(o)
        elif op[0] == "CF":
            if o[0] != "initfails":
                return nops, nobs, [f"op {i} {op}: __init__ raises and class {op[1]} is not live, yet the construction returned {o}"]
        else:   # CR on a class that is not live
            live = {op[1]}
            nops += [["X", None], ["C", op[1], op[2]]]
            nobs += [["none"], o]
    return nops, nobs, []


def _metaclasses():
    """the metaclass itself, a plain subclass of it, the usual abstract-singleton combination with abc.ABCMeta, and a
    subclass under which the class objects themselves are falsy"""
    import abc
    from edgegraph.structure import singleton

    class SubMeta(singleton.TrueSingleton):
        pass

    class AbcMeta(singleton.TrueSingleton, abc.ABCMeta):
        pass

    class FalsyClassMeta(singleton.TrueSingleton):
        """a metaclass that gives its CLASSES a length (a registry of plugins, an enum-like class ...): the class object
        itself is falsy while that length is 0"""
        def __len__(cls):
            return 0
    return [singleton.TrueSingleton, SubMeta, AbcMeta, FalsyClassMeta]


def make_classes(parents, falsy=None, metas=None):
    """parents[i] = index of the parent class of class i, or None.  All use metaclass TrueSingleton (metas[i] in (0, 1, 2):
    directly / through a subclass of the metaclass / through a metaclass that also derives from abc.ABCMeta).
    falsy[i] in (0, 1, 2): root class i is an ordinary / empty-container-like (__len__ == 0) / __bool__-False class"""
    from edgegraph.structure import singleton
    classes = []
    mcs = _metaclasses()
    for i, p in enumerate(parents):
        if p is None:
            def __init__(self, *a, **k):
                if TRAP["mode"] == "fail":
                    raise InitFails()
                if TRAP["mode"] == "clear":
                    from edgegraph.structure import singleton as _sg
                    _sg.clear_true_singleton()
                if not hasattr(self, "_vlog"):
                    self._vlog = []
                self._vlog.append((type(self), a, k))
            ns = {"__init__": __init__}
            f = falsy[i] if falsy else 0
            if f == 1:
                ns["__len__"] = lambda self: 0
            elif f == 2:
                ns["__bool__"] = lambda self: False
            cls = mcs[metas[i] if metas else 0](f"S{i % 2}", (), ns)
        else:
            cls = type(classes[p])(f"S{i % 2}", (classes[p],), {})
        classes.append(cls)
    return classes


class History(Leg):
    name = "history"
    imports = "From EG Require Import Base TrueSingle."
    checkfn = "tcheck"
    case_type = "list top * list (option (nat * list (nat * nat)))"
    rule = ("random histories (len 3-24) of Construct(class,args) (1 in 10 with an __init__ that raises, 1 in 10 with an __init__ that clears all singletons while it runs)/Clear(class)/Clear(all) over 2-4 classes incl. "
            "parent/child pairs, 2 in 5 root classes with falsy instances (__len__ == 0 or __bool__ False), 2 in 5 root classes using the metaclass through a subclass of it (plain, combined with abc.ABCMeta, or one that makes the class objects falsy); non-trivial = contains a clear followed by a re-construction; distinct = distinct op list")
    quick_n = 600
    thorough_n = 20000

    def generate(self, rng, n):
        for _ in range(n):
            k = rng.randint(2, 4)
            parents = [None]
            for i in range(1, k):
                parents.append(rng.choice([None, rng.randrange(i)]))
            ops = []
            for _ in range(rng.randint(3, 24)):
                r = rng.random()
                if r < 0.62:
                    # CF: __init__ raises;  CR: __init__ clears all singletons while it runs
                    ops.append([rng.choice(["C"] * 8 + ["CF", "CR"]), rng.randrange(k), rng.randrange(len(ARGS))])
                elif r < 0.9:
                    ops.append(["X", rng.randrange(k)])
                else:
                    ops.append(["X", None])
            falsy = [rng.choice([0, 0, 0, 1, 2]) if p is None else 0 for p in parents]
            metas = [rng.choice([0, 0, 0, 1, 2, 3]) if p is None else 0 for p in parents]
            yield {"parents": parents, "ops": ops, "falsy": falsy, "metas": metas}

    def observe(self, case):
        from edgegraph.structure import singleton
        singleton.clear_true_singleton()
        classes = make_classes(case["parents"], case.get("falsy"), case.get("metas"))
        ids = {}
        obs = []
        try:
            for op in case["ops"]:
                if op[0] in ("C", "CF", "CR"):
                    a, k = ARGS[op[2]]
                    TRAP["mode"] = {"CF": "fail", "CR": "clear"}.get(op[0])
                    try:
                        inst = classes[op[1]](*a, **k)
                    except InitFails:
                        obs.append(["initfails"])
                        continue
                    except Exception as e:
                        obs.append(["raise", type(e).__name__])
                        continue
                    if id(inst) not in ids:
                        ids[id(inst)] = (len(ids), inst)
                    log = []
                    for (t, la, lk) in getattr(inst, "_vlog", []):
                        ci = classes.index(t) if t in classes else -1
                        ai = ARGS.index((la, lk)) if (la, lk) in ARGS else -1
                        log.append([ci, ai])
                    obs.append(["inst", ids[id(inst)][0], log])
                else:
                    try:
                        r = singleton.clear_true_singleton(classes[op[1]] if op[1] is not None else None)
                    except Exception as e:
                        obs.append(["raise", type(e).__name__])
                        continue
                    obs.append(["none"] if r is None else ["other"])
        finally:
            TRAP["mode"] = None
            singleton.clear_true_singleton()
        return obs

    def oracle(self, case, obs):
        nops, nobs, msgs = normalise(case["ops"], obs)
        if msgs:
            return msgs
        return self._oracle(nops, nobs)

    def _oracle(self, ops, obs):
        live = {}
        fresh = 0
        msgs = []
        case = {"ops": ops}
        for i, (op, o) in enumerate(zip(case["ops"], obs)):
            if o[0] == "raise":
                msgs.append(f"op {i} {op} raised {o[1]}")
                break
            if op[0] == "C":
                c, a = op[1], op[2]
                if c in live:
                    if o[1] != live[c]:
                        msgs.append(f"op {i}: construction of class {c} returned object {o[1]}, live instance is {live[c]}")
                        break
                else:
                    if o[1] != fresh:
                        msgs.append(f"op {i}: construction of class {c} after clear/first time returned old object {o[1]}")
                        break
                    live[c] = fresh
                    fresh += 1
                # __init__ ran exactly once, with the first call's arguments, on the class called
                first = None
                for j in range(i, -1, -1):
                    pj = case["ops"][j]
                    if pj[0] == "X" and (pj[1] is None or pj[1] == c):
                        break
                    if pj[0] == "C" and pj[1] == c:
                        first = pj
                if o[2] != [[c, first[2]]]:
                    msgs.append(f"op {i}: __init__ log of the instance is {o[2]}, expected [[{c}, {first[2]}]]")
                    break
            else:
                if op[1] is None:
                    live = {}
                else:
                    live.pop(op[1], None)
        return msgs

    def term(self, case, obs):
        nops, obs, _ = normalise(case["ops"], obs)
        ops = []
        for op in nops:
            if op[0] == "C":
                ops.append(f"Construct {op[1]} {op[2]}")
            else:
                ops.append("Clear " + C.copt(op[1]))
        exp = []
        for o in obs:
            if o[0] == "inst":
                if any(x < 0 for p in o[2] for x in p):
                    exp.append("Some (9999, [])")
                else:
                    exp.append(f"Some ({o[1]}, {C.clist(o[2], lambda p: C.cpair(p[0], p[1]))})")
            elif o[0] == "none":
                exp.append("None")
            else:
                exp.append("Some (9999, [(9999,9999)])")
        return f"({C.clist(ops, str)}, {C.clist(exp, str)})"

    def model_value(self, case, obs):
        t = self.term(case, obs)
        return f"ttranscript (fst {t}) ts_init"

    def nontrivial(self, case, obs):
        ops = case["ops"]
        for i, op in enumerate(ops):
            if op[0] == "X":
                for later in ops[i + 1:]:
                    if later[0] in ("C", "CF", "CR") and (op[1] is None or op[1] == later[1]):
                        return True
        return False

    def shrink_candidates(self, case):
        ops = case["ops"]
        for i in range(len(ops)):
            yield {"parents": case["parents"], "ops": ops[:i] + ops[i + 1:], "falsy": case.get("falsy"), "metas": case.get("metas")}

    def stats(self, case, obs, acc):
        for op in case["ops"]:
            k = {"C": "Construct", "CF": "ConstructInitRaises", "CR": "ConstructInitClearsAll"}.get(op[0]) or ("ClearAll" if op[1] is None else "ClearOne")
            acc[k] = acc.get(k, 0) + 1
        acc["histories_with_subclass"] = acc.get("histories_with_subclass", 0) + (1 if any(p is not None for p in case["parents"]) else 0)


class C18(Prop):
    pid = "C18"
    legs = [History()]
    assumptions = ["classes do not define __bool__/__eq__/__hash__ on the metaclass level (class objects are truthy and hashed by identity)",
                   "histories of well-typed calls: constructor arguments are accepted by __init__"]
