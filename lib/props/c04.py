"""C04 — neighbors() follows exactly the documented direction / unknown-type / filter rules."""
import itertools

from ..engine import Leg, Prop
from .. import common as C
from .. import structh as H
from .. import queryh as Q


def filt_py(fid, l, o):
    if fid is None or fid == 0:
        return True
    if fid == 1:
        return False
    if fid == 2:
        return l % 2 == 0
    if fid == 3:
        return o is not None and o % 2 == 0
    return (l + o) % 2 == 0 if o is not None else l % 2 == 0


def expected_neighbors(snap, v, d, u, fid):
    """The statement of C04 as an executable table over a snapshot.  Returns the expected outcome,
    or None when the statement does not speak about the case (a listed link with fewer than two
    ends, or v listed by a link only beyond its two ends)."""
    out = []
    for l in snap["vlinks"][v]:
        ends = snap["lverts"][l]
        if len(ends) < 2:
            return None
        origin, dest = ends[0] == v, ends[1] == v
        if not (origin or dest):
            return None
        o = ends[1] if origin else ends[0]
        k = snap["kind"][l]
        if k in ("KUnd", "KUndSub"):
            q = True
        elif k in ("KDir", "KDirSub"):
            q = origin if d == "Fwd" else dest if d == "Bwd" else True
        else:
            if d == "AnyDir":
                q = True
            elif u == "UErr":
                return ["raise", "NotImplementedError"]
            else:
                q = (u == "UNb")
        if q and filt_py(fid, l, o):
            out.append(o)
    return ["list", out]


def judge(snap, queries, answers):
    msgs = []
    for q, a in zip(queries, answers):
        if q[0] != "NB":
            continue
        e = expected_neighbors(snap, q[1], q[2], q[3], q[4])
        if e is not None and e != a:
            msgs.append(f"neighbors(v={q[1]}, {q[2]}, {q[3]}, filter={q[4]}) = {a}, the documented rules give {e}; "
                        f"links(v)={snap['vlinks'][q[1]]} ends={[snap['lverts'][l] for l in snap['vlinks'][q[1]]]} "
                        f"classes={[snap['kind'][l] for l in snap['vlinks'][q[1]]]}")
            break
    return msgs


def duality(snap, queries, answers):
    """w occurs k times among the FORWARD neighbours of v iff v occurs k times among the BACKWARD neighbours of w"""
    idx = {}
    for q, a in zip(queries, answers):
        if q[0] == "NB" and a[0] == "list":
            idx[(q[1], q[2], q[3], q[4])] = a[1]
    for (v, d, u, f), nbs in idx.items():
        if d != "Fwd" or f not in (None, 0, 1, 2):
            continue
        if expected_neighbors(snap, v, d, u, f) is None:
            continue
        for w in set(x for x in nbs if x is not None) | {v}:
            back = idx.get((w, "Bwd", u, f))
            if back is None or expected_neighbors(snap, w, "Bwd", u, f) is None:
                continue
            if nbs.count(w) != back.count(v):
                return [f"duality: {w} occurs {nbs.count(w)}x in FORWARD neighbours of {v} but {v} occurs {back.count(v)}x in BACKWARD "
                        f"neighbours of {w} (unknown={u}, filter={f})"]
    return []


class QueryLeg(Leg):
    imports = Q.QIMPORTS
    checkfn = "qcheck"
    case_type = Q.QTYPE
    shard = 40

    def observe(self, case):
        return Q.build_and_query(case["ops"], case["queries"], caching=bool(case.get("caching")), warm=bool(case.get("warm", True)),
                                 then_ops=case.get("then_ops", ()))

    def term(self, case, obs):
        if obs is None:
            return None
        return Q.c_qcase(obs["snap"], case["queries"], obs["answers"])

    def model_value(self, case, obs):
        return "qanswers " + self.term(case, obs)

    def oracle(self, case, obs):
        if obs is None:
            return []
        m = judge(obs["snap"], case["queries"], obs["answers"]) or duality(obs["snap"], case["queries"], obs["answers"])
        if not obs["unchanged"]:
            m = m + ["a query changed the graph"]
        return m

    def shrink_candidates(self, case):
        qs = case["queries"]
        if len(qs) > 1:
            for i in range(len(qs)):
                yield {**case, "queries": [qs[i]]}
        for c in H.shrink_ops(case["ops"]):
            yield {**case, "ops": c}

    def stats(self, case, obs, acc):
        if obs is None:
            return
        acc["queries"] = acc.get("queries", 0) + len(case.get("queries", obs["answers"]))
        for a in obs["answers"]:
            k = a[0] if a[0] != "raise" else "raise:" + a[1]
            acc[k] = acc.get(k, 0) + 1


class Rows(QueryLeg):
    name = "rows"
    exhaustive = True
    rule = ("exhaustive one-link decision matrix: 5 link classes (DirectedEdge, UnDirectedEdge, a subclass of each, another "
            "TwoEndedLink class) x position of v (origin, destination, both) x link-id parity x 3 directions x 3 unknown modes x "
            "{no filter, accept, reject, by link, by other end, by both}; every row built as a real graph and asked of the "
            "implementation; non-trivial = all rows (each is a distinct decision)")
    quick_n = 30
    thorough_n = 30

    def generate(self, rng, n):
        for k, pos, par in itertools.product(H.LINK_KINDS, ("origin", "dest", "both"), (0, 1)):
            ops = [["NL", None, None]] * par + [["NV", False, [], []], ["NV", False, [], []]]
            a, b = par, par + 1
            if pos == "origin":
                ops.append(["NE", k, a, b])
            elif pos == "dest":
                ops.append(["NE", k, b, a])
            else:
                ops.append(["NE", k, a, a])
            queries = [["NB", a, d, u, f] for d in Q.DIRS for u in Q.UNKS for f in (None, 0, 1, 2, 3, 4)]
            yield {"ops": ops, "queries": queries}

    def nontrivial(self, case, obs):
        return True


class Multi(QueryLeg):
    name = "multi"
    rule = ("random mixed multigraphs (1-5 vertices, 0-7 links of the five classes, self-loops, parallel edges, some None ends and "
            "third members; in a third of the graphs most vertices are of a class whose instances all compare equal), every vertex asked under random direction x unknown x filter settings (incl. the FORWARD/BACKWARD "
            "pairs the duality oracle needs), neighbor caching on in half the cases (cold memos, or warm memos followed by link edits before the questions); order and repetition of the answer compared; non-trivial = some vertex has >=2 links")
    quick_n = 250
    thorough_n = 6000

    def generate(self, rng, n):
        for _ in range(n):
            # a third of the graphs have vertices that all compare EQUAL (class EqV): the far end is named by identity
            eqv = rng.random() < 0.33
            ops, vids, lids, uid = Q.gen_graph_ops(rng, universes=False, classes=[6, 6, 6, False, 2] if eqv else None)
            queries = []
            for _ in range(3):
                u = rng.choice(Q.UNKS)
                f = rng.choice([None, 0, 1, 2, 3, 4])
                for v in vids:
                    for d in Q.DIRS:
                        queries.append(["NB", v, d, u, f])
            # caching on in half the cases (cold memos: the rounds of queries above then meet each other's entries)
            case = {"ops": ops, "queries": queries, "caching": rng.random() < 0.5, "warm": False}
            if case["caching"] and lids and not eqv and rng.random() < 0.5:
                # ... or every memo warmed first and the links then edited (an end retargeted, an end dropped, a pair unlinked,
                # an edge added) before the questions: the answers are about the graph as it is now
                case["warm"] = True
                th = []
                for _ in range(rng.randint(1, 3)):
                    k = rng.random()
                    if k < 0.5:
                        th.append([rng.choice(["SV1", "SV2"]), rng.choice(lids), rng.choice(vids)])
                    elif k < 0.65:
                        th.append(["LUF", rng.choice(lids), rng.choice(vids)])
                    elif k < 0.8:
                        th.append(["UNL", rng.choice(vids), rng.choice(vids), True])
                    else:
                        th.append(["LFT", rng.choice(vids), rng.choice(["KDir", "KUnd"]), rng.choice(vids), False])
                case["then_ops"] = th
            yield case

    def nontrivial(self, case, obs):
        return obs is not None and any(len(x) >= 2 for x in obs["snap"]["vlinks"])


class C04(Prop):
    pid = "C04"
    legs = [Rows(), Multi()]
    assumptions = ["filters are pure functions of (link, other end) identity",
                   "a vertex listed by a link only beyond its first two ends, and links with fewer than two ends, are outside the "
                   "statement (modelled and tied, not judged by the oracle)"]

    def extra_obligations(self):
        # the translator obligations live in NbrsGen.v (compiled by the build); count them
        import re
        txt = (C.COQ / "NbrsGen.v").read_text()
        names = re.findall(r"^(?:Theorem|Corollary)\s+(\w+)", txt, re.M)
        ok = (C.COQ / "NbrsGen.vo").exists() and (C.COQ / "NbrsGen.vo").stat().st_mtime >= (C.COQ / "gen" / "GenNbrs.v").stat().st_mtime
        return len(names), (len(names) if ok else 0), {"file": "NbrsGen.v", "obligations": names, "discharged": ok}
