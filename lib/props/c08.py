"""C08 — each search returns the first match of its corresponding traversal, or None."""
from ..engine import Prop
from .. import travh as T


class SearchLeg(T.TravLeg):
    name = "search"
    search = True
    rule = ("state import: random mixed multigraphs with an attribute `k` on ~70% of the vertices drawn from a pool with equal-but-"
            "not-identical values (1, 1.0, True), duplicates, falsy and absent values; 30% of the graphs use a Vertex subclass whose "
            "truth value is False; bfs / dfs_recursive / dfs_iterative asked for present, absent and wrong-attribute values from 2 "
            "starts x {universe, None}; oracle = first match (hasattr and ==) in the implementation's own bft / dft_recursive / "
            "dft_iterative listing; non-trivial = some search found a vertex other than the start")
    quick_n = 300
    thorough_n = 5000

    def phase_oracle(self, case, obs):
        if not obs["unchanged"]:
            return ["a search changed the graph"]
        snap = obs["snap"]
        for q, a, x in zip(case["queries"], obs["answers"], obs["extra"]):
            t, uni, st, attr, val = q
            tr = x["trav"]
            if uni is not None and a[0] == "id" and a[1] not in snap["uverts"][uni]:
                return [f"{t}(uni={uni}, start={st}, ...) returned vertex {a[1]}, which is outside the universe (members {snap['uverts'][uni]})"]
            if uni is not None and snap["uverts"][uni] and st not in snap["uverts"][uni] and a[0] != "raise":
                return [f"{t}(uni={uni}, start={st}, ...) answered {a} although the start vertex is not a member of the universe "
                        f"(members {snap['uverts'][uni]}; documented: ValueError) - there is no listing from that start to be first in"]
            if tr[0] != "list":
                continue
            first = next((v for v in tr[1] if v is not None and x["m"][v]), None)
            if uni is not None and len(snap["uverts"][uni]) == 0 and t == "BFS":
                exp = ["none"]
            else:
                exp = ["none"] if first is None else ["id", first]
            if a != exp:
                return [f"{t}(uni={uni}, start={st}, {attr}=={T.VALUES[val]!r}) returned {a}; first match in the corresponding "
                        f"traversal {tr[1]} is {exp} (matching vertices {[i for i, b in enumerate(x['m']) if b]})"]
        return []

    def nontrivial(self, case, obs):
        return obs is not None and any(a[0] == "id" and a[1] != q[2] for q, a in zip(case["queries"], obs["answers"]))


class C08(Prop):
    pid = "C08"
    legs = [SearchLeg()]
    assumptions = ["dfs_recursive is exercised on graphs far below the interpreter's recursion limit",
                   "attribute values compare with == as Python does; the model abstracts the comparison into a per-vertex predicate "
                   "computed by the harness (hasattr and ==), so `is` vs `==` and truthiness defects surface as tie disagreements"]
