"""C15 — PyVis export: one node per member vertex, only real edges, correctly directed."""
from ..engine import Prop
from .. import structh as H
from .. import renderh as R


class PyvisLeg(R.RenderLeg):
    name = "pyvis"
    rule = ("state import: random universes inside a surrounding graph (self-loops, parallel edges, mixed directed / undirected / "
            "other classes, links leaving the universe, vertices carrying unrelated attributes incl. a stale `__make_pyvis_net_i`; in 2 of 5 cases "
            "the VSub vertices of the finished graph - members and outsiders - compare EQUAL to one another without being identical), "
            "make_pyvis_net with and without rvfunc and pyvis_render_customizable; nodes, labels and the edge list "
            "(from, to, arrows) compared with the model; oracle = the statement; non-trivial = a self-loop or parallel edge inside")
    quick_n = 200
    thorough_n = 5000

    def queries_for(self, rng, u):
        return [["PYVIS", u, True], ["PYVIS", u, False], ["PYVIS", u, True, True]]

    def generate(self, rng, n):
        for case in super().generate(rng, n):
            case["twins"] = rng.random() < 0.4      # every VSub vertex of the finished graph becomes value-equal to the others
            if case["twins"]:
                case.pop("ops2", None)              # no structure edits once twins exist: Universe.remove_vertex uses ==
            yield case

    def decorate(self, w, case):
        if case.get("twins"):
            # vertices that compare EQUAL without being identical (members and outsiders alike): the exporter names
            # vertices by identity; a look-alike outside the universe is no member, an equal member is another node
            for o in w.objs:
                if type(o) is H.VSub:
                    o.__class__ = H.TwinV
                    o.twin_key = 1
        # vertices (members and outsiders alike) may carry unrelated attributes, including one that happens to be
        # named like the exporter's former temporary index
        u = w.objs[case["queries"][0][1]]
        members = list(u.vertices)
        for i, o in enumerate(w.objs):
            if H.kind_of(o) in H.VERTEX_KINDS and i % 3 == 0:
                setattr(o, "__make_pyvis_net_i", 0 if not any(o is m for m in members) else "mine")

    def phase_oracle(self, case, obs):
        if not obs["unchanged"]:
            return ["make_pyvis_net changed the graph (attributes before/after differ)"]
        snap = obs["snap"]
        u = case["queries"][0][1]
        members = snap["uverts"][u]
        for q, a in zip(case["queries"], obs["answers"]):
            if a[0] == "net" and len(a) > 3 and set(a[3]) - ({"r"} if q[2] else {"v"}):
                return [f"labels {a[3]!r} of make_pyvis_net(rvfunc {'given' if q[2] else 'not given'}): "
                        f"{'not every label is the one rvfunc returns' if q[2] else 'a label is not the default one'}"]
            if a[0] != "net":
                continue
            nodes, edges = a[1], a[2]
            if [n[0] for n in nodes] != list(range(len(members))) or [n[1] for n in nodes] != members:
                return [f"nodes {nodes}, expected ids 0..{len(members) - 1} labelled by members {members}"]
            # every edge corresponds to a link between the two member vertices it joins
            links = [(l, snap["lverts"][l][:2], snap["kind"][l]) for l, k in enumerate(snap["kind"]) if k in H.LINK_KINDS and len(snap["lverts"][l]) >= 2]
            for (i, j, arr) in edges:
                a_, b_ = members[i], members[j]
                if arr:
                    if not any(k in ("KDir", "KDirSub") and ends == [a_, b_] for _, ends, k in links):
                        return [f"arrowed edge {i}->{j} but no directed link from vertex {a_} to vertex {b_}"]
                else:
                    if not any(k not in ("KDir", "KDirSub") and sorted(map(str, ends)) == sorted(map(str, [a_, b_])) for _, ends, k in links):
                        return [f"arrow-less edge {i}--{j} but no non-directed link between vertices {a_} and {b_}"]
            for _, ends, k in links:
                if ends[0] in members and ends[1] in members:
                    i, j = members.index(ends[0]), members.index(ends[1])
                    if k in ("KDir", "KDirSub"):
                        n_links = sum(1 for _, e2, k2 in links if k2 in ("KDir", "KDirSub") and e2 == ends)
                        n_edges = sum(1 for e in edges if e == [i, j, True])
                        if n_edges != n_links:
                            return [f"{n_links} directed links from vertex {ends[0]} to {ends[1]} but {n_edges} arrowed edges {i}->{j}"]
                    if not any({e[0], e[1]} == {i, j} for e in edges):
                        return [f"link between members {ends} (nodes {i},{j}) is not shown by any edge"]
        return []

    def nontrivial(self, case, obs):
        if obs is None:
            return False
        snap = obs["snap"]
        u = case["queries"][0][1]
        mem = snap["uverts"][u]
        inside = [tuple(v) for l, v in enumerate(snap["lverts"]) if len(v) == 2 and v[0] in mem and v[1] in mem]
        return any(a == b for a, b in inside) or len(set(inside)) != len(inside)


class C15(Prop):
    pid = "C15"
    legs = [PyvisLeg()]
    assumptions = ["pyvis.network.Network.add_node / add_edge (0.3.2) behave as transcribed in Render.v (modelled, validated by the tie)"]
