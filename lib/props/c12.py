"""C12 — containers handed out or taken in are snapshots; mutating them changes nothing."""
import types

from ..engine import Leg, Prop
from .. import common as C
from .. import structh as H
from .. import queryh as Q
from . import c05
from edgegraph.structure import Vertex, Universe, DirectedEdge, UnDirectedEdge
from edgegraph.structure.universe import UniverseLaws
from edgegraph.traversal import helpers, breadthfirst, depthfirst
from edgegraph.builder import adjlist, adjmatrix, explicit


# ---------------------------------------------------------------------------------------------
# leg 1: histories where the client edits the lists neighbors() returned (tie: the by-value model)
# ---------------------------------------------------------------------------------------------
EDITS = ["append", "clear", "pop", "reverse", "setitem", "extend"]


def apply_edit(lst, edit, junk):
    try:
        if edit == "append":
            lst.append(junk)
        elif edit == "clear":
            lst.clear()
        elif edit == "pop":
            lst.pop()
        elif edit == "reverse":
            lst.reverse()
        elif edit == "setitem":
            lst[0] = junk
        elif edit == "extend":
            lst.extend([junk, junk])
    except (IndexError, AttributeError, TypeError):
        pass


def execute_cm(ops):
    w = H.World()
    res = []
    returned = {}
    try:
        for i, op in enumerate(ops):
            if op[0] == "QNB":
                v = w.get(op[1], H.VERTEX_KINDS)

                def call():
                    return helpers.neighbors(v, direction_sensitive=Q.DIRC[op[2]], unknown_handling=Q.UNKC[op[3]],
                                             filterfunc=Q.std_filt(w, op[4]))
                try:
                    raw = call()
                    returned[i] = raw
                    out = ["list", [w.id_of(x) for x in raw]]
                except Exception as e:  # noqa: BLE001
                    out = ["raise", type(e).__name__]
                truth = c05.uncached(w, lambda: Q.run_query(w, ["NB"] + op[1:]))
                res.append({"out": out, "truth": truth, "snap": w.snapshot(), "flag": Vertex.NEIGHBOR_CACHING})
            elif op[0] == "CMUT":
                if op[1] in returned:
                    apply_edit(returned[op[1]], op[2], w.objs[0])
                res.append({"out": ["none"], "snap": w.snapshot(), "flag": Vertex.NEIGHBOR_CACHING})
            else:
                res.append({"out": w.do(op), "snap": w.snapshot(), "flag": Vertex.NEIGHBOR_CACHING})
    finally:
        w.close()
    return res


class ClientEdits(c05.CacheHistory):
    name = "clientedits"
    rule = ("C05-style lock-step histories (mutators, flag toggles, neighbors() queries over few keys) in which the client "
            "additionally edits lists that earlier neighbors() calls returned (append / clear / pop / reverse / item assignment / "
            "extend); the same history is run again with the edits erased and every later answer and snapshot must coincide (the "
            "statement of MemoAliasProofs.answers_independent_of_client_edits, on the implementation); non-trivial = an edited "
            "list's (vertex, key) is queried again with caching on")
    quick_n = 300
    thorough_n = 8000

    def generate(self, rng, n):
        for case in super().generate(rng, n):
            ops = []
            qidx = []
            for op in case["ops"]:
                if op[0] == "QTR":
                    continue
                ops.append(op)
                if op[0] == "QNB":
                    qidx.append(len(ops) - 1)
                    if rng.random() < 0.6:
                        ops.append(["CMUT", rng.choice(qidx), rng.choice(EDITS)])
                        if rng.random() < 0.7:
                            ops.append(list(op))        # ask the same key again right away
                            qidx.append(len(ops) - 1)
            yield {"ops": ops}

    imports = "From EG Require Import Base."
    checkfn = "(fun b : bool => b)"
    case_type = "bool"

    def observe(self, case):
        """the history as generated (with the client's edits) and the same history with the edits erased"""
        try:
            with_edits = execute_cm(case["ops"])
            erased = execute_cm([op if op[0] != "CMUT" else ["CMUT", -1, "none"] for op in case["ops"]])
        except H.CaseInvalid:
            return None
        return {"with": with_edits, "erased": erased}

    def oracle(self, case, obs):
        # C12 itself: editing a container handed out earlier changes no later answer and no part of the graph.
        # (Whether the answers are the RIGHT ones is C05's business: a stale memo is stale in both runs.)
        if obs is None:
            return []
        for i, (op, a, b) in enumerate(zip(case["ops"], obs["with"], obs["erased"])):
            if op[0] == "QNB" and a["out"] != b["out"]:
                return [f"step {i} {op} answered {a['out']} after the client edited a list it had been handed; the same history without "
                        f"the edits answers {b['out']}"]
            if a["snap"] != b["snap"]:
                return [f"step {i} {op}: the graph differs from the run without client edits"]
        return []

    def term(self, case, obs):
        return None if obs is None else "true"

    def model_value(self, case, obs):
        return None

    def stats(self, case, obs, acc):
        if obs is None:
            return
        for op in case["ops"]:
            acc.setdefault("ops", {})
            acc["ops"][op[0]] = acc["ops"].get(op[0], 0) + 1

    def nontrivial(self, case, obs):
        if obs is None:
            return False
        edited = set()
        ops = case["ops"]
        for i, op in enumerate(ops):
            if op[0] == "CMUT" and op[1] < len(ops):
                edited.add(tuple(ops[op[1]][1:]))
            elif op[0] == "QNB" and tuple(op[1:]) in edited and obs["with"][i]["flag"]:
                return True
        return False

    def shrink_candidates(self, case):
        ops = case["ops"]
        for i in range(len(ops) - 1, -1, -1):
            if ops[i][0] in ("CACHE",) or (ops[i][0] == "QNB" and not any(o[0] == "CMUT" and o[1] >= i for o in ops)):
                yield {"ops": ops[:i] + ops[i + 1:]}
            elif ops[i][0] == "CMUT":
                yield {"ops": ops[:i] + ops[i + 1:]}


# ---------------------------------------------------------------------------------------------
# leg 2: exhaustive accessor x edit matrix on the implementation
# ---------------------------------------------------------------------------------------------
def fixture():
    """a small graph touching every container: returns (world, dict of named objects)"""
    w = H.World()
    a, b, c = Vertex(), Vertex(), Vertex()
    e1 = DirectedEdge(a, b)
    e2 = UnDirectedEdge(b, c)
    e3 = DirectedEdge(a, a)
    e4 = H.Other(c, a)
    wl = {Vertex: {Vertex: DirectedEdge}}
    L = UniverseLaws(edge_whitelist=wl, mixed_links=True)
    u = Universe(vertices=[a, b, c], laws=L)
    # ... and every container in its EMPTY state: an isolated vertex, a link that lost both ends, a universe without members,
    # a law set with an empty whitelist
    iso, x, y = Vertex(), Vertex(), Vertex()
    e0 = DirectedEdge(x, y)
    explicit.unlink(x, y, destroy=False)
    u0 = Universe()
    L0 = UniverseLaws(edge_whitelist={})
    return w, {"a": a, "b": b, "c": c, "e1": e1, "e2": e2, "e3": e3, "e4": e4, "L": L, "u": u,
               "iso": iso, "e0": e0, "u0": u0, "L0": L0, "x": x, "y": y}


def full_view(w, o):
    """everything observable: snapshot + every accessor + a batch of queries (ids)"""
    ids = w.id_of
    view = {"snap": w.snapshot()}
    acc = {}
    for n in ("a", "b", "c", "u", "iso", "x", "y", "u0"):
        acc[n + ".links"] = [ids(x) for x in o[n].links]
        acc[n + ".universes"] = [ids(x) for x in o[n].universes]
    for n in ("e1", "e2", "e3", "e4", "e0"):
        acc[n + ".vertices"] = [ids(x) for x in o[n].vertices]
    acc["u.vertices"] = [ids(x) for x in o["u"].vertices]
    acc["u0.vertices"] = [ids(x) for x in o["u0"].vertices]
    for n in ("L", "L0"):
        wl = o[n].edge_whitelist
        acc[n + ".whitelist"] = None if wl is None else sorted((k.__name__, sorted((k2.__name__, v.__name__) for k2, v in d.items())) for k, d in wl.items())
    view["acc"] = acc
    qs = {}
    for n in ("iso", "x"):
        qs[f"nb {n}"] = Q.run_query(w, ["NB", ids(o[n]), "AnyDir", "UNb", None])
    for n in ("a", "b", "c"):
        for d in Q.DIRS:
            qs[f"nb {n} {d}"] = Q.run_query(w, ["NB", ids(o[n]), d, "UNb", None])
        for m in ("a", "b", "c"):
            qs[f"fl {n} {m}"] = Q.run_query(w, ["FL", ids(o[n]), ids(o[m]), False, "UNb", None])
        for t in ("BFT", "DFR", "DFI"):
            qs[f"{t} {n}"] = Q.run_query(w, [t, ids(o["u"]), ids(o[n]), "AnyDir", "UNb", None, None])
    view["q"] = qs
    return view


ACCESSORS = {
    "Vertex.links": lambda w, o: o["a"].links,
    "Link.vertices": lambda w, o: o["e1"].vertices,
    "Universe.vertices": lambda w, o: o["u"].vertices,
    "BaseObject.universes": lambda w, o: o["a"].universes,
    "UniverseLaws.edge_whitelist": lambda w, o: o["L"].edge_whitelist,
    "UniverseLaws.edge_whitelist[Vertex]": lambda w, o: o["L"].edge_whitelist[Vertex],
    "neighbors": lambda w, o: helpers.neighbors(o["a"], direction_sensitive=helpers.DIR_SENS_ANY, unknown_handling=helpers.LNK_UNKNOWN_NEIGHBOR),
    "neighbors(second call)": lambda w, o: (helpers.neighbors(o["a"], direction_sensitive=helpers.DIR_SENS_ANY, unknown_handling=helpers.LNK_UNKNOWN_NEIGHBOR),
                                            helpers.neighbors(o["a"], direction_sensitive=helpers.DIR_SENS_ANY, unknown_handling=helpers.LNK_UNKNOWN_NEIGHBOR))[1],
    "find_links": lambda w, o: helpers.find_links(o["a"], o["b"], direction_sensitive=False),
    "bft": lambda w, o: breadthfirst.bft(o["u"], o["a"], direction_sensitive=helpers.DIR_SENS_ANY, unknown_handling=helpers.LNK_UNKNOWN_NEIGHBOR),
    "dft_recursive": lambda w, o: depthfirst.dft_recursive(o["u"], o["a"], direction_sensitive=helpers.DIR_SENS_ANY, unknown_handling=helpers.LNK_UNKNOWN_NEIGHBOR),
    "dft_iterative": lambda w, o: depthfirst.dft_iterative(o["u"], o["a"], direction_sensitive=helpers.DIR_SENS_ANY, unknown_handling=helpers.LNK_UNKNOWN_NEIGHBOR),
    # the same accessors on EMPTY objects (an empty container is falsy: `x and f(x)`, `x or default` hand back x itself)
    "Vertex.links (empty)": lambda w, o: o["iso"].links,
    "Link.vertices (empty)": lambda w, o: o["e0"].vertices,
    "Universe.vertices (empty)": lambda w, o: o["u0"].vertices,
    "BaseObject.universes (empty)": lambda w, o: o["iso"].universes,
    "UniverseLaws.edge_whitelist (empty)": lambda w, o: o["L0"].edge_whitelist,
    "neighbors (empty)": lambda w, o: helpers.neighbors(o["iso"], direction_sensitive=helpers.DIR_SENS_ANY, unknown_handling=helpers.LNK_UNKNOWN_NEIGHBOR),
    "find_links (empty)": lambda w, o: helpers.find_links(o["iso"], o["a"], direction_sensitive=False),
}
CONTAINER_EDITS = ["append", "remove", "clear", "sort", "setitem", "add", "delitem", "update"]


def try_edit(cont, edit, junk):
    """returns 'refused' when the container is immutable for this edit, 'done' when it was edited, 'n/a' otherwise"""
    try:
        if edit == "append":
            cont.append(junk)
        elif edit == "remove":
            cont.remove(next(iter(cont)))
        elif edit == "clear":
            cont.clear()
        elif edit == "sort":
            cont.sort(key=id)
        elif edit == "setitem":
            if isinstance(cont, (dict, types.MappingProxyType)):
                cont[Universe] = junk
            else:
                cont[0] = junk
        elif edit == "add":
            cont.add(junk)
        elif edit == "delitem":
            if isinstance(cont, (dict, types.MappingProxyType)):
                del cont[next(iter(cont))]
            else:
                del cont[0]
        elif edit == "update":
            cont.update({Universe: junk}) if isinstance(cont, (dict, types.MappingProxyType)) else cont.update({junk})
        return "done"
    except (AttributeError, TypeError):
        return "refused"
    except (IndexError, KeyError, ValueError, StopIteration):
        return "n/a"


class AccessorMatrix(Leg):
    name = "accessors"
    imports = "From EG Require Import Base."
    checkfn = "(fun b : bool => b)"
    case_type = "bool"
    exhaustive = True
    rule = ("exhaustive matrix: 12 read accessors / queries (7 of them also on EMPTY objects) x 8 edit kinds (append, remove, clear, sort, item assignment, add, "
            "del item, update) x caching {off, on}: the edit is attempted on the returned container (an immutable one must refuse), "
            "then the whole snapshot, every accessor and a batch of queries must read as before; identity with private fields checked")
    quick_n = 304
    thorough_n = 304

    def generate(self, rng, n):
        for acc in ACCESSORS:
            for ed in CONTAINER_EDITS:
                for caching in (False, True):
                    yield {"accessor": acc, "edit": ed, "caching": caching}

    def observe(self, case):
        w, o = fixture()
        try:
            Vertex.NEIGHBOR_CACHING = case["caching"]
            before = full_view(w, o)
            cont = ACCESSORS[case["accessor"]](w, o)
            # every container the objects hold privately, whatever the fields are called (robust against renames):
            # the values of vars() of every fixture object, one level into dicts
            private = []
            for obj in o.values():
                if hasattr(obj, "__dict__"):
                    for val in vars(obj).values():
                        if isinstance(val, (list, dict, set)):
                            private.append(val)
                            if isinstance(val, dict):
                                private += [x for x in val.values() if isinstance(x, (list, dict, set))]
            alias = any(cont is p for p in private)
            # the result of a LATER call, held while the first result is edited: it must not follow the edit
            cont2 = ACCESSORS[case["accessor"]](w, o)
            shape2 = _shape(cont2)
            junk = Vertex()
            how = try_edit(cont, case["edit"], junk)
            twin = how == "done" and _shape(cont2) != shape2
            after = full_view(w, o)
            # drop the junk vertex from the comparison (it is a new object, allocated after `before`)
            n = len(before["snap"]["kind"])
            after["snap"] = {k: v[:n] for k, v in after["snap"].items()}
            return {"how": how, "alias": alias, "twin": twin, "same": before == after, "type": type(cont).__name__,
                    "diff": None if before == after else _first_diff(before, after)}
        finally:
            w.close()

    def oracle(self, case, obs):
        m = []
        if obs["alias"]:
            m.append(f"{case['accessor']} returned a private container object itself (caching={case['caching']})")
        if obs.get("twin"):
            m.append(f"editing ({case['edit']}) the {obs['type']} returned by {case['accessor']} changed the container returned by a "
                     f"second call of the same accessor (caching={case['caching']}): the two calls share one object")
        if not obs["same"]:
            m.append(f"editing ({case['edit']}: {obs['how']}) the {obs['type']} returned by {case['accessor']} changed later reads "
                     f"(caching={case['caching']}): {obs['diff']}")
        return m

    def term(self, case, obs):
        return "true"

    def stats(self, case, obs, acc):
        acc[obs["how"]] = acc.get(obs["how"], 0) + 1
        acc.setdefault("container_types", {})
        acc["container_types"][obs["type"]] = acc["container_types"].get(obs["type"], 0) + 1


def _first_diff(a, b, path=""):
    if isinstance(a, dict) and isinstance(b, dict):
        for k in a:
            if a[k] != b.get(k):
                return _first_diff(a[k], b.get(k), path + "/" + str(k))
    return f"{path}: {a} -> {b}"


def _shape(c):
    """contents of a container by identity of its elements (nested for mappings)"""
    if isinstance(c, (dict, types.MappingProxyType)):
        return ("map", tuple((id(k), _shape(v)) for k, v in c.items()))
    if isinstance(c, (set, frozenset)):
        return ("set", tuple(sorted(id(x) for x in c)))
    if isinstance(c, (list, tuple)):
        return ("seq", tuple(id(x) for x in c))
    return ("atom", id(c))


# ---------------------------------------------------------------------------------------------
# leg 3: containers passed to constructors and builders
# ---------------------------------------------------------------------------------------------
def _inputs():
    def vertex_links(w):
        a, b = Vertex(), Vertex()
        e = DirectedEdge(a, b)
        lst = [e]
        v = Vertex(links=lst)
        return lst, lambda: (lst.clear(), lst.append(None))

    def vertex_universes(w):
        u = Universe()
        lst = [u]
        v = Vertex(universes=lst)
        return lst, lambda: lst.clear()

    def vertex_attributes(w):
        d = {"k": 1}
        v = Vertex(attributes=d)
        w.extra = lambda: {"k": getattr(v, "k", None), "x": hasattr(v, "x")}
        return d, lambda: (d.update(k=2, x=3))

    def universe_vertices(w):
        a, b = Vertex(), Vertex()
        lst = [a, b]
        u = Universe(vertices=lst)
        return lst, lambda: (lst.reverse(), lst.pop())

    def laws_whitelist(w):
        wl = {Vertex: {Vertex: DirectedEdge}}
        L = UniverseLaws(edge_whitelist=wl)
        w.extra = lambda: sorted((k.__name__, sorted((k2.__name__, v.__name__) for k2, v in d.items())) for k, d in L.edge_whitelist.items())
        return wl, lambda: (wl[Vertex].update({Universe: UnDirectedEdge}), wl.update({Universe: {}}))

    def laws_whitelist_inner_clear(w):
        wl = {Vertex: {Vertex: DirectedEdge}}
        L = UniverseLaws(edge_whitelist=wl)
        w.extra = lambda: sorted((k.__name__, sorted((k2.__name__, v.__name__) for k2, v in d.items())) for k, d in L.edge_whitelist.items())
        return wl, lambda: wl[Vertex].clear()

    def adj_dict(w):
        a, b, c = Vertex(), Vertex(), Vertex()
        adj = {a: [b, c], b: [c], c: []}
        u = adjlist.load_adj_dict(adj)
        return adj, lambda: (adj[a].append(a), adj[b].clear(), adj.pop(c))

    def adj_matrix(w):
        vs = [Vertex(), Vertex(), Vertex()]
        m = [[0, 1, 0], [0, 0, 1], [1, 0, 0]]
        u = adjmatrix.load_adj_matrix(m, vs)
        return m, lambda: (m[0].__setitem__(0, 1), m.pop(), vs.reverse(), vs.pop())
    def link_vertices(w):
        # the n-ary base class of all links, as a user subclass: Link(vertices=[...])
        from edgegraph.structure.link import Link

        class Hyper(Link):
            pass
        a, b, c, d = Vertex(), Vertex(), Vertex(), Vertex()
        lst = [a, b, c]
        h = Hyper(vertices=lst)
        w.extra = lambda: [w.id_of(x) for x in h.vertices]
        return lst, lambda: (lst.append(d), lst.reverse())

    def link_vertices_written_back(w):
        # ... and the other direction: editing the LINK must not edit the list the caller passed
        from edgegraph.structure.link import Link

        class Hyper(Link):
            pass
        a, b, c = Vertex(), Vertex(), Vertex()
        lst = [a, b]
        h = Hyper(vertices=lst)
        w.extra = lambda: [w.id_of(x) for x in lst]
        w.extra_only = True          # the link is edited on purpose: only the caller's list is compared
        return lst, lambda: (h.add_vertex(c), h.unlink_from(a))

    def edge_attributes(w):
        a, b = Vertex(), Vertex()
        d = {"w": 1}
        e = DirectedEdge(a, b, attributes=d)
        w.extra = lambda: {"w": getattr(e, "w", None), "x": hasattr(e, "x")}
        return d, lambda: d.update(w=2, x=3)

    # ---- the same arguments passed EMPTY and filled by the caller afterwards (an empty container is falsy: `if arg:` is not
    # `if arg is not None:`)
    def vertex_links_empty(w):
        a, b = Vertex(), Vertex()
        e = DirectedEdge(a, b)
        lst = []
        v = Vertex(links=lst)
        w.extra = lambda: [w.id_of(x) for x in v.links]
        return lst, lambda: lst.append(e)

    def vertex_universes_empty(w):
        u = Universe()
        lst = []
        v = Vertex(universes=lst)
        w.extra = lambda: [w.id_of(x) for x in v.universes]
        return lst, lambda: lst.append(u)

    def vertex_attributes_empty(w):
        d = {}
        v = Vertex(attributes=d)
        w.extra = lambda: hasattr(v, "x")
        return d, lambda: d.update(x=3)

    def universe_vertices_empty(w):
        a = Vertex()
        lst = []
        u = Universe(vertices=lst)
        w.extra = lambda: [w.id_of(x) for x in u.vertices]
        return lst, lambda: lst.append(a)

    def laws_whitelist_empty(w):
        wl = {}
        L = UniverseLaws(edge_whitelist=wl)
        u = Universe(laws=L)
        w.extra = lambda: [sorted((k.__name__, sorted((k2.__name__, v.__name__) for k2, v in d.items())) for k, d in x.edge_whitelist.items())
                           for x in (L, u.laws)]
        return wl, lambda: wl.update({Vertex: {Vertex: DirectedEdge}})

    def adj_dict_empty(w):
        a, b = Vertex(), Vertex()
        adj = {}
        u = adjlist.load_adj_dict(adj)
        w.extra = lambda: [w.id_of(x) for x in u.vertices]
        return adj, lambda: adj.update({a: [b], b: []})

    def adj_dict_empty_rows(w):
        a, b = Vertex(), Vertex()
        adj = {a: [], b: []}
        u = adjlist.load_adj_dict(adj)
        w.extra = lambda: [[w.id_of(x) for x in helpers.neighbors(v)] for v in u.vertices]
        return adj, lambda: (adj[a].append(b), adj[b].append(b))

    def adj_matrix_empty(w):
        a = Vertex()
        vs, m = [], []
        u = adjmatrix.load_adj_matrix(m, vs)
        w.extra = lambda: [w.id_of(x) for x in u.vertices]
        return m, lambda: (m.append([1]), vs.append(a))

    def link_vertices_empty(w):
        from edgegraph.structure.link import Link

        class Hyper(Link):
            pass
        a = Vertex()
        lst = []
        h = Hyper(vertices=lst)
        w.extra = lambda: [w.id_of(x) for x in h.vertices]
        return lst, lambda: lst.append(a)

    def edge_attributes_empty(w):
        a, b = Vertex(), Vertex()
        d = {}
        e = DirectedEdge(a, b, attributes=d)
        w.extra = lambda: hasattr(e, "x")
        return d, lambda: d.update(x=3)
    return {f.__name__: f for f in (vertex_links, vertex_universes, vertex_attributes, universe_vertices, laws_whitelist,
                                    laws_whitelist_inner_clear, adj_dict, adj_matrix, link_vertices, link_vertices_written_back,
                                    edge_attributes, vertex_links_empty, vertex_universes_empty, vertex_attributes_empty,
                                    universe_vertices_empty, laws_whitelist_empty, adj_dict_empty, adj_dict_empty_rows,
                                    adj_matrix_empty, link_vertices_empty, edge_attributes_empty)}


class InputContainers(Leg):
    name = "inputs"
    imports = "From EG Require Import Base."
    checkfn = "(fun b : bool => b)"
    case_type = "bool"
    exhaustive = True
    rule = ("every constructor / builder container argument (links=, universes=, attributes=, vertices=, edge_whitelist= at both "
            "levels, adjacency dict, adjacency matrix and side array): the caller edits it after construction; the built objects' "
            "snapshot and read-back must not change; each argument also passed EMPTY and filled afterwards; caching off and on")
    quick_n = 42
    thorough_n = 42

    def generate(self, rng, n):
        for name in _inputs():
            for caching in (False, True):
                yield {"input": name, "caching": caching}

    def observe(self, case):
        w = H.World()
        try:
            Vertex.NEIGHBOR_CACHING = case["caching"]
            w.extra = lambda: None
            cont, mutate = _inputs()[case["input"]](w)
            only = w.__dict__.get("extra_only")
            before = (None if only else w.snapshot(), w.extra())
            kept = any(cont is val for o in w.objs if hasattr(o, "__dict__") for val in vars(o).values())
            mutate()
            after = (None if only else w.snapshot(), w.extra())
            return {"same": before == after, "kept": kept, "diff": None if before == after else _first_diff({"s": before[0], "x": before[1]}, {"s": after[0], "x": after[1]})}
        finally:
            w.close()

    def oracle(self, case, obs):
        m = []
        if obs["kept"]:
            m.append(f"the object built from {case['input']} keeps the caller's container itself")
        if not obs["same"]:
            m.append(f"mutating the container passed as {case['input']} changed the built objects: {obs['diff']}")
        return m

    def term(self, case, obs):
        return "true"


# ---------------------------------------------------------------------------------------------
# leg 4: containers kept in fields, taken in and handed out (tie: FieldAlias.v)
# ---------------------------------------------------------------------------------------------
POOL = 6
FIELD_KINDS = ["U", "L", "VU", "VL"]


def _field_api(kind):
    """pool of element objects + (construct from a container, accessor, library add, library remove) of one field kind"""
    from edgegraph.structure import Link
    if kind == "U":        # Universe.vertices
        pool = [Vertex() for _ in range(POOL)]
        return pool, (lambda c: Universe(vertices=c)), (lambda o: o.vertices), (lambda o, x: o.add_vertex(x)), (lambda o, x: o.remove_vertex(x))
    if kind == "L":        # Link.vertices
        pool = [Vertex() for _ in range(POOL)]
        return pool, (lambda c: Link(vertices=c, _force_creation=True)), (lambda o: o.vertices), (lambda o, x: o.add_vertex(x)), (lambda o, x: o.unlink_from(x))
    if kind == "VU":       # Vertex.universes
        pool = [Universe() for _ in range(POOL)]
        return pool, (lambda c: Vertex(universes=c)), (lambda o: o.universes), (lambda o, x: o.add_to_universe(x)), (lambda o, x: o.remove_from_universe(x))
    pool = [Link(_force_creation=True) for _ in range(POOL)]          # Vertex.links
    return pool, (lambda c: Vertex(links=c)), (lambda o: o.links), (lambda o, x: o.add_to_link(x)), (lambda o, x: o.remove_from_link(x))


def _spec_run(ops):
    """value-only specification (mirror of FieldAlias.sstep): the answers of the FRead steps"""
    client, owned, fields, ans = [], set(), [], []
    for op in ops:
        a = None
        if op[0] == "FAlloc":
            owned.add(len(client))
            client.append(list(op[1]))
        elif op[0] == "FNew":
            if op[1] in owned:
                fields.append(list(client[op[1]]))
                client.append([])
        elif op[0] == "FRead":
            if op[1] < len(fields):
                a = list(fields[op[1]])
                owned.add(len(client))
                client.append(list(a))
        elif op[0] == "FLibAdd":
            if op[1] < len(fields):
                fields[op[1]].append(op[2])
        elif op[0] == "FLibDel":
            if op[1] < len(fields) and op[2] in fields[op[1]]:
                fields[op[1]].remove(op[2])
        elif op[0] == "FClient":
            if op[1] in owned:
                client[op[1]] = list(op[2])
        ans.append(a)
    return ans


class FieldHistory(Leg):
    name = "fieldalias"
    imports = "From EG Require Import Base FieldAlias."
    checkfn = "fcheck"
    case_type = "(list fop * list (option (list nat)))%type"
    rule = ("lock-step histories over one kind of container field (Universe.vertices, Link.vertices, Vertex.universes, Vertex.links): "
            "the client builds lists, constructs objects from them (vertices= / universes= / links=), reads the accessor, the library "
            "mutates the field (add / remove through the public mutators) and the client overwrites ANY list it ever held - its own, "
            "one it passed to a constructor, one an accessor handed it (immutable containers refuse, which the term records as no "
            "edit); every accessor answer is compared with FieldAlias.fanswers (copying model, proved equal to the value-only "
            "specification) and, as the oracle, with the value-only specification itself; non-trivial = a list is edited after it "
            "was passed in or handed out and the field is read afterwards")
    quick_n = 300
    thorough_n = 6000

    def generate(self, rng, n):
        for _ in range(n):
            kind = rng.choice(FIELD_KINDS)
            ops, client, owned, fields = [], [], [], []
            for _ in range(rng.randint(4, 18)):
                r = rng.random()
                if r < 0.15 or not owned:
                    xs = rng.sample(range(POOL), rng.randint(0, 3))
                    ops.append(["FAlloc", xs]); owned.append(len(client)); client.append(list(xs))
                elif r < 0.30:
                    loc = rng.choice(owned)
                    ops.append(["FNew", loc]); fields.append(list(client[loc])); client.append([])
                elif r < 0.55 and fields:
                    f = rng.randrange(len(fields))
                    ops.append(["FRead", f]); owned.append(len(client)); client.append(list(fields[f]))
                elif r < 0.67 and fields:
                    f = rng.randrange(len(fields))
                    absent = [x for x in range(POOL) if x not in fields[f]]
                    if absent:
                        x = rng.choice(absent)
                        ops.append(["FLibAdd", f, x]); fields[f].append(x)
                elif r < 0.75 and fields:
                    f = rng.randrange(len(fields))
                    if fields[f]:
                        x = rng.choice(fields[f])
                        ops.append(["FLibDel", f, x]); fields[f].remove(x)
                else:
                    loc = rng.choice(owned)
                    xs = rng.sample(range(POOL), rng.randint(0, 4))
                    ops.append(["FClient", loc, xs]); client[loc] = list(xs)
            yield {"kind": kind, "ops": ops}

    def observe(self, case):
        """runs the history on the library; returns the ops as they took effect (an edit an immutable container refused is
        recorded as an edit of no owned location) and the accessor answers"""
        caching = Vertex.NEIGHBOR_CACHING
        try:
            pool, make, read, add, rem = _field_api(case["kind"])
            ident = {id(x): i for i, x in enumerate(pool)}
            conts, objs, eff, ans = {}, [], [], []
            nloc = 0
            for op in case["ops"]:
                a = None
                try:
                    if op[0] == "FAlloc":
                        conts[nloc] = [pool[i] for i in op[1]]
                        nloc += 1
                    elif op[0] == "FNew":
                        if op[1] in conts:
                            nloc += 1                      # the library's own copy: no handle for the client
                            objs.append(None)
                            objs[-1] = make(conts[op[1]])
                    elif op[0] == "FRead":
                        if op[1] < len(objs):
                            got = read(objs[op[1]])
                            a = [ident.get(id(x), 99) for x in got]
                            conts[nloc] = got
                            nloc += 1
                    elif op[0] == "FLibAdd":
                        if op[1] < len(objs):
                            add(objs[op[1]], pool[op[2]])
                    elif op[0] == "FLibDel":
                        if op[1] < len(objs):
                            rem(objs[op[1]], pool[op[2]])
                    elif op[0] == "FClient":
                        if op[1] in conts:
                            try:
                                conts[op[1]][:] = [pool[i] for i in op[2]]
                            except TypeError:
                                op = ["FClient", 9999, op[2]]      # immutable: the client cannot edit it
                except Exception:  # noqa: BLE001 - a library call of a well-formed history raised: no answer the model can give
                    a = [98]
                eff.append(op)
                ans.append(a)
            return {"eff": eff, "answers": ans}
        finally:
            Vertex.NEIGHBOR_CACHING = caching

    def oracle(self, case, obs):
        want = _spec_run(obs["eff"])
        for i, (op, a, b) in enumerate(zip(obs["eff"], obs["answers"], want)):
            if a != b:
                return [f"{case['kind']} field: step {i} {op} answered {a}; by the library's own mutations alone the field holds {b} "
                        f"(a list the client held and edited is the field's own list, or the constructor kept the caller's list)"]
        return []

    def _ops_term(self, ops):
        def one(op):
            if op[0] == "FAlloc":
                return f"FAlloc {C.clist(op[1])}"
            if op[0] == "FClient":
                return f"FClient {C.cnat(op[1])} {C.clist(op[2])}"
            return op[0] + " " + " ".join(C.cnat(x) for x in op[1:])
        return C.clist(ops, one)

    def term(self, case, obs):
        answers = C.clist(obs["answers"], lambda a: C.copt(a, lambda xs: C.clist(xs)))
        return f"({self._ops_term(obs['eff'])}, {answers})"

    def model_value(self, case, obs):
        return f"(fanswers true true finit {self._ops_term(obs['eff'])})"

    def stats(self, case, obs, acc):
        acc.setdefault("kinds", {})
        acc["kinds"][case["kind"]] = acc["kinds"].get(case["kind"], 0) + 1
        acc.setdefault("ops", {})
        for op in obs["eff"]:
            k = op[0] if not (op[0] == "FClient" and op[1] == 9999) else "FClient(refused: immutable)"
            acc["ops"][k] = acc["ops"].get(k, 0) + 1

    def nontrivial(self, case, obs):
        exposed, edited = set(), False
        nloc = 0
        for op in obs["eff"]:
            if op[0] == "FAlloc":
                nloc += 1
            elif op[0] == "FNew":
                exposed.add(op[1]); nloc += 1
            elif op[0] == "FRead":
                if edited:
                    return True
                exposed.add(nloc); nloc += 1
            elif op[0] == "FClient" and op[1] in exposed:
                edited = True
        return False

    def shrink_candidates(self, case):
        ops = case["ops"]
        for i in range(len(ops) - 1, -1, -1):
            if ops[i][0] in ("FClient", "FLibAdd", "FLibDel"):
                yield {"kind": case["kind"], "ops": ops[:i] + ops[i + 1:]}



class C12(Prop):
    pid = "C12"
    legs = [ClientEdits(), AccessorMatrix(), InputContainers(), FieldHistory()]
    assumptions = ["the Coq model gives object identity to the memo of neighbors() answers (MemoAlias.v) and to the list fields taken in "
                   "by constructors and handed out by accessors (FieldAlias.v: Universe.vertices, Link.vertices, Vertex.universes, "
                   "Vertex.links); that the remaining containers (edge_whitelist proxy, attributes=, adjacency inputs, find_links / "
                   "traversal results) are detached is decided by the exhaustive accessor x edit and input matrices on the "
                   "implementation, not by a theorem"]
