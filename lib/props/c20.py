"""C20 — randgraph always returns a universe of exactly `count` well-formed vertices."""
from ..engine import Leg, Prop
from .. import common as C
from .. import structh as H
from .. import queryh as Q

CONNS = [None, 0.0, 0.3, 1.0, 0.5, 0.77]


def draws_to_model(draws, count):
    """pair each randint with the sample that follows it"""
    out = []
    i = 0
    while i + 1 < len(draws) + 1 and i < len(draws):
        if draws[i][0] != "randint" or i + 1 >= len(draws) or draws[i + 1][0] != "sample":
            return None
        out.append((draws[i], draws[i + 1]))
        i += 2
    return out


class RandGraph(Leg):
    name = "randgraph"
    imports = "From EG Require Import Base State Nbrs Struct StructCheck Builders BuildersCheck."
    checkfn = "bcheck"
    case_type = "list (bop * (outcome * state))"
    rule = ("randgraph(count, edge, connectivity, ensurelink) under a seeded `random`, counts 1-12 (1-5 over-represented, where the "
            "default connectivity 5/count exceeds 1), all five link classes, connectivity in {default, 0, 0.3, 0.5, 0.77, 1}, both "
            "ensurelink values; random.randint / random.sample are wrapped to record the draws, which are replayed into the model; "
            "oracle: never raises, exactly count members carrying i = 0..count-1, links of the requested class inside the universe, "
            "ensurelink => every vertex is v1 of a link, same seed twice => same graph; non-trivial = count <= 5 or ensurelink with "
            "connectivity 0")
    quick_n = 300
    thorough_n = 6000
    shard = 40

    def generate(self, rng, n):
        for _ in range(n):
            count = rng.choice([1, 1, 2, 2, 3, 3, 4, 5, 5, 6, 8, 12])
            yield {"count": count, "k": rng.choice(H.LINK_KINDS), "conn": rng.choice(CONNS), "ens": rng.random() < 0.6,
                   "seed": rng.randrange(10 ** 6), "pre": rng.randint(0, 2)}

    def _ops(self, case):
        return [["NV", False, [], []]] * case["pre"] + [["RG", case["count"], case["k"], case["conn"], case["ens"], case["seed"]]]

    def observe(self, case):
        w = H.World()
        try:
            ops = self._ops(case)
            res = []
            for op in ops:
                out = w.do(op)
                res.append({"out": out, "snap": w.snapshot()})
            draws = getattr(w, "last_draws", [])
            attrs = [getattr(o, "i", None) for o in w.objs]
        finally:
            w.close()
        # same seed again
        w2 = H.World()
        try:
            for op in ops:
                out2 = w2.do(op)
            snap2 = w2.snapshot()
        finally:
            w2.close()
        return {"res": res, "draws": draws, "attrs": attrs, "again_same": snap2 == res[-1]["snap"] and out2 == res[-1]["out"]}

    def oracle(self, case, obs):
        r = obs["res"][-1]
        out, snap = r["out"], r["snap"]
        count, pre = case["count"], case["pre"]
        if out[0] != "id":
            return [f"randgraph(count={count}, {case['k']}, connectivity={case['conn']}, ensurelink={case['ens']}) [seed {case['seed']}] "
                    f"returned {out}"]
        u = out[1]
        verts = list(range(pre, pre + count))
        if snap["kind"][u] != "KUniverse" or sorted(snap["uverts"][u]) != verts or len(snap["uverts"][u]) != count:
            return [f"universe members {snap['uverts'][u]}, expected exactly the {count} new vertices {verts}"]
        if [obs["attrs"][v] for v in verts] != list(range(count)):
            return [f"vertices carry i = {[obs['attrs'][v] for v in verts]}, expected 0..{count - 1}"]
        for l, k in enumerate(snap["kind"]):
            if k in H.LINK_KINDS:
                if k != case["k"]:
                    return [f"link {l} is of class {k}, requested {case['k']}"]
                if len(snap["lverts"][l]) != 2 or any(e not in verts for e in snap["lverts"][l]):
                    return [f"link {l} has ends {snap['lverts'][l]} not both inside the universe"]
        if case["ens"]:
            for v in verts:
                if not any(snap["kind"][l] in H.LINK_KINDS and snap["lverts"][l][:1] == [v] for l in range(len(snap["kind"]))):
                    return [f"ensurelink: vertex {v} is not the first end of any link"]
        if not obs["again_same"]:
            return ["seeding the random module did not make the result reproducible"]
        return []

    def term(self, case, obs):
        count = case["count"]
        pairs = draws_to_model(obs["draws"], count)
        conn = case["conn"] if case["conn"] is not None else 5 / count
        scale = [int(r * conn) for r in range(0, max(2, count) + 2)]
        items = []
        ops = self._ops(case)
        for op, r in zip(ops, obs["res"]):
            if op[0] == "RG":
                if pairs is None or len(pairs) != count or any(p[0][1] != 1 or p[0][2] != max(1, i) or p[1][1] != count
                                                                 for i, p in enumerate(pairs)):
                    # the calls made to `random` are not the ones the model describes
                    dr = "[]" if pairs is None else C.clist([f"({p[0][3]}, {H.c_ids(p[1][3])})" for p in pairs], str)
                    b = f"BRand {count + 1000} {case['k']} {H.c_ids(scale)} {C.cbool(case['ens'])} {dr}"
                else:
                    dr = C.clist([f"({p[0][3]}, {H.c_ids(p[1][3])})" for p in pairs], str)
                    b = f"BRand {count} {case['k']} {H.c_ids(scale)} {C.cbool(case['ens'])} {dr}"
            else:
                b = f"BStep ({H.c_op(op)})"
            items.append(f"({b}, ({H.c_outcome(r['out'])}, {H.c_state(r['snap'])}))")
        return C.clist(items, str)

    def nontrivial(self, case, obs):
        return case["count"] <= 5 or (case["ens"] and case["conn"] == 0.0)

    def stats(self, case, obs, acc):
        acc.setdefault("counts", {})
        acc["counts"][str(case["count"])] = acc["counts"].get(str(case["count"]), 0) + 1
        acc["raised"] = acc.get("raised", 0) + int(obs["res"][-1]["out"][0] == "raise")
        acc["links_created"] = acc.get("links_created", 0) + sum(1 for k in obs["res"][-1]["snap"]["kind"] if k in H.LINK_KINDS)


class C20(Prop):
    pid = "C20"
    legs = [RandGraph()]
    assumptions = ["the `random` module honours its contract (randint within bounds; sample returns k distinct members, raises ValueError "
                   "when k exceeds the population)", "int(r * connectivity) is computed by the harness with the same float expression "
                   "and handed to the model as a table (the only float operation in the repository)"]
