"""C02 — universe membership symmetric, ordered, duplicate-free after every history."""
from ..engine import Leg, Prop
from .. import structh as H

W_UNIS = {"NV": 4, "NU": 3, "UAV": 5, "URV": 5, "VAU": 5, "VRU": 5, "NE": 0.4, "SL": 0.2, "CLONE": 0.8}


def member_violations(snap):
    msgs = []
    ks = snap["kind"]
    for x, k in enumerate(ks):
        if len(set(snap["vunis"][x])) != len(snap["vunis"][x]):
            msgs.append(f"object {x} lists a universe twice: universes={snap['vunis'][x]}")
        if k == "KUniverse" and len(set(snap["uverts"][x])) != len(snap["uverts"][x]):
            msgs.append(f"universe {x} lists a vertex twice: vertices={snap['uverts'][x]}")
    for u, k in enumerate(ks):
        if k != "KUniverse":
            continue
        for v, kv in enumerate(ks):
            if kv not in H.VERTEX_KINDS:
                continue
            a = v in snap["uverts"][u]
            b = u in snap["vunis"][v]
            if a != b:
                msgs.append(f"asymmetric: vertex {v} in vertices(universe {u}) = {a}, universe {u} in universes(vertex {v}) = {b}")
    return msgs


class UniHistory(Leg):
    name = "unihist"
    imports = H.HIST_IMPORTS
    checkfn = "scheck MUnis"
    case_type = H.HIST_TYPE
    rule = ("lock-step histories (4-18 calls) of Universe.add_vertex/remove_vertex, Vertex.add_to_universe/remove_from_universe, "
            "Vertex(universes=[..dups..]) and Universe(vertices=[..dups..]) over <=6 vertices and <=3 universes; universes are "
            "vertices, so nested and self-member universes arise; removal of non-members included; non-trivial = a universe is a "
            "member of a universe, or a call raised, or a member was removed and re-added; distinct = distinct op list")
    quick_n = 500
    thorough_n = 12000
    shard = 60

    def generate(self, rng, n):
        for _ in range(n):
            yield {"ops": H.gen_history(rng, W_UNIS, rng.randint(4, 18), [["NU", [], None], ["NV", False, [], []]])}

    def observe(self, case):
        try:
            return H.execute(case["ops"])
        except H.CaseInvalid:
            return None

    def oracle(self, case, obs):
        if obs is None:
            return []
        m = H.clone_violations(case["ops"], obs)
        if m:
            return m
        prev = None
        for i, (op, r) in enumerate(zip(case["ops"], obs)):
            snap = r["snap"]
            m = member_violations(snap)
            if m:
                return [f"after call {i} {op}: " + m[0]] + m[1:3]
            if prev is not None:
                # order / frame / error rules of the four membership calls, judged on the implementation
                if op[0] in ("UAV", "VAU"):
                    u, v = (op[1], op[2]) if op[0] == "UAV" else (op[2], op[1])
                    was = v in prev["uverts"][u]
                    exp_uv = prev["uverts"][u] if was else prev["uverts"][u] + [v]
                    exp_vu = prev["vunis"][v] if was else prev["vunis"][v] + [u]
                    if r["out"] != ["none"] or snap["uverts"][u] != exp_uv or snap["vunis"][v] != exp_vu:
                        return [f"call {i} {op}: expected vertices({u})={exp_uv}, universes({v})={exp_vu}; "
                                f"got {snap['uverts'][u]}, {snap['vunis'][v]}, outcome {r['out']}"]
                if op[0] in ("URV", "VRU"):
                    u, v = (op[1], op[2]) if op[0] == "URV" else (op[2], op[1])
                    was = v in prev["uverts"][u]
                    if not was:
                        if r["out"] != ["raise", "ValueError"] or snap["uverts"] != prev["uverts"] or snap["vunis"] != prev["vunis"]:
                            return [f"call {i} {op}: removing a non-member must raise ValueError and change nothing; got {r['out']}"]
                    else:
                        e1 = list(prev["uverts"][u]); e1.remove(v)
                        e2 = list(prev["vunis"][v]); e2.remove(u)
                        if r["out"] != ["none"] or snap["uverts"][u] != e1 or snap["vunis"][v] != e2:
                            return [f"call {i} {op}: expected vertices({u})={e1}, universes({v})={e2}; got {snap['uverts'][u]}, {snap['vunis'][v]}, {r['out']}"]
                if op[0] in ("UAV", "VAU", "URV", "VRU"):
                    u, v = (op[1], op[2]) if op[0] in ("UAV", "URV") else (op[2], op[1])
                    for x in range(len(prev["kind"])):
                        if x != u and snap["uverts"][x] != prev["uverts"][x]:
                            return [f"call {i} {op} changed vertices of universe {x}"]
                        if x != v and snap["vunis"][x] != prev["vunis"][x]:
                            return [f"call {i} {op} changed universes of object {x}"]
            prev = snap
        return []

    def term(self, case, obs):
        if obs is None:
            return None
        return H.c_history(case["ops"], obs)

    def model_value(self, case, obs):
        return "transcript empty " + H.C.clist([H.c_op(o) for o in case["ops"]], str)

    def nontrivial(self, case, obs):
        if obs is None:
            return False
        for r in obs:
            if r["out"][0] == "raise":
                return True
            snap = r["snap"]
            for u, k in enumerate(snap["kind"]):
                if k == "KUniverse" and any(snap["kind"][m] == "KUniverse" for m in snap["uverts"][u] if m < len(snap["kind"])):
                    return True
        return False

    def shrink_candidates(self, case):
        for c in H.shrink_ops(case["ops"]):
            yield {"ops": c}

    def stats(self, case, obs, acc):
        if obs is not None:
            H.op_stats(case["ops"], obs, acc)
            snap = obs[-1]["snap"] if obs else None
            if snap:
                acc["final_states_with_nested_universe"] = acc.get("final_states_with_nested_universe", 0) + int(any(
                    k == "KUniverse" and any(snap["kind"][m] == "KUniverse" for m in snap["uverts"][u]) for u, k in enumerate(snap["kind"])))
                acc["final_states_with_self_member"] = acc.get("final_states_with_self_member", 0) + int(any(
                    k == "KUniverse" and u in snap["uverts"][u] for u, k in enumerate(snap["kind"])))


class SmallScope(UniHistory):
    """thorough tier only: the complete space of short histories over a fixed pool"""
    name = "smallscope"
    exhaustive = True
    quick_n = 0
    thorough_n = 1
    shard = 400
    rule = ("EXHAUSTIVE for this bounded space (thorough tier): every history of length <= 4 over {add_vertex, remove_vertex, "
            "add_to_universe, remove_from_universe} x {universe 0} x {the universe itself, vertex 2, vertex 3}, plus "
            "Vertex(universes=[0]) and Vertex(universes=[0, 0])")
    SEED = [["NU", [], None], ["NV", False, [], []], ["NV", False, [], []]]

    def generate(self, rng, n):
        if n <= 0:
            return
        al = []
        for v in (0, 2, 3):
            al += [["UAV", 0, v], ["URV", 0, v], ["VAU", v, 0], ["VRU", v, 0]]
        al += [["NV", False, [0], []], ["NV", True, [0, 0], []]]
        for ops in H.small_scope(self.SEED, al, 4):
            yield {"ops": ops}


class C02(Prop):
    pid = "C02"
    legs = [UniHistory(), SmallScope()]
    assumptions = ["histories of well-typed calls: only vertex-like objects (Vertex, subclasses, Universe) are added to universes",
                   "objects compare by identity (no __eq__/__hash__ overrides)"]
