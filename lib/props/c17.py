"""C17 — semi-singletons: per class, instances correspond one-to-one to argument keys."""
import copy
import json

from ..engine import Leg, Prop
from .. import common as C

ARGS = [((), {}), ((1,), {}), ((2,), {}), ((-1,), {}), ((-2,), {}), ((0,), {}), ((2 ** 61 - 1,), {}),
        ((1, 2), {}), ((1,), {"a": 1, "b": 2}), ((1,), {"b": 2, "a": 1}), (("x",), {}), (((1, 2),), {}), ((), {"a": 1}), ((), {"a": 2}),
        # keyword values that are == across types but have different JSON texts: distinct keys under the default key function
        ((), {"a": True}), ((), {"a": 1.0}),
        # a keyword value that is itself a dict, written in two insertion orders: equal arguments, one key
        ((), {"o": {"p": 1, "q": 2}}), ((), {"o": {"q": 2, "p": 1}}),
        # a list-valued keyword argument in two orders: DIFFERENT arguments; some classes normalise (sort) it in place in __init__
        ((), {"lst": [2, 1]}), ((), {"lst": [1, 2]})]
CUSTOM = {"first": lambda args, kwargs: args[0] if args else None,
          "nargs": lambda args, kwargs: len(args) + len(kwargs)}


def intended_key(meta_custom, ai):
    """key id under the INTENDED semantics: equal positional values and equal keyword dicts (default), or the
    value of the custom hash function; ids are interned by == over the ARGS pool"""
    a, k = ARGS[ai]
    if meta_custom:
        val = CUSTOM[meta_custom](a, k)
        vals = [CUSTOM[meta_custom](*ARGS[j]) for j in range(len(ARGS))]
        return next(j for j, v in enumerate(vals) if v == val and type(v) == type(val))
    # the default key: the positional tuple (compared by ==) and the JSON text of the keyword dict with sorted keys
    return next(j for j, (a2, k2) in enumerate(ARGS) if a2 == a and json.dumps(k2, sort_keys=True) == json.dumps(k, sort_keys=True))


class InitFails(Exception):
    pass


TRAP = {"on": False}        # while on, every __init__ of the harness classes raises (a constructor that fails)


def build(case):
    from edgegraph.structure import singleton
    metas = [singleton.semi_singleton_metaclass(CUSTOM[m["custom"]]) if m["custom"] else singleton.semi_singleton_metaclass()
             for m in case["metas"]]
    # a metaclass DERIVED from the generated one (class Meta(Base): pass) - invisible to the model: it inherits the table
    metas = [type(mc)("Meta", (mc,), {}) if m.get("derived") else mc for mc, m in zip(metas, case["metas"])]
    classes = []
    counter = {"n": 0}
    for ci, c in enumerate(case["classes"]):
        if c["parent"] is None:
            def __init__(self, *a, **k):
                if TRAP["on"]:
                    raise InitFails()
                if not hasattr(self, "_vlog"):
                    self._vlog = []
                    self._vid = counter["n"]
                    counter["n"] += 1
                self._vlog.append((type(self), copy.deepcopy(a), copy.deepcopy(k)))
                if getattr(type(self), "_sorts", False):
                    for val in k.values():           # a constructor that normalises the list it was handed, in place
                        if isinstance(val, list):
                            val.sort()
            ns = {"__init__": __init__}
            if c.get("falsy") == 1:          # instances that are FALSY (an empty container-like object / __bool__ False)
                ns["__len__"] = lambda self: 0
            elif c.get("falsy") == 2:
                ns["__bool__"] = lambda self: False
            ns["_sorts"] = bool(c.get("sorts"))
            cls = metas[c["meta"]](f"S{ci % 2}", (), ns)
        else:
            cls = type(classes[c["parent"]])(f"S{ci % 2}", (classes[c["parent"]],), {})
        classes.append(cls)
    return metas, classes


def meta_of(case, ci):
    c = case["classes"][ci]
    while c["parent"] is not None:
        c = case["classes"][c["parent"]]
    return case["metas"][c["meta"]]


class SemiHistory(Leg):
    name = "semihist"
    imports = "From EG Require Import Base SemiSingle."
    checkfn = "sscheck"
    case_type = "list sop * list sobs"
    rule = ("lock-step histories (4-22 calls) of construction (1 in 7 with an __init__ that raises) / add_mapping / drop / check / get_all / clear over 2-4 classes: own "
            "metaclass each (3 in 10 a metaclass DERIVED from the generated one), a metaclass object shared by two classes, subclasses of a semi-singleton class, custom hash functions; "
            "argument pool with distinct values of equal hash (-1 / -2, 0 / 2**61-1), keyword order permutations, nested tuples, keyword "
            "values equal across types (1 / True / 1.0: distinct keys by their JSON text), a nested dict value in two insertion orders; "
            "2 in 5 root classes with falsy instances, 2 in 5 whose __init__ sorts a list argument in place (the list given in both orders: different keys); "
            "keys are interned by the intended equality, so a key function that conflates or splits them shows as a disagreement; "
            "non-trivial = two classes share a metaclass object or are parent/child and both are constructed with the same key")
    quick_n = 500
    thorough_n = 15000

    def generate(self, rng, n):
        for _ in range(n):
            nm = rng.randint(1, 2)
            metas = [{"custom": rng.choice([None, None, None, "first", "nargs"]), "derived": rng.random() < 0.3} for _ in range(nm)]
            classes = [{"meta": 0, "parent": None}]
            for i in range(1, rng.randint(2, 4)):
                if rng.random() < 0.35:
                    classes.append({"meta": None, "parent": rng.randrange(i)})
                else:
                    classes.append({"meta": rng.randrange(nm), "parent": None})
            for c in classes:
                if c["parent"] is None:
                    c["falsy"] = rng.choice([0, 0, 0, 1, 2])
                    c["sorts"] = rng.random() < 0.4
            ops = []
            ninst = 0
            few = rng.sample(range(len(ARGS)), 4)
            if rng.random() < 0.25:
                few = [12, 14, 15, rng.randrange(len(ARGS))]       # a=1 / a=True / a=1.0 as keyword values
            elif rng.random() < 0.2:
                few = [16, 17, rng.randrange(len(ARGS)), rng.randrange(len(ARGS))]     # the nested dict in both orders
            elif rng.random() < 0.25:
                few = [18, 19, 18, rng.randrange(len(ARGS))]                            # the list argument in both orders
            for _ in range(rng.randint(4, 22)):
                r = rng.random()
                ci = rng.randrange(len(classes))
                ai = rng.choice(few) if rng.random() < 0.8 else rng.randrange(len(ARGS))
                if r < 0.5:
                    ops.append(["C" if rng.random() < 0.85 else "CF", ci, ai])    # CF: the class's __init__ raises this time
                elif r < 0.6:
                    prior = [j for j, o in enumerate(ops) if o[0] in ("C", "CF")]
                    if prior:
                        ops.append(["ADD", rng.choice(prior), ai])
                elif r < 0.72:
                    ops.append(["DROP", ci, ai])
                elif r < 0.84:
                    ops.append(["CHK", ci, ai])
                elif r < 0.93:
                    ops.append([rng.choice(["ALL", "ALL", "ALLP"]), ci])
                else:
                    ops.append(["CLR", ci])
            yield {"metas": metas, "classes": classes, "ops": ops}

    def observe(self, case):
        from edgegraph.structure import singleton
        metas, classes = build(case)
        results = {}
        obs = []
        pending = []

        def inst_obs(x):
            log = [[classes.index(t) if t in classes else -1, self._ai(a, k)] for (t, a, k) in getattr(x, "_vlog", [])]
            return ["inst", getattr(x, "_vid", -1), log, classes.index(type(x)) if type(x) in classes else -1]
        for j, op in enumerate(case["ops"]):
            try:
                if op[0] in ("C", "CF"):
                    a, k = copy.deepcopy(ARGS[op[2]])        # the caller's own fresh argument objects, every time
                    TRAP["on"] = op[0] == "CF"
                    try:
                        x = classes[op[1]](*a, **k)
                    except InitFails:
                        obs.append(["initfails"])
                        continue
                    finally:
                        TRAP["on"] = False
                    results[j] = x
                    obs.append(inst_obs(x))
                elif op[0] == "ADD":
                    a, k = ARGS[op[2]]
                    if op[1] not in results:
                        obs.append(["skipped"])
                        continue
                    r = singleton.add_mapping(results[op[1]], *a, **k)
                    obs.append(["none"] if r is None else ["other"])
                elif op[0] == "DROP":
                    a, k = ARGS[op[2]]
                    r = singleton.drop_semi_singleton_mapping(classes[op[1]], *a, **k)
                    obs.append(["none"] if r is None else ["other"])
                elif op[0] == "CHK":
                    a, k = ARGS[op[2]]
                    r = singleton.check_semi_singleton_entry_exists(classes[op[1]], *a, **k)
                    obs.append(["none"] if r is None else inst_obs(r))
                elif op[0] == "ALL":
                    r = list(singleton.get_all_semi_singleton_instances(classes[op[1]]))
                    obs.append(["list", [getattr(x, "_vid", -1) for x in r]])
                elif op[0] == "ALLP":
                    # the enumeration is started, suspended after its first item while the NEXT call of the history runs, and
                    # resumed afterwards: it reports the mappings that were live when it started
                    g = singleton.get_all_semi_singleton_instances(classes[op[1]])
                    got = []
                    try:
                        got.append(next(g))
                    except StopIteration:
                        g = None
                    pending.append((len(obs), g, got))
                    obs.append(None)
                    continue
                elif op[0] == "CLR":
                    r = singleton.clear_semi_singleton(classes[op[1]])
                    obs.append(["none"] if r is None else ["other"])
            except KeyError:
                obs.append(["keyerror"])
            except Exception as e:  # noqa: BLE001
                obs.append(["raise", type(e).__name__])
            self._resume(pending, obs)
        self._resume(pending, obs)
        return obs

    @staticmethod
    def _resume(pending, obs):
        while pending:
            at, g, got = pending.pop()
            try:
                if g is not None:
                    got += list(g)
                obs[at] = ["list", [getattr(x, "_vid", -1) for x in got]]
            except Exception as e:  # noqa: BLE001
                obs[at] = ["raise", type(e).__name__]

    @staticmethod
    def _ai(a, k):
        for j, (a2, k2) in enumerate(ARGS):
            if a2 == a and k2 == k and list(k2) == list(k) and [type(x) for x in a2] == [type(x) for x in a] \
                    and [type(x) for x in k2.values()] == [type(x) for x in k.values()]:
                return j
        return -1

    def _model_ops(self, case, obs):
        """model operations with keys interned by the intended semantics; instance ids from the observed creation order"""
        mops = []
        inst_of_op = {}
        for j, (op, o) in enumerate(zip(case["ops"], obs)):
            if op[0] in ("C", "CF", "DROP", "CHK"):
                key = intended_key(meta_of(case, op[1])["custom"], op[2])
            if op[0] in ("C", "CF"):
                if o[0] == "initfails":
                    mops.append(None)        # a construction that failed is no step of the model: nothing may have changed
                    continue
                mops.append(f"SConstruct {op[1]} {key}")
                if o[0] == "inst":
                    inst_of_op[j] = (o[1], o[3])
            elif op[0] == "ADD":
                if op[1] not in inst_of_op:
                    mops.append(None)
                    continue
                iid, icls = inst_of_op[op[1]]
                key = intended_key(meta_of(case, icls)["custom"], op[2]) if icls >= 0 else 0
                mops.append(f"SAddMapping {iid if iid >= 0 else 9999} {key}")
            elif op[0] == "DROP":
                mops.append(f"SDrop {op[1]} {key}")
            elif op[0] == "CHK":
                mops.append(f"SCheck {op[1]} {key}")
            elif op[0] in ("ALL", "ALLP"):
                mops.append(f"SGetAll {op[1]}")
            else:
                mops.append(f"SClear {op[1]}")
        return mops

    def _key_of_log(self, case, log):
        out = []
        for c, ai in log:
            if c < 0 or ai < 0:
                out.append((9999, 9999))
            else:
                out.append((c, intended_key(meta_of(case, c)["custom"], ai)))
        return out

    def term(self, case, obs):
        mops = self._model_ops(case, obs)
        ops, exp = [], []
        for m, o in zip(mops, obs):
            if m is None or o[0] == "skipped":
                continue
            ops.append(m)
            if o[0] == "inst":
                log = self._key_of_log(case, o[2])
                exp.append(f"(SInst {o[1] if o[1] >= 0 else 9999}, {C.clist(log, lambda p: C.cpair(p[0], p[1]))})")
            elif o[0] == "none":
                exp.append("(SNone, [])")
            elif o[0] == "list":
                exp.append(f"(SList {C.clist([x if x >= 0 else 9999 for x in o[1]], C.cnat)}, [])")
            elif o[0] == "keyerror":
                exp.append("(SKeyError, [])")
            else:
                exp.append("(SIllTyped, [(9999, 9999)])")
        return f"({C.clist(ops, str)}, {C.clist(exp, str)})"

    def model_value(self, case, obs):
        return f"stranscript (fst {self.term(case, obs)}) ss_init"

    def oracle(self, case, obs):
        """the statement, replayed as an abstract map (class, key) -> instance"""
        live = {}
        inst_cls = {}
        inst_of_op = {}
        nxt = 0
        for j, (op, o) in enumerate(zip(case["ops"], obs)):
            if o[0] == "raise":
                return [f"call {j} {op} raised {o[1]}"]
            if op[0] in ("C", "CF", "DROP", "CHK"):
                key = (op[1], intended_key(meta_of(case, op[1])["custom"], op[2]))
            if op[0] == "CF" and key not in live:
                if o[0] != "initfails":
                    return [f"call {j} {op}: __init__ raises for a key that is not live, yet the construction returned {o}"]
                continue
            if op[0] in ("C", "CF"):
                if o[0] == "initfails":
                    return [f"call {j} {op}: the key is live, so __init__ must not run, yet it ran (and raised)"]
                if o[0] != "inst":
                    return [f"call {j} {op}: {o}"]
                inst_of_op[j] = o[1]
                if o[3] != op[1]:
                    return [f"call {j}: constructing class {op[1]} returned an instance of class {o[3]}"]
                if key in live:
                    if o[1] != live[key]:
                        return [f"call {j} {op} (args {ARGS[op[2]]}): key is live for instance {live[key]} but instance {o[1]} was returned"]
                else:
                    if o[1] != nxt:
                        return [f"call {j} {op} (args {ARGS[op[2]]}): a different key must create a new instance; got existing instance {o[1]}"]
                    live[key] = nxt
                    inst_cls[nxt] = op[1]
                    nxt += 1
                if len(o[2]) != 1:
                    return [f"call {j}: __init__ ran {len(o[2])} times on instance {o[1]}"]
            elif op[0] == "ADD":
                if op[1] in inst_of_op and o[0] != "skipped":
                    i = inst_of_op[op[1]]
                    c = inst_cls.get(i)
                    if c is not None:
                        live[(c, intended_key(meta_of(case, c)["custom"], op[2]))] = i
            elif op[0] == "DROP":
                if key in live:
                    if o != ["none"]:
                        return [f"call {j} {op}: dropping a live mapping gave {o}"]
                    del live[key]
                elif o != ["keyerror"]:
                    return [f"call {j} {op}: dropping an absent mapping gave {o}, expected KeyError"]
            elif op[0] == "CHK":
                exp = ["inst", live[key]] if key in live else ["none"]
                if o[:2] != exp:
                    return [f"call {j} {op} (args {ARGS[op[2]]}): check reports {o[:2]}, live mapping is {exp}"]
            elif op[0] in ("ALL", "ALLP"):
                exp = sorted(i for (c, k), i in live.items() if c == op[1])
                if o[0] != "list" or sorted(o[1]) != exp:
                    return [f"call {j} {op}: get_all reports {o}, live instances of class {op[1]} are {exp}"]
            elif op[0] == "CLR":
                for kk in [kk for kk in live if kk[0] == op[1]]:
                    del live[kk]
        return []

    def nontrivial(self, case, obs):
        seen = {}
        for op in case["ops"]:
            if op[0] in ("C", "CF"):
                seen.setdefault(op[2], set()).add(op[1])
        for ai, cs in seen.items():
            for a in cs:
                for b in cs:
                    if a != b and (meta_of(case, a) is meta_of(case, b)):
                        return True
        return False

    def shrink_candidates(self, case):
        ops = case["ops"]
        for i in range(len(ops) - 1, -1, -1):
            new = []
            ok = True
            for j, o in enumerate(ops):
                if j == i:
                    continue
                if o[0] == "ADD":
                    if o[1] == i:
                        ok = False
                        break
                    o = ["ADD", o[1] - 1 if o[1] > i else o[1], o[2]]
                new.append(o)
            if ok:
                yield {"metas": case["metas"], "classes": case["classes"], "ops": new}

    def stats(self, case, obs, acc):
        for op in case["ops"]:
            acc[op[0]] = acc.get(op[0], 0) + 1
        acc["shared_metaclass_cases"] = acc.get("shared_metaclass_cases", 0) + int(
            len({id(meta_of(case, i)) for i in range(len(case["classes"]))}) < len(case["classes"]))


class C17(Prop):
    pid = "C17"
    legs = [SemiHistory()]
    assumptions = ["argument values stay within ints, bools, floats, strings, tuples and str-keyed dicts of those (POSITIONAL values "
                   "equal across types, 1 == True == 1.0, and json.dumps of nested keyword values are outside the modelled value "
                   "space; keyword values equal across types are inside it: their JSON texts differ)",
                   "keys are interned by the harness under the intended equality (equal positional values and equal JSON text of the "
                   "keyword dict with sorted keys; or the custom hash function's value)"]
