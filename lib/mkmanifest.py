"""Regenerate MANIFEST.json from the table below (run: /venv/bin/python -m lib.mkmanifest)."""
import json
from pathlib import Path

V = Path(__file__).resolve().parent.parent

T = "Coq proof by induction over histories + differential correspondence (vm_compute) + impl oracle"
N = ("Trusted: Coq kernel + vm_compute; hand-written model tied by lock-step correspondence (harness, snapshot of private "
     "fields, id canonicalisation); CPython list/identity semantics as modelled; well-typed calls only.")
CLAIMED = {
    "C01": dict(
        text="Proof (full): for every history of the whole structure/explicit API the association is symmetric and duplicate-free "
             "(link_inv_reachable), raising link calls change nothing, the vertex<->link mutual recursion terminates; the fuelled "
             "transliteration equals plain reference edits. Tied by lock-step histories compared field by field after every call. "
             "Objects are named by identity; links that are == without being identical are exercised by fixed cases (open finding "
             "D24, reported as KNOWN-FINDING).",
        note=N, design="6/C01", technique=T),
    "C02": dict(
        text="Proof (full): symmetric, duplicate-free membership for every history incl. nested/self-member universes "
             "(uni_inv_reachable); insertion order, removal order, frame and ValueError-with-no-change characterised per call.",
        note=N, design="6/C02", technique=T),
    "C03": dict(
        text="Proof (full): transcript equality between the transliterated code model and the plain reference model for every "
             "history (transcripts_equal), plus the documented effects of edge creation, end assignment, unlink (incl. independence "
             "of set iteration order), dontdup and constructor type errors as theorems about step.",
        note=N, design="6/C03", technique=T),
    "C04": dict(
        text="Proof (full): per-link decision = documented rule table, answer = ordered flat_map over v.links, error characterisation, "
             "FORWARD/BACKWARD duality; the cascade is REGENERATED from helpers.py by a fail-closed translator on every run and "
             "re-proved equal to the model's (NbrsGen.v); exhaustive 1620-row decision matrix + random multigraphs as correspondence.",
        note=N + " Translator (translate/helpers_to_coq.py) is in the trusted base for the secondary tie only.", design="6/C04",
        technique="Coq proof (finite case analysis + list induction) over translator-regenerated cascade + exhaustive row correspondence"),
    "C06": dict(
        text="Proof (full): each of bft/dft_recursive/dft_iterative lists exactly the reachable in-universe vertices, NoDup, start first; "
             "three agree (Permutation); ff_result = filter; termination on every heap satisfying the C01 invariant. Half-assigned "
             "edges (None neighbour) are modelled and tied; the reachability theorem covers runs that return.",
        note=N, design="6/C06", technique="Coq proof (loop invariants over fuelled loops, fuel bounds) + state-import correspondence"),
    "C07": dict(
        text="Proof (full): BFS shortest-distance level order and canonical-scan equality; dft_recursive = pre-order relation; "
             "dft_iterative = pre-order over reversed neighbour lists (both directions); determinism in the link order.",
        note=N, design="6/C07", technique="Coq proof (queue invariant, defunctionalisation) + state-import sequence correspondence"),
    "C08": dict(
        text="Proof (full): each search = List.find over its traversal's listing (simulation of the early-exit loops), start eligible, "
             "result listed and matching, None iff no listed match, termination; attribute equality abstracted to a predicate the "
             "harness computes with hasattr and ==.",
        note=N, design="6/C08", technique="Coq proof (lock-step simulation search vs traversal) + state-import correspondence"),
    "C09": dict(
        text="Proof (full): per-link decision table, answer = exactly the qualifying links of a.links (complete, duplicate-free), size "
             "equation with neighbors(), emptiness after unlink for every setting and invariance of other pairs (on proper two-ended "
             "graphs; the lost-end corner is characterised exactly); cascade regenerated from helpers.py by the translator on every run.",
        note=N + " Translator in the trusted base for the secondary tie only.", design="6/C09",
        technique="Coq proof (finite case analysis + list induction) over translator-regenerated cascade + exhaustive row correspondence"),
    "C12": dict(
        text="Proof (partial): for the container the library retains (the neighbors() memo) a loc-level model proves that arbitrary "
             "client edits of any list ever handed out never change a later answer (and refutes it for the pinned, non-copying code). "
             "That all other accessors and constructor/builder arguments are copied is decided by an exhaustive accessor x edit x "
             "caching matrix and an input-container matrix on the implementation, plus lock-step histories with client edits.",
        note=N + " By-value modelling of the copying accessors is validated by the matrix, not proved.", design="6/C12",
        technique="Coq proof (escape invariant over a heap of list cells) + exhaustive implementation matrix + lock-step correspondence"),
    "C05": dict(
        text="Proof (full for neighbors(); traversals/searches inherit it through neighbors() and are additionally decided by the "
             "cached-vs-uncached oracle): every query of every history interleaving all mutators, flag toggles and queries answers the "
             "uncached recomputation (cached_answers_equal_recomputed), all outcomes are independent of the flag "
             "(answers_independent_of_flag), coherence invariant on every reachable state; traversals and searches run through the "
             "memo equal the pure ones for every fuel (TravCached). Fresh-interpreter clause: legs freshproc and C10 (loaded copies "
             "are edited before anything is asked of them).",
        note=N + " Filters are pure and compare by identity as memo keys.", design="6/C05", technique=T),
    "C10": dict(
        text="Proof (partial): the queue scheduler - with its two modes: children deferred, classes and functions saved atomically "
             "(recursively) when their turn comes - produces exactly the recursive pickler's stream and memo, and conversely, for an "
             "arbitrary per-object save behaviour and an arbitrary set of atomic objects (any size, depth, sharing, cycles); executable "
             "versions sound and complete. Standing hypothesis: one save() invocation is a function of the memo at entry and the object "
             "(false of dill for by-value classes: defect D22, repaired; residual open finding D23 reported as KNOWN-FINDING). "
             "Decoding to an isomorphic, usable, detached copy is pickle's/dill's behaviour: decided by round-trip legs (pickle and "
             "dill, in-process and fresh interpreter, caching on/off, protocols 0-5), opcode equality with recursive dill, and a "
             "depth leg under recursion limit 400.",
        note=N + " dill's per-type save behaviour is a parameter (traced from real runs for the tie).", design="6/C10",
        technique="Coq proof (defunctionalisation of the recursion into the queue) + traced-run correspondence + round-trip oracle"),
    "C11": dict(
        text="Proof (full): load_adj_dict / load_adj_matrix as sequences of API calls: new universe, members in first-mention / side "
             "order, one link per pair / truthy cell in input order and orientation, existing graph in place, FORWARD read-back, "
             "malformed matrix rejected with the state untouched.",
        note=N + " Matrix cells judged by truthiness (harness maps Python values to booleans).", design="6/C11", technique=T),
    "C13": dict(
        text="Proof (partial): in the model only neighbors() has a write effect; for it every fault point of the filter callback is "
             "covered (state unchanged on a raise, retry gives the normal answer, memo coherent), and so are the three traversals and "
             "three searches run through the memo with a raising ff_via (graph unchanged however the call ends, memo coherent, the "
             "retried call answers as on the original heap). For the renderers and the pickler the model functions are pure; that "
             "the Python has no other effect is decided by a per-case complete fault-point enumeration on the implementation "
             "(vars() of every object before/after, retry equals normal answer).",
        note=N, design="6/C13", technique="Coq proof (fault-able filter model) + fault-point enumeration on the implementation"),
    "C14": dict(
        text="Proof (structure; partial for text): declarations = members once each in order with the nearest configured class (MRO); "
             "exactly one relation per member link, v1->v2 with its class's sides; no invented relation; independent of set order. "
             "Text (titles, attribute lines, frame) is parsed back by the harness and compared.",
        note=N + " str.format / dir() / regex attribute lines are not modelled.", design="6/C14",
        technique="Coq proof over a structured document model + parse-back correspondence"),
    "C15": dict(
        text="Proof (full for the model; pyvis add_node/add_edge transcribed): nodes = members in order; every edge is a real link "
             "from its first to its second end, arrowed iff directed; one arrowed edge per directed link; every internal link "
             "(self-loops included) shown; nothing outside the universe — unconditionally on every reachable graph.",
        note=N + " pyvis.network.Network 0.3.2 behaviour is modelled, validated by the tie.", design="6/C15", technique=T),
    "C16": dict(
        text="Proof (full): one line per member in universe / stably sorted order, rendering + ' -> ' + neighbours joined by ', '; "
             "isolated vertex keeps its arrow (pinned behaviour refuted); sort = stable sort; error characterisation. Exact string "
             "comparison with the implementation.",
        note=N, design="6/C16", technique=T),
    "C17": dict(
        text="Proof (full within the modelled value space): live key returns its instance with no second __init__, new key a fresh "
             "instance of the class called, check/get_all read-only and exact, operations on one class never change another's lookups "
             "or outcomes (shared metaclass objects, subclasses), drop/clear/add_mapping effects.",
        note=N + " Keys interned by the harness under the intended equality; cross-type equality outside the value space.",
        design="6/C17", technique=T),
    "C20": dict(
        text="Proof (full modulo the `random` contract): for every count, edge type, connectivity (arbitrary scale function: no float "
             "reasoning), ensurelink and RNG stream: returns a universe, exactly count members, links of the requested type inside, "
             "ensurelink => every vertex is v1 of a link, existing graph untouched; recorded draws of seeded runs replayed in the model.",
        note=N + " random.randint / random.sample contract is a hypothesis (good_draws).", design="6/C20", technique=T),
    "C18": dict(
        text="Proof (full): theorems over all histories of constructions/clears over any set of classes "
             "(same instance between clears, __init__ once with first args, own instance per class, clear frame rules), "
             "tied to the code by lock-step correspondence of random histories evaluated in Coq's kernel.",
        note="Trusted: Coq kernel + vm_compute; hand-written model TrueSingle.v tied by correspondence (harness, id canonicalisation); "
             "CPython dict/identity semantics; class objects truthy and hashed by identity.",
        design="6/C18", technique=T),
    "C19": dict(
        text="Proof (full for the binding; partial for rule attributes): u.laws is L <-> L.applies_to is u after every history "
             "(laws_inv_reachable), every assignment succeeds with its documented effect and frame. Rule attributes' read-back and "
             "immutability are outside the Coq model and decided by an exhaustive implementation-side leg.",
        note=N + " UniverseLaws(applies_to=u) is outside the statement's op set (proved necessary).", design="6/C19", technique=T),
}

PENDING_REASON = "check not built yet in this session (planned: DESIGN.md section 6); not claimed until its theorem and tie exist"


def main():
    checks = []
    for pid, d in sorted(CLAIMED.items()):
        checks.append({
            "property_id": pid,
            "quick_cmd": f"./check {pid} quick",
            "thorough_cmd": f"./check {pid} thorough",
            "evidence_file": f"/verif/evidence/{pid}.json",
            "replay_cmd_template": "./check replay {path}",
            "engine": "coq-model",
            "level_claimed": {"category": "proof", "text": d["text"], "design_ref": d["design"]},
            "level_note": d["note"],
            "technique": d["technique"],
        })
    na = [{"property_id": "C%02d" % i, "reason": PENDING_REASON} for i in range(1, 21) if "C%02d" % i not in CLAIMED]
    m = {
        "version": 1,
        "setup_cmd": "./check setup",
        "hooks": {"guard": "EDGEGRAPH_VERIF", "enable": "no source hooks are needed; checks import /repo's working tree directly",
                  "baseline_off_cmd": "cd /repo && /venv/bin/python -m pytest -ra -q -p no:cacheprovider --timeout=900 --continue-on-collection-errors",
                  "source_commits": [], "add_only": True},
        "engines": [{"name": "coq-model", "path": "/verif/coq", "serves_properties": sorted(CLAIMED),
                     "kind_free_text": "Coq 8.16.1 model + theorems (Props/Cxx.v), tied to /repo by a correspondence check evaluated with vm_compute and by a translator for helpers.py"}],
        "checks": checks,
        "not_applicable": na,
        "notes": "See DESIGN.md. ./check <Cxx> <quick|thorough>; ./check replay <path>.",
    }
    (V / "MANIFEST.json").write_text(json.dumps(m, indent=1))


if __name__ == "__main__":
    main()
