"""Run in a FRESH interpreter: load a pickled graph and report a canonical snapshot + queries.
usage: python -m lib.picklesub <file> <loader: pickle|dill> <caching: 0|1>"""
import json
import pickle
import sys


def pfilter(e, v2):
    """module-level filter function (pickled by reference): keeps untagged far ends"""
    return v2 is not None and getattr(v2, "tag", None) is None


class LockedFilter:
    """a filter callable that owns something no pickler can serialise (a running generator; think of a database handle):
    using it for a query must not make the GRAPH unpicklable"""

    def __init__(self):
        self.handle = (x for x in ())

    def __call__(self, e, v2):
        return True


def canon_walk(root):
    """every edgegraph object reachable from root, in a deterministic order"""
    from edgegraph.structure.base import BaseObject
    seen, order = {}, []
    stack = [root]
    while stack:
        o = stack.pop(0)
        if not isinstance(o, BaseObject) or id(o) in seen:
            continue
        seen[id(o)] = len(order)
        order.append(o)
        cb = vars(o).get("cb")
        if callable(cb):                       # a stored callback that hands back a graph object: follow it
            try:
                stack.append(cb())
            except Exception:  # noqa: BLE001
                pass
        # through the PUBLIC accessors (what a user of the copy sees; robust against renamed private fields)
        for attr in ("vertices", "links", "universes"):
            try:
                xs = getattr(o, attr, None) or []
            except Exception:  # noqa: BLE001
                xs = []
            for x in xs:
                if x is not None:
                    stack.append(x)
        for attr in ("laws", "applies_to"):
            try:
                x = getattr(o, attr, None)
            except Exception:  # noqa: BLE001
                x = None
            if x is not None:
                stack.append(x)
    return seen, order


def snapshot(root):
    from edgegraph.structure.base import BaseObject
    seen, order = canon_walk(root)

    def ids(lst):
        return [None if x is None else seen.get(id(x), -1) for x in lst]
    out = []
    conts = {}

    def share_sig(v, depth=0):
        """identity pattern of the mutable containers inside an attribute value: which list / dict / set OBJECT sits where, numbered
        in order of first appearance over the whole graph (sharing between attributes and between vertices must survive)"""
        sig = []
        if isinstance(v, (list, dict, set)):
            sig.append(conts.setdefault(id(v), len(conts)))
        if depth < 3 and isinstance(v, (list, tuple, dict)):
            for x in (v.values() if isinstance(v, dict) else v):
                sig += share_sig(x, depth + 1)
        return sig
    for o in order:
        d = {"cls": type(o).__module__ + "." + type(o).__qualname__, "uid": o.uid}
        for attr in ("vertices", "links", "universes"):
            if hasattr(type(o), attr):
                try:
                    d["_" + attr] = ids(getattr(o, attr))
                except Exception as e:  # noqa: BLE001
                    d["_" + attr] = "raise " + type(e).__name__
        for attr in ("laws", "applies_to"):
            if hasattr(type(o), attr):
                x = getattr(o, attr)
                d["_" + attr] = None if x is None else seen.get(id(x), -1)
        extra = {}
        for k, v in vars(o).items():
            if k.startswith("_"):
                continue
            if callable(v) and not isinstance(v, type):
                try:
                    r = v()                              # a stored callback: compared by what it answers
                    extra[k] = ["call", seen.get(id(r), -1) if isinstance(r, BaseObject) else r]
                except Exception as e:  # noqa: BLE001
                    extra[k] = ["call raises", type(e).__name__]
            else:
                extra[k] = repr(v) if not isinstance(v, (int, str, float, bool, type(None))) else v
                sh = share_sig(v)
                if sh:
                    extra[k + "#containers"] = sh
        d["attrs"] = extra
        out.append(d)
    return out


def queries(root):
    """structural queries and traversals on the loaded graph (ids canonical)"""
    from edgegraph.structure import Vertex, Universe
    from edgegraph.traversal import helpers, breadthfirst, depthfirst
    seen, order = canon_walk(root)
    res = {}
    for o in order:
        if isinstance(o, Vertex):
            try:
                nb = helpers.neighbors(o, direction_sensitive=helpers.DIR_SENS_ANY, unknown_handling=helpers.LNK_UNKNOWN_NEIGHBOR)
                res[f"nb{seen[id(o)]}"] = [None if x is None else seen.get(id(x), -1) for x in nb]
                nb2 = helpers.neighbors(o, direction_sensitive=helpers.DIR_SENS_ANY, unknown_handling=helpers.LNK_UNKNOWN_NEIGHBOR)
                res[f"nb{seen[id(o)]}again"] = [None if x is None else seen.get(id(x), -1) for x in nb2]
                import lib.picklesub as _ps
                nb3 = helpers.neighbors(o, direction_sensitive=helpers.DIR_SENS_ANY, unknown_handling=helpers.LNK_UNKNOWN_NEIGHBOR,
                                        filterfunc=_ps.pfilter)
                res[f"nb{seen[id(o)]}filtered"] = [None if x is None else seen.get(id(x), -1) for x in nb3]
            except Exception as e:  # noqa: BLE001
                res[f"nb{seen[id(o)]}"] = "raise " + type(e).__name__
    if isinstance(root, Universe) and root.vertices:
        for name, fn in (("bft", breadthfirst.bft), ("dfr", depthfirst.dft_recursive), ("dfi", depthfirst.dft_iterative)):
            try:
                r = fn(root, root.vertices[0], direction_sensitive=helpers.DIR_SENS_ANY, unknown_handling=helpers.LNK_UNKNOWN_NEIGHBOR)
                res[name] = [seen.get(id(x), -1) for x in r]
            except Exception as e:  # noqa: BLE001
                res[name] = "raise " + type(e).__name__
    return res


def _edit(root):
    """edit the links of a loaded copy through the public API (retarget an edge, unlink a pair, add an edge); returns the
    outcome of each edit (None or the exception's type name: an edit may legitimately raise, e.g. unlink() meets a link that lost
    an end - but then it raises whatever the caching flag says)"""
    from edgegraph.structure import Vertex, TwoEndedLink
    from edgegraph.builder import explicit
    seen, order = canon_walk(root)
    verts = [o for o in order if isinstance(o, Vertex)]
    links = [o for o in order if isinstance(o, TwoEndedLink) and len(o.vertices) == 2 and None not in o.vertices]
    outcomes = []

    def attempt(fn):
        try:
            fn()
            outcomes.append(None)
        except Exception as e:  # noqa: BLE001
            outcomes.append(type(e).__name__)
    if links:
        e = links[0]
        attempt(lambda: setattr(e, "v2", e.v1))      # retarget: the edge becomes a self-loop
    if len(links) > 1:
        a, b = links[1].vertices
        attempt(lambda: explicit.unlink(a, b))
    if len(verts) > 1:
        attempt(lambda: explicit.link_directed(verts[0], verts[-1]))
    return outcomes


def mutate_and_compare(root, warm_first=True, twin=None):
    """the copy must be a LIVE graph: with neighbor caching on, (warm every memo,) edit the links through the public API and
    ask again - the cached answers must equal the uncached ones; when `twin` (another load of the same bytes) is given, the same
    edits are made on it with caching off and must end the same way.  Returns None or a description of the first difference."""
    from edgegraph.structure import Vertex
    flag = Vertex.NEIGHBOR_CACHING
    Vertex.NEIGHBOR_CACHING = True
    try:
        if warm_first:
            queries(root)                              # warm; otherwise the memos are exactly what the pickle carried
        done = _edit(root)
        cached = queries(root)
        Vertex.NEIGHBOR_CACHING = False
        truth = queries(root)
        if twin is not None:
            plain = _edit(twin)
            if plain != done:
                return f"editing the loaded copy ends {done} with caching on and {plain} with caching off"
    finally:
        Vertex.NEIGHBOR_CACHING = flag
    for k in truth:
        if cached.get(k) != truth[k]:
            return f"after editing the loaded copy, {k} answers {cached.get(k)} with caching on and {truth[k]} with caching off"
    return None


def main():
    path, loader, caching = sys.argv[1], sys.argv[2], sys.argv[3] == "1"
    from edgegraph.structure import Vertex
    Vertex.NEIGHBOR_CACHING = caching
    data = open(path, "rb").read()
    if loader == "dill":
        import dill
        root = dill.loads(data)
    else:
        import lib.structh  # noqa: F401  (classes of the harness are pickled by reference)
        root = pickle.loads(data)
    # first of all (the statistics table of this process knows no uid yet): a second copy, edited BEFORE anything is asked of
    # it here - its memos are exactly what the pickle carried
    root2 = dill.loads(data) if loader == "dill" else pickle.loads(data)
    root3 = dill.loads(data) if loader == "dill" else pickle.loads(data)
    stale = mutate_and_compare(root2, warm_first=False, twin=root3)
    out = {"snapshot": snapshot(root), "queries": queries(root), "stale": stale}
    print(json.dumps(out))


if __name__ == "__main__":
    main()
