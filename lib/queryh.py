"""State-import harness for the query side (neighbors, find_links, traversals, searches):
build a graph through the real API, snapshot the real objects into a model state literal, ask
the implementation and the model the same queries."""
from . import common as C
from . import structh as H

from edgegraph.traversal import helpers, breadthfirst, depthfirst

DIRC = {"Fwd": helpers.DIR_SENS_FORWARD, "Bwd": helpers.DIR_SENS_BACKWARD, "AnyDir": helpers.DIR_SENS_ANY}
UNKC = {"UErr": helpers.LNK_UNKNOWN_ERROR, "UNon": helpers.LNK_UNKNOWN_NONNEIGHBOR, "UNb": helpers.LNK_UNKNOWN_NEIGHBOR}
DIRS = list(DIRC)
UNKS = list(UNKC)
NFILT = 5      # std_filt ids 0..4 (Nbrs.v)
NFFL = 3       # std_ffl ids 0..2


def _memo(w, kind, fid, make):
    """one function object per (world, kind, id): the memo of neighbors() keys on function identity"""
    d = w.__dict__.setdefault("_filters", {})
    if (kind, fid) not in d:
        d[(kind, fid)] = make()
    return d[(kind, fid)]


def std_filt(w, fid):
    """the Python twin of Nbrs.std_filt"""
    if fid is None:
        return None
    if w.__dict__.get("ephemeral_filters"):
        # a NEW callable for every call, dropped right after it (inline lambdas / per-call closures): the memo must not
        # mistake it for an earlier, dead one (e.g. by its recycled address)
        n = w.__dict__["_eph_n"] = w.__dict__.get("_eph_n", 0) + 1
        if fid <= 2 and n % 2:
            # every other one an UNHASHABLE callable object (a plain @dataclass with __call__) of the same meaning: it cannot be
            # a memo key at all, and whatever stands in for it (its address ...) dies with it
            return _UnhashableFilt(w, fid)
        return _std_filt(w, fid)
    return _memo(w, "filt", fid, lambda: _std_filt(w, fid))


class _MethodFilt:
    """filters handed out as BOUND METHODS of sibling objects (one function, several receivers)"""

    def __init__(self, w, fid):
        self.w, self.fid = w, fid

    def accept(self, e, v2):
        return _filt_value(self.w, self.fid, e, v2)


class _UnhashableFilt:
    """a callable OBJECT with value equality and therefore no hash (what `@dataclass` gives a callable class): legal as a
    filter; it cannot be a memo key, so with caching on the answer must simply be computed"""
    __hash__ = None

    def __init__(self, w, fid):
        self.w, self.fid = w, fid

    def __eq__(self, other):
        return isinstance(other, _UnhashableFilt) and other.fid == self.fid

    def __call__(self, e, v2):
        return _filt_value(self.w, self.fid, e, v2)


def _filt_value(w, fid, e, v2):
    l = w.id_of(e)
    o = w.id_of(v2)
    if fid == 0:
        return True
    if fid == 1:
        return False
    if fid == 2:
        return l % 2 == 0
    if fid == 3:
        return o is not None and o % 2 == 0
    return (l + o) % 2 == 0 if o is not None else l % 2 == 0


def _std_filt(w, fid):
    """Distinct filters that are siblings in every way but identity: ids 0-2 are functions sharing ONE code object (their
    state is captured as default arguments, so there is no closure), id 3 is a bound method, id 4 an unhashable callable object."""
    if fid == 4:
        return _UnhashableFilt(w, fid)
    if fid > 2:
        return _MethodFilt(w, fid).accept

    def f(e, v2, _w=w, _fid=fid):
        return _filt_value(_w, _fid, e, v2)
    return f


def std_ffl(w, fid):
    if fid is None:
        return None

    def f(e):
        l = w.id_of(e)
        if fid == 0:
            return True
        if fid == 1:
            return False
        return l % 2 == 0
    return f


class FalsyCallable:
    """a callback given as a callable OBJECT whose truth value is False (e.g. a callable lookup table that is empty: it
    defines __len__).  "Was a callback given?" is a question about None, not about truth."""

    def __init__(self, fn):
        self.fn = fn

    def __call__(self, *a):
        return self.fn(*a)

    def __len__(self):
        return 0


def std_fres(w, fid):
    """ff_result twins of TravCheck.std_fres: 0 all, 1 none, 2 even ids (None-safe)"""
    if fid is None:
        return None

    def f(v):
        if fid == 0:
            return True
        if fid == 1:
            return False
        i = w.id_of(v)
        return i is not None and i % 2 == 0
    return FalsyCallable(f) if fid == 2 else f


def outcome_of(fn):
    try:
        return fn()
    except Exception as e:  # noqa: BLE001
        n = type(e).__name__
        return ["raise", n if n in H.EXN else "Other:" + n]


def _scribble(r):
    """the answer of neighbors() is the caller's own list: callers pop it as a work list, sort it, extend it"""
    if isinstance(r, list):
        r.clear()
        r.append(None)


def run_query(w, q):
    """q = ["NB", v, d, u, f] | ["FL", a, b, ds, u, f] | traversal / search queries (see travh)"""
    t = q[0]
    if t == "NB":
        v = w.get(q[1], H.VERTEX_KINDS)

        def nb():
            r = helpers.neighbors(v, direction_sensitive=DIRC[q[2]], unknown_handling=UNKC[q[3]], filterfunc=std_filt(w, q[4]))
            ids = [w.id_of(x) for x in r]
            _scribble(r)
            return ["list", ids]
        return outcome_of(nb)
    if t == "FL":
        a, b = w.get(q[1], H.VERTEX_KINDS), w.get(q[2], H.VERTEX_KINDS)
        return outcome_of(lambda: ["set", sorted(w.id_of(x) for x in helpers.find_links(
            a, b, direction_sensitive=bool(q[3]), unknown_handling=UNKC[q[4]], filterfunc=std_ffl(w, q[5])))])
    if t in ("BFT", "DFR", "DFI", "IBFT", "IDFR", "IDFI"):
        fn = {"BFT": breadthfirst.bft, "DFR": depthfirst.dft_recursive, "DFI": depthfirst.dft_iterative,
              "IBFT": breadthfirst.ibft, "IDFR": depthfirst.idft_recursive, "IDFI": depthfirst.idft_iterative}[t]
        uni = w.get(q[1], ["KUniverse"]) if q[1] is not None else None
        start = w.get(q[2], H.VERTEX_KINDS)
        return outcome_of(lambda: ["list", [w.id_of(x) for x in fn(
            uni, start, direction_sensitive=DIRC[q[3]], unknown_handling=UNKC[q[4]], ff_via=std_filt(w, q[5]),
            ff_result=std_fres(w, q[6]))]])
    if t in ("BFS", "DSR", "DSI"):
        fn = {"BFS": breadthfirst.bfs, "DSR": depthfirst.dfs_recursive, "DSI": depthfirst.dfs_iterative}[t]
        uni = w.get(q[1], ["KUniverse"]) if q[1] is not None else None
        start = w.get(q[2], H.VERTEX_KINDS)
        attr, val = q[3], q[4]

        def go():
            r = fn(uni, start, attr, w.values[val] if isinstance(val, int) else val)
            return ["none"] if r is None else ["id", w.id_of(r)]
        return outcome_of(go)
    raise H.CaseInvalid(f"unknown query {t}")


def warm_memo(w):
    """with caching on: ask neighbors() of every vertex under the common settings, so that later calls meet a warm memo"""
    for o in list(w.objs):
        if H.kind_of(o) in H.VERTEX_KINDS:
            for d in ("Fwd", "AnyDir", "Bwd"):
                for u in ("UNb", "UNon"):
                    try:
                        _scribble(helpers.neighbors(o, direction_sensitive=DIRC[d], unknown_handling=UNKC[u]))
                    except Exception:  # noqa: BLE001
                        pass


def build_and_query(ops, queries, setup=None, caching=False, then_ops=(), warm=True):
    """Execute builder ops on a fresh world, (optionally: switch neighbor caching on, warm every memo, run `then_ops`),
    snapshot, then run queries.  Returns dict or None."""
    from edgegraph.structure import Vertex
    w = H.World()
    try:
        for op in ops:
            w.do(op)
        if setup:
            setup(w)
        if caching:
            Vertex.NEIGHBOR_CACHING = True
            if warm:
                warm_memo(w)
        for op in then_ops:
            w.do(op)
        snap = w.snapshot()
        answers = [run_query(w, q) for q in queries]
        snap_after = w.snapshot()
        return {"snap": snap, "answers": answers, "unchanged": snap == snap_after}
    except H.CaseInvalid:
        return None
    finally:
        w.close()


# ---- Gallina ------------------------------------------------------------------------------------
def c_query(q):
    t = q[0]
    if t == "NB":
        return f"QNb {q[1]} {q[2]} {q[3]} {C.copt(q[4])}"
    if t == "FL":
        return f"QFl {q[1]} {q[2]} {C.cbool(q[3])} {q[4]} {C.copt(q[5])}"
    raise ValueError(t)


def c_qres(a):
    if a[0] == "list":
        return f"RList {H.c_oids(a[1])}"
    if a[0] == "set":
        return f"RSet {H.c_ids(a[1])}"
    if a[0] == "raise":
        return f"RErr {a[1]}" if a[1] in H.EXN else "RErr IllTyped"
    return "RErr IllTyped"


def c_qcase(snap, queries, answers):
    return "(" + H.c_state(snap) + ", " + C.clist([f"({c_query(q)}, {c_qres(a)})" for q, a in zip(queries, answers)], str) + ")"


QIMPORTS = "From EG Require Import Base State Nbrs Struct StructCheck NbrsCheck."
QTYPE = "state * list (qry * qres)"


# ---- random multigraph builders -------------------------------------------------------------
def gen_graph_ops(rng, nv=None, nl=None, odd=0.25, universes=True, shared=0.3, classes=None):
    """ops building a small mixed multigraph: self-loops, parallel and mixed-class edges, some None ends /
    third members (probability `odd`), optionally a universe holding a subset of the vertices."""
    nv = nv if nv is not None else rng.randint(1, 5)
    nl = nl if nl is not None else rng.randint(0, 7)
    ops = []
    for _ in range(rng.randint(0, 1)):
        ops.append(["NL", None, None])           # shifts id parity
    vids = []
    nid = len(ops)
    shared_uid = rng.random() < shared      # several vertices carry the same caller-supplied uid (never checked by the library)
    for _ in range(nv):
        op = ["NV", rng.choice(classes or H.NV_CLASSES), [], []]
        if shared_uid and rng.random() < 0.6:
            op.append(7000 + rng.randrange(2))      # two or more vertices end up with the same caller-supplied uid
        ops.append(op)
        vids.append(nid)
        nid += 1
    lids = []
    for _ in range(nl):
        a = rng.choice(vids)
        b = rng.choice(vids) if rng.random() < 0.8 else a
        k = rng.choice(H.LINK_KINDS)
        r = rng.random()
        if r < odd / 2:
            ops.append(["NE", k, a, None])
        elif r < odd * 0.75:
            ops.append(["NE", k, None, b])
        else:
            ops.append(["NE", k, a, b])
        lids.append(nid)
        nid += 1
        if rng.random() < odd / 3:
            ops.append(["LAV", lids[-1], rng.choice(vids)])   # a third member
        elif rng.random() < odd / 3 and r >= odd * 0.75:
            ops.append(["LUF", lids[-1], b])                  # the link loses an end (link then unlink one end): vertices == (a,)
    uid = None
    if universes and rng.random() < 0.7:
        members = [v for v in vids if rng.random() < 0.75]
        rng.shuffle(members)
        ops.append(["NU", members, None])
        uid = nid
        nid += 2
    return ops, vids, lids, uid
