"""Traversal / search legs shared by C06, C07, C08 (state import)."""
from . import common as C
from . import structh as H
from . import queryh as Q
from .engine import Leg

KIND = {"BFT": "KBft", "DFR": "KDfr", "DFI": "KDfi", "BFS": "KBft", "DSR": "KDfr", "DSI": "KDfi"}
VALUES = [1, 1.0, True, "1", 2, 0, False, None, (1,), "x", 2.5, 7000, 7001]     # the last two: caller-supplied uids


def c_tq(q, mlist=None):
    t = q[0]
    if t in ("BFT", "DFR", "DFI"):
        return f"TQ {KIND[t]} {C.copt(q[1])} {q[2]} {q[3]} {q[4]} {C.copt(q[5])} {C.copt(q[6])}"
    return f"SQ {KIND[t]} {C.copt(q[1])} {q[2]} {C.clist(mlist, C.cbool)}"


def c_tans(a):
    if a[0] == "list":
        return f"AList {H.c_oids(a[1])}"
    if a[0] == "id":
        return f"AFound {C.copt(a[1])}"
    if a[0] == "none":
        return "ANone"
    if a[0] == "raise":
        return f"AErr {a[1]}" if a[1] in H.EXN else "AErr IllTyped"
    return "AErr IllTyped"


TIMPORTS = "From EG Require Import Base State Nbrs Struct StructCheck Trav TravState TravCheck."
TTYPE = "state * list (tqry * tans)"


def gen_trav_case(rng, search=False):
    eph = (not search) and rng.random() < 0.3     # every call gets a freshly created filter callable (one setting, several filters)
    case = _gen_trav_case(rng, search, eph)
    case["caching"] = True if eph else rng.random() < 0.5    # the answers must not depend on the neighbour memo being in use
    case["ephemeral"] = eph
    case["warm"] = case["caching"] and rng.random() < 0.5    # ... nor on what neighbors() was asked before, under other settings
    if rng.random() < 0.5:
        case["ops2"] = gen_phase2(rng, case, case.pop("_uid"), case.pop("_vids"), case.pop("_lids"))
    else:
        for k in ("_uid", "_vids", "_lids"):
            case.pop(k)
    return case


def _gen_trav_case(rng, search=False, eph=False):
    ops, vids, lids, uid = Q.gen_graph_ops(rng, nv=rng.randint(1, 6), nl=rng.randint(0, 9), odd=rng.choice([0.0, 0.0, 0.15]),
                                           shared=0.6 if search else 0.3)
    queries = []
    starts = [rng.choice(vids) for _ in range(2)]
    if search:
        attrs = {str(v): rng.randrange(len(VALUES)) for v in vids if rng.random() < rng.choice([0.3, 0.7])}
        for st in starts:
            for uni in ([uid, None] if uid is not None else [None]):
                val = rng.choice(list(attrs.values())) if attrs and rng.random() < 0.7 else rng.randrange(len(VALUES))
                attr = rng.choice(["k", "k", "k", "other", "uid"])
                if attr == "uid":      # an attribute every vertex has through its CLASS (a property), not its instance dict
                    val = rng.choice([11, 12])
                for t in ("BFS", "DSR", "DSI"):
                    queries.append([t, uni, st, attr, val])
        return {"ops": ops, "queries": queries, "attrs": attrs, "falsy": rng.random() < 0.5, "_uid": uid, "_vids": vids, "_lids": lids}
    d0, u0 = rng.choice(Q.DIRS), rng.choice(["UNb", "UNon"])
    if eph:
        starts = [starts[0], starts[0]]
    for gi, st in enumerate(starts):
        for uni in ([uid, None] if uid is not None else [None]):
            d, u = rng.choice(Q.DIRS), rng.choice(Q.UNKS + ["UNb", "UNon"])
            fv = rng.choice([None, None, 0, 2, 3, 4])
            if eph:      # one start, one direction / unknown setting, a different selective filter for every group of calls
                d, u, fv = d0, u0, [2, 0, 1, 2][(gi * 2 + (uni is None)) % 4]
            for fr in (None, rng.choice([0, 1, 2])):
                for t in ("BFT", "DFR", "DFI"):
                    queries.append([t, uni, st, d, u, fv, fr])
    return {"ops": ops, "queries": queries, "_uid": uid, "_vids": vids, "_lids": lids}


def match_list(w, attr, val):
    """per object id: hasattr(obj, attr) and obj[attr] == val  (the harness's own reading of the statement)"""
    out = []
    for o in w.objs:
        try:
            out.append(bool(hasattr(o, attr) and getattr(o, attr) == VALUES[val]))
        except Exception:  # noqa: BLE001
            out.append(False)
    return out


def observe_trav(case):
    """one or two phases: build, snapshot, run every query (then mutate the same live graph and ask again)"""
    w = H.World()
    try:
        from edgegraph.structure import Vertex as _V
        _V.NEIGHBOR_CACHING = bool(case.get("caching"))
        w.ephemeral_filters = bool(case.get("ephemeral"))
        first = _observe_phase(w, case, case["ops"])
        if first is None:
            return None
        if case.get("ops2"):
            second = _observe_phase(w, case, case["ops2"])
            if second is None:
                return None
            first["phase2"] = second
        return first
    except H.CaseInvalid:
        return None
    finally:
        w.close()


def _observe_phase(w, case, ops):
    """run ops on the live world, snapshot, run every query; for traversals also the generator form and a
    repeat call; for searches also the matching predicate per object"""
    try:
        if case.get("falsy"):
            ops = [(["NV", 2, op[2], op[3]] if op[0] == "NV" else op) for op in ops]
        for op in ops:
            w.do(op)
        for v, vi in case.get("attrs", {}).items():
            setattr(w.objs[int(v)], "k", VALUES[vi])
        w.values = VALUES
        if case.get("warm"):
            Q.warm_memo(w)                   # neighbors() asked under all the common settings before the traversals
        snap = w.snapshot()
        answers, extra = [], []
        for q in case["queries"]:
            a = Q.run_query(w, q)
            answers.append(a)
            if q[0] in ("BFT", "DFR", "DFI"):
                gen = Q.run_query(w, ["I" + q[0]] + q[1:])
                again = Q.run_query(w, q)
                # what neighbors() itself answers for every vertex under these settings (for the oracles)
                nbs = {}
                for i, o in enumerate(w.objs):
                    if H.kind_of(o) in H.VERTEX_KINDS:
                        nbs[str(i)] = Q.run_query(w, ["NB", i, q[3], q[4], q[5]])
                extra.append({"gen": gen, "again": again, "nbs": nbs})
            else:
                nbs = {}
                for i, o in enumerate(w.objs):
                    if H.kind_of(o) in H.VERTEX_KINDS:
                        nbs[str(i)] = Q.run_query(w, ["NB", i, "Fwd", "UErr", None])
                extra.append({"m": match_list(w, q[3], q[4]), "nbs": nbs,
                              "trav": Q.run_query(w, [{"BFS": "BFT", "DSR": "DFR", "DSI": "DFI"}[q[0]], q[1], q[2], "Fwd", "UErr", None, None])})
        snap_after = w.snapshot()
        return {"snap": snap, "answers": answers, "extra": extra, "unchanged": snap == snap_after}
    except H.CaseInvalid:
        return None


def gen_phase2(rng, case, uid, vids, lids):
    """mutations applied to the SAME live graph between two rounds of the same queries: swap universe members keeping
    the count, re-point edge ends, add / remove links"""
    ops2 = []
    if uid is not None:
        members = list(case["ops"][-1][1])
        outside = [v for v in vids if v not in members]
        if members and outside and rng.random() < 0.8:
            ops2 += [["URV", uid, rng.choice(members)], ["UAV", uid, rng.choice(outside)]]
        elif members and rng.random() < 0.5:
            ops2 += [["URV", uid, rng.choice(members)]]
    for _ in range(rng.randint(0, 2)):
        r = rng.random()
        if r < 0.4 and lids:
            ops2.append([rng.choice(["SV1", "SV2"]), rng.choice(lids), rng.choice(vids)])
        elif r < 0.8:
            ops2.append(["LFT", rng.choice(vids), rng.choice(["KDir", "KUnd"]), rng.choice(vids), False])
        elif len(vids) >= 2:
            ops2.append(["UNL", rng.choice(vids), rng.choice(vids), True])
    return ops2


class TravLeg(Leg):
    imports = TIMPORTS
    checkfn = "tcheck_phases"
    case_type = "list (" + TTYPE + ")"
    shard = 30
    search = False

    def generate(self, rng, n):
        for _ in range(n):
            yield gen_trav_case(rng, self.search)

    def observe(self, case):
        return observe_trav(case)

    def term(self, case, obs):
        if obs is None:
            return None
        parts = []
        for ph in [obs] + ([obs["phase2"]] if "phase2" in obs else []):
            qs = []
            for q, a, x in zip(case["queries"], ph["answers"], ph["extra"]):
                qs.append(f"({c_tq(q, x.get('m'))}, {c_tans(a)})")
            parts.append("(" + H.c_state(ph["snap"]) + ", " + C.clist(qs, str) + ")")
        return C.clist(parts, str)

    def model_value(self, case, obs):
        return "tanswers_phases " + self.term(case, obs)

    def phase_oracle(self, case, obs):
        """judge one phase (subclasses)"""
        return []

    def oracle(self, case, obs):
        if obs is None:
            return []
        m = self.phase_oracle(case, obs)
        if not m and "phase2" in obs:
            m = ["after the graph was mutated (" + str(case["ops2"]) + "): " + x for x in self.phase_oracle(case, obs["phase2"])]
        return m

    def shrink_candidates(self, case):
        qs = case["queries"]
        if len(qs) > 1:
            for i in range(len(qs)):
                c = dict(case)
                c["queries"] = [qs[i]]
                yield c
        if case.get("ops2"):
            d = dict(case)
            d.pop("ops2")
            yield d
            for i in range(len(case["ops2"])):
                d = dict(case)
                d["ops2"] = case["ops2"][:i] + case["ops2"][i + 1:]
                if d["ops2"]:
                    yield d
        else:
            for c in H.shrink_ops(case["ops"]):
                d = dict(case)
                d["ops"] = c
                if "attrs" in d:
                    d = dict(d)
                    d["attrs"] = {}
                yield d

    def stats(self, case, obs, acc):
        if obs is None:
            return
        acc["queries"] = acc.get("queries", 0) + len(case["queries"])
        for a in obs["answers"]:
            k = a[0] if a[0] != "raise" else "raise:" + a[1]
            acc[k] = acc.get(k, 0) + 1
        acc["graphs_with_cycle_or_selfloop"] = acc.get("graphs_with_cycle_or_selfloop", 0) + int(any(
            len(v) >= 2 and v[0] == v[1] for v in obs["snap"]["lverts"]))

    def nontrivial(self, case, obs):
        return obs is not None and any(a[0] == "list" and len(a[1]) >= 3 for a in obs["answers"]) or \
            (obs is not None and self.search and any(a[0] == "id" for a in obs["answers"]))


# ---- independent re-computations from neighbors() answers (oracles) -----------------------------
def in_uni(snap, uni, v):
    return True if uni is None else (v is not None and v in snap["uverts"][uni])


def nb_of(nbs, v):
    """neighbors() answer for v as recorded; None node raises AttributeError"""
    if v is None:
        return ["raise", "AttributeError"]
    return nbs[str(v)]


def spec_neighbors(snap, v, d, u, f):
    """what neighbors(v) answers by the LINK ORDER of the snapshot alone (the statement of C04, written out over the public
    view: links of v in order, the far end by identity, direction / unknown-class / filter decided per link): the yardstick that
    makes "the order induced by link order" a judgement on the implementation and not only on the model.  Filters are the
    harness's standard ones (ids 0-4, functions of link id and far-end id)."""
    def filt(l, o):
        if f is None or f == 0:
            return True
        if f == 1:
            return False
        if f == 2:
            return l % 2 == 0
        if f == 3:
            return o is not None and o % 2 == 0
        return (l + o) % 2 == 0 if o is not None else l % 2 == 0
    out = []
    for l in snap["vlinks"][v]:
        ends = snap["lverts"][l]
        if len(ends) < 2:
            return ["raise", "IndexError"]
        a, b = ends[0], ends[1]
        o = b if a == v else (a if b == v else None)
        k = snap["kind"][l]
        und, dr = k in ("KUnd", "KUndSub"), k in ("KDir", "KDirSub")
        if d == "AnyDir":
            take = True
        else:
            mine, theirs = (a, b) if d == "Fwd" else (b, a)
            if und or (dr and mine == v):
                take = True
            elif dr and theirs == v:
                take = False
            elif u == "UNon":
                take = False
            elif u == "UNb":
                take = True
            else:
                return ["raise", "NotImplementedError"]
        if take and filt(l, o):
            out.append(o)
    return ["list", out]


def reach_set(snap, nbs, uni, start):
    """vertices reachable from start through in-universe neighbours; None if some expanded vertex raises"""
    seen = [start]
    i = 0
    while i < len(seen):
        a = nb_of(nbs, seen[i])
        if a[0] != "list":
            return None
        for w in a[1]:
            if in_uni(snap, uni, w) and w not in seen:
                seen.append(w)
        i += 1
    return seen      # note: this IS the canonical BFS order


def preorder(snap, nbs, uni, start, rev=False):
    out = []

    def rec(v):
        out.append(v)
        a = nb_of(nbs, v)
        if a[0] != "list":
            raise KeyError
        ws = list(reversed(a[1])) if rev else a[1]
        for w in ws:
            if in_uni(snap, uni, w) and w not in out:
                rec(w)
    try:
        rec(start)
    except KeyError:
        return None
    return out
