"""Fingerprints of the modelled sources.

The hand-written part of the model was written against one version of each source file.  A fingerprint (hash of the
AST without docstrings, so comments / formatting do not count) of every edgegraph module is committed in
model_fingerprints.json.  When a file differs from the version the model was written against, nothing is reported by
itself (a change is not a violation) - but the checks of the properties anchored in that file explore more cases in the
quick tier, because that is exactly when the hand-written model may have gone stale.

usage: /venv/bin/python -m lib.fingerprint --write     (after a deliberate change of /repo, e.g. a fix: commit)"""
import ast
import hashlib
import json
import sys

from . import common as C

FILE = C.VERIF / "model_fingerprints.json"


def _strip(tree):
    for node in ast.walk(tree):
        body = getattr(node, "body", None)
        if isinstance(body, list) and body and isinstance(body[0], ast.Expr) and isinstance(getattr(body[0], "value", None), ast.Constant) \
                and isinstance(body[0].value.value, str):
            node.body = body[1:] or [ast.Pass()]
    return tree


def fingerprint(path):
    try:
        return hashlib.sha256(ast.dump(_strip(ast.parse(path.read_text()))).encode()).hexdigest()[:20]
    except (OSError, SyntaxError) as e:
        return f"unreadable:{type(e).__name__}"


def current():
    root = C.REPO / "edgegraph"
    return {str(p.relative_to(C.REPO)): fingerprint(p) for p in sorted(root.rglob("*.py"))}


def changed_files():
    """files of /repo/edgegraph whose AST differs from the version the model was written against (or added / removed)"""
    try:
        ref = json.loads(FILE.read_text())
    except (OSError, ValueError):
        return []
    cur = current()
    return sorted(f for f in set(ref) | set(cur) if ref.get(f) != cur.get(f))


def anchors(pid):
    for line in (C.VERIF / "properties.jsonl").read_text().splitlines():
        if line.strip():
            d = json.loads(line)
            if d["id"] == pid:
                return list(d.get("anchors", {}).get("files", []))
    return []


def escalation(pid):
    """(factor, changed files): 4 when a file the property is anchored in changed, 2 when only other files did, else 1"""
    ch = changed_files()
    if not ch:
        return 1, []
    return (4 if set(ch) & set(anchors(pid)) else 2), ch


if __name__ == "__main__":
    if "--write" in sys.argv:
        FILE.write_text(json.dumps(current(), indent=1, sort_keys=True) + "\n")
        print("written", FILE)
    else:
        print(json.dumps({"changed": changed_files()}, indent=1))
