"""State-import harness for the three renderers (C14, C15, C16) and their read-only oracle (C13)."""
import copy
import re

from . import common as C
from . import structh as H
from . import queryh as Q
from .engine import Leg

from edgegraph.structure import Vertex, Universe, DirectedEdge, UnDirectedEdge, TwoEndedLink, BaseObject
from edgegraph.output import plaintext, plantuml
from edgegraph.output import pyvis as egpyvis

RIMPORTS = "From Coq Require Import String. From EG Require Import Base State Nbrs Struct StructCheck Trav Render RenderCheck. Open Scope string_scope."
RTYPE = "state * list (rqry * rans)"

PCODE = {"KVertex": 1, "KVertexSub": 2, "KUniverse": 3, "KDir": 4, "KDirSub": 5, "KUnd": 6, "KUndSub": 7, "KOther": 8, "KLaws": 9,
         "TwoEnded": 10, "Link": 11, "Base": 12, "Object": 13, "NoneType": 14}
# per configured class: the `type` keyword (vertices) or the two sides (links) make the choice visible in the text
VTYPE = {"KVertex": "object", "KVertexSub": "class", "KUniverse": "entity", "Base": "card"}
# title format per configured vertex class: "$id" for Vertex, a format over the attribute `nm` (= n<id>) for the others,
# so that WHICH class's options produced a title is visible in the text
TITLE = {"KVertex": "$id", "KVertexSub": "S_{nm}", "KUniverse": "U_{nm}", "Base": "B_{nm}"}
PREFIX = {"v": "KVertex", "S_n": "KVertexSub", "U_n": "KUniverse", "B_n": "Base"}
SIDES = {"KDir": ("", ">"), "KUnd": ("", ""), "KDirSub": ("<", ">"), "TwoEnded": ("x", "x"), "Base": ("o", "o")}
CLS = {"KVertex": Vertex, "KVertexSub": H.VSub, "KUniverse": Universe, "KDir": DirectedEdge, "KDirSub": H.DSub,
       "KUnd": UnDirectedEdge, "TwoEnded": TwoEndedLink, "Base": BaseObject}
CONF_KEYS = [["KVertex", "KDir", "KUnd"], ["KVertex", "KDir", "KUnd", "KVertexSub", "KDirSub", "KUniverse"], ["TwoEnded", "Base"],
             ["KVertex", "KUnd"], ["KVertex", "KDir", "KUnd"]]


def make_options(ci):
    if ci == 0:
        return copy.deepcopy({k: (dict(v) if isinstance(v, dict) else v) for k, v in plantuml.PLANTUML_RENDER_OPTIONS.items()})
    opts = {"skinparams": {"dpi": "300"}}
    for key in CONF_KEYS[ci]:
        d = {}
        if key in VTYPE:
            d.update({"type": VTYPE[key], "show_attrs": ["^nm$"], "title_format": TITLE[key]})
        if key in SIDES:
            d.update({"v1side": SIDES[key][0], "v2side": SIDES[key][1]})
        opts[CLS[key]] = d
    return opts


def std_key(i):
    return 9 if i is None else (i * 7) % 5


def canon_text(w, text):
    """replace every repr / hex(id) of a registered object by its canonical token"""
    if text is None:
        return None
    for i, o in enumerate(w.objs):
        text = text.replace(object.__repr__(o), f"v{i}").replace(repr(o), f"v{i}").replace(hex(id(o)), f"v{i}")
    return text


def run_rquery(w, q, fault=None):
    t = q[0]
    uni = w.get(q[1], ["KUniverse"])
    if t == "PLAIN":
        rfunc = (lambda v: "None" if v is None else f"v{w.id_of(v)}") if q[3] else None
        if q[3] == 2:                  # a rendering function that is not injective
            rfunc = (lambda v: "None" if v is None else f"w{w.id_of(v) % 2}")
        sort = (lambda v: std_key(w.id_of(v))) if q[2] else None
        # callbacks are sometimes handed over as callable objects whose truth value is False
        if rfunc is not None and (q[1] + len(w.objs)) % 2:
            rfunc = Q.FalsyCallable(rfunc)
        if sort is not None and (q[1] + len(w.objs)) % 3 == 0:
            sort = Q.FalsyCallable(sort)

        def go():
            return ["text", canon_text(w, plaintext.basic_render(uni, rfunc=rfunc, sort=sort))]
        return Q.outcome_of(go)
    if t == "PYVIS":
        rvfunc = (lambda v: f"r{w.id_of(v)}") if q[2] else None      # "r<id>": told apart from the default label (canonicalised to "v<id>")
        if rvfunc is not None and (q[1] + len(w.objs)) % 2:
            rvfunc = Q.FalsyCallable(rvfunc)

        def go():
            net = egpyvis.make_pyvis_net(uni, rvfunc=rvfunc) if not (len(q) > 3 and q[3]) else egpyvis.pyvis_render_customizable(uni, rvfunc=rvfunc)
            nodes, kinds = [], []
            for n in net.nodes:
                lab = canon_text(w, str(n["label"]))
                nodes.append([n["id"], int(lab[1:]) if re.fullmatch(r"[vr]\d+", lab) else -1])
                kinds.append(lab[:1])
            edges = [[e["from"], e["to"], e.get("arrows") == "to"] for e in net.edges]
            return ["net", nodes, edges, "".join(kinds)]
        return Q.outcome_of(go)
    if t == "PUML":
        def go():
            table = make_options(q[2])
            if len(q) > 4 and q[3] == "grow_from":
                # ONE options table used for two renderings: first holding the entries of a smaller configuration only, then
                # grown in place by the missing entries - the second rendering must be that of the full configuration
                table = make_options(q[4])
                plantuml.render_to_plantuml_src(uni, table)
                for k_, v_ in make_options(q[2]).items():
                    if k_ not in table:
                        table[k_] = v_
            src = plantuml.render_to_plantuml_src(uni, table)
            return ["doc", None] if src is None else ["doc", parse_puml(w, src, q[2]), src.count("@startuml"), src.count("@enduml"),
                                                      src.strip().startswith("@startuml") and src.strip().endswith("@enduml")]
        return Q.outcome_of(go)
    raise H.CaseInvalid(t)


DECL = re.compile(r"^(\w+) (\S+) <<(\w+)>> \{$")
REL = re.compile(r"^(\S+) (\S*)--(\S*) (\S+)$")


def parse_title(t):
    """title -> (vertex id, code of the configured class whose title format produced it)"""
    import re as _re
    for pre, key in (("S_n", "KVertexSub"), ("U_n", "KUniverse"), ("B_n", "Base"), ("v", "KVertex")):
        m = _re.fullmatch(_re.escape(pre) + r"(\d+)", t)
        if m:
            return int(m.group(1)), PCODE[key]
    return -1, 0


def parse_puml(w, src, ci):
    """declaration headers (vertex id, configured-class code) in order and the sorted relation rows
    [v1, v2, link class code, class code of v1's title format, of v2's]"""
    src = canon_text(w, src)
    decls, rels = [], []
    inv_type = {v: k for k, v in VTYPE.items()}
    if ci == 0:
        inv_type = {"object": "KVertex"}
    inv_sides = {v: k for k, v in SIDES.items()}
    for line in src.split("\n"):
        m = DECL.match(line)
        if m:
            vid, tcode = parse_title(m.group(2))
            code = PCODE.get(inv_type.get(m.group(1), "?"), 0)
            if tcode != code and not (ci == 0):
                code = 0                      # the title was not produced by the options of the declared type
            decls.append([vid, code, m.group(3)])
            continue
        m = REL.match(line)
        if m and not line.startswith(" "):
            a, ca = parse_title(m.group(1))
            b, cb = parse_title(m.group(4))
            k = PCODE.get(inv_sides.get((m.group(2), m.group(3)), "?"), 0)
            rels.append([a if a >= 0 else 9999, b if b >= 0 else 9999, k, ca, cb])
    return [decls, sorted(rels)]


def c_rq(q):
    t = q[0]
    if t == "PLAIN":
        return f"RPlain {q[1]} {C.cbool(q[2])} {C.cbool(q[3] == 2)}"
    if t == "PYVIS":
        return f"RPyvis {q[1]}"
    return f"RPuml {q[1]} {q[2]}"


def c_rans(a):
    if a[0] == "text":
        return "AText " + ("None" if a[1] is None else "(Some " + C.cstr(a[1]) + ")")
    if a[0] == "net":
        nodes = C.clist(a[1], lambda p: f"({p[0]}, {p[1] if p[1] >= 0 else 9999})")
        edges = C.clist(a[2], lambda e: f"({e[0]}, {e[1]}, {C.cbool(e[2])})")
        return f"ANet {nodes} {edges}"
    if a[0] == "doc":
        if a[1] is None:
            return "ADoc None"
        decls = C.clist(a[1][0], lambda d: f"({d[0] if d[0] >= 0 else 9999}, {d[1]})")
        return f"ADoc (Some ({decls}, {C.clist(a[1][1], H.c_ids)}))"
    if a[0] == "raise":
        return f"ARaise {a[1]}" if a[1] in H.EXN else "ARaise IllTyped"
    return "ARaise IllTyped"


def gen_render_graph(rng, plain=False, lost_end=True):
    """universe with members and surrounding graph: self-loops, parallel and mixed edges, subclasses, isolated
    vertices, links leaving the universe, occasionally a half-assigned edge / unknown link class"""
    ops, vids, lids, _ = Q.gen_graph_ops(rng, nv=rng.randint(1, 6), nl=rng.randint(0, 8), odd=rng.choice([0.0, 0.0, 0.0, 0.15]),
                                         universes=False)
    if not lost_end:
        ops = [op for op in ops if op[0] != "LUF"]
    if rng.random() < 0.75:
        # mostly the two edge classes (and their subclasses): the renderers' normal domain
        ops = [([op[0], rng.choice(["KDir", "KUnd", "KDirSub", "KUndSub", "KDir", "KUnd"])] + op[2:]) if op[0] == "NE" else op for op in ops]
    members = [v for v in vids if rng.random() < 0.8]
    rng.shuffle(members)
    n = sum({"NV": 1, "NE": 1, "NL": 1, "NU": 2}.get(op[0], 0) for op in ops)
    if rng.random() < 0.25:
        # a universe is a vertex too: an inner universe as a member of the rendered one, possibly linked to by an edge
        inner = n
        ops.append(["NU", [v for v in vids if rng.random() < 0.3], None])
        n += 2
        members.insert(rng.randrange(len(members) + 1), inner)
        if vids and rng.random() < 0.6:
            ops.append(["NE", rng.choice(["KDir", "KUnd"]), rng.choice(vids), inner])
            n += 1
    ops.append(["NU", members, None])
    return ops, n, vids


def gen_render_phase2(rng, ops, u, vids):
    """edits between two renderings of the same universe: a member moved to the end (removed and re-added: same size, new
    order), a member swapped for a non-member, a new edge between members"""
    members = list(ops[-1][1])
    out = []
    if members:
        a = rng.choice(members)
        others = [v for v in vids if v not in members]
        if others and rng.random() < 0.4:
            out += [["URV", u, a], ["UAV", u, rng.choice(others)]]
        else:
            out += [["URV", u, a], ["UAV", u, a]]
        if rng.random() < 0.5:
            out.append(["NE", rng.choice(["KDir", "KUnd"]), rng.choice(members), rng.choice(members)])
    return out


class RenderLeg(Leg):
    imports = RIMPORTS
    checkfn = "rcheck_phases"
    case_type = "list (" + RTYPE + ")"
    shard = 30
    kinds = ()
    lost_end_links = True      # whether the generated graphs may hold links that lost an end

    def queries_for(self, rng, u):
        raise NotImplementedError

    def decorate(self, w, case):
        pass

    def generate(self, rng, n):
        for _ in range(n):
            ops, u, vids = gen_render_graph(rng, lost_end=self.lost_end_links)
            qs = self.queries_for(rng, u)
            rng.shuffle(qs)                                   # e.g. a sorted rendering before the unsorted one
            case = {"ops": ops, "queries": qs, "caching": rng.random() < 0.5}
            case["warm"] = case["caching"] and rng.random() < 0.5   # neighbors() asked under OTHER settings before the rendering
            if rng.random() < 0.5:
                case["ops2"] = gen_render_phase2(rng, ops, u, vids)      # the same universe rendered again after edits
            yield case

    def _phase(self, w, case):
        for i, o in enumerate(w.objs):        # attributes for title formats / attribute listings
            if H.kind_of(o) in H.VERTEX_KINDS and "nm" not in vars(o):
                o.nm = f"n{i}"
                if i % 2:
                    o.tag = i
        self.decorate(w, case)
        if case.get("warm"):
            Q.warm_memo(w)
        snap = w.snapshot()
        before = [dict(vars(o)) for o in w.objs]
        answers = [run_rquery(w, q) for q in case["queries"]]
        after = [dict(vars(o)) for o in w.objs]
        return {"snap": snap, "answers": answers, "unchanged": w.snapshot() == snap and _same_vars(before, after)}

    def observe(self, case):
        w = H.World()
        try:
            for op in case["ops"]:
                w.do(op)
            Vertex.NEIGHBOR_CACHING = bool(case.get("caching"))
            obs = self._phase(w, case)
            if case.get("ops2"):
                for op in case["ops2"]:
                    w.do(op)
                obs["phase2"] = self._phase(w, case)
            return obs
        except H.CaseInvalid:
            return None
        finally:
            w.close()

    # subclasses judge ONE rendering phase (keys snap / answers / unchanged, plus what their observe adds)
    def phase_oracle(self, case, obs):
        return []

    def oracle(self, case, obs):
        if obs is None:
            return []
        m = self.phase_oracle(case, obs)
        if not m and obs.get("phase2"):
            m = [f"second rendering, after {case['ops2']}: " + x for x in self.phase_oracle(case, obs["phase2"])]
        return m

    def _term1(self, case, ph):
        return "(" + H.c_state(ph["snap"]) + ", " + C.clist([f"({c_rq(q)}, {c_rans(a)})" for q, a in zip(case["queries"], ph["answers"])], str) + ")"

    def term(self, case, obs):
        if obs is None:
            return None
        return C.clist([self._term1(case, ph) for ph in [obs] + ([obs["phase2"]] if obs.get("phase2") else [])], str)

    def model_value(self, case, obs):
        return "map ranswers " + self.term(case, obs)

    def shrink_candidates(self, case):
        qs = case["queries"]
        if len(qs) > 1:
            for q in qs:
                yield {**case, "queries": [q]}
        if case.get("ops2"):
            yield {k: v for k, v in case.items() if k != "ops2"}

    def stats(self, case, obs, acc):
        if obs is None:
            return
        acc["second_renderings"] = acc.get("second_renderings", 0) + int(bool(obs.get("phase2")))
        for a in obs["answers"]:
            k = a[0] if a[0] != "raise" else "raise:" + a[1]
            acc[k] = acc.get(k, 0) + 1


def _same_vars(a, b):
    if len(a) != len(b):
        return False
    for x, y in zip(a, b):
        if {k for k in x if not H.is_class_private(k)} != {k for k in y if not H.is_class_private(k)}:
            return False
        for k in x:
            if H.is_class_private(k):
                continue
            if x[k] is not y[k] and x[k] != y[k]:
                return False
    return True
