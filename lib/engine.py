"""Generic check driver: proof audit + correspondence (tie) + implementation-side property oracle.
A property module provides a `Prop` with one or more `Leg`s (see below)."""
import json
import os
import random
import re
import sys
import traceback

from . import common as C
from . import fingerprint as FP


class Leg:
    """One family of cases of a property's tie.  Subclasses override the methods below."""
    name = "leg"
    imports = "From EG Require Import Base."
    case_type = None           # Gallina type of a case (annotation of the generated definitions)
    checkfn = "check"          # Coq function : case -> bool (model result == embedded impl result)
    exhaustive = False
    rule = ""
    quick_n = 300
    thorough_n = 6000
    shard = 250
    escalation_cap = 4         # at most this factor on quick_n when the modelled sources changed (lib/fingerprint.py)
    extended_factor = 10       # extended failing-input search: this many times quick_n
    time_limit = None          # wall-clock limit of one observe() in seconds (None: the engine's default, 120 s)

    def generate(self, rng, n):
        raise NotImplementedError

    def observe(self, case):
        """Run the implementation on the case; return a JSON-able observation."""
        raise NotImplementedError

    def oracle(self, case, obs):
        """Property judged on the implementation's behaviour: list of violation messages."""
        return []

    def term(self, case, obs):
        """Gallina term for `checkfn`, or None when the case is outside the model's hypotheses."""
        raise NotImplementedError

    def nontrivial(self, case, obs):
        return True

    def shrink_candidates(self, case):
        return []

    def describe(self, case):
        return case

    def stats(self, case, obs, acc):
        pass

    def model_value(self, case, obs):
        """Optional: Gallina term whose vm_compute value is the model's own result (diagnostics)."""
        return None


class Prop:
    pid = "C00"
    legs = []
    assumptions = []
    theorems_file = None

    def extra_obligations(self):
        """Additional machine-checked obligations (e.g. translator proof).  Returns
        (n_obligations, n_discharged, info_dict)."""
        return 0, 0, {}


# ---- watchdog: a case whose calls never return must end as a reported violation, not as a hung check --------------------
class _Watchdog(BaseException):
    """raised in the main thread when a case has run for too long (BaseException: the harness's own `except Exception`
    outcome recorders must not swallow it)"""


_WD = {"limit": float(os.environ.get("EDGEGRAPH_WATCHDOG", "120")), "fired": 0, "slowest": 0.0}
TIMEOUT = "__did_not_return__"


def _observe(leg, case):
    """leg.observe(case) under a wall-clock limit (generated cases take milliseconds; the limit is 120 s, 10 s once a case of
    this run has already hit it).  Returns {TIMEOUT: seconds} when the limit is reached."""
    import signal
    import threading
    if threading.current_thread() is not threading.main_thread():
        return leg.observe(case)
    own = getattr(leg, "time_limit", None)          # legs whose cases are slow by nature (deep-graph pickling under a profiler)
    limit = own if own else (_WD["limit"] if not _WD["fired"] else min(_WD["limit"], 10.0))

    def fire(*_a):
        raise _Watchdog()
    old = signal.signal(signal.SIGUSR1, fire)
    main_id = threading.main_thread().ident
    timer = threading.Timer(limit, lambda: signal.pthread_kill(main_id, signal.SIGUSR1))
    timer.daemon = True
    timer.start()
    import time
    t0 = time.time()
    try:
        return leg.observe(case)
    except _Watchdog:
        _WD["fired"] += 1
        return {TIMEOUT: limit}
    finally:
        timer.cancel()
        signal.signal(signal.SIGUSR1, old)
        _WD["slowest"] = max(_WD["slowest"], time.time() - t0)


def _timed_out(obs):
    return isinstance(obs, dict) and TIMEOUT in obs


def _oracle(leg, case, obs):
    if _timed_out(obs):
        return [f"the calls of this case did not return within {obs[TIMEOUT]:.0f} s (cases of this leg take milliseconds)"]
    return leg.oracle(case, obs)


def _term(leg, case, obs):
    return None if _timed_out(obs) else leg.term(case, obs)


def _nontrivial(leg, case, obs):
    return True if _timed_out(obs) else leg.nontrivial(case, obs)


def _stats(leg, case, obs, acc):
    if not _timed_out(obs):
        leg.stats(case, obs, acc)


def _model_value(leg, case, obs):
    return None if _timed_out(obs) else leg.model_value(case, obs)


def _shrink(leg, case, still_fails, budget=400):
    """Greedy delta-debugging using leg.shrink_candidates."""
    cur = case
    steps = 0
    improved = True
    while improved and steps < budget:
        improved = False
        for cand in leg.shrink_candidates(cur):
            steps += 1
            if steps > budget:
                break
            try:
                if still_fails(cand):
                    cur = cand
                    improved = True
                    break
            except Exception:
                continue
    return cur


def _oracle_fails(leg, case):
    obs = _observe(leg, case)
    return bool(_oracle(leg, case, obs))


def _match_known(pid, leg, case, msgs):
    key = C.canon(leg.describe(case))
    for kf in C.known_findings():
        if kf.get("property") == pid and kf.get("status") == "finding" and C.canon(kf.get("key")) == key:
            return kf
    return None


def run_check(prop, tier):
    T = C.Timer()
    pid = prop.pid
    seed = int(os.environ.get("VERIF_SEED", "20260930"))
    out_lines = []
    if C.REPLAYS.exists():
        for old in C.REPLAYS.glob(f"{pid}-*.json"):
            old.unlink()
    violations = []      # (kind, replay_path, suffix)
    known_hits = []
    cov = {"checker_cmd": f"cd coq && make -j{C.NCPU} && coqc -Q . EG Props/{pid}.v  # Print Assumptions parsed; then coqc on generated _work/{pid}/cases_*.v (vm_compute)",
           "trusted_base": list(C.TRUSTED_BASE)}

    # ---- 1. proofs -------------------------------------------------------------------------
    tr = C.regenerate()
    cov["translator"] = tr
    ok_build, build_log = C.build()
    names, closed, report = ([], 0, {})
    proof_problems = []
    if not ok_build:
        # some file of the development does not build: decide whether THIS property's theorems and model depend on it
        pf = C.COQ / "Props" / f"{pid}.v"
        need = C.vo_targets([pf.read_text() if pf.exists() else ""] + [leg.imports for leg in prop.legs])
        ok_need, _ = C.build(targets=need) if need else (False, "")
        if ok_need:
            cov["unrelated_build_failure"] = ("a file this property does not depend on fails to build (reported by the checks of the "
                                              "properties that do): " + " | ".join(re.findall(r"^File \"[^\n]*", build_log, re.M)[:3]))
            ok_build = True
    if not ok_build:
        proof_problems.append("coq build failed: " + build_log[-1500:])
    else:
        names, closed, report = C.props_assumptions(pid)
        if "_error" in report:
            proof_problems.append("Props file failed: " + report["_error"])
        for n, b in report.items():
            if n != "_error" and b != "closed":
                proof_problems.append(f"theorem {n} depends on axioms {b}")
    bad_src = C.audit_sources()
    if bad_src:
        proof_problems.append("forbidden constructs: " + ", ".join(bad_src[:10]))
    xo, xd, xinfo = (0, 0, {})
    if ok_build:
        try:
            xo, xd, xinfo = prop.extra_obligations()
        except Exception as e:  # pragma: no cover
            proof_problems.append(f"extra obligations crashed: {e!r}")
    if xo != xd:
        proof_problems.append(f"generated obligations not discharged: {xinfo}")
    if tier == "thorough" and ok_build and (C.COQ / "Props" / f"{pid}.vo").exists():
        # independent re-check of the property file and everything it depends on, with the axiom summary
        rc, out = C.sh(f"timeout 1800 coqchk -silent -o -Q . EG EG.Props.{pid}", cwd=C.COQ, timeout=1830)
        summary = out[out.find("CONTEXT SUMMARY"):] if "CONTEXT SUMMARY" in out else out[-1500:]
        ax = [l.strip() for l in summary.splitlines() if l.strip().startswith("* Axioms")]
        cov["coqchk"] = {"exit": rc, "axioms": ax, "summary": summary[-1200:]}
        if rc != 0 or not any("<none>" in a for a in ax):
            proof_problems.append("coqchk did not accept the property file with an empty axiom list: " + summary[-400:])
    cov["obligations"] = len(names) + xo
    cov["discharged"] = (closed if not bad_src else 0) + xd
    cov["theorems"] = names
    cov["assumption_report"] = {k: v for k, v in report.items() if k != "_error"}
    if xinfo:
        cov["generated_obligations"] = xinfo

    # ---- 2+3. tie and oracle ----------------------------------------------------------------
    total_eval = 0
    distinct = set()
    samples = []
    tie_checked = 0
    outside = 0
    legs_info = {}
    harness_errors = 0
    tie_breaks = []        # (leg, case, obs)
    oracle_fails = []      # (leg, case, msgs)
    esc, changed = FP.escalation(pid)
    if changed:
        cov["source_changed_since_model_was_written"] = {"files": changed[:12], "quick_case_factor": esc}
    for li, leg in enumerate(prop.legs):
        rng = random.Random(seed * 1000003 + li)
        n = leg.thorough_n if tier == "thorough" else (leg.quick_n * (1 if leg.exhaustive else min(esc, leg.escalation_cap)))
        cases = []
        cdir = C.VERIF / "corpus" / pid
        if cdir.exists():
            for f in sorted(cdir.glob(f"{leg.name}-*.json")):
                cases.append(json.loads(f.read_text()))
        ncorpus = len(cases)
        cases.extend(leg.generate(rng, n))
        acc = {}
        terms, tidx = [], []
        for ci, case in enumerate(cases):
            if _WD["fired"] >= 2:
                # two cases of this run never returned: every further one may cost the full limit again.  Stop here -
                # the two are reported below, with what was evaluated before them
                cov["stopped_after_calls_that_did_not_return"] = _WD["fired"]
                break
            try:
                obs = _observe(leg, case)
                msgs = _oracle(leg, case, obs)
                t = _term(leg, case, obs)
            except Exception as e:  # the implementation behaved in a way the harness cannot even observe
                harness_errors += 1
                if harness_errors == 1:
                    proof_problems.append(f"harness could not observe a case of leg {leg.name} ({e!r}): "
                                          + traceback.format_exc()[-1200:])
                continue
            total_eval += 1
            if msgs:
                oracle_fails.append((leg, case, msgs))
            if _nontrivial(leg, case, obs):
                distinct.add(leg.name + C.canon(leg.describe(case)))
            _stats(leg, case, obs, acc)
            if len(samples) < 3 * (li + 1) and ci >= ncorpus and _nontrivial(leg, case, obs):
                samples.append({"leg": leg.name, "case": leg.describe(case), "observed": obs})
            if t is None:
                outside += 1
            else:
                terms.append(t)
                tidx.append((case, obs))
        bad, err = C.run_cases(pid, leg.imports, leg.checkfn, terms, shard=leg.shard, tag=f"cases_{leg.name}", case_type=leg.case_type)
        if err:
            proof_problems.append(f"model evaluation failed for leg {leg.name}: {err}")
        else:
            tie_checked += len(terms)
        for bi in bad:
            tie_breaks.append((leg, tidx[bi][0], tidx[bi][1]))
        legs_info[leg.name] = {"cases": len(cases), "corpus": ncorpus, "model_evaluated": len(terms),
                               "tie_disagreements": len(bad), "oracle_failures": sum(1 for x in oracle_fails if x[0] is leg),
                               "exhaustive": leg.exhaustive, "rule": leg.rule, "distribution": acc}

    # ---- verdict -----------------------------------------------------------------------------
    seen_keys = set()
    for leg, case, msgs in oracle_fails:
        hung = any("did not return within" in m for m in msgs)      # each shrinking step may cost the whole limit
        small = _shrink(leg, case, lambda c, leg=leg: _oracle_fails(leg, c), budget=10 if hung else 400)
        key = C.canon(leg.describe(small))
        if key in seen_keys:
            continue
        seen_keys.add(key)
        obs = _observe(leg, small)
        msgs2 = _oracle(leg, small, obs) or msgs
        kf = _match_known(pid, leg, small, msgs2)
        if kf:
            known_hits.append(f"KNOWN-FINDING: property={pid} {kf.get('what', msgs2[0])}")
            continue
        rp = C.write_replay(pid, seed, {"kind": "oracle", "leg": leg.name, "case": small, "observed": obs,
                                        "messages": msgs2, "original_case": case})
        violations.append(("oracle", rp, ""))
        if len(violations) >= 5:
            break

    if (tie_breaks or proof_problems) and not violations:
        # the tie or a proof no longer checks and the standard oracle pass was silent:
        # extended search for a failing input on the implementation
        found = None
        searched = 0
        for li, leg in enumerate(prop.legs):
            rng = random.Random(seed * 7919 + 17 + li)
            n = (leg.thorough_n if tier == "thorough" else leg.quick_n) * (3 if tier == "thorough" else leg.extended_factor)
            if leg.exhaustive:
                continue
            for case in leg.generate(rng, n):
                searched += 1
                obs = _observe(leg, case)
                msgs = _oracle(leg, case, obs)
                if msgs and not _match_known(pid, leg, case, msgs):
                    found = (leg, case, msgs)
                    break
            if found:
                break
        cov["extended_search_cases"] = searched
        if found:
            leg, case, msgs = found
            small = _shrink(leg, case, lambda c, leg=leg: _oracle_fails(leg, c))
            obs = _observe(leg, small)
            rp = C.write_replay(pid, seed, {"kind": "oracle", "leg": leg.name, "case": small, "observed": obs,
                                            "messages": _oracle(leg, small, obs) or msgs})
            violations.append(("oracle", rp, ""))
        else:
            payload = {"kind": "tie" if tie_breaks else "proof", "no_failing_input_found": True,
                       "proof_problems": proof_problems}
            if tie_breaks:
                leg, case, obs = tie_breaks[0]

                def tie_fails(c, leg=leg):
                    o = _observe(leg, c)
                    t = _term(leg, c, o)
                    if t is None:
                        return False
                    b, e = C.run_cases(pid, leg.imports, leg.checkfn, [t], tag="shrink", case_type=leg.case_type)
                    return bool(b) and not e
                small = _shrink(leg, case, tie_fails, budget=40)
                sobs = _observe(leg, small)
                payload.update({"leg": leg.name, "case": small, "observed": sobs,
                                "correspondence": f"{leg.checkfn} (coq/{leg.imports.split()[-1].rstrip('.')}.v) vs /repo on leg {leg.name}",
                                "disagreeing_cases": len(tie_breaks)})
                mv = _model_value(leg, small, sobs)
                if mv:
                    payload["model_says"] = C.eval_term(pid, leg.imports, mv)[-3000:]
            rp = C.write_replay(pid, seed, payload)
            violations.append(("tie", rp, " no-failing-input-found"))

    cov.update({"evaluations": total_eval, "distinct_nontrivial": len(distinct), "samples": samples,
                "traces_validated_against_impl": tie_checked, "outside_hypotheses": outside,
                "tie_disagreements": len(tie_breaks), "oracle_failures": len(oracle_fails),
                "known_findings_hit": len(known_hits), "legs": legs_info,
                "exhaustive": all(l.exhaustive for l in prop.legs) if prop.legs else False,
                "rule": " | ".join(f"{l.name}: {l.rule}" for l in prop.legs),
                "proof_problems": proof_problems,
                "slowest_case_seconds": round(_WD["slowest"], 2), "per_case_time_limit_seconds": _WD["limit"]})
    n_obl, n_dis = cov["obligations"], cov["discharged"]
    if cov["obligations"] < 1 or cov["discharged"] < 1:
        # nothing was discharged on this run (broken build / missing theorem file): do not present
        # proof-level keys; the exploration-style counts of this run stand in
        cov["obligations_attempted"] = cov.pop("obligations")
        cov["discharged_now"] = cov.pop("discharged")
    C.write_evidence(pid, tier, seed, cov, prop.assumptions, T(), len(violations))
    for l in out_lines:
        print(l)
    for k in known_hits:
        print(k)
    print(f"[{pid}] tier={tier} seed={seed} theorems={n_dis}/{n_obl} "
          f"cases={total_eval} tie_checked={tie_checked} tie_disagreements={len(tie_breaks)} "
          f"oracle_failures={len(oracle_fails)} wall={T():.1f}s")
    for p in proof_problems:
        print(f"[{pid}] proof/tie problem: {p[:600]}")
    for kind, rp, suffix in violations:
        print(f"VIOLATION property={pid} replay={rp}{suffix}")
    return 1 if violations else 0


def run_replay(props, path):
    data = json.loads(open(path).read())
    pid = data["property"]
    prop = props[pid]()
    if "leg" not in data:
        print(f"[{pid}] replay names a proof obligation, no input: {data.get('proof_problems')}")
        return 1
    leg = [l for l in prop.legs if l.name == data["leg"]][0]
    case = data["case"]
    obs = _observe(leg, case)
    msgs = _oracle(leg, case, obs)
    print(f"[{pid}] replay leg={leg.name} case={json.dumps(leg.describe(case))}")
    print(f"[{pid}] implementation now observed: {json.dumps(obs)}")
    if data.get("observed") is not None and C.canon(data["observed"]) != C.canon(obs):
        print(f"[{pid}] (recorded observation differed: {json.dumps(data['observed'])})")
    rc = 0
    if msgs:
        for m in msgs:
            print(f"[{pid}] property fails on the implementation: {m}")
        rc = 1
    t = _term(leg, case, obs)
    if t is not None:
        C.build()
        bad, err = C.run_cases(pid, leg.imports, leg.checkfn, [t], tag="replay", case_type=leg.case_type)
        if err:
            print(f"[{pid}] model evaluation error: {err}")
            rc = 1
        elif bad:
            mv = _model_value(leg, case, obs)
            print(f"[{pid}] model and implementation disagree on this case" + (": model says " + C.eval_term(pid, leg.imports, mv) if mv else ""))
            rc = 1
        else:
            print(f"[{pid}] model and implementation agree on this case")
    if rc:
        print(f"VIOLATION property={pid} replay={path}")
    return rc
