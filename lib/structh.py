"""Lock-step harness for the structure / explicit-builder API: executes op lists on the real
edgegraph objects, snapshots the private fields after every call, prints Gallina literals."""
import itertools

from . import common as C

from edgegraph.structure import base as _base
from edgegraph.structure import (Vertex, Universe, DirectedEdge, UnDirectedEdge, TwoEndedLink)
from edgegraph.structure.universe import UniverseLaws
from edgegraph.builder import explicit, adjlist, adjmatrix
from edgegraph.builder import randgraph as _rgmod
import random as _random

CELLS = [0, 1, "x", [], [0], None, 0.0, -1]   # adjacency-matrix cell codes -> Python values (truthiness is what counts)

# ---- creation-order registry (harness-side wrapper, no repository hook) ------------------------
_REG = None
_orig_init = _base.BaseObject.__init__


def _recording_init(self, *a, **k):
    if _REG is not None and not any(o is self for o in _REG[-4:]):
        _REG.append(self)
    return _orig_init(self, *a, **k)


_base.BaseObject.__init__ = _recording_init


class VSub(Vertex):
    """a user subclass; like many it has a friendly __str__ of its own (its repr stays the default one)"""
    def __str__(self):
        return "a vertex of the harness"


class FalsyV(VSub):
    """a vertex whose truth value is False (C08: the answer must not depend on it)"""
    def __bool__(self):
        return False


class HashV(VSub):
    """a vertex class with value semantics on its uid (legal: __eq__/__hash__ that read instance state; C10: a loader that
    hashes a vertex before its state is restored breaks on it)"""
    def __eq__(self, other):
        return isinstance(other, HashV) and other.uid == self.uid

    def __hash__(self):
        return hash(self.uid)


class EqV(VSub):
    """a vertex class with value semantics under which every two instances compare equal (legal for the identity-pure
    queries only: neighbors() names the far end of a link by identity; structure operations and traversals use `in`)"""
    def __eq__(self, other):
        return isinstance(other, EqV)

    def __hash__(self):
        return 17


class TwinV(VSub):
    """a vertex class with value semantics on an attribute set AFTER construction: two instances given the same `twin_key`
    compare equal from then on (a vertex renamed after insertion).  Never drawn by the generators: a render leg turns finished
    VSub vertices into twins (`__class__` assignment) once the graph is built, so the structure operations - which use `in` -
    never meet them; the exporters must go on naming vertices by identity"""
    def __eq__(self, other):
        return isinstance(other, TwinV) and vars(other).get("twin_key", id(other)) == vars(self).get("twin_key", id(self))

    def __hash__(self):
        return hash(vars(self).get("twin_key", id(self)))


def _local_vertex_class():
    class LocalV(VSub):
        """a vertex class defined inside a function, written the way the library's own documentation shows
        (`super().__init__(...)`): picklers that go by qualified name cannot import it, so dill pickles the CLASS by value -
        including the `__class__` cell of the method, which points back at the class"""
        def __init__(self, *a, **k):
            super().__init__(*a, **k)
    return LocalV


LocalV = _local_vertex_class()


def _local_abc_vertex_class():
    import abc

    class LocalAbcV(VSub, metaclass=abc.ABCMeta):
        """as LocalV, with a metaclass that is not `type` itself (abc.ABCMeta: the usual way of declaring an abstract vertex
        base class)"""
        def __init__(self, *a, **k):
            super().__init__(*a, **k)
    return LocalAbcV


LocalAbcV = _local_abc_vertex_class()


class MainV(VSub):
    """a vertex class as a user writes it in a script: it lives in `__main__` (dill pickles such classes by value), its
    __init__ uses super(), and it may carry a class attribute that points into the graph (ROOT)"""
    ROOT = None

    def __init__(self, *a, **k):
        super().__init__(*a, **k)


MainV.__module__ = "__main__"
MainV.__qualname__ = "MainV"


def install_main_classes():
    """make `__main__.MainV` resolvable in this process (dill's by-reference fallback, pickle.loads)"""
    import sys
    setattr(sys.modules["__main__"], "MainV", MainV)


class DSub(DirectedEdge):
    """a user edge class whose instances are FALSY (a weighted edge that is false at weight 0 ...)"""
    def __bool__(self):
        return False


class USub(UnDirectedEdge):
    """... or an attribute-bag edge that is empty"""
    def __len__(self):
        return 0


class Other(TwoEndedLink):
    def __bool__(self):
        return False


KIND_CLS = {"KVertex": Vertex, "KVertexSub": VSub, "KUniverse": Universe, "KDir": DirectedEdge, "KDirSub": DSub,
            "KUnd": UnDirectedEdge, "KUndSub": USub, "KOther": Other, "KLaws": UniverseLaws}
CLS_KIND = {v: k for k, v in KIND_CLS.items()}
CLS_KIND[FalsyV] = "KVertexSub"
CLS_KIND[HashV] = "KVertexSub"
CLS_KIND[LocalV] = "KVertexSub"
CLS_KIND[MainV] = "KVertexSub"
CLS_KIND[EqV] = "KVertexSub"
CLS_KIND[TwinV] = "KVertexSub"
CLS_KIND[LocalAbcV] = "KVertexSub"
# class choice of a generated NV op: plain Vertex, a subclass, a subclass whose instances are FALSY (legal: the library
# must test `is None`, never truthiness)
NV_CLASSES = [False, False, False, False, False, True, True, 2, 2, 2]
LINK_KINDS = ["KDir", "KDirSub", "KUnd", "KUndSub", "KOther"]
VERTEX_KINDS = ["KVertex", "KVertexSub", "KUniverse"]
EXN = {"TypeError", "ValueError", "IndexError", "KeyError", "AttributeError", "NotImplementedError"}


class CaseInvalid(Exception):
    pass


import re as _re
_MANGLED = _re.compile(r"^_[A-Za-z][A-Za-z0-9]*__\w+$")


def is_class_private(key):
    """a name-mangled attribute (`_Class__name`): the private state of a library class, whatever it is called today - by
    Python's own convention not part of what a user observes of the object (the neighbour memo is one)"""
    return bool(_MANGLED.match(key)) and not key.endswith("__")


_COLLISION = []


def collision_names():
    """attribute names a user might pick that COLLIDE with names the library itself uses: every identifier-like string literal
    in the library's sources (a read-only operation that tags, pops or rewrites such an attribute on
    the user's vertices changes the graph).  Read from the tree under test on first use."""
    if not _COLLISION:
        import ast
        import re
        from pathlib import Path
        import edgegraph
        names = set()
        for f in sorted(Path(edgegraph.__file__).parent.rglob("*.py")):
            try:
                tree = ast.parse(f.read_text())
            except SyntaxError:
                continue
            for n in ast.walk(tree):
                if isinstance(n, ast.Constant) and isinstance(n.value, str) and re.fullmatch(r"[A-Za-z_]\w{2,40}", n.value):
                    names.add(n.value)
        _COLLISION.extend(sorted(names))
    return list(_COLLISION)


def decorate_with_collisions(w, every=2):
    """give every `every`-th vertex an attribute (value: a marker string) under each colliding name its class does not define"""
    n = 0
    for i, o in enumerate(w.objs):
        if kind_of(o) in VERTEX_KINDS and i % every == 0:
            for name in collision_names():
                if hasattr(type(o), name) or name in vars(o):
                    continue
                try:
                    setattr(o, name, f"user value {name}")
                    n += 1
                except Exception:  # noqa: BLE001
                    pass
    return n


WHITELISTS = [None, {}, {Vertex: {Vertex: DirectedEdge}}, {Vertex: {Vertex: UnDirectedEdge, Universe: DirectedEdge}, Universe: {}}]
DEFAULT_RULES = 0b0110  # mixed_links=False cycles=True multipath=True multiverse=False, whitelist None


def rules_kwargs(bits):
    """bits 0..3 = mixed_links, cycles, multipath, multiverse; bits 4..5 = whitelist index"""
    wl = WHITELISTS[(bits >> 4) & 3]
    return {"mixed_links": bool(bits & 1), "cycles": bool(bits & 2), "multipath": bool(bits & 4),
            "multiverse": bool(bits & 8),
            "edge_whitelist": None if wl is None else {k: dict(v) for k, v in wl.items()}}


def rules_read(L):
    """what the five getters of a law set report, encoded like rules_kwargs' argument (or -1)"""
    try:
        wl = L.edge_whitelist
        wl = None if wl is None else {k: dict(v) for k, v in wl.items()}
        idx = [i for i, w in enumerate(WHITELISTS) if w == wl]
        if not idx:
            return -1
        vals = (L.mixed_links, L.cycles, L.multipath, L.multiverse)
        if any(type(v) is not bool for v in vals):
            return -1
        return (idx[0] << 4) | (vals[0] * 1) | (vals[1] * 2) | (vals[2] * 4) | (vals[3] * 8)
    except Exception:  # noqa: BLE001
        return -1


def kind_of(o):
    return CLS_KIND.get(type(o), "KLaws" if isinstance(o, UniverseLaws) else None)


class World:
    def __init__(self):
        global _REG
        self.objs = []
        _REG = self.objs
        Vertex.NEIGHBOR_CACHING = False
        Vertex._CACHE_STATS.clear()

    def close(self):
        global _REG
        _REG = None
        Vertex.NEIGHBOR_CACHING = False

    def kinds(self):
        return [kind_of(o) for o in self.objs]

    def _container(self, xs):
        """the same sequence as a list, a tuple, a one-shot iterator or a generator (any iterable is accepted by the
        constructors)"""
        # the kind depends on the CONTENTS only (so runs are reproducible, and equal contents meet again as the same list
        # object): list (2 in 5), tuple, one-shot iterator, generator
        m = max(0, (sum((self.id_of(x) or 0) + 1 for x in xs) * 3 + len(xs)) % 5 - 1)
        if m == 0:
            # a caller may pass the SAME list object to several constructors: reuse the list handed in earlier for the
            # same contents (a library that keeps or edits its argument then corrupts the later object or this one)
            shared = self.__dict__.setdefault("_shared_lists", {})
            return shared.setdefault(tuple(id(x) for x in xs), list(xs))
        if m == 1:
            return tuple(xs)
        if m == 2:
            return iter(list(xs))
        return (x for x in list(xs))

    def id_of(self, o):
        if o is None:
            return None
        for i, x in enumerate(self.objs):
            if x is o:
                return i
        return 9999

    def get(self, i, kinds=None):
        if i is None:
            return None
        if not (0 <= i < len(self.objs)):
            raise CaseInvalid(f"id {i} not allocated")
        o = self.objs[i]
        if kinds is not None and kind_of(o) not in kinds:
            raise CaseInvalid(f"id {i} is {kind_of(o)}, wanted {kinds}")
        return o

    def snapshot(self):
        ids = {id(o): i for i, o in enumerate(self.objs)}

        def m(lst):
            return [None if x is None else ids.get(id(x), 9999) for x in lst]
        snap = {"kind": [], "vlinks": [], "lverts": [], "vunis": [], "uverts": [], "ulaws": [], "lapp": [], "rules": []}

        def rd(o, public, private, default):
            """the object's state as its PUBLIC read accessor reports it (what a user observes; survives a rename of the
            private field); the private field only for objects whose accessor cannot answer (half-constructed ones)"""
            try:
                return getattr(o, public)
            except Exception:  # noqa: BLE001
                return getattr(o, private, default)
        for o in self.objs:
            k = kind_of(o)
            snap["kind"].append(k)
            snap["vlinks"].append(m(rd(o, "links", "_links", [])) if k in VERTEX_KINDS else [])
            snap["lverts"].append(m(rd(o, "vertices", "_vertices", [])) if k in LINK_KINDS else [])
            snap["vunis"].append(m(rd(o, "universes", "_universes", [])))
            snap["uverts"].append(m(rd(o, "vertices", "_vertices", [])) if k == "KUniverse" else [])
            laws = rd(o, "laws", "_laws", None) if k == "KUniverse" else None
            snap["ulaws"].append(ids.get(id(laws), 9999) if laws is not None else None)
            app = rd(o, "applies_to", "_applies_to", None) if k == "KLaws" else None
            snap["lapp"].append(ids.get(id(app), 9999) if app is not None else None)
            snap["rules"].append(rules_read(o) if k == "KLaws" else None)
        return snap

    # ---- one call -------------------------------------------------------------------------
    def call(self, op):
        g = self.get
        t = op[0]
        V, L, U, W = VERTEX_KINDS, LINK_KINDS, ["KUniverse"], ["KLaws"]
        if t == "NV":
            us = [g(i, U) for i in op[2]]
            ls = [g(i, L) for i in op[3]]
            cls = LocalAbcV if op[1] == 7 else EqV if op[1] == 6 else MainV if op[1] == 5 else LocalV if op[1] == 4 else HashV if op[1] == 3 else FalsyV if op[1] == 2 else VSub if op[1] else Vertex
            kw = {}
            if us:
                kw["universes"] = self._container(us)
            if ls:
                kw["links"] = self._container(ls)
            if len(op) > 4 and op[4] is not None:
                kw["uid"] = op[4]            # caller-supplied uid: never checked for uniqueness by the library
            return ("id", cls(**kw))
        if t == "NU":
            vs = [g(i, V) for i in op[1]]
            kw = {}
            if vs:
                kw["vertices"] = self._container(vs)
            if op[2] is not None:
                kw["laws"] = g(op[2], W)
            return ("id", Universe(**kw))
        if t == "NL":
            kw = rules_kwargs(op[2]) if len(op) > 2 and op[2] is not None else {}
            return ("id", UniverseLaws(applies_to=g(op[1], U), **kw))
        if t == "NE":
            if op[1] not in LINK_KINDS:
                raise CaseInvalid("bad link class")
            a_, b_ = g(op[2]), g(op[3])
            # positional, keyword, and "only the ends that are given" calls are the same construction
            m_ = len(self.objs) % 3
            if m_ == 1:
                return ("id", KIND_CLS[op[1]](v1=a_, v2=b_))
            if m_ == 2:
                kw = {k: v for k, v in (("v1", a_), ("v2", b_)) if v is not None}
                return ("id", KIND_CLS[op[1]](**kw))
            return ("id", KIND_CLS[op[1]](a_, b_))
        if t in ("SV1", "SV2"):
            l, v = g(op[1], L), g(op[2], V)
            if t == "SV1":
                l.v1 = v
            else:
                l.v2 = v
            return ("none", None)
        if t == "A2L":
            return ("none", g(op[1], V).add_to_link(g(op[2], L)))
        if t == "RFL":
            return ("none", g(op[1], V).remove_from_link(g(op[2], L)))
        if t == "LAV":
            return ("none", g(op[1], L).add_vertex(g(op[2], V)))
        if t == "LUF":
            return ("none", g(op[1], L).unlink_from(g(op[2], V)))
        if t == "LFT":
            a, b = g(op[1], V), g(op[3], V)
            k = op[2]
            if k == "KDir":
                return ("id", explicit.link_directed(a, b, dontdup=bool(op[4])))
            if k == "KUnd":
                return ("id", explicit.link_undirected(a, b, dontdup=bool(op[4])))
            return ("id", explicit.link_from_to(a, KIND_CLS[k], b, dontdup=bool(op[4])))
        if t == "UNL":
            r = explicit.unlink(g(op[1], V), g(op[2], V), destroy=bool(op[3]))
            return ("none", None) if r is None else ("set", r)
        if t == "UAV":
            return ("none", g(op[1], U).add_vertex(g(op[2], V)))
        if t == "URV":
            return ("none", g(op[1], U).remove_vertex(g(op[2], V)))
        if t == "VAU":
            return ("none", g(op[1], V).add_to_universe(g(op[2], U)))
        if t == "VRU":
            return ("none", g(op[1], V).remove_from_universe(g(op[2], U)))
        if t == "SL":
            u, L_ = g(op[1], U), g(op[2], W)
            u.laws = L_
            return ("none", None)
        if t == "SA":
            L_, u = g(op[1], W), g(op[2], U)
            L_.applies_to = u
            return ("none", None)
        if t == "CACHE":
            Vertex.NEIGHBOR_CACHING = bool(op[1])
            return ("none", None)
        if t == "CLONE":
            # the whole graph is replaced by a copy of itself (deepcopy / dill / nrpickler round trip): a copy is a LIVE graph
            # that must go on behaving like the original - for the model this is no operation at all
            import copy as _copy
            import pickle as _pickle
            import dill as _dill
            from edgegraph.output import nrpickler as _nrp
            if op[1] == "deepcopy":
                new = _copy.deepcopy(self.objs)
            elif op[1] == "nrpickle":
                new = _pickle.loads(_nrp.dumps(self.objs))
            else:
                new = _dill.loads(_dill.dumps(self.objs))
            self.objs[:] = new
            self.__dict__.pop("_shared_lists", None)
            return ("none", None)
        if t == "LAU":
            # a law set is a BaseObject: it can be enrolled in a universe's books on its own side (documented for UniverseLaws)
            g(op[1], W).add_to_universe(g(op[2], U))
            return ("none", None)
        if t == "LAD":
            adj = {}
            for key, vals in op[2]:
                vs_ = [g(v, V) for v in vals]
                # a row may be any iterable: list, tuple, and one-shot ones (iterator, generator, map) that can be walked ONCE
                m_ = (len(vs_) + len(adj)) % 5
                adj[g(key, V)] = (vs_ if m_ == 0 else tuple(vs_) if m_ == 1 else iter(list(vs_)) if m_ == 2
                                  else (x for x in list(vs_)) if m_ == 3 else map(lambda x: x, list(vs_)))
            return ("id", adjlist.load_adj_dict(adj, KIND_CLS[op[1]]))
        if t == "LAM":
            side = [g(v, V) for v in op[2]]
            m = [[CELLS[c] for c in row] for row in op[3]]
            return ("id", adjmatrix.load_adj_matrix(m, side, KIND_CLS[op[1]]))
        if t == "RG":
            count, k, conn, ens, seed = op[1], op[2], op[3], op[4], op[5]
            draws = []
            self.last_draws = draws
            ri, sa = _random.randint, _random.sample

            def randint(a, b):
                r = ri(a, b)
                draws.append(["randint", a, b, r])
                return r

            def sample(pop, k_):
                r = sa(pop, k_)
                draws.append(["sample", len(pop), k_, [next(i for i, x in enumerate(pop) if x is y) for y in r]])
                return r
            _random.seed(seed)
            _random.randint, _random.sample = randint, sample
            try:
                kw = {} if conn is None else {"connectivity": conn}
                return ("id", _rgmod.randgraph(count, KIND_CLS[k], ensurelink=ens, **kw))
            finally:
                _random.randint, _random.sample = ri, sa
        raise CaseInvalid(f"unknown op {t}")

    def do(self, op):
        """Execute one op; return the canonical outcome."""
        try:
            kind, val = self.call(op)
        except CaseInvalid:
            raise
        except Exception as e:  # noqa: BLE001 - the outcome is the exception's type
            n = type(e).__name__
            return ["raise", n if n in EXN else "Other:" + n]
        if kind == "id":
            return ["id", self.id_of(val)]
        if kind == "set":
            return ["set", sorted(self.id_of(x) for x in val)]
        if kind == "none":
            return ["none"] if val is None else ["other", repr(val)]
        return ["other", kind]


def execute(ops):
    """Run ops on a fresh world.  Returns list of {"out":..., "snap":...} per op."""
    w = World()
    res = []
    try:
        for op in ops:
            out = w.do(op)
            res.append({"out": out, "snap": w.snapshot()})
    finally:
        w.close()
    return res


# ---- Gallina printing ------------------------------------------------------------------------
def c_ids(l):
    return C.clist(l, C.cnat)


def c_oids(l):
    return C.clist(l, lambda x: C.copt(x))


def c_state(snap):
    return ("(mk " + C.clist(snap["kind"], str) + " " + C.clist(snap["vlinks"], c_ids) + " " + C.clist(snap["lverts"], c_oids)
            + " " + C.clist(snap["vunis"], c_ids) + " " + C.clist(snap["uverts"], c_ids) + " " + c_oids(snap["ulaws"])
            + " " + c_oids(snap["lapp"]) + ")")


def c_op(op):
    t = op[0]
    o = C.copt
    b = C.cbool
    if t == "NV":
        return f"NewVertex {b(op[1])} {c_ids(op[2])} {c_ids(op[3])}"
    if t == "NU":
        return f"NewUniverse {c_ids(op[1])} {o(op[2])}"
    if t == "NL":
        return f"NewLaws {o(op[1])}"
    if t == "NE":
        return f"NewEdge {op[1]} {o(op[2])} {o(op[3])}"
    if t == "SV1":
        return f"SetV1 {op[1]} {o(op[2])}"
    if t == "SV2":
        return f"SetV2 {op[1]} {o(op[2])}"
    if t == "A2L":
        return f"VAddToLink {op[1]} {op[2]}"
    if t == "RFL":
        return f"VRemoveFromLink {op[1]} {op[2]}"
    if t == "LAV":
        return f"LAddVertex {op[1]} {o(op[2])}"
    if t == "LUF":
        return f"LUnlinkFrom {op[1]} {o(op[2])}"
    if t == "LFT":
        return f"LinkFromTo {op[1]} {op[2]} {op[3]} {b(op[4])}"
    if t == "UNL":
        return f"Unlink {op[1]} {op[2]} {b(op[3])}"
    if t == "UAV":
        return f"UAddVertex {op[1]} {op[2]}"
    if t == "URV":
        return f"URemoveVertex {op[1]} {op[2]}"
    if t == "VAU":
        return f"VAddToUniverse {op[1]} {op[2]}"
    if t == "VRU":
        return f"VRemoveFromUniverse {op[1]} {op[2]}"
    if t == "SL":
        return f"SetLaws {op[1]} {o(op[2])}"
    if t == "SA":
        return f"SetAppliesTo {op[1]} {o(op[2])}"
    if t == "CACHE":
        return f"SetCaching {b(op[1])}"
    raise ValueError(t)


def c_outcome(out):
    t = out[0]
    if t == "none":
        return "Ret VNone"
    if t == "id":
        return f"Ret (VId {out[1]})"
    if t == "set":
        return f"Ret (VSet {c_ids(out[1])})"
    if t == "list":
        return f"Ret (VList {c_oids(out[1])})"
    if t == "raise":
        return f"Raised {out[1]}" if out[1] in EXN else "Raised IllTyped"
    return "Raised IllTyped"


INVISIBLE = ("CLONE", "LAU")      # operations that are no step of the model (what they may not change is judged by clone_violations)


def c_history(ops, res):
    return C.clist([f"({c_op(o)}, ({c_outcome(r['out'])}, {c_state(r['snap'])}))" for o, r in zip(ops, res) if o[0] not in INVISIBLE], str)


def clone_violations(ops, res, fields=("kind", "vlinks", "lverts", "vunis", "uverts", "ulaws", "lapp", "rules")):
    """replacing the graph by a copy of itself changes nothing observable"""
    for i, (o, r) in enumerate(zip(ops, res)):
        if o[0] == "CLONE" and i > 0 and r["out"][0] != "raise":
            for f in fields:
                if r["snap"][f] != res[i - 1]["snap"][f]:
                    return [f"call {i} {o}: the {o[1]} copy of the graph differs from the original in {f}: {res[i - 1]['snap'][f]} -> {r['snap'][f]}"]
        if o[0] == "CLONE" and r["out"][0] == "raise":
            return [f"call {i} {o}: copying the graph raised {r['out'][1]}"]
    return []


HIST_TYPE = "list (op * (outcome * state))"
HIST_IMPORTS = "From EG Require Import Base State Nbrs Struct StructCheck."


# ---- generation --------------------------------------------------------------------------------
def gen_history(rng, weights, nops, seed_ops=None):
    """Generate a well-typed op list by running it on the real objects as it is produced.
    weights: dict op-tag -> weight.  Pools stay small so that aliasing is the norm."""
    w = World()
    ops = []
    try:
        for op in (seed_ops or []):
            w.do(op)
            ops.append(op)
        tags = list(weights)
        wts = [weights[t] for t in tags]
        tries = 0
        share = {}
        shared_uid = rng.random() < 0.3
        while len(ops) < nops and tries < nops * 20:
            tries += 1
            t = rng.choices(tags, wts)[0]
            ks = w.kinds()
            vs = [i for i, k in enumerate(ks) if k in VERTEX_KINDS]
            ls = [i for i, k in enumerate(ks) if k in LINK_KINDS]
            us = [i for i, k in enumerate(ks) if k == "KUniverse"]
            Ls = [i for i, k in enumerate(ks) if k == "KLaws"]
            pick = rng.choice

            def ov():
                return pick(vs) if vs and rng.random() < 0.8 else None
            # vertices built from the same universes= contents as another one: membership edits aim at them more often
            sharers = [v for lst in share.values() if len(lst) >= 2 for v in lst]
            if sharers and rng.random() < 0.3:
                mem = [x for x in ("UAV", "URV", "VAU", "VRU") if weights.get(x)]
                if mem:
                    t = rng.choice(mem)
            op = None
            if t == "NV":
                if len(vs) < 6:
                    k = rng.choice([0, 0, 1, 2, 2, 3, 4]) if us else 0      # with repeats, adjacent or not: [u1, u2, u1]
                    uu = [pick(us) for _ in range(k)]
                    prev = [o[2] for o in ops if o[0] == "NV" and o[2]]
                    if prev and rng.random() < 0.4:
                        uu = list(prev[-1])        # the same universes= contents as an earlier vertex (callers reuse one list)
                    ll = [pick(ls)] if ls and rng.random() < 0.15 else []
                    op = ["NV", rng.choice(NV_CLASSES), uu, ll]
                    if shared_uid and rng.random() < 0.5:
                        op.append(7000 + rng.randrange(2))     # several vertices carry one caller-supplied uid (never checked by the library)
            elif t == "NU":
                if len(us) < 3:
                    k = rng.choice([0, 0, 1, 2, 3]) if vs else 0
                    op = ["NU", [pick(vs) for _ in range(k)], pick(Ls) if Ls and rng.random() < 0.3 else None]
            elif t == "NL":
                if len(Ls) < 5:
                    op = ["NL", pick(us) if us and rng.random() < weights.get("_nl_applies", 0.0) else None, rng.randrange(64)]
            elif t == "NE":
                if len(ls) < 5:
                    a, b = ov(), ov()
                    if rng.random() < 0.04 and (ls or Ls):
                        a = pick(ls + Ls)       # ill-kinded end: TypeError before any mutation
                    op = ["NE", pick(LINK_KINDS), a, b]
            elif t in ("SV1", "SV2", "LAV", "LUF"):
                if ls:
                    op = [t, pick(ls), ov()]
            elif t in ("A2L", "RFL"):
                if vs and ls:
                    op = [t, pick(vs), pick(ls)]
            elif t == "LFT":
                if vs and len(ls) < 6:
                    op = ["LFT", pick(vs), pick(LINK_KINDS), pick(vs), rng.random() < 0.5]
            elif t == "UNL":
                if vs:
                    op = ["UNL", pick(vs), pick(vs), rng.random() < 0.5]
                    # mostly unlink pairs that ARE joined (the two ends of an existing link), so something is removed
                    snap_l = [list(o.vertices) for o in w.objs if kind_of(o) in LINK_KINDS]
                    joined = [x for x in snap_l if len(x) >= 2 and x[0] is not None and x[1] is not None]
                    if joined and rng.random() < 0.7:
                        x = pick(joined)
                        a_, b_ = w.id_of(x[0]), w.id_of(x[1])
                        op = ["UNL", a_, b_, rng.random() < 0.5] if rng.random() < 0.5 else ["UNL", b_, a_, rng.random() < 0.5]
            elif t in ("UAV", "URV"):
                if us and vs:
                    op = [t, pick(us), pick(sharers) if sharers and rng.random() < 0.6 else pick(vs)]
            elif t in ("VAU", "VRU"):
                if us and vs:
                    op = [t, pick(sharers) if sharers and rng.random() < 0.6 else pick(vs), pick(us)]
            elif t == "SL":
                if us:
                    op = ["SL", pick(us), pick(Ls) if Ls and rng.random() < 0.8 else None]
            elif t == "SA":
                if Ls:
                    op = ["SA", pick(Ls), pick(us) if us and rng.random() < 0.8 else None]
            elif t == "CACHE":
                op = ["CACHE", rng.random() < 0.5]
            elif t == "CLONE":
                if ops:
                    op = ["CLONE", rng.choice(["deepcopy", "dill", "nrpickle"])]
            elif t == "LAU":
                if Ls and us:
                    op = ["LAU", pick(Ls), pick(us)]
            if op is None:
                continue
            n0 = len(w.objs)
            w.do(op)
            if op[0] == "NV" and op[2] and len(w.objs) == n0 + 1:
                share.setdefault(tuple(op[2]), []).append(n0)
            ops.append(op)
    finally:
        w.close()
    return ops


def shrink_ops(ops):
    """Candidates: drop one op (later ids renumbered when the dropped op allocated objects)."""
    try:
        res = execute(ops)
    except CaseInvalid:
        return
    sizes = [0] + [len(r["snap"]["kind"]) for r in res]
    for i in range(len(ops) - 1, -1, -1):
        lo, hi = sizes[i], sizes[i + 1]
        cand = ops[:i] + ops[i + 1:]
        if hi > lo:
            n = hi - lo
            cand2 = ops[:i]
            ok = True
            for op in ops[i + 1:]:
                new = _renumber(op, lo, hi, n)
                if new is None:
                    continue
                cand2.append(new)
            cand = cand2
        yield cand


def _ren(x, lo, hi, n):
    if x is None or isinstance(x, bool) or not isinstance(x, int):
        return x
    if lo <= x < hi:
        raise KeyError
    return x - n if x >= hi else x


ID_POS = {"NV": [], "NU": [2], "NL": [1], "NE": [2, 3], "SV1": [1, 2], "SV2": [1, 2], "A2L": [1, 2], "RFL": [1, 2],
          "LAV": [1, 2], "LUF": [1, 2], "LFT": [1, 3], "UNL": [1, 2], "UAV": [1, 2], "URV": [1, 2], "VAU": [1, 2],
          "VRU": [1, 2], "SL": [1, 2], "SA": [1, 2], "CACHE": [], "CLONE": [], "LAU": [1, 2]}
IDLIST_POS = {"NV": [2, 3], "NU": [1]}


def _renumber(op, lo, hi, n):
    op = list(op)
    try:
        for p in ID_POS.get(op[0], []):
            op[p] = _ren(op[p], lo, hi, n)
        for p in IDLIST_POS.get(op[0], []):
            op[p] = [_ren(x, lo, hi, n) for x in op[p]]
    except KeyError:
        return None
    return op


def op_stats(ops, res, acc):
    for op, r in zip(ops, res):
        acc.setdefault("ops", {})
        acc["ops"][op[0]] = acc["ops"].get(op[0], 0) + 1
        if r["out"][0] == "raise":
            acc.setdefault("raised", {})
            acc["raised"][r["out"][1]] = acc["raised"].get(r["out"][1], 0) + 1
    if res:
        snap = res[-1]["snap"]
        acc["final_states_with_selfloop"] = acc.get("final_states_with_selfloop", 0) + int(any(
            len(v) >= 2 and v[0] is not None and v[0] == v[1] for v in snap["lverts"]))
        acc["final_states_with_none_end"] = acc.get("final_states_with_none_end", 0) + int(any(None in v for v in snap["lverts"]))
        acc["final_states_with_multi_listed_vertex"] = acc.get("final_states_with_multi_listed_vertex", 0) + int(any(
            len([x for x in v if x is not None]) != len({x for x in v if x is not None}) for v in snap["lverts"]))
        acc["histories"] = acc.get("histories", 0) + 1


def small_scope(seed_ops, alphabet, maxlen):
    """every history seed_ops ++ w for w over `alphabet` with 1 <= len(w) <= maxlen"""
    import itertools as _it
    for n in range(1, maxlen + 1):
        for w in _it.product(alphabet, repeat=n):
            yield list(seed_ops) + [list(o) for o in w]
