(* CacheTrav.v — histories that also contain traversals, run THROUGH the memo (TravCached.v):
   the lock-step model of C05 for bft / dft_recursive / dft_iterative interleaved with mutations,
   flag toggles and neighbors() queries.  Model-side file: definitions only. *)
From EG Require Import Base State Nbrs Struct StructCheck Trav TravState TravCached Cache.

Inductive trk := TBft | TDfr | TDfi.
Inductive cop2 :=
  | C1 (c : cop)
  | CTrav (k : trk) (ou : option nat) (start : nat) (d : dirn) (u : unk) (fv : option nat).

Section CT.
  Variable filt : nat -> nat -> option nat -> bool.
  Definition cstep2 (s : state) (c : cop2) : state * outcome :=
    match c with
    | C1 c => cstep filt s c
    | CTrav k ou st d u fv =>
        if negb (isv s st && oisu s ou) then (s, Raised IllTyped)
        else
          let nbs := fun s v => neighbors_c filt s v d u fv in
          let all := fun _ : node => true in
          let '(s', r) := match k with
                          | TBft => bft_st state nbs (t_uni s ou) all (trav_fuel s) s st
                          | TDfr => dft_rec_st state nbs (t_uni s ou) all (trav_fuel s) s st
                          | TDfi => dft_iter_st state nbs (t_uni s ou) all (trav_fuel s) s st
                          end in
          (s', match r with TOk l => Ret (VList l) | TErr e => Raised e | TFuel => Raised OutOfFuel end)
    end.
End CT.

Fixpoint ccheck2_hist (m : mask) (s : state) (h : list (cop2 * (outcome * state))) : bool :=
  match h with
  | [] => true
  | (c, (eo, es)) :: r =>
      let '(s', out) := cstep2 std_filt s c in
      outcome_eqb out eo && obs_eqb m s' es && ccheck2_hist m s' r
  end.
Definition ccheck2 (h : list (cop2 * (outcome * state))) : bool := ccheck2_hist MLinks empty h.
Fixpoint ctranscript2 (s : state) (cs : list cop2) : list outcome :=
  match cs with [] => [] | c :: r => let '(s', out) := cstep2 std_filt s c in out :: ctranscript2 s' r end.
