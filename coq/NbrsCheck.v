(* NbrsCheck.v — evaluation of neighbors / find_links queries on an imported heap state and
   comparison with the implementation's answers (used by generated cases files only). *)
From EG Require Import Base State Nbrs Struct StructCheck.

Inductive qry :=
  | QNb (v : nat) (d : dirn) (u : unk) (f : option nat)
  | QFl (a b : nat) (ds : bool) (u : unk) (f : option nat).
Inductive qres := RList (l : list (option nat)) | RSet (l : list nat) | RErr (e : exn).

Definition run_q (s : state) (q : qry) : qres :=
  match q with
  | QNb v d u f => match neighbors_pure std_filt s v d u f with NOk l => RList l | NErr e => RErr e end
  | QFl a b ds u f => match find_links std_ffl s a b ds u f with FOk l => RSet l | FErr e => RErr e end
  end.
Definition qres_eqb (a b : qres) : bool :=
  match a, b with
  | RList x, RList y => list_eqb oeqb x y
  | RSet x, RSet y => list_eqb Nat.eqb (sort x) (sort y)
  | RErr e, RErr f => exn_eqb e f
  | _, _ => false
  end.
Definition qcheck (c : state * list (qry * qres)) : bool :=
  forallb (fun qe => qres_eqb (run_q (fst c) (fst qe)) (snd qe)) (snd c).
Definition qanswers (c : state * list (qry * qres)) : list qres := map (fun qe => run_q (fst c) (fst qe)) (snd c).
