(* Nbrs.v — TwoEndedLink.v1/v2/other, helpers.neighbors and helpers.find_links as written
   (per-link decision cascades), over a heap state.  Model-side file: definitions only.
   `filt fid link other_end` is the verdict of filter function number fid of neighbors();
   `ffl fid link` that of find_links() (its filterfunc takes the link only).               *)
From EG Require Import Base State.

Section Queries.
  Variable filt : nat -> nat -> option nat -> bool.
  Variable ffl : nat -> nat -> bool.

  (* TwoEndedLink.v1 / v2 = self.vertices[0] / [1]; None here = IndexError *)
  Definition lv1 (s : state) (l : nat) : option (option nat) := nth_error (lv s l) 0.
  Definition lv2 (s : state) (l : nat) : option (option nat) := nth_error (lv s l) 1.

  Inductive oth := OErr | OVal (o : option nat).
  (* def other(self, end): if end is self.v1: return self.v2
                           if end is self.v2: return self.v1
                           return None                        *)
  Definition other (s : state) (l : nat) (e : option nat) : oth :=
    match lv1 s l with
    | None => OErr
    | Some a =>
        if oeqb e a then match lv2 s l with None => OErr | Some b => OVal b end
        else match lv2 s l with
             | None => OErr
             | Some b => if oeqb e b then OVal a else OVal None
             end
    end.

  Inductive lact := LSkip | LAdd (o : option nat) | LRaise (e : exn).

  Definition fok (f : option nat) (l : nat) (v2 : option nat) : bool :=
    match f with None => true | Some fid => filt fid l v2 end.
  Definition is_end1 (s : state) (l v : nat) : bool :=
    match lv1 s l with Some a => oeqb a (Some v) | None => false end.
  Definition is_end2 (s : state) (l v : nat) : bool :=
    match lv2 s l with Some a => oeqb a (Some v) | None => false end.

  (* body of `for link in vert.links:` in neighbors() *)
  Definition nb_link (s : state) (v : nat) (d : dirn) (u : unk) (f : option nat) (l : nat) : lact :=
    match other s l (Some v) with
    | OErr => LRaise IndexError
    | OVal v2 =>
        let k := kd s l in
        match d with
        | Fwd =>
            if is_undirected k then (if fok f l v2 then LAdd v2 else LSkip)
            else if is_directed k && is_end1 s l v then (if fok f l v2 then LAdd v2 else LSkip)
            else if is_directed k && is_end2 s l v then LSkip
            else match u with
                 | UNon => LSkip
                 | UNb => if fok f l v2 then LAdd v2 else LSkip
                 | UErr => LRaise NotImplementedError
                 end
        | Bwd =>
            if is_undirected k then (if fok f l v2 then LAdd v2 else LSkip)
            else if is_directed k && is_end2 s l v then (if fok f l v2 then LAdd v2 else LSkip)
            else if is_directed k && is_end1 s l v then LSkip
            else match u with
                 | UNon => LSkip
                 | UNb => if fok f l v2 then LAdd v2 else LSkip
                 | UErr => LRaise NotImplementedError
                 end
        | AnyDir => if fok f l v2 then LAdd v2 else LSkip
        end
    end.

  Inductive nres := NOk (l : list (option nat)) | NErr (e : exn).

  Fixpoint nb_loop (s : state) (v : nat) (d : dirn) (u : unk) (f : option nat) (ls : list nat)
           (acc : list (option nat)) : nres :=
    match ls with
    | [] => NOk acc
    | l :: r => match nb_link s v d u f l with
                | LSkip => nb_loop s v d u f r acc
                | LAdd o => nb_loop s v d u f r (acc ++ [o])
                | LRaise e => NErr e
                end
    end.
  (* neighbors() with caching disabled: a function of the heap alone *)
  Definition neighbors_pure (s : state) (v : nat) (d : dirn) (u : unk) (f : option nat) : nres :=
    nb_loop s v d u f (vl s v) [].

  (* ---- find_links ---- *)
  Inductive fact := FSkip | FAdd | FRaise (e : exn).
  Definition ffok (f : option nat) (l : nat) : bool :=
    match f with None => true | Some fid => ffl fid l end.
  Definition fl_link (s : state) (a b : nat) (ds : bool) (u : unk) (f : option nat) (l : nat) : fact :=
    match other s l (Some a) with
    | OErr => FRaise IndexError
    | OVal o =>
        if negb (oeqb o (Some b)) then FSkip
        else if ds then
          let k := kd s l in
          if is_undirected k then (if ffok f l then FAdd else FSkip)
          else if is_directed k then
            (if negb (is_end1 s l a) then FSkip else if ffok f l then FAdd else FSkip)
          else match u with
               | UNon => FSkip
               | UNb => if ffok f l then FAdd else FSkip
               | UErr => FRaise NotImplementedError
               end
        else (if ffok f l then FAdd else FSkip)
    end.
  Inductive fres := FOk (l : list nat) | FErr (e : exn).
  Fixpoint fl_loop (s : state) (a b : nat) (ds : bool) (u : unk) (f : option nat) (ls acc : list nat) : fres :=
    match ls with
    | [] => FOk acc
    | l :: r => match fl_link s a b ds u f l with
                | FSkip => fl_loop s a b ds u f r acc
                | FAdd => fl_loop s a b ds u f r (if memn l acc then acc else acc ++ [l])   (* set.add *)
                | FRaise e => FErr e
                end
    end.
  Definition find_links (s : state) (a b : nat) (ds : bool) (u : unk) (f : option nat) : fres :=
    fl_loop s a b ds u f (vl s a) [].
End Queries.

(* the filter tables used by the generated correspondence cases (harness/filters.py defines the
   same functions in Python): 0 accepts all, 1 rejects all, 2 accepts links with even id,
   3 accepts other ends with even id (and rejects None), 4 accepts iff link id + other-end id is even *)
Definition std_filt (fid l : nat) (o : option nat) : bool :=
  match fid with
  | 0 => true
  | 1 => false
  | 2 => Nat.even l
  | 3 => match o with Some w => Nat.even w | None => false end
  | _ => match o with Some w => Nat.even (l + w) | None => Nat.even l end
  end.
Definition std_ffl (fid l : nat) : bool :=
  match fid with 0 => true | 1 => false | _ => Nat.even l end.
