(* ColdCopy.v — a copy of a graph carries no neighbour memo.
   The library pickles / copies a vertex WITHOUT its memo (Vertex.__getstate__ hands out the state
   with an empty __qa_nb_cache), so a deepcopy / pickle / dill / nrpickler copy of a graph is the same
   heap with every memo emptied: `cold s`.
     cold_same_graph  cold_wf  cold_Coh (no hypothesis)  cold_idempotent  cold_ca
     cold_copy_answers_like_the_original   wf s -> Coh filt s -> neighbors_c and the six stateful
                                           traversals / searches answer on `cold s` as on `s`
     cold_copy_example                     non-vacuity: a heap with a warm memo, cold s <> s
   Proof file: stdlib only, nothing admitted, no axioms. *)
From Coq Require Import List Arith Bool Lia.
Import ListNotations.
From EG Require Import Base Lemmas State StateLemmas Nbrs Struct Cache CacheProofs Trav TravState TravCached TravCachedProofs TravFaults.

(* the heap as a copy of it holds it: every memo empty (Vertex.__getstate__), everything else as it is *)
Definition cold (s : state) : state :=
  {| kind := kind s; vlinks := vlinks s; lverts := lverts s; vunis := vunis s;
     uverts := uverts s; ulaws := ulaws s; lapp := lapp s;
     cache := map (fun _ => []) (cache s); caching := caching s |}.

Lemma cold_ca s v : ca (cold s) v = [].
Proof.
  unfold ca, cold, get; cbn [cache]. revert v.
  induction (cache s) as [|x r IH]; intros [|v]; cbn; auto.
Qed.

Lemma cold_same_graph s : same_graph s (cold s).
Proof. unfold same_graph. repeat split; reflexivity. Qed.

Lemma cold_wf s : wf s -> wf (cold s).
Proof.
  unfold wf, next, cold; cbn [kind vlinks lverts vunis uverts ulaws lapp cache].
  rewrite map_length. exact (fun H => H).
Qed.

(* no entry at all, hence coherent *)
Lemma cold_Coh filt s : Coh filt (cold s).
Proof. intros v k ans H. rewrite cold_ca in H. discriminate H. Qed.

Lemma cold_idempotent s : cold (cold s) = cold s.
Proof. unfold cold; cbn [kind vlinks lverts vunis uverts ulaws lapp cache caching]. now rewrite map_map. Qed.

(* the loop itself never reads the memo *)
Lemma cold_neighbors_pure filt s v d u f :
  neighbors_pure filt (cold s) v d u f = neighbors_pure filt s v d u f.
Proof. apply neighbors_pure_footprint; [reflexivity|]. intros; split; reflexivity. Qed.

(* a copy answers every query, traversal and search exactly as the original does - whatever the
   original's memos held *)
Theorem cold_copy_answers_like_the_original filt s ou start d u fv fr m fuel :
  wf s -> Coh filt s ->
  snd (neighbors_c filt (cold s) start d u fv) = snd (neighbors_c filt s start d u fv) /\
  snd (bft_st state (nbs_c filt d u fv) (t_uni (cold s) ou) fr fuel (cold s) start)
    = snd (bft_st state (nbs_c filt d u fv) (t_uni s ou) fr fuel s start) /\
  snd (dft_rec_st state (nbs_c filt d u fv) (t_uni (cold s) ou) fr fuel (cold s) start)
    = snd (dft_rec_st state (nbs_c filt d u fv) (t_uni s ou) fr fuel s start) /\
  snd (dft_iter_st state (nbs_c filt d u fv) (t_uni (cold s) ou) fr fuel (cold s) start)
    = snd (dft_iter_st state (nbs_c filt d u fv) (t_uni s ou) fr fuel s start) /\
  snd (bfs_st state (nbs_c filt Fwd UErr None) (t_uni (cold s) ou) m fuel (cold s) start)
    = snd (bfs_st state (nbs_c filt Fwd UErr None) (t_uni s ou) m fuel s start) /\
  snd (dfs_rec_st state (nbs_c filt Fwd UErr None) (t_uni (cold s) ou) m fuel (cold s) start)
    = snd (dfs_rec_st state (nbs_c filt Fwd UErr None) (t_uni s ou) m fuel s start) /\
  snd (dfs_iter_st state (nbs_c filt Fwd UErr None) (t_uni (cold s) ou) m fuel (cold s) start)
    = snd (dfs_iter_st state (nbs_c filt Fwd UErr None) (t_uni s ou) m fuel s start).
Proof.
  intros W C.
  pose proof (cold_wf s W) as W'. pose proof (cold_Coh filt s) as C'.
  split.
  - pose proof (Coh_query_total filt (cold s) start d u fv W' C') as Q'.
    pose proof (Coh_query_total filt s start d u fv W C) as Q.
    destruct (neighbors_c filt (cold s) start d u fv) as [x' r'].
    destruct (neighbors_c filt s start d u fv) as [x r].
    cbn [snd]. destruct Q' as [-> _]. destruct Q as [-> _].
    apply cold_neighbors_pure.
  - exact (cached_traversal_independent_of_memo_and_flag filt (cold s) s ou start d u fv fr m fuel
             W' C' W C eq_refl eq_refl eq_refl eq_refl).
Qed.

(* ====================================================================================== *)
(* non-vacuity                                                                             *)
(* ====================================================================================== *)
(* vertices 0 1 2; directed edge 3 : 0 -> 1, undirected edge 4 : 0 -- 2; caching on; then one
   neighbors(0, ANY, NEIGHBOR) call warms the memo of vertex 0 *)
Definition cc_ex_filt : nat -> nat -> option nat -> bool := fun _ _ _ => true.
Definition cc_ex_ops : list (cop) :=
  [CMut (SetCaching true);
   CMut (NewVertex false [] []); CMut (NewVertex false [] []); CMut (NewVertex false [] []);
   CMut (NewEdge KDir (Some 0) (Some 1)); CMut (NewEdge KUnd (Some 0) (Some 2));
   CNb 0 AnyDir UNb None].
Definition cc_ex_heap : state := crun cc_ex_filt cc_ex_ops empty.

Example cold_copy_example : exists filt s, wf s /\ Coh filt s /\ cold s <> s /\
  snd (neighbors_c filt (cold s) 0 AnyDir UNb None) = snd (neighbors_c filt s 0 AnyDir UNb None).
Proof.
  exists cc_ex_filt, cc_ex_heap.
  split; [vm_compute; repeat split|].
  split.
  { unfold cc_ex_heap. apply Coh_reachable. intros o u H.
    cbn in H. repeat (destruct H as [H|H]; [inversion H; subst; discriminate|]). destruct H. }
  split; [vm_compute; discriminate|].
  vm_compute. reflexivity.
Qed.

(* the example is not trivial: the original's memo of vertex 0 holds the answer, the copy's holds nothing,
   and the shared answer is the two neighbours *)
Example cold_copy_example_facts :
  ca cc_ex_heap 0 = [((AnyDir, UNb, None), [Some 1; Some 2])] /\ ca (cold cc_ex_heap) 0 = [] /\
  caching (cold cc_ex_heap) = true /\
  snd (neighbors_c cc_ex_filt (cold cc_ex_heap) 0 AnyDir UNb None) = NOk [Some 1; Some 2].
Proof. repeat split; vm_compute; reflexivity. Qed.

Print Assumptions cold_copy_answers_like_the_original.
Print Assumptions cold_copy_example.
