(* NbrsProofs.v — proofs about the transliterated neighbors() / find_links() of Nbrs.v.

   PART A (C04: neighbors() follows exactly the documented direction / unknown-type / filter rules)
     rule_follows, spec_link      the documented per-link rule (definitions)
     nb_link_spec        (A1)     the loop body of neighbors() = spec_link, for every row
     neighbors_ok_iff    (A2)     neighbors_pure = NOk out  <->  no listed link raises and out is, in the
                                  order of vl s v, one entry per qualifying link (flat_map)
     neighbors_ok_iff'            the same with the "exists a" phrasing of the no-raise clause
     neighbors_err_iff   (A3)     neighbors_pure = NErr e  <->  the first raising link raises e
     self_loop_yields_self, undirected_other_end, directed_forward_only_from_origin,
     any_direction_includes_every_type, unknown_type_rule       (A4) corollaries on two-ended links
     forward_backward_duality (A5) under link_inv and a link-only filter:
                                  #(Some w) in neighbors(v, FORWARD) = #(Some v) in neighbors(w, BACKWARD)

   PART B (C09: find_links returns exactly the links neighbors() would follow from a to b)
     joins, fl_spec_link          the documented per-link rule (definitions)
     other_some_is_end            other s l (Some a) = OVal (Some b) -> a is one of the two ends
     fl_link_spec        (B1)     the loop body of find_links() = fl_spec_link, unconditionally
     find_links_ok       (B2)     NoDup (vl s a), no link raises -> result = filter ... (vl s a)
     find_links_ok_noraise        find_links = FOk ls -> no listed link raises
     find_links_size     (B3)     link_inv, same link-only verdicts, both calls return ->
                                  length ls = number of occurrences of Some b in neighbors(a)
     find_links_only_listed, find_links_nodup, find_links_complete   (B4)

   Stdlib only; no axioms (Print Assumptions at the end).                                            *)
From EG Require Import Base Lemmas Lemmas2 State Nbrs LinkProofs.
From Coq Require Import Permutation.

(* ------------------------------------------------------------------------------------------ *)
(* PART A : definitions                                                                         *)

(* does the documented rule follow link l from v?  None = the rule says NotImplementedError *)
Definition rule_follows (k : cls) (d : dirn) (u : unk) (origin dest : bool) : option bool :=
  if is_undirected k then Some true
  else if is_directed k && (origin || dest) then
    Some (match d with Fwd => origin | Bwd => dest | AnyDir => true end)
  else match d with
       | AnyDir => Some true
       | _ => match u with UErr => None | UNon => Some false | UNb => Some true end
       end.

(* one entry per qualifying link, the opposite end, subject to the filter *)
Definition spec_link filt (s : state) (v : nat) (d : dirn) (u : unk) (f : option nat) (l : nat) : lact :=
  match other s l (Some v) with
  | OErr => LRaise IndexError
  | OVal o => match rule_follows (kd s l) d u (is_end1 s l v) (is_end2 s l v) with
              | None => LRaise NotImplementedError
              | Some q => if q && fok filt f l o then LAdd o else LSkip
              end
  end.

(* the entries contributed by one link *)
Definition entry_of (a : lact) : list (option nat) := match a with LAdd o => [o] | _ => [] end.

(* number of occurrences of x in an answer of neighbors() *)
Definition occ (x : option nat) (out : list (option nat)) : nat := length (filter (oeqb x) out).

Lemma undirected_not_directed k : is_undirected k = true -> is_directed k = false.
Proof. destruct k; cbn; congruence. Qed.

Lemma oeqb_sym a b : oeqb a b = oeqb b a.
Proof. destruct a, b; cbn; auto. apply Nat.eqb_sym. Qed.

(* ------------------------------------------------------------------------------------------ *)
(* A1 *)
Theorem nb_link_spec filt s v d u f l : nb_link filt s v d u f l = spec_link filt s v d u f l.
Proof.
  unfold nb_link, spec_link, rule_follows.
  destruct (other s l (Some v)) as [|o]; [reflexivity|].
  destruct (kd s l), d, u, (is_end1 s l v), (is_end2 s l v), (fok filt f l o); reflexivity.
Qed.

(* ------------------------------------------------------------------------------------------ *)
(* A2 / A3 *)
Section Loop.
  Variable filt : nat -> nat -> option nat -> bool.
  Variables (s : state) (v : nat) (d : dirn) (u : unk) (f : option nat).
  Let sp := spec_link filt s v d u f.

  Lemma nb_loop_ok_iff ls acc out :
    nb_loop filt s v d u f ls acc = NOk out <->
    (forall l, In l ls -> forall e, sp l <> LRaise e) /\
    out = acc ++ flat_map (fun l => entry_of (sp l)) ls.
  Proof.
    revert acc. induction ls as [|l r IH]; intro acc; cbn [nb_loop flat_map].
    - rewrite app_nil_r. split.
      + intro H. inversion H. split; [intros ? []|reflexivity].
      + intros [_ ->]. reflexivity.
    - rewrite nb_link_spec. fold (sp l). destruct (sp l) as [|o|e0] eqn:E; cbn [entry_of].
      + rewrite IH. cbn [app]. split; intros [H1 H2]; split; auto.
        * intros l' [<-|Hin]; [rewrite E; discriminate | auto].
        * intros l' Hin. apply H1. now right.
      + rewrite IH. rewrite <- app_assoc. cbn [app]. split; intros [H1 H2]; split; auto.
        * intros l' [<-|Hin]; [rewrite E; discriminate | auto].
        * intros l' Hin. apply H1. now right.
      + split; [discriminate|]. intros [H1 _]. exfalso. apply (H1 l (or_introl eq_refl) e0). exact E.
  Qed.

  Lemma nb_loop_err_iff ls acc e :
    nb_loop filt s v d u f ls acc = NErr e <->
    exists pre l post, ls = pre ++ l :: post /\ sp l = LRaise e /\
                       (forall l', In l' pre -> forall e', sp l' <> LRaise e').
  Proof.
    revert acc. induction ls as [|l r IH]; intro acc; cbn [nb_loop].
    - split; [discriminate|]. intros (pre & l & post & H & _). destruct pre; discriminate.
    - rewrite nb_link_spec. fold (sp l).
      assert (Hskip : forall acc', (exists o, sp l = LAdd o) \/ sp l = LSkip ->
                (nb_loop filt s v d u f r acc' = NErr e <->
                 exists pre l0 post, l :: r = pre ++ l0 :: post /\ sp l0 = LRaise e /\
                       (forall l', In l' pre -> forall e', sp l' <> LRaise e'))).
      { intros acc' Hl. rewrite IH. split.
        - intros (pre & l0 & post & -> & H2 & H3). exists (l :: pre), l0, post. split; [reflexivity|]. split; auto.
          intros l' [<-|Hin]; [|auto]. destruct Hl as [[o ->]| ->]; discriminate.
        - intros (pre & l0 & post & H1 & H2 & H3). destruct pre as [|p pre]; cbn in H1; inversion H1; subst.
          + destruct Hl as [[o Ho]|Ho]; congruence.
          + exists pre, l0, post. split; auto. split; auto. intros l' Hin. apply H3. now right. }
      destruct (sp l) as [|o|e0] eqn:E.
      + apply Hskip. now right.
      + apply Hskip. left. now exists o.
      + split.
        * intro H. inversion H; subst. exists [], l, r. split; [reflexivity|]. split; auto.
        * intros (pre & l0 & post & H1 & H2 & H3). destruct pre as [|p pre]; cbn in H1; inversion H1; subst.
          -- congruence.
          -- exfalso. apply (H3 p (or_introl eq_refl) e0). exact E.
  Qed.

  Theorem neighbors_ok_iff out :
    neighbors_pure filt s v d u f = NOk out <->
    (forall l, In l (vl s v) -> forall e, spec_link filt s v d u f l <> LRaise e) /\
    out = flat_map (fun l => match spec_link filt s v d u f l with LAdd o => [o] | _ => [] end) (vl s v).
  Proof. unfold neighbors_pure. rewrite nb_loop_ok_iff. cbn [app]. reflexivity. Qed.

  Theorem neighbors_ok_iff' out :
    neighbors_pure filt s v d u f = NOk out <->
    (forall l, In l (vl s v) -> exists a, spec_link filt s v d u f l = a /\ (forall e, a <> LRaise e)) /\
    out = flat_map (fun l => match spec_link filt s v d u f l with LAdd o => [o] | _ => [] end) (vl s v).
  Proof.
    rewrite neighbors_ok_iff. split; intros [H1 H2]; split; auto.
    - intros l Hin. eexists. split; [reflexivity|]. now apply H1.
    - intros l Hin e. destruct (H1 l Hin) as (a & <- & Ha). apply Ha.
  Qed.

  Theorem neighbors_err_iff e :
    neighbors_pure filt s v d u f = NErr e <->
    exists pre l post, vl s v = pre ++ l :: post /\ spec_link filt s v d u f l = LRaise e /\
                       (forall l', In l' pre -> forall e', spec_link filt s v d u f l' <> LRaise e').
  Proof. unfold neighbors_pure. apply nb_loop_err_iff. Qed.
End Loop.

(* ------------------------------------------------------------------------------------------ *)
(* links seen through their first two ends                                                      *)
Definition other2 (x y e : option nat) : option nat :=
  if oeqb e x then y else if oeqb e y then x else None.

Lemma other_two s l x y t e : lv s l = x :: y :: t -> other s l e = OVal (other2 x y e).
Proof.
  intro H. unfold other, other2, lv1, lv2. rewrite H. cbn.
  destruct (oeqb e x); [reflexivity|]. destruct (oeqb e y); reflexivity.
Qed.
Lemma other_val_inv s l e o : other s l e = OVal o ->
  exists x y t, lv s l = x :: y :: t /\ o = other2 x y e.
Proof.
  unfold other, other2, lv1, lv2. destruct (lv s l) as [|x [|y t]]; cbn.
  - discriminate.
  - destruct (oeqb e x); discriminate.
  - intro H. exists x, y, t. split; [reflexivity|].
    destruct (oeqb e x); [congruence|]. destruct (oeqb e y); congruence.
Qed.
Lemma is_end1_two s l x y t v : lv s l = x :: y :: t -> is_end1 s l v = oeqb x (Some v).
Proof. intro H. unfold is_end1, lv1. now rewrite H. Qed.
Lemma is_end2_two s l x y t v : lv s l = x :: y :: t -> is_end2 s l v = oeqb y (Some v).
Proof. intro H. unfold is_end2, lv2. now rewrite H. Qed.

Lemma spec_link_two filt s v d u f l x y t : lv s l = x :: y :: t ->
  spec_link filt s v d u f l =
  match rule_follows (kd s l) d u (oeqb x (Some v)) (oeqb y (Some v)) with
  | None => LRaise NotImplementedError
  | Some q => if q && fok filt f l (other2 x y (Some v)) then LAdd (other2 x y (Some v)) else LSkip
  end.
Proof.
  intro H. unfold spec_link. rewrite (other_two _ _ _ _ _ _ H), (is_end1_two _ _ _ _ _ _ H), (is_end2_two _ _ _ _ _ _ H).
  reflexivity.
Qed.

Lemma spec_link_add_inv filt s v d u f l o : spec_link filt s v d u f l = LAdd o ->
  exists x y t, lv s l = x :: y :: t /\ o = other2 x y (Some v) /\
    rule_follows (kd s l) d u (oeqb x (Some v)) (oeqb y (Some v)) = Some true /\
    fok filt f l o = true.
Proof.
  intro H. unfold spec_link in H. destruct (other s l (Some v)) as [|o'] eqn:E; [discriminate|].
  destruct (other_val_inv _ _ _ _ E) as (x & y & t & Hl & Ho).
  rewrite (is_end1_two _ _ _ _ _ _ Hl), (is_end2_two _ _ _ _ _ _ Hl) in H.
  destruct (rule_follows _ _ _ _ _) as [[|]|] eqn:Er; cbn in H; try discriminate.
  destruct (fok filt f l o') eqn:Ef; inversion H; subst o'.
  exists x, y, t. repeat split; auto. now rewrite <- H1.
Qed.

(* ------------------------------------------------------------------------------------------ *)
(* A4 : corollaries on two-ended links                                                          *)
Lemma rule_follows_any k u origin dest : rule_follows k AnyDir u origin dest = Some true.
Proof. unfold rule_follows. destruct (is_undirected k), (is_directed k), origin, dest; reflexivity. Qed.
Lemma rule_follows_undirected k d u origin dest : is_undirected k = true -> rule_follows k d u origin dest = Some true.
Proof. unfold rule_follows. now intros ->. Qed.

(* a qualifying self-loop contributes the vertex itself *)
Theorem self_loop_yields_self filt s v d u f l o :
  lv s l = [Some v; Some v] -> spec_link filt s v d u f l = LAdd o -> o = Some v.
Proof.
  intros H. rewrite (spec_link_two _ _ _ _ _ _ _ _ _ _ H). unfold other2. rewrite oeqb_refl.
  destruct (rule_follows _ _ _ _ _) as [q|]; [|discriminate].
  destruct (q && _); congruence.
Qed.
(* ... and it does qualify, for every direction, when it is an edge and the filter accepts *)
Theorem self_loop_edge_qualifies filt s v d u f l :
  lv s l = [Some v; Some v] -> is_undirected (kd s l) || is_directed (kd s l) = true ->
  spec_link filt s v d u f l = if fok filt f l (Some v) then LAdd (Some v) else LSkip.
Proof.
  intros H Hk. rewrite (spec_link_two _ _ _ _ _ _ _ _ _ _ H). unfold other2, rule_follows. rewrite oeqb_refl. cbn.
  destruct (kd s l), d; cbn in *; try discriminate; reflexivity.
Qed.

Theorem undirected_other_end filt s d u l a b :
  is_undirected (kd s l) = true -> lv s l = [Some a; Some b] ->
  spec_link filt s a d u None l = LAdd (Some b) /\ spec_link filt s b d u None l = LAdd (Some a).
Proof.
  intros Hk H. rewrite !(spec_link_two _ _ _ _ _ _ _ _ _ _ H), !rule_follows_undirected by exact Hk.
  unfold other2. cbn [fok andb]. rewrite !oeqb_refl. split; [reflexivity|].
  destruct (oeqb (Some b) (Some a)) eqn:E; [|reflexivity]. apply oeqb_eq in E. congruence.
Qed.

Theorem directed_forward_only_from_origin filt s u l a b :
  is_directed (kd s l) = true -> lv s l = [Some a; Some b] -> a <> b ->
  spec_link filt s a Fwd u None l = LAdd (Some b) /\ spec_link filt s b Fwd u None l = LSkip /\
  spec_link filt s b Bwd u None l = LAdd (Some a) /\ spec_link filt s a Bwd u None l = LSkip.
Proof.
  intros Hk H Hab. rewrite !(spec_link_two _ _ _ _ _ _ _ _ _ _ H). unfold other2, rule_follows.
  assert (Hu : is_undirected (kd s l) = false) by (destruct (kd s l); cbn in *; congruence).
  rewrite Hk, Hu. cbn [fok andb oeqb]. rewrite !Nat.eqb_refl.
  rewrite (proj2 (Nat.eqb_neq a b) Hab), (proj2 (Nat.eqb_neq b a) (not_eq_sym Hab)). cbn.
  repeat split; reflexivity.
Qed.

Theorem any_direction_includes_every_type filt s u l a b :
  lv s l = [Some a; Some b] ->
  spec_link filt s a AnyDir u None l = LAdd (Some b) /\ spec_link filt s b AnyDir u None l = LAdd (Some a).
Proof.
  intros H. rewrite !(spec_link_two _ _ _ _ _ _ _ _ _ _ H), !rule_follows_any.
  unfold other2. cbn [fok andb]. rewrite !oeqb_refl. split; [reflexivity|].
  destruct (oeqb (Some b) (Some a)) eqn:E; [|reflexivity]. apply oeqb_eq in E. congruence.
Qed.

(* links that are neither kind of edge: governed by unknown_handling for FORWARD / BACKWARD *)
Theorem unknown_type_rule filt s l a b d :
  is_directed (kd s l) = false -> is_undirected (kd s l) = false -> lv s l = [Some a; Some b] -> d <> AnyDir ->
  spec_link filt s a d UErr None l = LRaise NotImplementedError /\
  spec_link filt s a d UNon None l = LSkip /\
  spec_link filt s a d UNb None l = LAdd (Some b).
Proof.
  intros Hd Hu H Hdir. rewrite !(spec_link_two _ _ _ _ _ _ _ _ _ _ H). unfold other2, rule_follows.
  rewrite Hd, Hu, oeqb_refl. destruct d; try congruence; cbn; repeat split; reflexivity.
Qed.

(* ------------------------------------------------------------------------------------------ *)
(* A5 : FORWARD / BACKWARD duality                                                              *)
Lemma other2_some_inv x y v w : other2 x y (Some v) = Some w ->
  (x = Some v /\ y = Some w) \/ (x = Some w /\ y = Some v /\ v <> w).
Proof.
  unfold other2. destruct (oeqb (Some v) x) eqn:E1.
  - apply oeqb_eq in E1. intros ->. now left.
  - destruct (oeqb (Some v) y) eqn:E2; [|discriminate]. apply oeqb_eq in E2. apply oeqb_neq in E1.
    intros ->. right. repeat split; congruence.
Qed.

Lemma other2_dual k u x y v w : other2 x y (Some v) = Some w ->
  other2 x y (Some w) = Some v /\
  rule_follows k Fwd u (oeqb x (Some v)) (oeqb y (Some v)) =
  rule_follows k Bwd u (oeqb x (Some w)) (oeqb y (Some w)) /\
  (x = Some w \/ y = Some w).
Proof.
  intro H. apply other2_some_inv in H. destruct H as [[-> ->]|(-> & -> & Hn)].
  - unfold other2. cbn [oeqb]. rewrite !Nat.eqb_refl. destruct (Nat.eq_dec v w) as [->|Hn].
    + rewrite !Nat.eqb_refl. repeat split; auto; unfold rule_follows; destruct k; reflexivity.
    + rewrite (proj2 (Nat.eqb_neq v w) Hn), (proj2 (Nat.eqb_neq w v) (not_eq_sym Hn)).
      repeat split; auto; unfold rule_follows; destruct k, u; reflexivity.
  - unfold other2. cbn [oeqb]. rewrite !Nat.eqb_refl.
    rewrite (proj2 (Nat.eqb_neq v w) Hn), (proj2 (Nat.eqb_neq w v) (not_eq_sym Hn)).
    repeat split; auto; unfold rule_follows; destruct k, u; reflexivity.
Qed.

Section Duality.
  Variable filt : nat -> nat -> option nat -> bool.
  Variables (s : state) (u : unk) (f : option nat).
  Hypothesis link_only : forall l o o', fok filt f l o = fok filt f l o'.

  Lemma dual_link_fb v w l : spec_link filt s v Fwd u f l = LAdd (Some w) ->
    spec_link filt s w Bwd u f l = LAdd (Some v) /\ In (Some w) (lv s l).
  Proof.
    intro H. apply spec_link_add_inv in H. destruct H as (x & y & t & Hl & Ho & Hr & Hf).
    symmetry in Ho. destruct (other2_dual (kd s l) u _ _ _ _ Ho) as (Hsw & Hrule & Hin).
    rewrite (spec_link_two _ _ _ _ _ _ _ _ _ _ Hl), <- Hrule, Hr, Hsw.
    rewrite (link_only l (Some v) (Some w)), Hf. split; [reflexivity|].
    rewrite Hl. destruct Hin as [->| ->]; cbn; auto.
  Qed.

  Lemma dual_link_bf v w l : spec_link filt s w Bwd u f l = LAdd (Some v) ->
    spec_link filt s v Fwd u f l = LAdd (Some w) /\ In (Some v) (lv s l).
  Proof.
    intro H. apply spec_link_add_inv in H. destruct H as (x & y & t & Hl & Ho & Hr & Hf).
    symmetry in Ho. destruct (other2_dual (kd s l) u _ _ _ _ Ho) as (Hsw & _ & Hin).
    destruct (other2_dual (kd s l) u _ _ _ _ Hsw) as (_ & Hrule & _).
    rewrite (spec_link_two _ _ _ _ _ _ _ _ _ _ Hl), Hrule, Hr, Hsw.
    rewrite (link_only l (Some w) (Some v)), Hf. split; [reflexivity|].
    rewrite Hl. destruct Hin as [->| ->]; cbn; auto.
  Qed.
End Duality.

(* occurrences of x in the flat_map answer = number of links contributing x *)
Definition adds (x : option nat) (a : lact) : bool := match a with LAdd o => oeqb x o | _ => false end.
Lemma occ_flat_map (sp : nat -> lact) x ls :
  occ x (flat_map (fun l => match sp l with LAdd o => [o] | _ => [] end) ls) =
  length (filter (fun l => adds x (sp l)) ls).
Proof.
  unfold occ. induction ls as [|l r IH]; [reflexivity|]. cbn [flat_map]. rewrite filter_app, app_length, IH.
  cbn [filter]. unfold adds at 2. destruct (sp l) as [|o|e]; cbn; [reflexivity| |reflexivity].
  destruct (oeqb x o); reflexivity.
Qed.
Lemma adds_true x a : adds x a = true <-> a = LAdd x.
Proof.
  destruct a as [|o|e]; cbn; try (split; discriminate). rewrite oeqb_eq. split; congruence.
Qed.

Theorem forward_backward_duality filt s u f v w outF outB :
  link_inv s ->
  (forall l o o', fok filt f l o = fok filt f l o') ->          (* the filter depends on the link only *)
  neighbors_pure filt s v Fwd u f = NOk outF ->
  neighbors_pure filt s w Bwd u f = NOk outB ->
  length (filter (oeqb (Some w)) outF) = length (filter (oeqb (Some v)) outB).
Proof.
  intros [Ha Hnd] Hlo HF HB.
  apply neighbors_ok_iff in HF. destruct HF as [_ ->].
  apply neighbors_ok_iff in HB. destruct HB as [_ ->].
  change (occ (Some w) (flat_map (fun l => match spec_link filt s v Fwd u f l with LAdd o => [o] | _ => [] end) (vl s v)) =
          occ (Some v) (flat_map (fun l => match spec_link filt s w Bwd u f l with LAdd o => [o] | _ => [] end) (vl s w))).
  rewrite !occ_flat_map. apply Permutation_length. apply NoDup_Permutation.
  - apply NoDup_filter, Hnd.
  - apply NoDup_filter, Hnd.
  - intro l. rewrite !filter_In, !adds_true. split; intros [Hin Hs].
    + destruct (dual_link_fb filt s u f Hlo _ _ _ Hs) as [Hs' Hin']. split; [|exact Hs']. now apply Ha.
    + destruct (dual_link_bf filt s u f Hlo _ _ _ Hs) as [Hs' Hin']. split; [|exact Hs']. now apply Ha.
Qed.

(* the same statement for the stdlib counting function *)
Definition onat_eq_dec : forall a b : option nat, {a = b} + {a <> b}.
Proof. decide equality. apply Nat.eq_dec. Defined.
Lemma occ_count_occ x out : occ x out = count_occ onat_eq_dec out x.
Proof.
  unfold occ. induction out as [|y r IH]; [reflexivity|]. cbn [filter count_occ].
  destruct (onat_eq_dec y x) as [->|Hn].
  - rewrite oeqb_refl. cbn. now rewrite IH.
  - destruct (oeqb x y) eqn:E; [apply oeqb_eq in E; congruence | exact IH].
Qed.
Corollary forward_backward_duality_count_occ filt s u f v w outF outB :
  link_inv s -> (forall l o o', fok filt f l o = fok filt f l o') ->
  neighbors_pure filt s v Fwd u f = NOk outF -> neighbors_pure filt s w Bwd u f = NOk outB ->
  count_occ onat_eq_dec outF (Some w) = count_occ onat_eq_dec outB (Some v).
Proof. intros. rewrite <- !occ_count_occ. unfold occ. eapply forward_backward_duality; eauto. Qed.

(* ------------------------------------------------------------------------------------------ *)
(* PART B : find_links                                                                          *)
Definition joins (s : state) (l a b : nat) : bool :=
  match other s l (Some a) with OVal o => oeqb o (Some b) | OErr => false end.

Definition fl_spec_link ffl (s : state) (a b : nat) (ds : bool) (u : unk) (f : option nat) (l : nat) : fact :=
  match other s l (Some a) with
  | OErr => FRaise IndexError
  | OVal o =>
      if negb (oeqb o (Some b)) then FSkip
      else if ds then
        match rule_follows (kd s l) Fwd u (is_end1 s l a) (is_end2 s l a) with
        | None => FRaise NotImplementedError
        | Some q => if q && ffok ffl f l then FAdd else FSkip
        end
      else if ffok ffl f l then FAdd else FSkip
  end.

Definition is_fadd (a : fact) : bool := match a with FAdd => true | _ => false end.

(* other() returns a vertex only to one of the two ends *)
Lemma other_some_is_end s l a b : other s l (Some a) = OVal (Some b) ->
  is_end1 s l a || is_end2 s l a = true.
Proof.
  intro H. destruct (other_val_inv _ _ _ _ H) as (x & y & t & Hl & Ho).
  rewrite (is_end1_two _ _ _ _ _ _ Hl), (is_end2_two _ _ _ _ _ _ Hl).
  symmetry in Ho. apply other2_some_inv in Ho. destruct Ho as [[-> _]|(_ & -> & _)]; rewrite oeqb_refl.
  - reflexivity.
  - apply orb_true_r.
Qed.

(* B1 : holds for every row (a link that joins a to b has a as one of its two ends, so the
   "directed but neither end" corner of rule_follows is unreachable here) *)
Theorem fl_link_spec ffl s a b ds u f l : fl_link ffl s a b ds u f l = fl_spec_link ffl s a b ds u f l.
Proof.
  unfold fl_link, fl_spec_link.
  destruct (other s l (Some a)) as [|o] eqn:E; [reflexivity|].
  destruct (oeqb o (Some b)) eqn:Eo; cbn [negb]; [|reflexivity].
  destruct ds; [|reflexivity].
  apply oeqb_eq in Eo. subst o. apply other_some_is_end in E. unfold rule_follows.
  destruct (kd s l), u, (is_end1 s l a), (is_end2 s l a), (ffok ffl f l); cbn in *; try reflexivity; discriminate.
Qed.

Lemma fl_spec_add_joins ffl s a b ds u f l : fl_spec_link ffl s a b ds u f l = FAdd -> joins s l a b = true.
Proof.
  unfold fl_spec_link, joins. destruct (other s l (Some a)) as [|o]; [discriminate|].
  destruct (oeqb o (Some b)); cbn; [reflexivity|discriminate].
Qed.

Section FindLinks.
  Variable ffl : nat -> nat -> bool.
  Variables (s : state) (a b : nat) (ds : bool) (u : unk) (f : option nat).
  Let fsp := fl_spec_link ffl s a b ds u f.


  Lemma fl_loop_noraise ls acc out : fl_loop ffl s a b ds u f ls acc = FOk out ->
    forall l, In l ls -> forall e, fsp l <> FRaise e.
  Proof.
    revert acc. induction ls as [|l r IH]; intros acc H l' Hin; [destruct Hin|].
    cbn [fl_loop] in H. rewrite fl_link_spec in H. fold (fsp l) in H.
    destruct Hin as [<-|Hin].
    - destruct (fsp l); [discriminate|discriminate|discriminate H].
    - destruct (fsp l); [eapply IH; eauto|eapply IH; eauto|discriminate H].
  Qed.

  Lemma fl_loop_ok ls acc :
    NoDup ls -> (forall l, In l ls -> ~ In l acc) -> (forall l, In l ls -> forall e, fsp l <> FRaise e) ->
    fl_loop ffl s a b ds u f ls acc = FOk (acc ++ filter (fun l => is_fadd (fsp l)) ls).
  Proof.
    revert acc. induction ls as [|l r IH]; intros acc Hnd Hdis Hnr; cbn [fl_loop filter].
    - now rewrite app_nil_r.
    - rewrite fl_link_spec. fold (fsp l). inversion Hnd as [|? ? Hl Hr]; subst.
      assert (Hnr' : forall l0, In l0 r -> forall e, fsp l0 <> FRaise e) by (intros; apply Hnr; now right).
      destruct (fsp l) as [| |e] eqn:E; cbn [is_fadd].
      + apply IH; auto. intros l0 Hin. apply Hdis. now right.
      + assert (memn l acc = false) as -> by (apply memn_nIn, Hdis; now left).
        rewrite IH; auto.
        * now rewrite <- app_assoc.
        * intros l0 Hin. rewrite in_app_iff. intros [H|[<-|[]]]; [|contradiction].
          revert H. apply Hdis. now right.
      + exfalso. apply (Hnr l (or_introl eq_refl) e). exact E.
  Qed.

  Lemma fl_loop_sound ls acc out : fl_loop ffl s a b ds u f ls acc = FOk out ->
    forall l, In l out -> In l acc \/ (In l ls /\ fsp l = FAdd).
  Proof.
    revert acc. induction ls as [|l r IH]; intros acc H l' Hin; cbn [fl_loop] in H.
    - inversion H; subst. now left.
    - rewrite fl_link_spec in H. fold (fsp l) in H. destruct (fsp l) as [| |e] eqn:E; [| |discriminate].
      + destruct (IH _ H _ Hin) as [?|[? ?]]; [now left|right]. split; [now right|assumption].
      + destruct (IH _ H _ Hin) as [Hacc|[? ?]].
        * destruct (memn l acc); [now left|]. apply in_app_iff in Hacc. destruct Hacc as [?|[<-|[]]]; [now left|].
          right. split; [now left|assumption].
        * right. split; [now right|assumption].
  Qed.

  Lemma fl_loop_complete ls acc out : fl_loop ffl s a b ds u f ls acc = FOk out ->
    forall l, In l acc \/ (In l ls /\ fsp l = FAdd) -> In l out.
  Proof.
    revert acc. induction ls as [|l r IH]; intros acc H l' Hin; cbn [fl_loop] in H.
    - inversion H; subst. destruct Hin as [?|[[] _]]; assumption.
    - rewrite fl_link_spec in H. fold (fsp l) in H. destruct (fsp l) as [| |e] eqn:E; [| |discriminate].
      + apply (IH _ H). destruct Hin as [?|[[<-|?] ?]]; [now left|congruence|now right].
      + apply (IH _ H). destruct Hin as [Hacc|[[<-|?] ?]].
        * left. destruct (memn l acc); [assumption|]. apply in_app_iff. now left.
        * left. destruct (memn l acc) eqn:Em; [now apply memn_In|]. apply in_app_iff. right. now left.
        * now right.
  Qed.

  Lemma fl_loop_nodup ls acc out : fl_loop ffl s a b ds u f ls acc = FOk out -> NoDup acc -> NoDup out.
  Proof.
    revert acc. induction ls as [|l r IH]; intros acc H Hnd; cbn [fl_loop] in H.
    - inversion H; subst. assumption.
    - destruct (fl_link ffl s a b ds u f l); [eauto| |discriminate].
      apply (IH _ H). destruct (memn l acc) eqn:Em; [assumption|]. apply NoDup_app_snoc; auto. now apply memn_nIn.
  Qed.

  (* B2 *)
  Theorem find_links_ok :
    NoDup (vl s a) -> (forall l, In l (vl s a) -> forall e, fl_spec_link ffl s a b ds u f l <> FRaise e) ->
    find_links ffl s a b ds u f =
    FOk (filter (fun l => match fl_spec_link ffl s a b ds u f l with FAdd => true | _ => false end) (vl s a)).
  Proof. intros Hnd Hnr. unfold find_links. rewrite fl_loop_ok; auto. Qed.

  Theorem find_links_ok_noraise ls : find_links ffl s a b ds u f = FOk ls ->
    forall l, In l (vl s a) -> forall e, fl_spec_link ffl s a b ds u f l <> FRaise e.
  Proof. unfold find_links. apply fl_loop_noraise. Qed.

  (* B4 *)
  Theorem find_links_only_listed ls : find_links ffl s a b ds u f = FOk ls ->
    forall l, In l ls -> In l (vl s a) /\ joins s l a b = true.
  Proof.
    unfold find_links. intros H l Hin. destruct (fl_loop_sound _ _ _ H _ Hin) as [[]|[H1 H2]].
    split; [assumption|]. eapply fl_spec_add_joins; eauto.
  Qed.
  Theorem find_links_nodup ls : find_links ffl s a b ds u f = FOk ls -> NoDup ls.
  Proof. unfold find_links. intro H. eapply fl_loop_nodup; eauto. constructor. Qed.
  (* membership characterisation, without any NoDup hypothesis on vl s a *)
  Theorem find_links_complete ls : find_links ffl s a b ds u f = FOk ls ->
    forall l, In l ls <-> In l (vl s a) /\ fl_spec_link ffl s a b ds u f l = FAdd.
  Proof.
    unfold find_links. intros H l. split.
    - intro Hin. destruct (fl_loop_sound _ _ _ H _ Hin) as [[]|?]. assumption.
    - intro Hin. apply (fl_loop_complete _ _ _ H). now right.
  Qed.
End FindLinks.

(* B3 *)
Lemma fl_spec_adds filt ffl s a b ds u f l :
  (forall l o, fok filt f l o = ffok ffl f l) ->
  is_fadd (fl_spec_link ffl s a b ds u f l) =
  adds (Some b) (spec_link filt s a (if ds then Fwd else AnyDir) u f l).
Proof.
  intro Hf. unfold fl_spec_link, spec_link. destruct (other s l (Some a)) as [|o]; [reflexivity|].
  rewrite oeqb_sym.
  destruct ds.
  - destruct (rule_follows _ _ _ _ _) as [q|].
    + rewrite Hf. destruct (q && ffok ffl f l); unfold adds; destruct (oeqb (Some b) o); reflexivity.
    + destruct (oeqb (Some b) o); reflexivity.
  - rewrite rule_follows_any, Hf. cbn [andb].
    destruct (ffok ffl f l); unfold adds; destruct (oeqb (Some b) o); reflexivity.
Qed.

Theorem find_links_size filt ffl s a b ds u f ls out :
  link_inv s ->
  (forall l o, fok filt f l o = ffok ffl f l) ->                 (* same verdict, link-only *)
  find_links ffl s a b ds u f = FOk ls ->
  neighbors_pure filt s a (if ds then Fwd else AnyDir) u f = NOk out ->
  length ls = length (filter (oeqb (Some b)) out).
Proof.
  intros [_ Hnd] Hf HF HN.
  pose proof (find_links_ok_noraise _ _ _ _ _ _ _ _ HF) as Hnr.
  rewrite (find_links_ok ffl s a b ds u f (Hnd a) Hnr) in HF. inversion HF; subst ls. clear HF.
  apply neighbors_ok_iff in HN. destruct HN as [_ ->].
  change (length (filter (oeqb (Some b)) ?x)) with (occ (Some b) x).
  rewrite occ_flat_map. f_equal. apply filter_ext. intro l.
  apply (fl_spec_adds filt ffl s a b ds u f l Hf).
Qed.

Print Assumptions nb_link_spec.
Print Assumptions neighbors_ok_iff.
Print Assumptions neighbors_err_iff.
Print Assumptions forward_backward_duality.
Print Assumptions fl_link_spec.
Print Assumptions find_links_ok.
Print Assumptions find_links_size.
Print Assumptions find_links_only_listed.
Print Assumptions find_links_nodup.
