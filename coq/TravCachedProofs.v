(* TravCachedProofs.v — property C05 for traversals and searches: running the six loops of
   breadthfirst.py / depthfirst.py THROUGH the neighbour memo (TravCached.v: the heap state, i.e. its
   `cache` field, is threaded through every neighbors() call) returns exactly what the pure loops
   of Trav.v / TravState.v return, and leaves a well-formed, coherent heap that differs from the
   initial one in the memo only.
   Proof file: stdlib only, nothing admitted, no axioms (Print Assumptions at the end: all closed).

   PART 1 — generic simulation (Section Sim: any state type St, stateful oracle nbs, pure oracle nb,
            invariant I with  Hsim : I s -> snd (nbs s v) = nb v /\ I (fst (nbs s v))):
     nbos_sim
     bft_loop_st_sim dfr_st_sim dfi_loop_st_sim bfs_loop_st_sim dfs_recur_st_sim dfsi_loop_st_sim
     bft_st_sim dft_rec_st_sim dft_iter_st_sim bfs_st_sim dfs_rec_st_sim dfs_iter_st_sim :
         I s -> snd (T_st St nbs uni .. fuel s start) = T nb uni .. fuel start /\ I (fst (T_st ..))
     for every fuel, universe, ff_result / match predicate and start.  The nested `fix go` of
     dfr_st / dfs_recur_st / dfr / dfs_recur is exposed through the list-recursive helpers
     dfr_list_st, dfs_list_st, dfr_list', dfs_list' (unfolding equations by reflexivity).
            frame versions (Section Frame: any P closed under oracle calls):
     bft_st_frame dft_rec_st_frame dft_iter_st_frame bfs_st_frame dfs_rec_st_frame dfs_iter_st_frame :
         P s -> P (fst (T_st ..))          -- the final state is reached through oracle calls only.

   PART 2 — the memo (nbs_c filt d u fv := fun s v => neighbors_c filt s v d u fv):
     set_ca_outside          wf s -> next s <= v -> set_ca s v x = s
     Coh_query_total         Coh_query WITHOUT the `isv s v = true` hypothesis, plus wf s' and the
                             remaining frame equalities (vunis, uverts, ulaws, lapp): a query about
                             ANY id answers as neighbors_pure, keeps Coh and wf, writes `cache` only
     CInv filt s0 s'         := wf s' /\ Coh filt s' /\ all fields of s' but `cache` equal those of s0
     nbs_c_sim               Hsim for nbs_c, t_nb filt s0 d u fv and CInv filt s0
     cached_bft_equals_uncached cached_dft_rec_equals_uncached cached_dft_iter_equals_uncached
     cached_bfs_equals_uncached cached_dfs_rec_equals_uncached cached_dfs_iter_equals_uncached :
         wf s -> Coh filt s ->
         snd (T_st state (nbs_c ..) (t_uni s ou) .. fuel s start) = T (t_nb filt s ..) (t_uni s ou) .. fuel start
         /\ the final state s' has wf s', Coh filt s' and the same vlinks lverts vunis uverts ulaws
            lapp kind caching as s                                     (for EVERY fuel)
     cached_*_equals_s_*     the same with fuel trav_fuel s: the result is s_bft / s_dft_rec / ... of TravState.v
     cached_traversal_independent_of_memo_and_flag
                             two wf, coherent heaps with equal vlinks lverts kind uverts (memo
                             contents and the caching flag arbitrary) give equal results for all
                             six stateful loops
                             (route: RInv filt s1 = wf, Coh, link structure of s1; s2 satisfies it)
     cached_traversal_example  non-vacuity, by vm_compute: a heap built with Struct.run, caching on,
                             warmed by neighbors_c calls; bft_st = s_bft and the final memo is non-empty
                             and larger than the initial one
     cached_traversal_example_hyps     that heap is wf and Coh (Coh_reachable)
     cached_traversal_example_applied  cached_bft_equals_s_bft instantiated on it                 *)
From EG Require Import Base State StateLemmas Nbrs Struct Trav TravCached TravState Cache.
From EG Require Import CacheProofs TravStateProofs.

(* ====================================================================================== *)
(* PART 1a. unfolding helpers for the nested fixpoints                                     *)
(* ====================================================================================== *)
Section Helpers.
  Variable St : Type.
  Variable nbs : St -> nat -> St * nres.
  Variable nb : nat -> nres.
  Variable uni : option (list nat).
  Variable fres : node -> bool.
  Variable m : node -> bool.

  (* pure side *)
  Definition dfr_list' (rec : node -> list node -> list node -> dres) :=
    fix go (ws vis out : list node) : dres :=
    match ws with
    | [] => DOk vis out
    | w :: r =>
        if inU uni w && negb (nmem w vis)
        then match rec w vis out with
             | DOk vis' out' => go r vis' out'
             | e => e
             end
        else go r vis out
    end.
  Lemma dfr_list'_cons rec w r vis out :
    dfr_list' rec (w :: r) vis out =
    if inU uni w && negb (nmem w vis)
    then match rec w vis out with
         | DOk vis' out' => dfr_list' rec r vis' out'
         | e => e
         end
    else dfr_list' rec r vis out.
  Proof. reflexivity. Qed.
  Lemma dfr_S' f v vis out :
    dfr nb uni fres (S f) v vis out =
    match nbo nb v with
    | NErr e => DErr e
    | NOk ns => dfr_list' (dfr nb uni fres f) ns (v :: vis) (emit fres v out)
    end.
  Proof. reflexivity. Qed.

  Definition dfs_list' (rec : node -> list node -> rres) :=
    fix go (ws vis : list node) : rres :=
    match ws with
    | [] => RNone vis
    | w :: r =>
        if inU uni w && negb (nmem w vis)
        then if m w then RFound w
             else match rec w vis with
                  | RNone vis' => go r vis'
                  | x => x
                  end
        else go r vis
    end.
  Lemma dfs_list'_cons rec w r vis :
    dfs_list' rec (w :: r) vis =
    if inU uni w && negb (nmem w vis)
    then if m w then RFound w
         else match rec w vis with
              | RNone vis' => dfs_list' rec r vis'
              | x => x
              end
    else dfs_list' rec r vis.
  Proof. reflexivity. Qed.
  Lemma dfs_recur_S' f v vis :
    dfs_recur nb uni m (S f) v vis =
    match nbo nb v with
    | NErr e => RErr e
    | NOk ns => dfs_list' (dfs_recur nb uni m f) ns (v :: vis)
    end.
  Proof. reflexivity. Qed.

  (* stateful side *)
  Definition dfr_list_st (rec : St -> node -> list node -> list node -> dres_st St) :=
    fix go (ws : list node) (s : St) (vis out : list node) : dres_st St :=
    match ws with
    | [] => DOkS St s vis out
    | w :: r =>
        if inU uni w && negb (nmem w vis)
        then match rec s w vis out with
             | DOkS _ s' vis' out' => go r s' vis' out'
             | e => e
             end
        else go r s vis out
    end.
  Lemma dfr_list_st_cons rec w r s vis out :
    dfr_list_st rec (w :: r) s vis out =
    if inU uni w && negb (nmem w vis)
    then match rec s w vis out with
         | DOkS _ s' vis' out' => dfr_list_st rec r s' vis' out'
         | e => e
         end
    else dfr_list_st rec r s vis out.
  Proof. reflexivity. Qed.
  Lemma dfr_st_S f s v vis out :
    dfr_st St nbs uni fres (S f) s v vis out =
    match nbos St nbs s v with
    | (s1, NErr e) => DErrS St s1 e
    | (s1, NOk ns) => dfr_list_st (dfr_st St nbs uni fres f) ns s1 (v :: vis) (emit fres v out)
    end.
  Proof. reflexivity. Qed.

  Definition dfs_list_st (rec : St -> node -> list node -> rres_st St) :=
    fix go (ws : list node) (s : St) (vis : list node) : rres_st St :=
    match ws with
    | [] => RNoneS St s vis
    | w :: r =>
        if inU uni w && negb (nmem w vis)
        then if m w then RFoundS St s w
             else match rec s w vis with
                  | RNoneS _ s' vis' => go r s' vis'
                  | x => x
                  end
        else go r s vis
    end.
  Lemma dfs_list_st_cons rec w r s vis :
    dfs_list_st rec (w :: r) s vis =
    if inU uni w && negb (nmem w vis)
    then if m w then RFoundS St s w
         else match rec s w vis with
              | RNoneS _ s' vis' => dfs_list_st rec r s' vis'
              | x => x
              end
    else dfs_list_st rec r s vis.
  Proof. reflexivity. Qed.
  Lemma dfs_recur_st_S f s v vis :
    dfs_recur_st St nbs uni m (S f) s v vis =
    match nbos St nbs s v with
    | (s1, NErr e) => RErrS St s1 e
    | (s1, NOk ns) => dfs_list_st (dfs_recur_st St nbs uni m f) ns s1 (v :: vis)
    end.
  Proof. reflexivity. Qed.

  (* a stateful result = a final state and a pure result *)
  Definition dproj (r : dres_st St) : St * dres :=
    match r with
    | DOkS _ s vis out => (s, DOk vis out)
    | DErrS _ s e => (s, DErr e)
    | DFuelS _ s => (s, DFuel)
    end.
  Definition rproj (r : rres_st St) : St * rres :=
    match r with
    | RFoundS _ s v => (s, RFound v)
    | RNoneS _ s vis => (s, RNone vis)
    | RErrS _ s e => (s, RErr e)
    | RFuelS _ s => (s, RFuel)
    end.
End Helpers.

(* ====================================================================================== *)
(* PART 1b. the simulation: on invariant states the stateful loops are the pure loops      *)
(* ====================================================================================== *)
Section Sim.
  Variable St : Type.
  Variable nbs : St -> nat -> St * nres.
  Variable nb : nat -> nres.
  Variable uni : option (list nat).
  Variable fres : node -> bool.
  Variable m : node -> bool.
  Variable I : St -> Prop.
  Hypothesis Hsim : forall s v, I s -> snd (nbs s v) = nb v /\ I (fst (nbs s v)).

  Lemma nbos_sim s v : I s -> snd (nbos St nbs s v) = nbo nb v /\ I (fst (nbos St nbs s v)).
  Proof. intro HI. destruct v as [x|]; cbn; auto. Qed.

  (* ---- bft ---- *)
  Lemma bft_loop_st_sim f : forall s q vis out, I s ->
    snd (bft_loop_st St nbs uni fres f s q vis out) = bft_loop nb uni fres f q vis out /\
    I (fst (bft_loop_st St nbs uni fres f s q vis out)).
  Proof.
    induction f as [|f IH]; intros s q vis out HI; cbn [bft_loop_st bft_loop]; [cbn; auto|].
    destruct q as [|x q]; [cbn; auto|].
    destruct (nbos_sim s x HI) as [Hr HI1].
    destruct (nbos St nbs s x) as [s1 r]. cbn [fst snd] in Hr, HI1. rewrite <- Hr.
    destruct r as [ns|e]; [|cbn; auto].
    destruct (fold_left (bft_discover uni fres) ns (q, vis, out)) as [[q2 vis2] out2].
    apply IH. exact HI1.
  Qed.
  Theorem bft_st_sim fuel s start : I s ->
    snd (bft_st St nbs uni fres fuel s start) = bft nb uni fres fuel start /\
    I (fst (bft_st St nbs uni fres fuel s start)).
  Proof.
    intro HI. unfold bft_st, bft.
    destruct uni as [[|u0 us]|] eqn:EU; try (cbn; auto; fail); rewrite <- EU;
      (destruct (negb _); [cbn; auto|apply bft_loop_st_sim; exact HI]).
  Qed.

  (* ---- dft_rec ---- *)
  Lemma dfr_list_st_sim rec_st rec :
    (forall s w vis out, I s ->
       snd (dproj St (rec_st s w vis out)) = rec w vis out /\ I (fst (dproj St (rec_st s w vis out)))) ->
    forall ws s vis out, I s ->
      snd (dproj St (dfr_list_st St uni rec_st ws s vis out)) = dfr_list' uni rec ws vis out /\
      I (fst (dproj St (dfr_list_st St uni rec_st ws s vis out))).
  Proof.
    intro H. induction ws as [|w r IH]; intros s vis out HI; [cbn; auto|].
    rewrite dfr_list_st_cons, dfr_list'_cons.
    destruct (inU uni w && negb (nmem w vis)); [|apply IH; exact HI].
    destruct (H s w vis out HI) as [Hr HI1].
    destruct (rec_st s w vis out) as [s' vis' out'|s' e|s']; cbn [dproj fst snd] in Hr, HI1; rewrite <- Hr;
      [apply IH; exact HI1|cbn; auto|cbn; auto].
  Qed.
  Lemma dfr_st_sim f : forall s v vis out, I s ->
    snd (dproj St (dfr_st St nbs uni fres f s v vis out)) = dfr nb uni fres f v vis out /\
    I (fst (dproj St (dfr_st St nbs uni fres f s v vis out))).
  Proof.
    induction f as [|f IH]; intros s v vis out HI; [cbn; auto|].
    rewrite dfr_st_S, dfr_S'.
    destruct (nbos_sim s v HI) as [Hr HI1].
    destruct (nbos St nbs s v) as [s1 r]. cbn [fst snd] in Hr, HI1. rewrite <- Hr.
    destruct r as [ns|e]; [|cbn; auto].
    apply dfr_list_st_sim; [exact IH|exact HI1].
  Qed.
  Theorem dft_rec_st_sim fuel s start : I s ->
    snd (dft_rec_st St nbs uni fres fuel s start) = dft_rec nb uni fres fuel start /\
    I (fst (dft_rec_st St nbs uni fres fuel s start)).
  Proof.
    intro HI. unfold dft_rec_st, dft_rec.
    destruct (df_preflight uni start) as [e|]; [cbn; auto|].
    destruct (dfr_st_sim fuel s (Some start) [] [] HI) as [Hr HI1].
    destruct (dfr_st St nbs uni fres fuel s (Some start) [] []) as [s' vis' out'|s' e|s'];
      cbn [dproj fst snd] in Hr, HI1; rewrite <- Hr; cbn; auto.
  Qed.

  (* ---- dft_iter ---- *)
  Lemma dfi_loop_st_sim f : forall s st disc out, I s ->
    snd (dfi_loop_st St nbs uni fres f s st disc out) = dfi_loop nb uni fres f st disc out /\
    I (fst (dfi_loop_st St nbs uni fres f s st disc out)).
  Proof.
    induction f as [|f IH]; intros s st disc out HI; cbn [dfi_loop_st dfi_loop]; [cbn; auto|].
    destruct st as [|v st]; [cbn; auto|].
    destruct (nmem v disc); [apply IH; exact HI|].
    destruct (negb (inU uni v)); [apply IH; exact HI|].
    destruct (nbos_sim s v HI) as [Hr HI1].
    destruct (nbos St nbs s v) as [s1 r]. cbn [fst snd] in Hr, HI1. rewrite <- Hr.
    destruct r as [ns|e]; [|cbn; auto].
    apply IH. exact HI1.
  Qed.
  Theorem dft_iter_st_sim fuel s start : I s ->
    snd (dft_iter_st St nbs uni fres fuel s start) = dft_iter nb uni fres fuel start /\
    I (fst (dft_iter_st St nbs uni fres fuel s start)).
  Proof.
    intro HI. unfold dft_iter_st, dft_iter.
    destruct (df_preflight uni start) as [e|]; [cbn; auto|]. apply dfi_loop_st_sim. exact HI.
  Qed.

  (* ---- bfs ---- *)
  Lemma bfs_loop_st_sim f : forall s q vis, I s ->
    snd (bfs_loop_st St nbs uni m f s q vis) = bfs_loop nb uni m f q vis /\
    I (fst (bfs_loop_st St nbs uni m f s q vis)).
  Proof.
    induction f as [|f IH]; intros s q vis HI; cbn [bfs_loop_st bfs_loop]; [cbn; auto|].
    destruct q as [|x q]; [cbn; auto|].
    destruct (nbos_sim s x HI) as [Hr HI1].
    destruct (nbos St nbs s x) as [s1 r]. cbn [fst snd] in Hr, HI1. rewrite <- Hr.
    destruct r as [ns|e]; [|cbn; auto].
    destruct (bfs_scan uni m ns q vis) as [v|q2 vis2]; [cbn; auto|].
    apply IH. exact HI1.
  Qed.
  Theorem bfs_st_sim fuel s start : I s ->
    snd (bfs_st St nbs uni m fuel s start) = bfs nb uni m fuel start /\
    I (fst (bfs_st St nbs uni m fuel s start)).
  Proof.
    intro HI. unfold bfs_st, bfs.
    destruct uni as [[|u0 us]|] eqn:EU; try (cbn; auto; fail); rewrite <- EU;
      (destruct (negb _); [cbn; auto|]; destruct (m (Some start)); [cbn; auto|];
       apply bfs_loop_st_sim; exact HI).
  Qed.

  (* ---- dfs_rec ---- *)
  Lemma dfs_list_st_sim rec_st rec :
    (forall s w vis, I s ->
       snd (rproj St (rec_st s w vis)) = rec w vis /\ I (fst (rproj St (rec_st s w vis)))) ->
    forall ws s vis, I s ->
      snd (rproj St (dfs_list_st St uni m rec_st ws s vis)) = dfs_list' uni m rec ws vis /\
      I (fst (rproj St (dfs_list_st St uni m rec_st ws s vis))).
  Proof.
    intro H. induction ws as [|w r IH]; intros s vis HI; [cbn; auto|].
    rewrite dfs_list_st_cons, dfs_list'_cons.
    destruct (inU uni w && negb (nmem w vis)); [|apply IH; exact HI].
    destruct (m w); [cbn; auto|].
    destruct (H s w vis HI) as [Hr HI1].
    destruct (rec_st s w vis) as [s' v'|s' vis'|s' e|s']; cbn [rproj fst snd] in Hr, HI1; rewrite <- Hr;
      [cbn; auto|apply IH; exact HI1|cbn; auto|cbn; auto].
  Qed.
  Lemma dfs_recur_st_sim f : forall s v vis, I s ->
    snd (rproj St (dfs_recur_st St nbs uni m f s v vis)) = dfs_recur nb uni m f v vis /\
    I (fst (rproj St (dfs_recur_st St nbs uni m f s v vis))).
  Proof.
    induction f as [|f IH]; intros s v vis HI; [cbn; auto|].
    rewrite dfs_recur_st_S, dfs_recur_S'.
    destruct (nbos_sim s v HI) as [Hr HI1].
    destruct (nbos St nbs s v) as [s1 r]. cbn [fst snd] in Hr, HI1. rewrite <- Hr.
    destruct r as [ns|e]; [|cbn; auto].
    apply dfs_list_st_sim; [exact IH|exact HI1].
  Qed.
  Theorem dfs_rec_st_sim fuel s start : I s ->
    snd (dfs_rec_st St nbs uni m fuel s start) = dfs_rec nb uni m fuel start /\
    I (fst (dfs_rec_st St nbs uni m fuel s start)).
  Proof.
    intro HI. unfold dfs_rec_st, dfs_rec.
    destruct (df_preflight uni start) as [e|]; [cbn; auto|].
    destruct (m (Some start)); [cbn; auto|].
    destruct (dfs_recur_st_sim fuel s (Some start) [] HI) as [Hr HI1].
    destruct (dfs_recur_st St nbs uni m fuel s (Some start) []) as [s' v'|s' vis'|s' e|s'];
      cbn [rproj fst snd] in Hr, HI1; rewrite <- Hr; cbn; auto.
  Qed.

  (* ---- dfs_iter ---- *)
  Lemma dfsi_loop_st_sim f : forall s st disc, I s ->
    snd (dfsi_loop_st St nbs uni m f s st disc) = dfsi_loop nb uni m f st disc /\
    I (fst (dfsi_loop_st St nbs uni m f s st disc)).
  Proof.
    induction f as [|f IH]; intros s st disc HI; cbn [dfsi_loop_st dfsi_loop]; [cbn; auto|].
    destruct st as [|v st]; [cbn; auto|].
    destruct (negb (inU uni v)); [apply IH; exact HI|].
    destruct (nmem v disc); [apply IH; exact HI|].
    destruct (m v); [cbn; auto|].
    destruct (nbos_sim s v HI) as [Hr HI1].
    destruct (nbos St nbs s v) as [s1 r]. cbn [fst snd] in Hr, HI1. rewrite <- Hr.
    destruct r as [ns|e]; [|cbn; auto].
    apply IH. exact HI1.
  Qed.
  Theorem dfs_iter_st_sim fuel s start : I s ->
    snd (dfs_iter_st St nbs uni m fuel s start) = dfs_iter nb uni m fuel start /\
    I (fst (dfs_iter_st St nbs uni m fuel s start)).
  Proof.
    intro HI. unfold dfs_iter_st, dfs_iter.
    destruct (df_preflight uni start) as [e|]; [cbn; auto|]. apply dfsi_loop_st_sim. exact HI.
  Qed.
End Sim.

(* ====================================================================================== *)
(* PART 1c. frame: the final state is reached from the initial one through oracle calls    *)
(* ====================================================================================== *)
Section Frame.
  Variable St : Type.
  Variable nbs : St -> nat -> St * nres.
  Variable uni : option (list nat).
  Variable fres : node -> bool.
  Variable m : node -> bool.
  Variable P : St -> Prop.
  Hypothesis HP : forall s v, P s -> P (fst (nbs s v)).

  Lemma nbos_frame s v : P s -> P (fst (nbos St nbs s v)).
  Proof. intro H. destruct v as [x|]; cbn; auto. Qed.

  Lemma bft_loop_st_frame f : forall s q vis out, P s -> P (fst (bft_loop_st St nbs uni fres f s q vis out)).
  Proof.
    induction f as [|f IH]; intros s q vis out H; cbn [bft_loop_st]; [exact H|].
    destruct q as [|x q]; [exact H|].
    pose proof (nbos_frame s x H) as H1.
    destruct (nbos St nbs s x) as [s1 r]. cbn [fst] in H1.
    destruct r as [ns|e]; [|exact H1].
    destruct (fold_left (bft_discover uni fres) ns (q, vis, out)) as [[q2 vis2] out2].
    apply IH. exact H1.
  Qed.
  Theorem bft_st_frame fuel s start : P s -> P (fst (bft_st St nbs uni fres fuel s start)).
  Proof.
    intro H. unfold bft_st.
    destruct uni as [[|u0 us]|] eqn:EU; try exact H; rewrite <- EU;
      (destruct (negb _); [exact H|apply bft_loop_st_frame; exact H]).
  Qed.

  Lemma dfr_list_st_frame rec_st :
    (forall s w vis out, P s -> P (fst (dproj St (rec_st s w vis out)))) ->
    forall ws s vis out, P s -> P (fst (dproj St (dfr_list_st St uni rec_st ws s vis out))).
  Proof.
    intro Hrec. induction ws as [|w r IH]; intros s vis out H; [exact H|].
    rewrite dfr_list_st_cons.
    destruct (inU uni w && negb (nmem w vis)); [|apply IH; exact H].
    pose proof (Hrec s w vis out H) as H1.
    destruct (rec_st s w vis out) as [s' vis' out'|s' e|s']; cbn [dproj fst] in H1;
      [apply IH; exact H1|exact H1|exact H1].
  Qed.
  Lemma dfr_st_frame f : forall s v vis out, P s -> P (fst (dproj St (dfr_st St nbs uni fres f s v vis out))).
  Proof.
    induction f as [|f IH]; intros s v vis out H; [exact H|].
    rewrite dfr_st_S.
    pose proof (nbos_frame s v H) as H1.
    destruct (nbos St nbs s v) as [s1 r]. cbn [fst] in H1.
    destruct r as [ns|e]; [|exact H1].
    apply dfr_list_st_frame; [exact IH|exact H1].
  Qed.
  Theorem dft_rec_st_frame fuel s start : P s -> P (fst (dft_rec_st St nbs uni fres fuel s start)).
  Proof.
    intro H. unfold dft_rec_st.
    destruct (df_preflight uni start) as [e|]; [exact H|].
    pose proof (dfr_st_frame fuel s (Some start) [] [] H) as H1.
    destruct (dfr_st St nbs uni fres fuel s (Some start) [] []) as [s' vis' out'|s' e|s']; exact H1.
  Qed.

  Lemma dfi_loop_st_frame f : forall s st disc out, P s -> P (fst (dfi_loop_st St nbs uni fres f s st disc out)).
  Proof.
    induction f as [|f IH]; intros s st disc out H; cbn [dfi_loop_st]; [exact H|].
    destruct st as [|v st]; [exact H|].
    destruct (nmem v disc); [apply IH; exact H|].
    destruct (negb (inU uni v)); [apply IH; exact H|].
    pose proof (nbos_frame s v H) as H1.
    destruct (nbos St nbs s v) as [s1 r]. cbn [fst] in H1.
    destruct r as [ns|e]; [|exact H1].
    apply IH. exact H1.
  Qed.
  Theorem dft_iter_st_frame fuel s start : P s -> P (fst (dft_iter_st St nbs uni fres fuel s start)).
  Proof.
    intro H. unfold dft_iter_st.
    destruct (df_preflight uni start) as [e|]; [exact H|]. apply dfi_loop_st_frame. exact H.
  Qed.

  Lemma bfs_loop_st_frame f : forall s q vis, P s -> P (fst (bfs_loop_st St nbs uni m f s q vis)).
  Proof.
    induction f as [|f IH]; intros s q vis H; cbn [bfs_loop_st]; [exact H|].
    destruct q as [|x q]; [exact H|].
    pose proof (nbos_frame s x H) as H1.
    destruct (nbos St nbs s x) as [s1 r]. cbn [fst] in H1.
    destruct r as [ns|e]; [|exact H1].
    destruct (bfs_scan uni m ns q vis) as [v|q2 vis2]; [exact H1|].
    apply IH. exact H1.
  Qed.
  Theorem bfs_st_frame fuel s start : P s -> P (fst (bfs_st St nbs uni m fuel s start)).
  Proof.
    intro H. unfold bfs_st.
    destruct uni as [[|u0 us]|] eqn:EU; try exact H; rewrite <- EU;
      (destruct (negb _); [exact H|]; destruct (m (Some start)); [exact H|];
       apply bfs_loop_st_frame; exact H).
  Qed.

  Lemma dfs_list_st_frame rec_st :
    (forall s w vis, P s -> P (fst (rproj St (rec_st s w vis)))) ->
    forall ws s vis, P s -> P (fst (rproj St (dfs_list_st St uni m rec_st ws s vis))).
  Proof.
    intro Hrec. induction ws as [|w r IH]; intros s vis H; [exact H|].
    rewrite dfs_list_st_cons.
    destruct (inU uni w && negb (nmem w vis)); [|apply IH; exact H].
    destruct (m w); [exact H|].
    pose proof (Hrec s w vis H) as H1.
    destruct (rec_st s w vis) as [s' v'|s' vis'|s' e|s']; cbn [rproj fst] in H1;
      [exact H1|apply IH; exact H1|exact H1|exact H1].
  Qed.
  Lemma dfs_recur_st_frame f : forall s v vis, P s -> P (fst (rproj St (dfs_recur_st St nbs uni m f s v vis))).
  Proof.
    induction f as [|f IH]; intros s v vis H; [exact H|].
    rewrite dfs_recur_st_S.
    pose proof (nbos_frame s v H) as H1.
    destruct (nbos St nbs s v) as [s1 r]. cbn [fst] in H1.
    destruct r as [ns|e]; [|exact H1].
    apply dfs_list_st_frame; [exact IH|exact H1].
  Qed.
  Theorem dfs_rec_st_frame fuel s start : P s -> P (fst (dfs_rec_st St nbs uni m fuel s start)).
  Proof.
    intro H. unfold dfs_rec_st.
    destruct (df_preflight uni start) as [e|]; [exact H|].
    destruct (m (Some start)); [exact H|].
    pose proof (dfs_recur_st_frame fuel s (Some start) [] H) as H1.
    destruct (dfs_recur_st St nbs uni m fuel s (Some start) []) as [s' v'|s' vis'|s' e|s']; exact H1.
  Qed.

  Lemma dfsi_loop_st_frame f : forall s st disc, P s -> P (fst (dfsi_loop_st St nbs uni m f s st disc)).
  Proof.
    induction f as [|f IH]; intros s st disc H; cbn [dfsi_loop_st]; [exact H|].
    destruct st as [|v st]; [exact H|].
    destruct (negb (inU uni v)); [apply IH; exact H|].
    destruct (nmem v disc); [apply IH; exact H|].
    destruct (m v); [exact H|].
    pose proof (nbos_frame s v H) as H1.
    destruct (nbos St nbs s v) as [s1 r]. cbn [fst] in H1.
    destruct r as [ns|e]; [|exact H1].
    apply IH. exact H1.
  Qed.
  Theorem dfs_iter_st_frame fuel s start : P s -> P (fst (dfs_iter_st St nbs uni m fuel s start)).
  Proof.
    intro H. unfold dfs_iter_st.
    destruct (df_preflight uni start) as [e|]; [exact H|]. apply dfsi_loop_st_frame. exact H.
  Qed.
End Frame.

(* ====================================================================================== *)
(* PART 2. the memo as the oracle                                                          *)
(* ====================================================================================== *)
Definition nbs_c (filt : nat -> nat -> option nat -> bool) (d : dirn) (u : unk) (fv : option nat)
  : state -> nat -> state * nres := fun s v => neighbors_c filt s v d u fv.

(* writing the memo of an id that is not allocated writes nothing *)
Lemma set_ca_outside s v x : wf s -> next s <= v -> set_ca s v x = s.
Proof.
  intros W H. destruct W as (_ & _ & _ & _ & _ & _ & Hc).
  destruct s as [k0 vl0 lv0 vu0 uv0 ul0 la0 ca0 cg0]; unfold set_ca, next in *; cbn [kind vlinks lverts vunis uverts ulaws lapp cache caching] in *.
  f_equal. apply set_outside. lia.
Qed.

(* a query returns the state itself or the state with one memo rewritten *)
Lemma neighbors_c_state filt s v d u f :
  fst (neighbors_c filt s v d u f) = s \/ exists x, fst (neighbors_c filt s v d u f) = set_ca s v x.
Proof.
  unfold neighbors_c. destruct (caching s); [|left; reflexivity].
  destruct (ca_lookup (d, u, f) (ca s v)); [left; reflexivity|].
  destruct (neighbors_pure filt s v d u f); [right; eexists; reflexivity|left; reflexivity].
Qed.

(* every field but `cache` is kept, and so is well-formedness — for ANY id v *)
Lemma neighbors_c_memo_only filt s v d u f :
  let s' := fst (neighbors_c filt s v d u f) in
  kind s' = kind s /\ vlinks s' = vlinks s /\ lverts s' = lverts s /\ vunis s' = vunis s /\
  uverts s' = uverts s /\ ulaws s' = ulaws s /\ lapp s' = lapp s /\ caching s' = caching s /\
  (wf s -> wf s').
Proof.
  cbv zeta. destruct (neighbors_c_state filt s v d u f) as [->|[x ->]].
  - repeat (split; [reflexivity|]). exact (fun W => W).
  - repeat (split; [reflexivity|]). apply wf_set_ca.
Qed.

(* Coh_query for ANY id: allocated vertex, allocated non-vertex, or not allocated at all.
   (Coh_query uses `isv s v` only to know v < next s; beyond the heap the store is a no-op.) *)
Theorem Coh_query_total filt s v d u f : wf s -> Coh filt s ->
  let '(s', r) := neighbors_c filt s v d u f in
  r = neighbors_pure filt s v d u f /\ Coh filt s' /\
  vlinks s' = vlinks s /\ lverts s' = lverts s /\ kind s' = kind s /\ caching s' = caching s /\
  wf s'.
Proof.
  intros W C.
  assert (HA : snd (neighbors_c filt s v d u f) = neighbors_pure filt s v d u f /\
               Coh filt (fst (neighbors_c filt s v d u f))).
  { unfold neighbors_c. destruct (caching s); [|split; [reflexivity|exact C]].
    destruct (ca_lookup (d, u, f) (ca s v)) as [ans|] eqn:EL.
    - split; [|exact C]. symmetry. exact (C v (d, u, f) ans EL).
    - destruct (neighbors_pure filt s v d u f) as [nbs|e] eqn:EN; [|split; [reflexivity|exact C]].
      split; [reflexivity|]. cbn [fst].
      destruct (le_lt_dec (next s) v) as [Hout|Hin]; [rewrite set_ca_outside by assumption; exact C|].
      intros w k ans H.
      assert (R : neighbors_pure filt (set_ca s v (ca_store (d, u, f) nbs (ca s v))) w (fst (fst k)) (snd (fst k)) (snd k)
                = neighbors_pure filt s w (fst (fst k)) (snd (fst k)) (snd k)).
      { apply neighbors_pure_footprint; [reflexivity|]. intros; split; reflexivity. }
      rewrite R. clear R.
      destruct (Nat.eq_dec w v) as [->|N].
      + rewrite ca_set_ca_same in H by auto.
        destruct (ckey_dec k (d, u, f)) as [->|Nk].
        * rewrite ca_lookup_store_same in H. inversion H; subst. exact EN.
        * rewrite ca_lookup_store_other in H by exact Nk. now apply C.
      + rewrite ca_set_ca_other in H by congruence. now apply C. }
  pose proof (neighbors_c_memo_only filt s v d u f) as HF. cbv zeta in HF.
  destruct (neighbors_c filt s v d u f) as [s' r]. cbn [fst snd] in HA, HF.
  destruct HA as [Hr C']. destruct HF as (Ek & Evl & Elv & _ & _ & _ & _ & Ec & W').
  split; [exact Hr|]. split; [exact C'|].
  split; [exact Evl|]. split; [exact Elv|]. split; [exact Ek|]. split; [exact Ec|]. exact (W' W).
Qed.

(* the traversal invariant: well-formed, coherent, and the initial heap up to the memo *)
Definition CInv (filt : nat -> nat -> option nat -> bool) (s0 s' : state) : Prop :=
  wf s' /\ Coh filt s' /\
  vlinks s' = vlinks s0 /\ lverts s' = lverts s0 /\ vunis s' = vunis s0 /\ uverts s' = uverts s0 /\
  ulaws s' = ulaws s0 /\ lapp s' = lapp s0 /\ kind s' = kind s0 /\ caching s' = caching s0.

Lemma CInv_refl filt s : wf s -> Coh filt s -> CInv filt s s.
Proof. intros W C. split; [exact W|]. split; [exact C|]. repeat split. Qed.

Lemma nbs_c_sim filt d u fv s0 : forall s v, CInv filt s0 s ->
  snd (nbs_c filt d u fv s v) = t_nb filt s0 d u fv v /\ CInv filt s0 (fst (nbs_c filt d u fv s v)).
Proof.
  intros s v (W & C & Hvl & Hlv & Hvu & Huv & Hul & Hla & Hk & Hc). unfold nbs_c.
  pose proof (Coh_query_total filt s v d u fv W C) as H.
  pose proof (neighbors_c_memo_only filt s v d u fv) as HF. cbv zeta in HF.
  destruct (neighbors_c filt s v d u fv) as [s' r]. cbn [fst snd] in *.
  destruct H as (Hr & C' & _ & _ & _ & _ & W').
  destruct HF as (Ek & Evl & Elv & Evu & Euv & Eul & Ela & Ec & _).
  split.
  - rewrite Hr. unfold t_nb. apply neighbors_pure_reads; assumption.
  - split; [exact W'|]. split; [exact C'|]. repeat split; congruence.
Qed.

(* the weaker invariant relating the run to ANOTHER heap with the same link structure *)
Definition RInv (filt : nat -> nat -> option nat -> bool) (s0 s' : state) : Prop :=
  wf s' /\ Coh filt s' /\ vlinks s' = vlinks s0 /\ lverts s' = lverts s0 /\ kind s' = kind s0.

Lemma nbs_c_sim_R filt d u fv s0 : forall s v, RInv filt s0 s ->
  snd (nbs_c filt d u fv s v) = t_nb filt s0 d u fv v /\ RInv filt s0 (fst (nbs_c filt d u fv s v)).
Proof.
  intros s v (W & C & Hvl & Hlv & Hk). unfold nbs_c.
  pose proof (Coh_query_total filt s v d u fv W C) as H.
  destruct (neighbors_c filt s v d u fv) as [s' r]. cbn [fst snd] in *.
  destruct H as (Hr & C' & Evl & Elv & Ek & _ & W').
  split.
  - rewrite Hr. unfold t_nb. apply neighbors_pure_reads; assumption.
  - split; [exact W'|]. split; [exact C'|]. repeat split; congruence.
Qed.

(* ---- C05 for the traversals and searches: for EVERY fuel ---- *)
Section CachedEqualsUncached.
  Variable filt : nat -> nat -> option nat -> bool.
  Variable s : state.
  Variable ou : option nat.
  Variable start : nat.
  Hypothesis W : wf s.
  Hypothesis C : Coh filt s.

  Theorem cached_bft_equals_uncached d u fv fr fuel :
    snd (bft_st state (nbs_c filt d u fv) (t_uni s ou) fr fuel s start)
      = bft (t_nb filt s d u fv) (t_uni s ou) fr fuel start /\
    (let s' := fst (bft_st state (nbs_c filt d u fv) (t_uni s ou) fr fuel s start) in
     wf s' /\ Coh filt s' /\
     vlinks s' = vlinks s /\ lverts s' = lverts s /\ vunis s' = vunis s /\ uverts s' = uverts s /\
     ulaws s' = ulaws s /\ lapp s' = lapp s /\ kind s' = kind s /\ caching s' = caching s).
  Proof.
    apply bft_st_sim with (I := CInv filt s); [apply nbs_c_sim|apply CInv_refl; assumption].
  Qed.

  Theorem cached_dft_rec_equals_uncached d u fv fr fuel :
    snd (dft_rec_st state (nbs_c filt d u fv) (t_uni s ou) fr fuel s start)
      = dft_rec (t_nb filt s d u fv) (t_uni s ou) fr fuel start /\
    (let s' := fst (dft_rec_st state (nbs_c filt d u fv) (t_uni s ou) fr fuel s start) in
     wf s' /\ Coh filt s' /\
     vlinks s' = vlinks s /\ lverts s' = lverts s /\ vunis s' = vunis s /\ uverts s' = uverts s /\
     ulaws s' = ulaws s /\ lapp s' = lapp s /\ kind s' = kind s /\ caching s' = caching s).
  Proof.
    apply dft_rec_st_sim with (I := CInv filt s); [apply nbs_c_sim|apply CInv_refl; assumption].
  Qed.

  Theorem cached_dft_iter_equals_uncached d u fv fr fuel :
    snd (dft_iter_st state (nbs_c filt d u fv) (t_uni s ou) fr fuel s start)
      = dft_iter (t_nb filt s d u fv) (t_uni s ou) fr fuel start /\
    (let s' := fst (dft_iter_st state (nbs_c filt d u fv) (t_uni s ou) fr fuel s start) in
     wf s' /\ Coh filt s' /\
     vlinks s' = vlinks s /\ lverts s' = lverts s /\ vunis s' = vunis s /\ uverts s' = uverts s /\
     ulaws s' = ulaws s /\ lapp s' = lapp s /\ kind s' = kind s /\ caching s' = caching s).
  Proof.
    apply dft_iter_st_sim with (I := CInv filt s); [apply nbs_c_sim|apply CInv_refl; assumption].
  Qed.

  (* the searches call neighbors() with its default settings *)
  Theorem cached_bfs_equals_uncached m fuel :
    snd (bfs_st state (nbs_c filt Fwd UErr None) (t_uni s ou) m fuel s start)
      = bfs (t_nb filt s Fwd UErr None) (t_uni s ou) m fuel start /\
    (let s' := fst (bfs_st state (nbs_c filt Fwd UErr None) (t_uni s ou) m fuel s start) in
     wf s' /\ Coh filt s' /\
     vlinks s' = vlinks s /\ lverts s' = lverts s /\ vunis s' = vunis s /\ uverts s' = uverts s /\
     ulaws s' = ulaws s /\ lapp s' = lapp s /\ kind s' = kind s /\ caching s' = caching s).
  Proof.
    apply bfs_st_sim with (I := CInv filt s); [apply nbs_c_sim|apply CInv_refl; assumption].
  Qed.

  Theorem cached_dfs_rec_equals_uncached m fuel :
    snd (dfs_rec_st state (nbs_c filt Fwd UErr None) (t_uni s ou) m fuel s start)
      = dfs_rec (t_nb filt s Fwd UErr None) (t_uni s ou) m fuel start /\
    (let s' := fst (dfs_rec_st state (nbs_c filt Fwd UErr None) (t_uni s ou) m fuel s start) in
     wf s' /\ Coh filt s' /\
     vlinks s' = vlinks s /\ lverts s' = lverts s /\ vunis s' = vunis s /\ uverts s' = uverts s /\
     ulaws s' = ulaws s /\ lapp s' = lapp s /\ kind s' = kind s /\ caching s' = caching s).
  Proof.
    apply dfs_rec_st_sim with (I := CInv filt s); [apply nbs_c_sim|apply CInv_refl; assumption].
  Qed.

  Theorem cached_dfs_iter_equals_uncached m fuel :
    snd (dfs_iter_st state (nbs_c filt Fwd UErr None) (t_uni s ou) m fuel s start)
      = dfs_iter (t_nb filt s Fwd UErr None) (t_uni s ou) m fuel start /\
    (let s' := fst (dfs_iter_st state (nbs_c filt Fwd UErr None) (t_uni s ou) m fuel s start) in
     wf s' /\ Coh filt s' /\
     vlinks s' = vlinks s /\ lverts s' = lverts s /\ vunis s' = vunis s /\ uverts s' = uverts s /\
     ulaws s' = ulaws s /\ lapp s' = lapp s /\ kind s' = kind s /\ caching s' = caching s).
  Proof.
    apply dfs_iter_st_sim with (I := CInv filt s); [apply nbs_c_sim|apply CInv_refl; assumption].
  Qed.

  (* with the fuel the callers pass, the results are those of TravState.v *)
  Corollary cached_bft_equals_s_bft d u fv fr :
    snd (bft_st state (nbs_c filt d u fv) (t_uni s ou) fr (trav_fuel s) s start) = s_bft filt s ou start d u fv fr.
  Proof. apply cached_bft_equals_uncached. Qed.
  Corollary cached_dft_rec_equals_s_dft_rec d u fv fr :
    snd (dft_rec_st state (nbs_c filt d u fv) (t_uni s ou) fr (trav_fuel s) s start) = s_dft_rec filt s ou start d u fv fr.
  Proof. apply cached_dft_rec_equals_uncached. Qed.
  Corollary cached_dft_iter_equals_s_dft_iter d u fv fr :
    snd (dft_iter_st state (nbs_c filt d u fv) (t_uni s ou) fr (trav_fuel s) s start) = s_dft_iter filt s ou start d u fv fr.
  Proof. apply cached_dft_iter_equals_uncached. Qed.
  Corollary cached_bfs_equals_s_bfs m :
    snd (bfs_st state (nbs_c filt Fwd UErr None) (t_uni s ou) m (trav_fuel s) s start) = s_bfs filt s ou start m.
  Proof. apply cached_bfs_equals_uncached. Qed.
  Corollary cached_dfs_rec_equals_s_dfs_rec m :
    snd (dfs_rec_st state (nbs_c filt Fwd UErr None) (t_uni s ou) m (trav_fuel s) s start) = s_dfs_rec filt s ou start m.
  Proof. apply cached_dfs_rec_equals_uncached. Qed.
  Corollary cached_dfs_iter_equals_s_dfs_iter m :
    snd (dfs_iter_st state (nbs_c filt Fwd UErr None) (t_uni s ou) m (trav_fuel s) s start) = s_dfs_iter filt s ou start m.
  Proof. apply cached_dfs_iter_equals_uncached. Qed.
End CachedEqualsUncached.

(* ---- the results do not depend on what the memo holds nor on the flag ---- *)
Lemma RInv_start filt s1 s2 : wf s2 -> Coh filt s2 ->
  vlinks s1 = vlinks s2 -> lverts s1 = lverts s2 -> kind s1 = kind s2 -> RInv filt s1 s2.
Proof. intros W2 C2 Hv Hl Hk. split; [exact W2|]. split; [exact C2|]. repeat split; congruence. Qed.

Theorem cached_traversal_independent_of_memo_and_flag filt s1 s2 ou start d u fv fr m fuel :
  wf s1 -> Coh filt s1 -> wf s2 -> Coh filt s2 ->
  vlinks s1 = vlinks s2 -> lverts s1 = lverts s2 -> kind s1 = kind s2 -> uverts s1 = uverts s2 ->
  snd (bft_st state (nbs_c filt d u fv) (t_uni s1 ou) fr fuel s1 start)
    = snd (bft_st state (nbs_c filt d u fv) (t_uni s2 ou) fr fuel s2 start) /\
  snd (dft_rec_st state (nbs_c filt d u fv) (t_uni s1 ou) fr fuel s1 start)
    = snd (dft_rec_st state (nbs_c filt d u fv) (t_uni s2 ou) fr fuel s2 start) /\
  snd (dft_iter_st state (nbs_c filt d u fv) (t_uni s1 ou) fr fuel s1 start)
    = snd (dft_iter_st state (nbs_c filt d u fv) (t_uni s2 ou) fr fuel s2 start) /\
  snd (bfs_st state (nbs_c filt Fwd UErr None) (t_uni s1 ou) m fuel s1 start)
    = snd (bfs_st state (nbs_c filt Fwd UErr None) (t_uni s2 ou) m fuel s2 start) /\
  snd (dfs_rec_st state (nbs_c filt Fwd UErr None) (t_uni s1 ou) m fuel s1 start)
    = snd (dfs_rec_st state (nbs_c filt Fwd UErr None) (t_uni s2 ou) m fuel s2 start) /\
  snd (dfs_iter_st state (nbs_c filt Fwd UErr None) (t_uni s1 ou) m fuel s1 start)
    = snd (dfs_iter_st state (nbs_c filt Fwd UErr None) (t_uni s2 ou) m fuel s2 start).
Proof.
  intros W1 C1 W2 C2 Hv Hl Hk Hu.
  pose proof (RInv_start filt s1 s2 W2 C2 Hv Hl Hk) as R2.
  rewrite <- (t_uni_reads s1 s2 ou Hu).
  rewrite (proj1 (cached_bft_equals_uncached filt s1 ou start W1 C1 d u fv fr fuel)).
  rewrite (proj1 (cached_dft_rec_equals_uncached filt s1 ou start W1 C1 d u fv fr fuel)).
  rewrite (proj1 (cached_dft_iter_equals_uncached filt s1 ou start W1 C1 d u fv fr fuel)).
  rewrite (proj1 (cached_bfs_equals_uncached filt s1 ou start W1 C1 m fuel)).
  rewrite (proj1 (cached_dfs_rec_equals_uncached filt s1 ou start W1 C1 m fuel)).
  rewrite (proj1 (cached_dfs_iter_equals_uncached filt s1 ou start W1 C1 m fuel)).
  repeat split; symmetry.
  - apply bft_st_sim with (I := RInv filt s1); [apply nbs_c_sim_R|exact R2].
  - apply dft_rec_st_sim with (I := RInv filt s1); [apply nbs_c_sim_R|exact R2].
  - apply dft_iter_st_sim with (I := RInv filt s1); [apply nbs_c_sim_R|exact R2].
  - apply bfs_st_sim with (I := RInv filt s1); [apply nbs_c_sim_R|exact R2].
  - apply dfs_rec_st_sim with (I := RInv filt s1); [apply nbs_c_sim_R|exact R2].
  - apply dfs_iter_st_sim with (I := RInv filt s1); [apply nbs_c_sim_R|exact R2].
Qed.

(* ====================================================================================== *)
(* non-vacuity                                                                             *)
(* ====================================================================================== *)
(* four vertices 0..3, edges 0->1 (4), 0->2 (5), 1->3 (6), 2--3 (7), caching on;
   the memos of 0 and 1 are warm, those of 2 and 3 are filled by the traversal *)
Definition ex_filt : nat -> nat -> option nat -> bool := fun _ _ _ => true.
Definition ex_all : node -> bool := fun _ => true.
Definition ex_ops : list op :=
  [SetCaching true;
   NewVertex false [] []; NewVertex false [] []; NewVertex false [] []; NewVertex false [] [];
   NewEdge KDir (Some 0) (Some 1); NewEdge KDir (Some 0) (Some 2);
   NewEdge KDir (Some 1) (Some 3); NewEdge KUnd (Some 2) (Some 3)].
Definition ex_heap : state := run ex_ops empty.
Definition ex_warm : state :=
  fst (neighbors_c ex_filt (fst (neighbors_c ex_filt ex_heap 0 Fwd UErr None)) 1 Fwd UErr None).

Example cached_traversal_example :
  let r := bft_st state (nbs_c ex_filt Fwd UErr None) (t_uni ex_warm None) ex_all (trav_fuel ex_warm) ex_warm 0 in
  caching ex_warm = true /\
  ca ex_warm 0 = [((Fwd, UErr, None), [Some 1; Some 2])] /\ ca ex_warm 2 = [] /\
  snd r = s_bft ex_filt ex_warm None 0 Fwd UErr None ex_all /\
  snd r = TOk [Some 0; Some 1; Some 2; Some 3] /\
  ca (fst r) 2 = [((Fwd, UErr, None), [Some 3])] /\
  ca (fst r) 3 = [((Fwd, UErr, None), [Some 2])] /\
  cache (fst r) <> [] /\ cache (fst r) <> cache ex_warm.
Proof.
  cbv zeta. repeat split; try (vm_compute; reflexivity); vm_compute; discriminate.
Qed.

(* the example heap satisfies the hypotheses of the theorems (it is reachable from the empty heap) *)
Example cached_traversal_example_hyps : wf ex_warm /\ Coh ex_filt ex_warm.
Proof.
  split; [vm_compute; repeat split|].
  assert (E : ex_warm = crun ex_filt (map CMut ex_ops ++ [CNb 0 Fwd UErr None; CNb 1 Fwd UErr None]) empty)
    by (vm_compute; reflexivity).
  rewrite E. apply Coh_reachable. intros o u H.
  cbn in H. repeat (destruct H as [H|H]; [inversion H; subst; discriminate|]). destruct H.
Qed.

Example cached_traversal_example_applied :
  snd (bft_st state (nbs_c ex_filt Fwd UErr None) (t_uni ex_warm None) ex_all (trav_fuel ex_warm) ex_warm 0)
    = s_bft ex_filt ex_warm None 0 Fwd UErr None ex_all.
Proof.
  destruct cached_traversal_example_hyps as [W C]. apply cached_bft_equals_s_bft; assumption.
Qed.

Print Assumptions bft_st_sim.
Print Assumptions dft_rec_st_sim.
Print Assumptions dft_iter_st_sim.
Print Assumptions bfs_st_sim.
Print Assumptions dfs_rec_st_sim.
Print Assumptions dfs_iter_st_sim.
Print Assumptions bft_st_frame.
Print Assumptions dft_rec_st_frame.
Print Assumptions dft_iter_st_frame.
Print Assumptions bfs_st_frame.
Print Assumptions dfs_rec_st_frame.
Print Assumptions dfs_iter_st_frame.
Print Assumptions Coh_query_total.
Print Assumptions cached_bft_equals_uncached.
Print Assumptions cached_dft_rec_equals_uncached.
Print Assumptions cached_dft_iter_equals_uncached.
Print Assumptions cached_bfs_equals_uncached.
Print Assumptions cached_dfs_rec_equals_uncached.
Print Assumptions cached_dfs_iter_equals_uncached.
Print Assumptions cached_traversal_independent_of_memo_and_flag.
Print Assumptions cached_traversal_example.
Print Assumptions cached_traversal_example_hyps.
