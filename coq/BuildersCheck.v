(* BuildersCheck.v — lock-step comparison for histories with builder calls (generated cases only). *)
From EG Require Import Base State Nbrs Struct StructCheck Builders.
Fixpoint bcheck_hist (m : mask) (s : state) (h : list (bop * (outcome * state))) : bool :=
  match h with
  | [] => true
  | (b, (eo, es)) :: r => let '(s', out) := bstep s b in outcome_eqb out eo && obs_eqb m s' es && bcheck_hist m s' r
  end.
Definition bcheck (h : list (bop * (outcome * state))) : bool := bcheck_hist MGraph empty h.
Fixpoint btranscript (s : state) (bs : list bop) : list (outcome * state) :=
  match bs with [] => [] | b :: r => let '(s', out) := bstep s b in
    (out, mk (kind s') (vlinks s') (lverts s') (vunis s') (uverts s') (ulaws s') (lapp s')) :: btranscript s' r end.
