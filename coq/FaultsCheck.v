(* FaultsCheck.v — sequences of neighbors() queries with raising filters on an imported heap
   state, threaded through the memo (generated cases only). *)
From EG Require Import Base State Nbrs Struct StructCheck Cache Faults.

(* filter tables: ids below 10 are the std_filt tables; 10 + L raises on link L and otherwise
   accepts links for which (link id + fid) is even  (harness twin: c13.filtf_py) *)
Definition std_filtf (fid l : nat) (o : option nat) : option bool :=
  if Nat.leb 10 fid then (if Nat.eqb l (fid - 10) then None else Some (Nat.even (l + fid)))
  else Some (std_filt fid l o).

Inductive fq := FQ (v : nat) (d : dirn) (u : unk) (f : option nat).
Inductive fa := FAList (l : list (option nat)) | FAErr (e : exn) | FABoom.
Definition fa_of (r : fres3) : fa := match r with F3Ok l => FAList l | F3Err e => FAErr e | F3Boom => FABoom end.
Definition fa_eqb (a b : fa) : bool :=
  match a, b with
  | FAList x, FAList y => list_eqb oeqb x y
  | FAErr e, FAErr f => exn_eqb e f
  | FABoom, FABoom => true
  | _, _ => false
  end.
Fixpoint fcheck_seq (s : state) (qs : list (fq * fa)) : bool :=
  match qs with
  | [] => true
  | (FQ v d u f, e) :: r =>
      let '(s', a) := neighbors_cf std_filtf s v d u f in
      fa_eqb (fa_of a) e && fcheck_seq s' r
  end.
(* case: imported heap, the caching flag during the sequence, the queries with the answers observed *)
Definition fcheck (c : state * bool * list (fq * fa)) : bool :=
  fcheck_seq (set_caching (fst (fst c)) (snd (fst c))) (snd c).
Fixpoint fanswers_seq (s : state) (qs : list (fq * fa)) : list fa :=
  match qs with [] => [] | (FQ v d u f, _) :: r => let '(s', a) := neighbors_cf std_filtf s v d u f in fa_of a :: fanswers_seq s' r end.
Definition fanswers (c : state * bool * list (fq * fa)) := fanswers_seq (set_caching (fst (fst c)) (snd (fst c))) (snd c).
