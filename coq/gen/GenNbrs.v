(* GENERATED on every run by translate/helpers_to_coq.py from edgegraph/traversal/helpers.py — do not edit.
   source sha1: f03e14a286c2bdf506e4afc45511be641727c4aa *)
From EG Require Import Base State Nbrs NbrsDecide.

Definition gen_nb_decide (d : dirn) (u : unk) (k_und k_dir e1 e2 fk : bool) : dec :=
  (if (dirn_eqb d Fwd) then (if k_und then (if fk then DAdd else DSkip) else (if (k_dir && e1) then (if fk then DAdd else DSkip) else (if (k_dir && e2) then DSkip else (if (unk_eqb u UNon) then DSkip else (if (unk_eqb u UNb) then (if fk then DAdd else DSkip) else (DRaise NotImplementedError)))))) else (if (dirn_eqb d Bwd) then (if k_und then (if fk then DAdd else DSkip) else (if (k_dir && e2) then (if fk then DAdd else DSkip) else (if (k_dir && e1) then DSkip else (if (unk_eqb u UNon) then DSkip else (if (unk_eqb u UNb) then (if fk then DAdd else DSkip) else (DRaise NotImplementedError)))))) else (if (dirn_eqb d AnyDir) then (if fk then DAdd else DSkip) else (DRaise ValueError)))).

Definition gen_fl_decide (ds : bool) (u : unk) (k_und k_dir e1 joins fk : bool) : dec :=
  (if (negb joins) then DSkip else (if ds then (if k_und then (if fk then DAdd else DSkip) else (if k_dir then (if (negb e1) then DSkip else (if fk then DAdd else DSkip)) else (if (unk_eqb u UNon) then DSkip else (if (unk_eqb u UNb) then (if fk then DAdd else DSkip) else (DRaise NotImplementedError))))) else (if fk then DAdd else DSkip))).
