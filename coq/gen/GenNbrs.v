(* GENERATED on every run by translate/helpers_to_coq.py from edgegraph/traversal/helpers.py — do not edit.
   source sha1: UNTRANSLATED: neighbors: unexpected statements around the loop: ['Assign', 'If', 'Assign', 'If', 'Assign', 'For', 'Expr', 'Return'] *)
From EG Require Import Base State Nbrs NbrsDecide.

Definition gen_nb_decide (d : dirn) (u : unk) (k_und k_dir e1 e2 fk : bool) : dec :=
  nb_decide d u k_und k_dir e1 e2 fk.

Definition gen_fl_decide (ds : bool) (u : unk) (k_und k_dir e1 joins fk : bool) : dec :=
  fl_decide ds u k_und k_dir e1 joins fk.
