(* Faults.v — neighbors() with a user filter that may raise (C13).  The filter table answers
   `Some verdict` or `None` (= the callback raises on that (link, other end)); the loop unwinds as
   the code does: nothing is stored in the memo unless the loop over the links completed.
   Model-side file: definitions only. *)
From EG Require Import Base State Nbrs NbrsDecide Struct Cache.

Inductive fres3 := F3Ok (l : list (option nat)) | F3Err (e : exn) | F3Boom.   (* Boom = the callback's own exception *)

Section Faulty.
  Variable filtf : nat -> nat -> option nat -> option bool.

  (* is filterfunc consulted on this row?  (short-circuit: only where the cascade reaches it) *)
  Definition consults (d : dirn) (u : unk) (k_und k_dir e1 e2 : bool) : bool :=
    match d with
    | Fwd => if k_und then true else if k_dir && e1 then true else if k_dir && e2 then false
             else match u with UNb => true | _ => false end
    | Bwd => if k_und then true else if k_dir && e2 then true else if k_dir && e1 then false
             else match u with UNb => true | _ => false end
    | AnyDir => true
    end.

  Inductive lact3 := L3 (a : lact) | L3Boom.
  Definition nb_link_f (s : state) (v : nat) (d : dirn) (u : unk) (f : option nat) (l : nat) : lact3 :=
    match other s l (Some v) with
    | OErr => L3 (LRaise IndexError)
    | OVal v2 =>
        let k := kd s l in
        let c := consults d u (is_undirected k) (is_directed k) (is_end1 s l v) (is_end2 s l v) in
        match (if c then match f with None => Some true | Some fid => filtf fid l v2 end else Some true) with
        | None => L3Boom
        | Some fk => L3 (lact_of (nb_decide d u (is_undirected k) (is_directed k) (is_end1 s l v) (is_end2 s l v) fk) v2)
        end
    end.
  Fixpoint nb_loop_f (s : state) (v : nat) (d : dirn) (u : unk) (f : option nat) (ls : list nat) (acc : list (option nat)) : fres3 :=
    match ls with
    | [] => F3Ok acc
    | l :: r => match nb_link_f s v d u f l with
                | L3Boom => F3Boom
                | L3 LSkip => nb_loop_f s v d u f r acc
                | L3 (LAdd o) => nb_loop_f s v d u f r (acc ++ [o])
                | L3 (LRaise e) => F3Err e
                end
    end.
  Definition neighbors_pure_f (s : state) (v : nat) (d : dirn) (u : unk) (f : option nat) : fres3 :=
    nb_loop_f s v d u f (vl s v) [].

  (* helpers.neighbors with the memo and a filter that may raise *)
  Definition neighbors_cf (s : state) (v : nat) (d : dirn) (u : unk) (f : option nat) : state * fres3 :=
    if caching s then
      match ca_lookup (d, u, f) (ca s v) with
      | Some ans => (s, F3Ok ans)
      | None =>
          match neighbors_pure_f s v d u f with
          | F3Ok nbs => (set_ca s v (ca_store (d, u, f) nbs (ca s v)), F3Ok nbs)
          | r => (s, r)
          end
      end
    else (s, neighbors_pure_f s v d u f).

  Definition Coh_f (s : state) : Prop :=
    forall v k ans, ca_lookup k (ca s v) = Some ans ->
      neighbors_pure_f s v (fst (fst k)) (snd (fst k)) (snd k) = F3Ok ans.
End Faulty.
