From EG Require Import Base Pickler.
Lemma pcheck_unfold : forall tbl root em eo,
  pcheck (tbl, root, (em, eo)) =
  match nr_dump (table_expand tbl) (200 * 200) root, rec_dump (table_expand tbl) (200 * 200) root with
  | Some (m, o), Some (m2, o2) =>
      list_eqb Nat.eqb m em && list_eqb Nat.eqb o eo && list_eqb Nat.eqb m2 em && list_eqb Nat.eqb o2 eo
  | _, _ => false
  end.
Proof. intros. Time reflexivity. Time Qed.
Lemma pcheck_gen : forall N tbl root em eo,
  match nr_dump (table_expand tbl) N root, rec_dump (table_expand tbl) N root with
  | Some (m, o), Some (m2, o2) =>
      list_eqb Nat.eqb m em && list_eqb Nat.eqb o eo && list_eqb Nat.eqb m2 em && list_eqb Nat.eqb o2 eo
  | _, _ => false
  end = true ->
  nr_dump (table_expand tbl) N root = Some (em, eo) /\
  rec_dump (table_expand tbl) N root = Some (em, eo).
Proof.
  intros N tbl root em eo H.
  destruct (nr_dump (table_expand tbl) N root) as [[m o]|]; [|discriminate].
  destruct (rec_dump (table_expand tbl) N root) as [[m2 o2]|]; [|discriminate].
  repeat rewrite andb_true_iff in H. destruct H as [[[H1 H2] H3] H4].
  apply (list_eqb_eq Nat.eqb Nat.eqb_eq) in H1, H2, H3, H4. subst. split; reflexivity.
Time Qed.
Lemma pcheck_sound : forall tbl root em eo,
  pcheck (tbl, root, (em, eo)) = true ->
  nr_dump (table_expand tbl) (200 * 200) root = Some (em, eo) /\
  rec_dump (table_expand tbl) (200 * 200) root = Some (em, eo).
Proof.
  intros tbl root em eo H. rewrite pcheck_unfold in H. revert H. apply pcheck_gen.
Time Qed.
