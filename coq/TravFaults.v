(* TravFaults.v — traversals and searches whose ff_via callback may RAISE (C13), run through the
   memo as the code runs them: every neighbors() call is Faults.neighbors_cf, so a callback that
   raises part-way through the loop over a vertex's links aborts the whole traversal with the
   callback's own exception (UserError), after the neighbours of the vertices finished earlier
   have been memoised.  TravFaultsProofs.v shows that whatever the callback does, and however the
   call ends, the graph is as before, the memo is still coherent, and a repeated call whose
   callback behaves answers exactly as on the original heap.
   Model-side file: definitions only. *)
From EG Require Import Base State Nbrs NbrsDecide Struct StructCheck Cache Faults Trav TravState TravCached FaultsCheck.

Definition nres_of (r : fres3) : nres :=
  match r with F3Ok l => NOk l | F3Err e => NErr e | F3Boom => NErr UserError end.

(* the neighbour oracle of a traversal whose ff_via is the (possibly raising) table filtf *)
Definition nbs_cf (filtf : nat -> nat -> option nat -> option bool) (d : dirn) (u : unk) (fv : option nat)
  : state -> nat -> state * nres :=
  fun s v => let '(s', r) := neighbors_cf filtf s v d u fv in (s', nres_of r).

(* a total callback seen as one that never raises *)
Definition calm (filt : nat -> nat -> option nat -> bool) : nat -> nat -> option nat -> option bool :=
  fun fid l o => Some (filt fid l o).
(* filt is what filtf answers whenever filtf answers at all: "the same callback, behaving" *)
Definition refines (filtf : nat -> nat -> option nat -> option bool) (filt : nat -> nat -> option nat -> bool) : Prop :=
  forall fid l o b, filtf fid l o = Some b -> b = filt fid l o.

(* the observable graph: every field but the memo *)
Definition same_graph (s s' : state) : Prop :=
  vlinks s' = vlinks s /\ lverts s' = lverts s /\ vunis s' = vunis s /\ uverts s' = uverts s /\
  ulaws s' = ulaws s /\ lapp s' = lapp s /\ kind s' = kind s /\ caching s' = caching s /\ next s' = next s.

(* ---- generated cases: sequences of neighbors() calls and traversals / searches, each with the
   callback armed (raising table std_filtf) or behaving (std_calm), threaded through the memo ---- *)
(* the behaving twin of FaultsCheck.std_filtf: the same callback object with its fault switched off *)
Definition std_calm (fid l : nat) (o : option nat) : bool :=
  if Nat.leb 10 fid then Nat.even (l + fid) else std_filt fid l o.

Inductive tfk := KBft | KDfr | KDfi | KBfs | KDsr | KDsi.
Inductive tfq :=
  | TFNb (armed : bool) (v : nat) (d : dirn) (u : unk) (f : option nat)
  | TFTrav (armed : bool) (k : tfk) (ou : option nat) (start : nat) (d : dirn) (u : unk) (fv : option nat) (target : nat).
Inductive tfa := TFList (l : list (option nat)) | TFNode (o : option (option nat)) | TFRaise (e : exn).
Definition tfa_eqb (a b : tfa) : bool :=
  match a, b with
  | TFList x, TFList y => list_eqb oeqb x y
  | TFNode x, TFNode y => opt_eqb oeqb x y
  | TFRaise e, TFRaise f => exn_eqb e f
  | _, _ => false
  end.
Definition tfa_of_t (r : tres) : tfa := match r with TOk l => TFList l | TErr e => TFRaise e | TFuel => TFRaise OutOfFuel end.
Definition tfa_of_s (r : sres) : tfa := match r with SOk o => TFNode o | SErr e => TFRaise e | SFuel => TFRaise OutOfFuel end.
Definition tfa_of_n (r : nres) : tfa := match r with NOk l => TFList l | NErr e => TFRaise e end.

Definition tf_filter (armed : bool) : nat -> nat -> option nat -> option bool :=
  if armed then std_filtf else calm std_calm.
(* searches of the generated cases look for the vertex `target` (attribute equality on a unique value) *)
Definition tf_match (target : nat) (v : node) : bool := match v with Some x => Nat.eqb x target | None => false end.

Definition tf_step (s : state) (q : tfq) : state * tfa :=
  match q with
  | TFNb armed v d u f =>
      if negb (isv s v) then (s, TFRaise IllTyped)
      else let '(s', r) := nbs_cf (tf_filter armed) d u f s v in (s', tfa_of_n r)
  | TFTrav armed k ou st d u fv target =>
      if negb (isv s st && oisu s ou) then (s, TFRaise IllTyped)
      else
        let nbs := nbs_cf (tf_filter armed) d u fv in
        let all := fun _ : node => true in
        let uni := t_uni s ou in
        let fuel := trav_fuel s in
        match k with
        | KBft => let '(s', r) := bft_st state nbs uni all fuel s st in (s', tfa_of_t r)
        | KDfr => let '(s', r) := dft_rec_st state nbs uni all fuel s st in (s', tfa_of_t r)
        | KDfi => let '(s', r) := dft_iter_st state nbs uni all fuel s st in (s', tfa_of_t r)
        | KBfs => let '(s', r) := bfs_st state nbs uni (tf_match target) fuel s st in (s', tfa_of_s r)
        | KDsr => let '(s', r) := dfs_rec_st state nbs uni (tf_match target) fuel s st in (s', tfa_of_s r)
        | KDsi => let '(s', r) := dfs_iter_st state nbs uni (tf_match target) fuel s st in (s', tfa_of_s r)
        end
  end.
Fixpoint tf_run (s : state) (qs : list tfq) : list tfa :=
  match qs with [] => [] | q :: r => let '(s', a) := tf_step s q in a :: tf_run s' r end.
(* case: imported heap, the caching flag during the sequence, the calls with the outcomes observed *)
Definition tfcheck (c : state * bool * list (tfq * tfa)) : bool :=
  list_eqb tfa_eqb (tf_run (set_caching (fst (fst c)) (snd (fst c))) (map fst (snd c))) (map snd (snd c)).
Definition tfanswers (c : state * bool * list (tfq * tfa)) : list tfa :=
  tf_run (set_caching (fst (fst c)) (snd (fst c))) (map fst (snd c)).
