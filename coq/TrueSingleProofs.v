From EG Require Import Base Lemmas TrueSingle.
Arguments inits_of : simpl never.

(* well-formedness: every instance id in the table or the log is below the allocation counter,
   and no instance is bound to two classes *)
Definition twf (s : ts) : Prop :=
  (forall c i, In (c, i) (tbl s) -> i < nxt s) /\
  (forall e, In e (log s) -> fst e < nxt s) /\
  NoDup (map snd (tbl s)) /\ NoDup (map fst (tbl s)).

Lemma lookup_In c t i : lookup c t = Some i -> In (c, i) t.
Proof. induction t as [|[c' j] r IH]; cbn; [discriminate|]. destruct (Nat.eqb c c') eqn:E.
  - apply Nat.eqb_eq in E. intros [= ->]. subst. now left. - intro H. right. auto. Qed.
Lemma lookup_None c t : lookup c t = None <-> ~ In c (map fst t).
Proof. induction t as [|[c' j] r IH]; cbn; [tauto|]. destruct (Nat.eqb c c') eqn:E.
  - apply Nat.eqb_eq in E. subst. split; [discriminate | intro H; exfalso; apply H; now left].
  - apply Nat.eqb_neq in E. rewrite IH. split; [intros H [H1|H1]; [congruence|auto] | intros H H1; apply H; now right]. Qed.
Lemma lookup_app c t u : lookup c (t ++ u) = match lookup c t with Some i => Some i | None => lookup c u end.
Proof. induction t as [|[c' j] r IH]; cbn; auto. destruct (Nat.eqb c c'); auto. Qed.
Lemma lookup_tdel_same c t : lookup c (tdel c t) = None.
Proof. induction t as [|[c' j] r IH]; cbn; auto. destruct (Nat.eqb c c') eqn:E; cbn; auto. rewrite E. auto. Qed.
Lemma lookup_tdel_other c c' t : c <> c' -> lookup c' (tdel c t) = lookup c' t.
Proof. intro H. induction t as [|[d j] r IH]; cbn; auto. destruct (Nat.eqb c d) eqn:E; cbn.
  - apply Nat.eqb_eq in E. subst d. assert (Nat.eqb c' c = false) as -> by (apply Nat.eqb_neq; congruence). auto.
  - destruct (Nat.eqb c' d); auto. Qed.
Lemma tdel_absent c t : lookup c t = None -> tdel c t = t.
Proof. induction t as [|[d j] r IH]; cbn; auto. destruct (Nat.eqb c d) eqn:E; [discriminate|]. cbn. intro H. f_equal; auto. Qed.
Lemma tdel_incl c t p : In p (tdel c t) -> In p t.
Proof. unfold tdel. rewrite filter_In. tauto. Qed.
Lemma NoDup_map_filter {A B} (f : A -> B) p (l : list A) : NoDup (map f l) -> NoDup (map f (filter p l)).
Proof. induction l as [|x l IH]; cbn; auto. intro H. inversion H; subst. destruct (p x); cbn; auto.
  constructor; auto. intro Hin. apply H2. apply in_map_iff in Hin. destruct Hin as [y [E Hy]]. apply filter_In in Hy.
  apply in_map_iff. exists y. tauto. Qed.

Lemma twf_init : twf ts_init.
Proof. repeat split; cbn; try tauto; constructor. Qed.

Lemma twf_step s op : twf s -> twf (fst (tstep s op)).
Proof.
  intros (H1 & H2 & H3 & H4). destruct op as [c a|[c|]]; cbn.
  - destruct (lookup c (tbl s)) eqn:E; cbn; [repeat split; auto|].
    repeat split; cbn.
    + intros c' i Hin. apply in_app_iff in Hin. destruct Hin as [Hin|[[= <- <-]|[]]]; [apply H1 in Hin|]; lia.
    + intros e Hin. apply in_app_iff in Hin. destruct Hin as [Hin|[<-|[]]]; [apply H2 in Hin|cbn]; lia.
    + rewrite map_app. cbn. apply NoDup_app_snoc; auto.
      intro Hin. apply in_map_iff in Hin. destruct Hin as [[c' i] [Ei Hin]]. cbn in Ei. subst i. apply H1 in Hin. lia.
    + rewrite map_app. cbn. apply NoDup_app_snoc; auto. now apply lookup_None.
  - destruct (lookup c (tbl s)) eqn:E; cbn; [|repeat split; auto].
    repeat split; cbn; auto.
    + intros c' i Hin. apply tdel_incl in Hin. eauto.
    + now apply NoDup_map_filter.
    + now apply NoDup_map_filter.
  - repeat split; cbn; auto; try tauto; constructor.
Qed.

Lemma twf_run ops : forall s, twf s -> twf (trun ops s).
Proof. induction ops as [|op r IH]; cbn; auto. intros s H. apply IH. now apply twf_step. Qed.

Lemma twf_reachable ops : twf (trun ops ts_init).
Proof. apply twf_run, twf_init. Qed.

(* a step that does not clear c keeps c's entry if it has one *)
Lemma step_keeps s op c i : affects op c = false -> lookup c (tbl s) = Some i ->
  lookup c (tbl (fst (tstep s op))) = Some i.
Proof.
  intros Ha Hl. destruct op as [c' a|[c'|]]; cbn in *; try discriminate.
  - destruct (lookup c' (tbl s)); cbn; auto. rewrite lookup_app, Hl. auto.
  - destruct (lookup c' (tbl s)); cbn; auto. apply Nat.eqb_neq in Ha. rewrite lookup_tdel_other; auto.
Qed.
Lemma run_keeps ops : forall s c i, (forall op, In op ops -> affects op c = false) ->
  lookup c (tbl s) = Some i -> lookup c (tbl (trun ops s)) = Some i.
Proof.
  induction ops as [|op r IH]; cbn; auto. intros s c i Ha Hl. apply IH; [intros; apply Ha; auto|].
  apply step_keeps; auto.
Qed.

Lemma construct_binds s c a : exists i, snd (tstep s (Construct c a)) = RInst i /\
  lookup c (tbl (fst (tstep s (Construct c a)))) = Some i.
Proof.
  cbn. destruct (lookup c (tbl s)) eqn:E; cbn; eauto. eexists; split; eauto.
  rewrite lookup_app, E. cbn. now rewrite Nat.eqb_refl.
Qed.

(* all constructions of c between two clears of c return the same object and do nothing else *)
Lemma same_instance_between_clears s c a ops b :
  (forall op, In op ops -> affects op c = false) ->
  let s1 := fst (tstep s (Construct c a)) in
  let s2 := trun ops s1 in
  tstep s2 (Construct c b) = (s2, snd (tstep s (Construct c a))).
Proof.
  intros Ha s1 s2. destruct (construct_binds s c a) as [i [Hr Hl]]. rewrite Hr.
  assert (H2 : lookup c (tbl s2) = Some i) by (apply run_keeps; auto).
  cbn. now rewrite H2.
Qed.

(* the log never loses or reorders entries, and instance ids are never reused *)
Lemma inits_of_app i l m : inits_of i (l ++ m) = inits_of i l ++ inits_of i m.
Proof. unfold inits_of. now rewrite filter_app, map_app. Qed.
Lemma inits_of_fresh i l : (forall e, In e l -> fst e <> i) -> inits_of i l = [].
Proof. intro H. unfold inits_of. induction l as [|e l IH]; cbn; auto.
  destruct (Nat.eqb i (fst e)) eqn:E; [apply Nat.eqb_eq in E; exfalso; eapply H; [now left|auto]|].
  apply IH. intros; apply H; now right. Qed.

Lemma step_log_stable s op i : twf s -> i < nxt s ->
  inits_of i (log (fst (tstep s op))) = inits_of i (log s) /\ nxt s <= nxt (fst (tstep s op)).
Proof.
  intros Hw Hi. destruct op as [c a|[c|]]; cbn.
  - destruct (lookup c (tbl s)); cbn; auto. rewrite inits_of_app. cbn.
    assert (Nat.eqb i (nxt s) = false) as E by (apply Nat.eqb_neq; lia). unfold inits_of at 2. cbn. rewrite E. cbn.
    rewrite app_nil_r. split; auto.
  - destruct (lookup c (tbl s)); cbn; auto.
  - auto.
Qed.
Lemma run_log_stable ops : forall s i, twf s -> i < nxt s ->
  inits_of i (log (trun ops s)) = inits_of i (log s).
Proof.
  induction ops as [|op r IH]; cbn; auto. intros s i Hw Hi.
  destruct (step_log_stable s op i Hw Hi) as [E Hn]. rewrite IH; auto; [now apply twf_step|lia].
Qed.

(* a construction that finds no entry creates a fresh instance of the class called and runs
   __init__ once with that call's arguments; whatever happens later, that instance's
   __init__ is never run again *)
Lemma init_exactly_once s c a ops : twf s -> lookup c (tbl s) = None ->
  exists i, snd (tstep s (Construct c a)) = RInst i /\
            (forall c' j, In (c', j) (tbl s) -> j <> i) /\
            inits_of i (log (trun ops (fst (tstep s (Construct c a))))) = [(c, a)].
Proof.
  intros Hw Hl. pose proof (twf_step s (Construct c a) Hw) as Hw1. cbn in *. rewrite Hl in *. cbn in *.
  exists (nxt s). split; auto. destruct Hw as (H1 & H2 & _). split.
  - intros c' j Hin. apply H1 in Hin. lia.
  - rewrite run_log_stable; [| exact Hw1 | cbn; lia]. cbn. rewrite inits_of_app. rewrite inits_of_fresh.
    + unfold inits_of. cbn. now rewrite Nat.eqb_refl.
    + intros e He. apply H2 in He. lia.
Qed.

(* at every reachable state no instance serves two classes, and each class has at most one entry *)
Lemma nodup_snd_inj (t : list (nat*nat)) c c' i : NoDup (map snd t) -> In (c,i) t -> In (c',i) t -> c = c'.
Proof.
  induction t as [|[d j] r IH]; cbn; [tauto|]. intro Hnd. inversion Hnd as [|? ? Hj Hr]; subst.
  intros [Ha|Ha] [Hb|Hb].
  - congruence.
  - inversion Ha; subst. exfalso. apply Hj. apply in_map_iff. exists (c', i). auto.
  - inversion Hb; subst. exfalso. apply Hj. apply in_map_iff. exists (c, i). auto.
  - auto.
Qed.
Lemma one_instance_per_class s c c' i : twf s -> lookup c (tbl s) = Some i -> lookup c' (tbl s) = Some i -> c = c'.
Proof.
  intros (_ & _ & Hnd & _) H1 H2. apply lookup_In in H1, H2. eapply nodup_snd_inj; eauto.
Qed.

Lemma clear_one_frame s c c' : c <> c' ->
  lookup c' (tbl (fst (tstep s (Clear (Some c))))) = lookup c' (tbl s).
Proof. intro H. cbn. destruct (lookup c (tbl s)); cbn; auto. now apply lookup_tdel_other. Qed.
Lemma clear_one_clears s c : lookup c (tbl (fst (tstep s (Clear (Some c))))) = None.
Proof. cbn. destruct (lookup c (tbl s)) eqn:E; cbn; auto. apply lookup_tdel_same. Qed.
Lemma clear_all_clears s c : lookup c (tbl (fst (tstep s (Clear None)))) = None.
Proof. reflexivity. Qed.
Lemma clear_absent_identity s c : lookup c (tbl s) = None -> tstep s (Clear (Some c)) = (s, RNone).
Proof. intro H. cbn. now rewrite H. Qed.
Lemma clear_keeps_log s oc : log (fst (tstep s (Clear oc))) = log s /\ nxt (fst (tstep s (Clear oc))) = nxt s.
Proof. destruct oc as [c|]; cbn; auto. destruct (lookup c (tbl s)); auto. Qed.
(* after a clear affecting c, the next construction of c is a new object *)
Lemma construct_after_clear_is_new s op c a : twf s -> affects op c = true -> (exists oc, op = Clear oc) ->
  forall i, lookup c (tbl s) = Some i -> snd (tstep (fst (tstep s op)) (Construct c a)) <> RInst i.
Proof.
  intros Hw Ha [oc ->] i Hl. assert (Hi : i < nxt s) by (destruct Hw as (H1 & _); eapply H1, lookup_In; eauto).
  destruct oc as [c'|]; cbn in *.
  - apply Nat.eqb_eq in Ha. subst c'. rewrite Hl. cbn. rewrite lookup_tdel_same. cbn. intros [= E]. lia.
  - intros [= E]. lia.
Qed.
