(* PicklerProofs.v — proofs about Pickler.v (output/nrpickler.py: dill's recursive save()
   re-scheduled through a queue, with the two modes of _save_now: deferred and atomic).
   `expand` (one invocation of save() on one object, given the memo at entry) and `atomic` (which
   objects are saved the recursive way when their turn comes) are ARBITRARY in every theorem of
   Section PicklerProofs: any object graph, any size, depth, sharing, cycles, any per-type
   behaviour, any choice of atomic objects.

   Main invariant (defunctionalise / refunctionalise): the items in front of the queue are the
   image of the pending continuation of the recursive run.  A deferred-mode step (D_s) replaces
   `IS x` by what realsave left of x's body, which is again such an image; an atomic-mode step
   (D_a) IS the recursive run of x's body followed by the rest, so that case is immediate.

   Proved here (all Closed under the global context, see the Print Assumptions at the end):

   relational level
     fold_deferred, drain_prefix, replay_prefix, defunctionalise      (core lemmas)
     lazy_equals_recursive    : RunA (expand m0 root) m0 o0 m' o' -> Drain [IS root] m0 o0 m' o'
     realsave_split, RunA_app, RunA_app_inv, refunctionalise           (converse direction)
     recursive_equals_lazy    : Drain [IS root] m0 o0 m' o' -> RunA (expand m0 root) m0 o0 m' o'
     lazy_iff_recursive       : the two together
     RunA_det, Drain_det      : both relations are deterministic
   executable level
     runa_f_sound / runa_f_complete / runa_f_mono, drain_f_sound / drain_f_complete / drain_f_mono
     nr_dump_equals_rec_dump  : rec_dump fuel root = Some r -> exists fuel', nr_dump fuel' root = Some r
     rec_dump_equals_nr_dump  : nr_dump fuel root = Some r -> exists fuel', rec_dump fuel' root = Some r
     dumps_agree              : whenever both return (any fuels), they return the same thing
     nr_dump_sound, rec_dump_sound : a returned dump is a Drain / RunA derivation
   stack depth
     runa_depth (runa_f instrumented with the maximal nesting of save()), runa_depth_runa_f,
     realsave_no_descent, realsave_defers_after_first_save,
     chain_depth (recursive depth 31 on a chain 0..30), chain_nr_same (scheduler: same result)
   the two modes
     atomic_everywhere_is_the_recursive_pickler : with every object atomic, draining [IS root] is
       one RunA run (by inversion of the single D_a step, not through the main theorem)
     atomic_nowhere_is_the_old_scheduler : with no object atomic, Drain is the four-constructor
       relation of the scheduler before the repair (Drain0)
     atomic_choice_is_unobservable : two choices of atomic objects give the same dumps
     mixed_atomic_example (a cycle through an atomic object, root non-atomic)
   non-vacuity / generated cases
     shared_and_cyclic (pcheck on a graph with a shared child and a cycle, GET vs full body
     decided by the memo at entry), shared_and_cyclic_rejects (the checker can say false),
     pcheck_sound, pcheck_relational. *)
From EG Require Import Base Pickler.

Section PicklerProofs.
  Variable expand : list nat -> nat -> list action.
  Variable atomic : nat -> bool.

  (* ------------------------------------------------------------------------------------------ *)
  (* 1. relational level: recursive => scheduler                                                *)

  (* once the queue is non-empty everything is deferred, in order *)
  Lemma fold_deferred : forall t lz m o, lz <> [] ->
    fold_left lazy_act t (lz, m, o) = (lz ++ map item_of t, m, o).
  Proof.
    induction t as [|a t IH]; intros lz m o Hne; cbn [fold_left map].
    - now rewrite app_nil_r.
    - assert (Hstep : lazy_act (lz, m, o) a = (lz ++ [item_of a], m, o)).
      { destruct a; cbn; destruct lz; try congruence; reflexivity. }
      rewrite Hstep, IH; [| destruct lz; cbn; congruence].
      now rewrite <- app_assoc.
  Qed.

  (* running the direct prefix of a save body = draining the same items from the queue *)
  Lemma drain_prefix : forall t m o lz m1 o1 q m' o',
    fold_left lazy_act t ([], m, o) = (lz, m1, o1) ->
    Drain expand atomic (lz ++ q) m1 o1 m' o' -> Drain expand atomic (map item_of t ++ q) m o m' o'.
  Proof.
    induction t as [|a t IH]; intros m o lz m1 o1 q m' o' Hf Hd; cbn [fold_left map app] in *.
    - injection Hf as <- <- <-. exact Hd.
    - destruct a as [b|x|x]; cbn [lazy_act item_of] in *.
      + apply D_w. eapply IH; eauto.
      + apply D_m. eapply IH; eauto.
      + rewrite fold_deferred in Hf by discriminate. injection Hf as <- <- <-. exact Hd.
  Qed.

  (* converse of drain_prefix: what realsave left in the queue continues the drained body *)
  Lemma replay_prefix : forall body m o lz ma oa R m' o',
    fold_left lazy_act body ([], m, o) = (lz, ma, oa) ->
    Drain expand atomic (map item_of body ++ R) m o m' o' -> Drain expand atomic (lz ++ R) ma oa m' o'.
  Proof.
    induction body as [|a body IHb]; intros m o lz ma oa R m' o' Hrs Hd; cbn [fold_left map app] in *.
    - injection Hrs as <- <- <-. exact Hd.
    - destruct a as [b|y|y]; cbn [lazy_act item_of] in *.
      + inversion Hd; subst. eapply IHb; eauto.
      + inversion Hd; subst. eapply IHb; eauto.
      + rewrite fold_deferred in Hrs by discriminate. injection Hrs as <- <- <-. exact Hd.
  Qed.

  Lemma defunctionalise : forall t m o m1 o1, RunA expand t m o m1 o1 ->
    forall q m' o', Drain expand atomic q m1 o1 m' o' -> Drain expand atomic (map item_of t ++ q) m o m' o'.
  Proof.
    induction 1 as [m o | b t m o m1 o1 _ IH | x t m o m1 o1 _ IH
                   | x t m o m1 o1 m2 o2 Hx IH1 _ IH2]; intros q m' o' Hq; cbn [map app item_of].
    - exact Hq.
    - apply D_w. apply IH. exact Hq.
    - apply D_m. apply IH. exact Hq.
    - destruct (atomic x) eqn:Hat.
      + (* atomic mode: the step is the recursive run itself *)
        eapply D_a; [exact Hat | exact Hx |]. apply IH2. exact Hq.
      + destruct (realsave expand x m o) as [[lz ma] oa] eqn:Hrs.
        eapply D_s; [exact Hat | exact Hrs |]. eapply replay_prefix; [exact Hrs|].
        apply IH1. apply IH2. exact Hq.
  Qed.

  (* the scheduler produces exactly the recursive pickler's stream and memo, for every object graph
     on which the recursive pickler terminates - any size, depth, sharing or cycle *)
  Theorem lazy_equals_recursive : forall root m0 o0 m' o',
    RunA expand (expand m0 root) m0 o0 m' o' -> Drain expand atomic [IS root] m0 o0 m' o'.
  Proof.
    intros root m0 o0 m' o' H.
    pose proof (defunctionalise [Save root] m0 o0 m' o') as Hd. cbn in Hd.
    apply Hd with (q := []); [| constructor].
    eapply RA_save; [exact H | constructor].
  Qed.

  (* ------------------------------------------------------------------------------------------ *)
  (* determinism                                                                                *)

  Lemma RunA_det : forall t m o m1 o1, RunA expand t m o m1 o1 ->
    forall m2 o2, RunA expand t m o m2 o2 -> m1 = m2 /\ o1 = o2.
  Proof.
    induction 1 as [m o | b t m o m1 o1 _ IH | x t m o m1 o1 _ IH
                   | x t m o ma oa m1 o1 _ IH1 _ IH2]; intros m2 o2 H2; inversion H2; subst; auto.
    match goal with H : RunA _ (expand _ _) _ _ _ _ |- _ => apply IH1 in H; destruct H as [<- <-] end.
    auto.
  Qed.

  Lemma Drain_det : forall q m o m1 o1, Drain expand atomic q m o m1 o1 ->
    forall m2 o2, Drain expand atomic q m o m2 o2 -> m1 = m2 /\ o1 = o2.
  Proof.
    induction 1 as [m o | b q m o m1 o1 _ IH | x q m o m1 o1 _ IH
                   | x q lz m o ma oa m1 o1 Hat Hrs _ IH
                   | x q m o ma oa m1 o1 Hat Hx _ IH]; intros m2 o2 H2; inversion H2; subst; auto;
      try congruence.
    - match goal with H : realsave _ _ _ _ = _ |- _ => rewrite Hrs in H; injection H as <- <- <- end.
      auto.
    - match goal with H : RunA _ (expand _ _) _ _ _ _ |- _ =>
        destruct (RunA_det _ _ _ _ _ Hx _ _ H) as [<- <-] end.
      auto.
  Qed.

  (* ------------------------------------------------------------------------------------------ *)
  (* 2. relational level: scheduler => recursive                                                *)

  Lemma RunA_app : forall a m o m1 o1, RunA expand a m o m1 o1 ->
    forall b m' o', RunA expand b m1 o1 m' o' -> RunA expand (a ++ b) m o m' o'.
  Proof.
    induction 1 as [m o | c t m o m1 o1 _ IH | x t m o m1 o1 _ IH
                   | x t m o ma oa m1 o1 Hx _ _ IH2]; intros b m' o' Hb; cbn [app].
    - exact Hb.
    - apply RA_write. now apply IH.
    - apply RA_memo. now apply IH.
    - eapply RA_save; [exact Hx|]. now apply IH2.
  Qed.

  Lemma RunA_app_inv : forall a b m o m' o', RunA expand (a ++ b) m o m' o' ->
    exists m1 o1, RunA expand a m o m1 o1 /\ RunA expand b m1 o1 m' o'.
  Proof.
    induction a as [|c a IH]; intros b m o m' o' H; cbn [app] in H.
    - exists m, o. split; [constructor | exact H].
    - inversion H; subst.
      + match goal with H' : RunA _ (a ++ b) _ _ _ _ |- _ => apply IH in H'; destruct H' as (m1 & o1 & Ha & Hb) end.
        exists m1, o1. split; [now apply RA_write | exact Hb].
      + match goal with H' : RunA _ (a ++ b) _ _ _ _ |- _ => apply IH in H'; destruct H' as (m1 & o1 & Ha & Hb) end.
        exists m1, o1. split; [now apply RA_memo | exact Hb].
      + match goal with H' : RunA _ (a ++ b) _ _ _ _ |- _ => apply IH in H'; destruct H' as (m2 & o2 & Ha & Hb) end.
        exists m2, o2. split; [eapply RA_save; eauto | exact Hb].
  Qed.

  (* what realsave leaves in the queue is the image of a suffix `rest` of the body; the part before
     it has been run directly, so finishing `rest` recursively finishes the body recursively *)
  Lemma realsave_split : forall body m o lz ma oa,
    fold_left lazy_act body ([], m, o) = (lz, ma, oa) ->
    exists rest, lz = map item_of rest /\
      forall m1 o1, RunA expand rest ma oa m1 o1 -> RunA expand body m o m1 o1.
  Proof.
    induction body as [|a body IH]; intros m o lz ma oa Hf; cbn [fold_left] in Hf.
    - injection Hf as <- <- <-. exists []. split; [reflexivity | auto].
    - destruct a as [b|y|y]; cbn [lazy_act] in Hf.
      + apply IH in Hf. destruct Hf as (rest & -> & Hr). exists rest. split; [reflexivity|].
        intros m1 o1 H. apply RA_write. now apply Hr.
      + apply IH in Hf. destruct Hf as (rest & -> & Hr). exists rest. split; [reflexivity|].
        intros m1 o1 H. apply RA_memo. now apply Hr.
      + cbn [app] in Hf. rewrite fold_deferred in Hf by discriminate. injection Hf as <- <- <-.
        exists (Save y :: body). split; [reflexivity | auto].
  Qed.

  (* whenever the scheduler terminates on the image of t followed by q, the recursive pickler
     terminates on t and the scheduler continues with q from there *)
  Lemma refunctionalise : forall Q m o m' o', Drain expand atomic Q m o m' o' ->
    forall t q, Q = map item_of t ++ q ->
    exists m1 o1, RunA expand t m o m1 o1 /\ Drain expand atomic q m1 o1 m' o'.
  Proof.
    induction 1 as [m o | b Q m o m' o' Hd IH | x Q m o m' o' Hd IH
                   | x Q lz m o ma oa m' o' Hat Hrs Hd IH
                   | x Q m o ma oa m' o' Hat Hx Hd IH]; intros t q HQ.
    - destruct t as [|a t]; [|destruct a; discriminate]. cbn in HQ. subst q.
      exists m, o. split; constructor.
    - destruct t as [|a t]; cbn [map app] in HQ.
      + subst q. exists m, o. split; [constructor | now apply D_w].
      + destruct a as [c|y|y]; cbn [item_of] in HQ; try discriminate.
        injection HQ as <- ->.
        destruct (IH t q eq_refl) as (m1 & o1 & Ht & Hq).
        exists m1, o1. split; [now apply RA_write | exact Hq].
    - destruct t as [|a t]; cbn [map app] in HQ.
      + subst q. exists m, o. split; [constructor | now apply D_m].
      + destruct a as [c|y|y]; cbn [item_of] in HQ; try discriminate.
        injection HQ as <- ->.
        destruct (IH t q eq_refl) as (m1 & o1 & Ht & Hq).
        exists m1, o1. split; [now apply RA_memo | exact Hq].
    - destruct t as [|a t]; cbn [map app] in HQ.
      + subst q. exists m, o. split; [constructor | eapply D_s; eauto].
      + destruct a as [c|y|y]; cbn [item_of] in HQ; try discriminate.
        injection HQ as <- ->.
        destruct (realsave_split _ _ _ _ _ _ Hrs) as (rest & -> & Hrest).
        destruct (IH (rest ++ t) q) as (m1 & o1 & Hrt & Hq).
        { now rewrite map_app, app_assoc. }
        apply RunA_app_inv in Hrt. destruct Hrt as (m2 & o2 & Hr & Ht).
        exists m1, o1. split; [| exact Hq].
        eapply RA_save; [apply Hrest; exact Hr | exact Ht].
    - (* atomic mode: the step was the recursive run of x's body *)
      destruct t as [|a t]; cbn [map app] in HQ.
      + subst q. exists m, o. split; [constructor | eapply D_a; eauto].
      + destruct a as [c|y|y]; cbn [item_of] in HQ; try discriminate.
        injection HQ as <- ->.
        destruct (IH t q eq_refl) as (m1 & o1 & Ht & Hq).
        exists m1, o1. split; [eapply RA_save; [exact Hx | exact Ht] | exact Hq].
  Qed.

  (* whenever the scheduler terminates, so does the recursive pickler, with the same result *)
  Theorem recursive_equals_lazy : forall root m0 o0 m' o',
    Drain expand atomic [IS root] m0 o0 m' o' -> RunA expand (expand m0 root) m0 o0 m' o'.
  Proof.
    intros root m0 o0 m' o' H.
    destruct (refunctionalise _ _ _ _ _ H [Save root] [] eq_refl) as (m1 & o1 & Hr & Hq).
    inversion Hq; subst. inversion Hr; subst.
    match goal with H' : RunA _ [] _ _ _ _ |- _ => inversion H'; subst end.
    assumption.
  Qed.

  Theorem lazy_iff_recursive : forall root m0 o0 m' o',
    Drain expand atomic [IS root] m0 o0 m' o' <-> RunA expand (expand m0 root) m0 o0 m' o'.
  Proof. split; [apply recursive_equals_lazy | apply lazy_equals_recursive]. Qed.

  (* ------------------------------------------------------------------------------------------ *)
  (* 3. the executable functions                                                                *)

  Lemma runa_f_sound : forall fuel t m o m' o',
    runa_f expand fuel t m o = Some (m', o') -> RunA expand t m o m' o'.
  Proof.
    induction fuel as [|f IH]; intros t m o m' o' H; cbn [runa_f] in H; [discriminate|].
    destruct t as [|[b|x|x] t].
    - injection H as <- <-. constructor.
    - apply RA_write. now apply IH.
    - apply RA_memo. now apply IH.
    - destruct (runa_f expand f (expand m x) m o) as [[m1 o1]|] eqn:E; [|discriminate].
      eapply RA_save; [apply IH; exact E | apply IH; exact H].
  Qed.

  Lemma runa_f_mono : forall fuel fuel' t m o r,
    runa_f expand fuel t m o = Some r -> fuel <= fuel' -> runa_f expand fuel' t m o = Some r.
  Proof.
    induction fuel as [|f IH]; intros fuel' t m o r H Hle; cbn [runa_f] in H; [discriminate|].
    destruct fuel' as [|f']; [lia|]. cbn [runa_f].
    destruct t as [|[b|x|x] t].
    - exact H.
    - apply IH; [exact H | lia].
    - apply IH; [exact H | lia].
    - destruct (runa_f expand f (expand m x) m o) as [[m1 o1]|] eqn:E; [|discriminate].
      rewrite (IH f' _ _ _ _ E) by lia. apply IH; [exact H | lia].
  Qed.

  Lemma runa_f_complete : forall t m o m' o',
    RunA expand t m o m' o' -> exists fuel, runa_f expand fuel t m o = Some (m', o').
  Proof.
    induction 1 as [m o | b t m o m1 o1 _ [f IH] | x t m o m1 o1 _ [f IH]
                   | x t m o ma oa m1 o1 _ [f1 IH1] _ [f2 IH2]].
    - exists 1. reflexivity.
    - exists (S f). exact IH.
    - exists (S f). exact IH.
    - exists (S (Nat.max f1 f2)). cbn [runa_f].
      rewrite (runa_f_mono _ (Nat.max f1 f2) _ _ _ _ IH1) by lia.
      apply (runa_f_mono _ (Nat.max f1 f2) _ _ _ _ IH2). lia.
  Qed.

  Lemma drain_f_sound : forall fuel q m o m' o',
    drain_f expand atomic fuel q m o = Some (m', o') -> Drain expand atomic q m o m' o'.
  Proof.
    induction fuel as [|f IH]; intros q m o m' o' H; cbn [drain_f] in H; [discriminate|].
    destruct q as [|[b|x|x] q].
    - injection H as <- <-. constructor.
    - apply D_w. now apply IH.
    - apply D_m. now apply IH.
    - destruct (atomic x) eqn:Hat.
      + destruct (runa_f expand f (expand m x) m o) as [[m1 o1]|] eqn:E; [|discriminate].
        eapply D_a; [exact Hat | eapply runa_f_sound; exact E | apply IH; exact H].
      + destruct (realsave expand x m o) as [[lz m1] o1] eqn:E.
        eapply D_s; [exact Hat | exact E | apply IH; exact H].
  Qed.

  Lemma drain_f_mono : forall fuel fuel' q m o r,
    drain_f expand atomic fuel q m o = Some r -> fuel <= fuel' -> drain_f expand atomic fuel' q m o = Some r.
  Proof.
    induction fuel as [|f IH]; intros fuel' q m o r H Hle; cbn [drain_f] in H; [discriminate|].
    destruct fuel' as [|f']; [lia|]. cbn [drain_f].
    destruct q as [|[b|x|x] q].
    - exact H.
    - apply IH; [exact H | lia].
    - apply IH; [exact H | lia].
    - destruct (atomic x) eqn:Hat.
      + destruct (runa_f expand f (expand m x) m o) as [[m1 o1]|] eqn:E; [|discriminate].
        rewrite (runa_f_mono f f' _ _ _ _ E) by lia. apply IH; [exact H | lia].
      + destruct (realsave expand x m o) as [[lz m1] o1] eqn:E.
        apply IH; [exact H | lia].
  Qed.

  Lemma drain_f_complete : forall q m o m' o',
    Drain expand atomic q m o m' o' -> exists fuel, drain_f expand atomic fuel q m o = Some (m', o').
  Proof.
    induction 1 as [m o | b q m o m' o' _ [f IH] | x q m o m' o' _ [f IH]
                   | x q lz m o ma oa m' o' Hat Hrs _ [f IH]
                   | x q m o ma oa m' o' Hat Hx _ [f IH]].
    - exists 1. reflexivity.
    - exists (S f). exact IH.
    - exists (S f). exact IH.
    - exists (S f). cbn [drain_f]. rewrite Hat, Hrs. exact IH.
    - destruct (runa_f_complete _ _ _ _ _ Hx) as [fx Ex].
      exists (S (Nat.max fx f)). cbn [drain_f]. rewrite Hat.
      rewrite (runa_f_mono fx (Nat.max fx f) _ _ _ _ Ex) by lia.
      apply (drain_f_mono f (Nat.max fx f) _ _ _ _ IH). lia.
  Qed.

  (* ------------------------------------------------------------------------------------------ *)
  (* 4. THE THEOREM, executable level                                                           *)

  Lemma RunA_save_root : forall root m0 o0 m' o',
    RunA expand [Save root] m0 o0 m' o' <-> RunA expand (expand m0 root) m0 o0 m' o'.
  Proof.
    intros root m0 o0 m' o'. split; intro H.
    - inversion H; subst.
      match goal with H' : RunA _ [] _ _ _ _ |- _ => inversion H'; subst end. assumption.
    - eapply RA_save; [exact H | constructor].
  Qed.

  (* for every object graph on which the recursive pickler terminates with memo and stream r, the
     queue scheduler terminates with the same memo and stream *)
  Theorem nr_dump_equals_rec_dump : forall fuel root r,
    rec_dump expand fuel root = Some r -> exists fuel', nr_dump expand atomic fuel' root = Some r.
  Proof.
    unfold rec_dump, nr_dump. intros fuel root [m' o'] H.
    apply drain_f_complete. apply lazy_equals_recursive.
    apply RunA_save_root. eapply runa_f_sound. exact H.
  Qed.

  (* and conversely: the scheduler never terminates where the recursive pickler would not *)
  Theorem rec_dump_equals_nr_dump : forall fuel root r,
    nr_dump expand atomic fuel root = Some r -> exists fuel', rec_dump expand fuel' root = Some r.
  Proof.
    unfold rec_dump, nr_dump. intros fuel root [m' o'] H.
    apply runa_f_complete. apply RunA_save_root. apply recursive_equals_lazy.
    eapply drain_f_sound. exact H.
  Qed.

  Lemma nr_dump_sound : forall fuel root m' o',
    nr_dump expand atomic fuel root = Some (m', o') -> Drain expand atomic [IS root] [] [] m' o'.
  Proof. unfold nr_dump. intros fuel root m' o' H. eapply drain_f_sound. exact H. Qed.

  Lemma rec_dump_sound : forall fuel root m' o',
    rec_dump expand fuel root = Some (m', o') -> RunA expand (expand [] root) [] [] m' o'.
  Proof.
    unfold rec_dump. intros fuel root m' o' H. apply RunA_save_root. eapply runa_f_sound. exact H.
  Qed.

  (* whatever the fuels: two answers are the same answer *)
  Theorem dumps_agree : forall f1 f2 root r1 r2,
    rec_dump expand f1 root = Some r1 -> nr_dump expand atomic f2 root = Some r2 -> r1 = r2.
  Proof.
    intros f1 f2 root r1 r2 H1 H2.
    destruct (nr_dump_equals_rec_dump _ _ _ H1) as [f3 H3]. unfold nr_dump in *.
    pose proof (drain_f_mono _ (Nat.max f2 f3) _ _ _ _ H2 (Nat.le_max_l _ _)) as Ha.
    pose proof (drain_f_mono _ (Nat.max f2 f3) _ _ _ _ H3 (Nat.le_max_r _ _)) as Hb.
    congruence.
  Qed.

  (* ------------------------------------------------------------------------------------------ *)
  (* 5. stack depth                                                                             *)

  (* runa_f instrumented with the maximal number of nested save() frames it reaches: a Save costs
     one frame on top of whatever its body needs *)
  Fixpoint runa_depth (fuel : nat) (t : list action) (m o : list nat)
    : option (list nat * list nat * nat) :=
    match fuel with 0 => None | S f =>
      match t with
      | [] => Some (m, o, 0)
      | Write b :: r => runa_depth f r m (o ++ [b])
      | Memo x :: r => runa_depth f r (m ++ [x]) (o ++ [put (length m)])
      | Save x :: r => match runa_depth f (expand m x) m o with
                       | Some (m1, o1, d1) =>
                           match runa_depth f r m1 o1 with
                           | Some (m2, o2, d2) => Some (m2, o2, Nat.max (S d1) d2)
                           | None => None
                           end
                       | None => None
                       end
      end
    end.

  (* the instrumentation does not change the run *)
  Lemma runa_depth_runa_f : forall fuel t m o m' o' d,
    runa_depth fuel t m o = Some (m', o', d) -> runa_f expand fuel t m o = Some (m', o').
  Proof.
    induction fuel as [|f IH]; intros t m o m' o' d H; cbn [runa_depth] in H; [discriminate|].
    cbn [runa_f]. destruct t as [|[b|x|x] t].
    - now injection H as <- <- _.
    - eapply IH; exact H.
    - eapply IH; exact H.
    - destruct (runa_depth f (expand m x) m o) as [[[m1 o1] d1]|] eqn:E1; [|discriminate].
      destruct (runa_depth f t m1 o1) as [[[m2 o2] d2]|] eqn:E2; [|discriminate].
      injection H as <- <- _.
      rewrite (IH _ _ _ _ _ _ E1). eapply IH; exact E2.
  Qed.

  Lemma runa_f_runa_depth : forall fuel t m o m' o',
    runa_f expand fuel t m o = Some (m', o') -> exists d, runa_depth fuel t m o = Some (m', o', d).
  Proof.
    induction fuel as [|f IH]; intros t m o m' o' H; cbn [runa_f] in H; [discriminate|].
    cbn [runa_depth]. destruct t as [|[b|x|x] t].
    - injection H as <- <-. now exists 0.
    - now apply IH.
    - now apply IH.
    - destruct (runa_f expand f (expand m x) m o) as [[m1 o1]|] eqn:E1; [|discriminate].
      destruct (IH _ _ _ _ _ E1) as [d1 ->]. destruct (IH _ _ _ _ _ H) as [d2 ->]. eauto.
  Qed.

  (* The scheduler side: drain_f is a tail-recursive loop (every recursive call of drain_f is the
     whole result of its branch, i.e. a `while` loop over the queue), and its only inner call is
     realsave, which is a fold_left over one save body: it never calls itself, runa_f or drain_f,
     so in deferred mode the frame depth of the scheduler is 1 whatever the object graph.  (In
     atomic mode the loop calls runa_f on the atomic object's body: the depth is that of the
     atomic subtree alone - a class or a function -, not of the graph that contains it.) *)
  Lemma realsave_no_descent : forall x m o, exists lz m1 o1, realsave expand x m o = (lz, m1, o1).
  Proof. intros x m o. destruct (realsave expand x m o) as [[lz m1] o1]. eauto. Qed.

  (* within one realsave, once a Save has been seen every later action is deferred, in order *)
  Lemma realsave_defers_after_first_save : forall pre x post st lz1 m1 o1,
    fold_left lazy_act pre st = (lz1, m1, o1) ->
    fold_left lazy_act (pre ++ Save x :: post) st = (lz1 ++ IS x :: map item_of post, m1, o1).
  Proof.
    intros pre x post st lz1 m1 o1 H.
    rewrite fold_left_app, H. cbn [fold_left lazy_act].
    rewrite fold_deferred by (destruct lz1; discriminate).
    now rewrite <- app_assoc.
  Qed.

  Corollary realsave_defers_after_first_save' : forall body x post m o lz1 m1 o1 pre,
    expand m x = pre ++ Save body :: post ->
    fold_left lazy_act pre ([], m, o) = (lz1, m1, o1) ->
    realsave expand x m o = (lz1 ++ IS body :: map item_of post, m1, o1).
  Proof.
    intros body x post m o lz1 m1 o1 pre He H. unfold realsave. rewrite He.
    now apply realsave_defers_after_first_save.
  Qed.
End PicklerProofs.

(* ------------------------------------------------------------------------------------------ *)
(* the two modes taken to their extremes                                                      *)

(* every object atomic: draining [IS root] is literally ONE step, the recursive pickler on root
   (proved by inversion of that step, independently of lazy_iff_recursive) *)
Theorem atomic_everywhere_is_the_recursive_pickler : forall expand root m o m' o',
  Drain expand (fun _ => true) [IS root] m o m' o' <-> RunA expand (expand m root) m o m' o'.
Proof.
  intros expand root m o m' o'. split; intro H.
  - inversion H; subst; [discriminate|].
    match goal with H' : Drain _ _ [] _ _ _ _ |- _ => inversion H'; subst end. assumption.
  - eapply D_a; [reflexivity | exact H | constructor].
Qed.

(* no object atomic: the scheduler as it was before the repair, constructor for constructor *)
Inductive Drain0 (expand : list nat -> nat -> list action)
  : list item -> list nat -> list nat -> list nat -> list nat -> Prop :=
| D0_nil m o : Drain0 expand [] m o m o
| D0_w b q m o m' o' : Drain0 expand q m (o ++ [b]) m' o' -> Drain0 expand (IW b :: q) m o m' o'
| D0_m x q m o m' o' :
    Drain0 expand q (m ++ [x]) (o ++ [put (length m)]) m' o' -> Drain0 expand (IM x :: q) m o m' o'
| D0_s x q lz m o m1 o1 m' o' :
    realsave expand x m o = (lz, m1, o1) -> Drain0 expand (lz ++ q) m1 o1 m' o' ->
    Drain0 expand (IS x :: q) m o m' o'.

Theorem atomic_nowhere_is_the_old_scheduler : forall expand q m o m' o',
  Drain expand (fun _ => false) q m o m' o' <-> Drain0 expand q m o m' o'.
Proof.
  intros expand q m o m' o'. split; intro H.
  - induction H; try discriminate; econstructor; eauto.
  - induction H; [constructor | now apply D_w | now apply D_m | eapply D_s; eauto].
Qed.

(* any two choices of atomic objects give the same dumps: both are the recursive pickler's *)
Theorem atomic_choice_is_unobservable : forall expand atomic1 atomic2 root m0 o0 m' o',
  Drain expand atomic1 [IS root] m0 o0 m' o' <-> Drain expand atomic2 [IS root] m0 o0 m' o'.
Proof.
  intros; split; intro H; apply lazy_equals_recursive; eapply recursive_equals_lazy; exact H.
Qed.

(* a chain 0 -> 1 -> ... -> n: object x < n writes, memoises itself and saves x + 1 *)
Definition chain_expand (n : nat) (_ : list nat) (x : nat) : list action :=
  if x <? n then [Write (2 * x); Memo x; Save (S x)] else [Write (2 * x)].

(* the recursive pickler nests n + 1 save() frames on it ... *)
Example chain_depth :
  exists m o, runa_depth (chain_expand 30) 200 [Save 0] [] [] = Some (m, o, 31).
Proof. eexists. eexists. vm_compute. reflexivity. Qed.

(* ... while the scheduler (frame depth 1, see realsave_no_descent) returns the very same result *)
Example chain_nr_same :
  nr_dump (chain_expand 30) (fun _ => false) 200 0 = rec_dump (chain_expand 30) 200 0 /\
  nr_dump (chain_expand 30) (fun _ => false) 200 0 <> None.
Proof. split; vm_compute; [reflexivity | discriminate]. Qed.

(* ------------------------------------------------------------------------------------------ *)
(* 6. sharing and cycles are not excluded: 0 -> {1, 2}, 1 -> {3}, 2 -> {1, 0, 3}: 1 and 3 are
   shared, 2 -> 0 closes a cycle.  Entries are keyed by the memo length at entry: object 1 is a
   full body at memo length 1 and a GET (one write, no memo, no descent) at memo length 4; the
   same for 0 and 3. *)
Definition shared_cyclic_tbl : list ((nat * nat) * list action) :=
  [ ((0, 0), [Write 0; Memo 0; Save 1; Save 2; Write 100]);
    ((1, 1), [Write 2; Memo 1; Save 3; Write 102]);
    ((2, 3), [Write 6; Memo 3; Write 106]);
    ((3, 2), [Write 4; Memo 2; Save 1; Save 0; Save 3; Write 104]);
    ((4, 1), [Write 1002]);
    ((4, 0), [Write 1000]);
    ((4, 3), [Write 1006]) ].

Example shared_and_cyclic :
  pcheck (shared_cyclic_tbl, [], 0,
          ([0; 1; 3; 2],
           [0; 1; 2; 3; 6; 5; 106; 102; 4; 7; 1002; 1000; 1006; 104; 100])) = true.
Proof. vm_compute. reflexivity. Qed.

(* the recursive pickler needs 3 nested frames on it *)
Example shared_and_cyclic_depth :
  exists m o, runa_depth (table_expand shared_cyclic_tbl) 100 [Save 0] [] [] = Some (m, o, 3).
Proof. eexists. eexists. vm_compute. reflexivity. Qed.

(* the checker does reject: a swapped pair in the expected stream, a wrong memo order *)
Example shared_and_cyclic_rejects :
  pcheck (shared_cyclic_tbl, [], 0,
          ([0; 1; 3; 2],
           [0; 1; 2; 3; 6; 5; 102; 106; 4; 7; 1002; 1000; 1006; 104; 100])) = false /\
  pcheck (shared_cyclic_tbl, [], 0,
          ([0; 1; 2; 3],
           [0; 1; 2; 3; 6; 5; 106; 102; 4; 7; 1002; 1000; 1006; 104; 100])) = false.
Proof. split; vm_compute; reflexivity. Qed.

(* ------------------------------------------------------------------------------------------ *)
(* 7. what a `true` from pcheck means *)
(* (the fuel is kept abstract in the case analysis and pcheck is unfolded by an equation, so that
   the kernel never has to evaluate the dumps on 200 * 200 while re-checking the proof) *)
Lemma pcheck_unfold : forall tbl atoms root em eo,
  pcheck (tbl, atoms, root, (em, eo)) =
  match nr_dump (table_expand tbl) (fun x => existsb (Nat.eqb x) atoms) (200 * 200) root,
        rec_dump (table_expand tbl) (200 * 200) root with
  | Some (m, o), Some (m2, o2) =>
      list_eqb Nat.eqb m em && list_eqb Nat.eqb o eo && list_eqb Nat.eqb m2 em && list_eqb Nat.eqb o2 eo
  | _, _ => false
  end.
Proof. intros. reflexivity. Qed.

Lemma pcheck_gen : forall N tbl atomic root em eo,
  match nr_dump (table_expand tbl) atomic N root, rec_dump (table_expand tbl) N root with
  | Some (m, o), Some (m2, o2) =>
      list_eqb Nat.eqb m em && list_eqb Nat.eqb o eo && list_eqb Nat.eqb m2 em && list_eqb Nat.eqb o2 eo
  | _, _ => false
  end = true ->
  nr_dump (table_expand tbl) atomic N root = Some (em, eo) /\
  rec_dump (table_expand tbl) N root = Some (em, eo).
Proof.
  intros N tbl atomic root em eo H.
  destruct (nr_dump (table_expand tbl) atomic N root) as [[m o]|]; [|discriminate].
  destruct (rec_dump (table_expand tbl) N root) as [[m2 o2]|]; [|discriminate].
  repeat rewrite andb_true_iff in H. destruct H as [[[H1 H2] H3] H4].
  apply (list_eqb_eq Nat.eqb Nat.eqb_eq) in H1, H2, H3, H4. subst. split; reflexivity.
Qed.

Lemma pcheck_sound : forall tbl atoms root em eo,
  pcheck (tbl, atoms, root, (em, eo)) = true ->
  nr_dump (table_expand tbl) (fun x => existsb (Nat.eqb x) atoms) (200 * 200) root = Some (em, eo) /\
  rec_dump (table_expand tbl) (200 * 200) root = Some (em, eo).
Proof.
  intros tbl atoms root em eo H. rewrite pcheck_unfold in H. revert H. apply pcheck_gen.
Qed.

(* hence a passing case exhibits both relational runs *)
Corollary pcheck_relational : forall tbl atoms root em eo,
  pcheck (tbl, atoms, root, (em, eo)) = true ->
  Drain (table_expand tbl) (fun x => existsb (Nat.eqb x) atoms) [IS root] [] [] em eo /\
  RunA (table_expand tbl) (table_expand tbl [] root) [] [] em eo.
Proof.
  intros tbl atoms root em eo H. apply pcheck_sound in H. destruct H as [H _].
  apply nr_dump_sound in H. split; [exact H | eapply recursive_equals_lazy; exact H].
Qed.

(* ------------------------------------------------------------------------------------------ *)
(* 8. the two modes together: a cycle through an atomic object.  Object 1 is atomic (a class):
   it writes, memoises itself, saves object 2, writes.  Object 2 saves object 1 unless 1 is
   memoised already (memo length >= 1 here), in which case it is one write.  Root 0 is not
   atomic and saves object 1 twice (object 1's body does not look at the memo, so it is run
   twice).  From root 0 both Save 1 are deferred, and each is then run atomically, its Save 2
   included (recursively, at memo length 1 resp. 2).  From root 2 (memo empty, not atomic) the
   cycle 2 -> 1 -> 2 is closed inside the atomic run of 1. *)
Definition mixed_atomic_tbl : list ((nat * nat) * list action) :=
  [ ((0, 0), [Write 0; Save 1; Save 1]);
    ((0, 1), [Write 10; Memo 1; Save 2; Write 12]);
    ((1, 1), [Write 10; Memo 1; Save 2; Write 12]);
    ((2, 1), [Write 10; Memo 1; Save 2; Write 12]);
    ((0, 2), [Write 99; Save 1]);
    ((1, 2), [Write 20]);
    ((2, 2), [Write 20]) ].

Example mixed_atomic_example :
  nr_dump (table_expand mixed_atomic_tbl) (fun x => existsb (Nat.eqb x) [1]) 100 0
    = Some ([1; 1], [0; 10; 1; 20; 12; 10; 3; 20; 12]) /\
  rec_dump (table_expand mixed_atomic_tbl) 100 0
    = Some ([1; 1], [0; 10; 1; 20; 12; 10; 3; 20; 12]) /\
  nr_dump (table_expand mixed_atomic_tbl) (fun x => existsb (Nat.eqb x) [1]) 100 2
    = Some ([1], [99; 10; 1; 20; 12]) /\
  rec_dump (table_expand mixed_atomic_tbl) 100 2
    = Some ([1], [99; 10; 1; 20; 12]) /\
  pcheck (mixed_atomic_tbl, [1], 0, ([1; 1], [0; 10; 1; 20; 12; 10; 3; 20; 12])) = true /\
  pcheck2 (mixed_atomic_tbl, [1], 2, (1, [99; 10; 1; 20; 12])) = true.
Proof. repeat split; vm_compute; reflexivity. Qed.

(* the atomic step really is taken in it: the drain from root 0 is D_s on 0, then two D_a *)
Example mixed_atomic_example_steps :
  realsave (table_expand mixed_atomic_tbl) 0 [] [] = ([IS 1; IS 1], [], [0]) /\
  RunA (table_expand mixed_atomic_tbl) (table_expand mixed_atomic_tbl [] 1) [] [0] [1] [0; 10; 1; 20; 12] /\
  RunA (table_expand mixed_atomic_tbl) (table_expand mixed_atomic_tbl [1] 1) [1] [0; 10; 1; 20; 12]
       [1; 1] [0; 10; 1; 20; 12; 10; 3; 20; 12].
Proof.
  split; [reflexivity|].
  split; (eapply runa_f_sound with (fuel := 20); vm_compute; reflexivity).
Qed.

Print Assumptions lazy_equals_recursive.
Print Assumptions Drain_det.
Print Assumptions RunA_det.
Print Assumptions recursive_equals_lazy.
Print Assumptions lazy_iff_recursive.
Print Assumptions runa_f_sound.
Print Assumptions runa_f_complete.
Print Assumptions runa_f_mono.
Print Assumptions drain_f_sound.
Print Assumptions drain_f_complete.
Print Assumptions drain_f_mono.
Print Assumptions nr_dump_equals_rec_dump.
Print Assumptions rec_dump_equals_nr_dump.
Print Assumptions dumps_agree.
Print Assumptions nr_dump_sound.
Print Assumptions rec_dump_sound.
Print Assumptions runa_depth_runa_f.
Print Assumptions realsave_no_descent.
Print Assumptions realsave_defers_after_first_save.
Print Assumptions chain_depth.
Print Assumptions chain_nr_same.
Print Assumptions shared_and_cyclic.
Print Assumptions pcheck_sound.
Print Assumptions pcheck_relational.
Print Assumptions atomic_everywhere_is_the_recursive_pickler.
Print Assumptions atomic_nowhere_is_the_old_scheduler.
Print Assumptions atomic_choice_is_unobservable.
Print Assumptions mixed_atomic_example.
Print Assumptions mixed_atomic_example_steps.
