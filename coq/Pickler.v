(* Pickler.v — output/nrpickler.py: the one piece of logic in it, the re-scheduling of dill's
   recursive save() through a queue.  One invocation of dill's save() on one object is abstracted
   to the list of actions it performs given the memo at entry (`expand`: dill's per-type
   behaviour is a parameter of every theorem); `Save child` is where the recursive pickler
   descends and where nrpickler defers.  Writes and memoised objects are ids.

   Two modes, chosen per object when its turn comes in dump() (`_save_now`: the root, and every
   deferred save that reaches the head of the queue; the queue is empty at that moment):
     - deferred mode (`atomic x = false`, constructor D_s): realsave(x) runs ONE invocation of
       dill's save(); the children it meets are deferred (`IS child` appended to the queue), and
       once something is queued the writes and memoisations that follow are queued behind it;
     - atomic mode (`atomic x = true`, constructor D_a; classes and functions in the code:
       `_recursing` is raised around realsave): x and its WHOLE subtree are saved the recursive
       way, `RunA (expand m x)`: save() does not defer while `_recursing`, the queue is empty, so
       every write goes straight to the stream and every memoisation happens at once, and
       nothing is queued.
   What lazy_act does with a `Save x` met inside a deferred-mode body does not depend on
   `atomic x`: it is deferred either way; `atomic` only decides how it is saved when its turn comes.
   A write whose bytes name a memo entry that is still queued (dill's late fetch of a function's
   globals dict; `_LazyGet` in the code since D28) is an ordinary `Write` of the action list: it is
   queued behind the saves like every other write and its bytes are those the recursive pickler
   writes at that point, because the memo orders coincide (`PicklerProofs.nr_dump_equals_rec_dump`).
   Model-side file: definitions only. *)
From EG Require Import Base.

Inductive action := Write (b : nat) | Memo (x : nat) | Save (x : nat).
Inductive item := IW (b : nat) | IM (x : nat) | IS (x : nat).        (* entries of self.lazywrites *)
Definition item_of (a : action) : item := match a with Write b => IW b | Memo x => IM x | Save x => IS x end.
Definition put (idx : nat) : nat := 2 * idx + 1.                    (* the PUT / MEMOIZE opcode memoize() writes: odd ids; plain writes are even *)

Section Pickler.
  Variable expand : list nat -> nat -> list action.
  (* the objects _save_now saves the recursive way (isinstance(obj, (type, FunctionType))) *)
  Variable atomic : nat -> bool.

  (* the recursive pickler (dill): a child is saved completely before the parent goes on *)
  Inductive RunA : list action -> list nat -> list nat -> list nat -> list nat -> Prop :=
  | RA_nil m o : RunA [] m o m o
  | RA_write b t m o m' o' : RunA t m (o ++ [b]) m' o' -> RunA (Write b :: t) m o m' o'
  | RA_memo x t m o m' o' : RunA t (m ++ [x]) (o ++ [put (length m)]) m' o' -> RunA (Memo x :: t) m o m' o'
  | RA_save x t m o m1 o1 m' o' :
      RunA (expand m x) m o m1 o1 -> RunA t m1 o1 m' o' -> RunA (Save x :: t) m o m' o'.

  (* lazywrite / lazymemoize / save as written: defer iff the queue is non-empty; save always defers *)
  Definition lstate := (list item * list nat * list nat)%type.
  Definition lazy_act (st : lstate) (a : action) : lstate :=
    let '(lz, m, o) := st in
    match a with
    | Write b => match lz with [] => ([], m, o ++ [b]) | _ => (lz ++ [IW b], m, o) end
    | Memo x => match lz with [] => ([], m ++ [x], o ++ [put (length m)]) | _ => (lz ++ [IM x], m, o) end
    | Save x => (lz ++ [IS x], m, o)
    end.
  (* realsave(obj) called from dump(): the queue is empty at that moment *)
  Definition realsave (x : nat) (m o : list nat) : lstate := fold_left lazy_act (expand m x) ([], m, o).

  (* dump()'s drain loop ("extend with the tail and restart" and "continue" are the same step);
     an `IS x` at the head is _save_now(x): deferred mode (D_s) or atomic mode (D_a) *)
  Inductive Drain : list item -> list nat -> list nat -> list nat -> list nat -> Prop :=
  | D_nil m o : Drain [] m o m o
  | D_w b q m o m' o' : Drain q m (o ++ [b]) m' o' -> Drain (IW b :: q) m o m' o'
  | D_m x q m o m' o' : Drain q (m ++ [x]) (o ++ [put (length m)]) m' o' -> Drain (IM x :: q) m o m' o'
  | D_s x q lz m o m1 o1 m' o' :
      atomic x = false ->
      realsave x m o = (lz, m1, o1) -> Drain (lz ++ q) m1 o1 m' o' -> Drain (IS x :: q) m o m' o'
  | D_a x q m o m1 o1 m' o' :
      atomic x = true ->
      RunA (expand m x) m o m1 o1 -> Drain q m1 o1 m' o' -> Drain (IS x :: q) m o m' o'.

  (* executable versions on fuel (None = out of fuel) *)
  Fixpoint runa_f (fuel : nat) (t : list action) (m o : list nat) : option (list nat * list nat) :=
    match fuel with 0 => None | S f =>
      match t with
      | [] => Some (m, o)
      | Write b :: r => runa_f f r m (o ++ [b])
      | Memo x :: r => runa_f f r (m ++ [x]) (o ++ [put (length m)])
      | Save x :: r => match runa_f f (expand m x) m o with
                       | Some (m1, o1) => runa_f f r m1 o1
                       | None => None
                       end
      end
    end.
  Fixpoint drain_f (fuel : nat) (q : list item) (m o : list nat) : option (list nat * list nat) :=
    match fuel with 0 => None | S f =>
      match q with
      | [] => Some (m, o)
      | IW b :: r => drain_f f r m (o ++ [b])
      | IM x :: r => drain_f f r (m ++ [x]) (o ++ [put (length m)])
      | IS x :: r =>
          if atomic x
          then match runa_f f (expand m x) m o with
               | Some (m1, o1) => drain_f f r m1 o1
               | None => None
               end
          else let '(lz, m1, o1) := realsave x m o in drain_f f (lz ++ r) m1 o1
      end
    end.
  (* nrpickler.dump(root): _save_now(root) then the drain loop, i.e. the drain loop from [IS root] *)
  Definition nr_dump (fuel : nat) (root : nat) : option (list nat * list nat) := drain_f fuel [IS root] [] [].
  Definition rec_dump (fuel : nat) (root : nat) : option (list nat * list nat) := runa_f fuel [Save root] [] [].
  (* maximal depth of pending Python frames: the recursive pickler nests one save() per Save on the
     path; the scheduler's loop calls realsave at depth 1 only (structural: drain_f is tail-shaped),
     plus, in atomic mode, whatever the atomic subtree itself needs (runa_f) *)
End Pickler.

(* expand given as a finite table traced from a real run: ((length of the memo at entry, object), actions) *)
Definition table_expand (tbl : list ((nat * nat) * list action)) (m : list nat) (x : nat) : list action :=
  match find (fun e => Nat.eqb (fst (fst e)) (length m) && Nat.eqb (snd (fst e)) x) tbl with
  | Some e => snd e
  | None => []
  end.
(* generated cases: the table traced from recursive dill, the ids of the atomic objects (classes
   and functions), the root, the write stream and memo order observed on the real
   _NonrecursivePickler *)
Definition pcheck (c : list ((nat * nat) * list action) * list nat * nat * (list nat * list nat)) : bool :=
  let '(tbl, atoms, root, (em, eo)) := c in
  match nr_dump (table_expand tbl) (fun x => existsb (Nat.eqb x) atoms) (200 * 200) root,
        rec_dump (table_expand tbl) (200 * 200) root with
  | Some (m, o), Some (m2, o2) =>
      list_eqb Nat.eqb m em && list_eqb Nat.eqb o eo && list_eqb Nat.eqb m2 em && list_eqb Nat.eqb o2 eo
  | _, _ => false
  end.

(* same comparison but naming no memoised object: streams and memo LENGTH (temporaries such as
   reduce tuples have no stable identity across two real runs) *)
Definition pcheck2 (c : list ((nat * nat) * list action) * list nat * nat * (nat * list nat)) : bool :=
  let '(tbl, atoms, root, (mlen, eo)) := c in
  match nr_dump (table_expand tbl) (fun x => existsb (Nat.eqb x) atoms) (200 * 200) root,
        rec_dump (table_expand tbl) (200 * 200) root with
  | Some (m, o), Some (m2, o2) =>
      Nat.eqb (length m) mlen && list_eqb Nat.eqb o eo && Nat.eqb (length m2) mlen && list_eqb Nat.eqb o2 eo
  | _, _ => false
  end.
