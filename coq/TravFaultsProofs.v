(* TravFaultsProofs.v — C13 for traversals and searches: the six loops of breadthfirst.py /
   depthfirst.py run through the memo with an ff_via callback that may RAISE (model: TravFaults.v).

   1. pure_f_ok_refines        a faulty loop that completes normally is the loop of the behaving callback
   2. nbs_cf_same_graph / nbs_cf_keeps_coherence   one neighbors() call
   3. faulty_traversals_leave_the_graph_unchanged  no hypothesis at all
   4. faulty_traversals_keep_the_memo_coherent
   5. retry_after_faulty_call_gives_the_normal_answer   THE C13 STATEMENT for traversals
   6. calm_callback_is_the_ordinary_traversal      (generic `_ext` lemmas, no functional extensionality)
   7. faulty_traversal_example                     non-vacuity
   Proof file: stdlib only, nothing admitted, no axioms. *)
From Coq Require Import List Arith Bool Lia.
Import ListNotations.
From EG Require Import Base Lemmas State StateLemmas Nbrs NbrsDecide NbrsLink Struct Cache CacheProofs Faults FaultsProofs
  Trav TravState TravStateProofs TravCached TravCachedProofs TravFaults.

(* ====================================================================================== *)
(* 1. a faulty loop that completes normally is the loop of the behaving callback          *)
(* ====================================================================================== *)
Lemma nb_link_f_refines filtf filt : refines filtf filt -> forall s v d u f l a,
  nb_link_f filtf s v d u f l = L3 a -> nb_link filt s v d u f l = a.
Proof.
  intros R s v d u f l a. rewrite nb_link_is_decide. unfold nb_link_f, nb_link_via.
  destruct (other s l (Some v)) as [|v2]; [intro H; inversion H; reflexivity|]. cbv zeta.
  destruct (consults d u (is_undirected (kd s l)) (is_directed (kd s l)) (is_end1 s l v) (is_end2 s l v)) eqn:C.
  - destruct f as [fid|]; cbn [fok].
    + destruct (filtf fid l v2) as [b|] eqn:E; [|discriminate].
      rewrite (R fid l v2 b E). intro H; inversion H; reflexivity.
    + intro H; inversion H; reflexivity.
  - intro H; inversion H; subst. f_equal. apply nb_decide_irrelevant. exact C.
Qed.

Lemma nb_loop_f_refines filtf filt : refines filtf filt -> forall s v d u f ls acc l,
  nb_loop_f filtf s v d u f ls acc = F3Ok l -> nb_loop filt s v d u f ls acc = NOk l.
Proof.
  intros R s v d u f. induction ls as [|x r IH]; intros acc l; cbn [nb_loop_f nb_loop].
  - intro H; inversion H; reflexivity.
  - destruct (nb_link_f filtf s v d u f x) as [a|] eqn:EL; [|discriminate].
    rewrite (nb_link_f_refines filtf filt R _ _ _ _ _ _ _ EL).
    destruct a as [|o|e]; [apply IH|apply IH|discriminate].
Qed.

Lemma pure_f_ok_refines filtf filt : refines filtf filt -> forall s v d u f l,
  neighbors_pure_f filtf s v d u f = F3Ok l -> neighbors_pure filt s v d u f = NOk l.
Proof.
  intros R s v d u f l. unfold neighbors_pure_f, neighbors_pure. apply nb_loop_f_refines. exact R.
Qed.

(* ====================================================================================== *)
(* 2. one neighbors() call with a possibly raising callback                               *)
(* ====================================================================================== *)
Lemma same_graph_refl s : same_graph s s.
Proof. unfold same_graph. repeat split; reflexivity. Qed.

Lemma same_graph_trans s1 s2 s3 : same_graph s1 s2 -> same_graph s2 s3 -> same_graph s1 s3.
Proof.
  unfold same_graph.
  intros (A1 & A2 & A3 & A4 & A5 & A6 & A7 & A8 & A9) (B1 & B2 & B3 & B4 & B5 & B6 & B7 & B8 & B9).
  repeat split; congruence.
Qed.

Lemma fst_nbs_cf filtf d u fv s v : fst (nbs_cf filtf d u fv s v) = fst (neighbors_cf filtf s v d u fv).
Proof. unfold nbs_cf. destruct (neighbors_cf filtf s v d u fv); reflexivity. Qed.

Lemma nbs_cf_same_graph filtf d u fv s v : same_graph s (fst (nbs_cf filtf d u fv s v)).
Proof.
  rewrite fst_nbs_cf.
  destruct (neighbors_cf filtf s v d u fv) as [s' r] eqn:H. cbn [fst].
  destruct (faulty_query_frame filtf _ _ _ _ _ _ _ H) as (A1 & A2 & A3 & A4 & A5 & A6 & A7 & A8).
  unfold same_graph. repeat split; try assumption. unfold next. rewrite A7. reflexivity.
Qed.

Lemma nbs_cf_keeps_coherence filtf filt d u fv s v : refines filtf filt -> wf s -> Coh filt s ->
  wf (fst (nbs_cf filtf d u fv s v)) /\ Coh filt (fst (nbs_cf filtf d u fv s v)).
Proof.
  intros R W C. rewrite fst_nbs_cf.
  destruct (neighbors_cf filtf s v d u fv) as [s' r] eqn:H. cbn [fst].
  destruct (neighbors_cf_cases filtf _ _ _ _ _ _ _ H) as [->|(nbs & EC & EL & EN & _ & ->)]; [split; assumption|].
  pose proof (pure_f_ok_refines filtf filt R _ _ _ _ _ _ EN) as EP.
  pose proof (Coh_query_total filt s v d u fv W C) as Q.
  unfold neighbors_c in Q. rewrite EC, EL, EP in Q.
  destruct Q as (_ & C' & _ & _ & _ & _ & W'). split; assumption.
Qed.

(* ====================================================================================== *)
(* 3. the six entry points leave the graph as it was                                      *)
(* ====================================================================================== *)
Theorem faulty_traversals_leave_the_graph_unchanged filtf d u fv uni fr m fuel s start :
  same_graph s (fst (bft_st state (nbs_cf filtf d u fv) uni fr fuel s start)) /\
  same_graph s (fst (dft_rec_st state (nbs_cf filtf d u fv) uni fr fuel s start)) /\
  same_graph s (fst (dft_iter_st state (nbs_cf filtf d u fv) uni fr fuel s start)) /\
  same_graph s (fst (bfs_st state (nbs_cf filtf d u fv) uni m fuel s start)) /\
  same_graph s (fst (dfs_rec_st state (nbs_cf filtf d u fv) uni m fuel s start)) /\
  same_graph s (fst (dfs_iter_st state (nbs_cf filtf d u fv) uni m fuel s start)).
Proof.
  assert (HP : forall s1 v, same_graph s s1 -> same_graph s (fst (nbs_cf filtf d u fv s1 v))).
  { intros s1 v H. exact (same_graph_trans _ _ _ H (nbs_cf_same_graph filtf d u fv s1 v)). }
  pose proof (same_graph_refl s) as H0.
  split; [apply (bft_st_frame state (nbs_cf filtf d u fv) uni fr (same_graph s) HP); exact H0|].
  split; [apply (dft_rec_st_frame state (nbs_cf filtf d u fv) uni fr (same_graph s) HP); exact H0|].
  split; [apply (dft_iter_st_frame state (nbs_cf filtf d u fv) uni fr (same_graph s) HP); exact H0|].
  split; [apply (bfs_st_frame state (nbs_cf filtf d u fv) uni m (same_graph s) HP); exact H0|].
  split; [apply (dfs_rec_st_frame state (nbs_cf filtf d u fv) uni m (same_graph s) HP); exact H0|].
  apply (dfs_iter_st_frame state (nbs_cf filtf d u fv) uni m (same_graph s) HP); exact H0.
Qed.

(* ====================================================================================== *)
(* 4. ... and the memo is still coherent for the behaving callback                        *)
(* ====================================================================================== *)
Theorem faulty_traversals_keep_the_memo_coherent filtf filt d u fv uni fr m fuel s start :
  refines filtf filt -> wf s -> Coh filt s ->
  (let s' := fst (bft_st state (nbs_cf filtf d u fv) uni fr fuel s start) in wf s' /\ Coh filt s') /\
  (let s' := fst (dft_rec_st state (nbs_cf filtf d u fv) uni fr fuel s start) in wf s' /\ Coh filt s') /\
  (let s' := fst (dft_iter_st state (nbs_cf filtf d u fv) uni fr fuel s start) in wf s' /\ Coh filt s') /\
  (let s' := fst (bfs_st state (nbs_cf filtf d u fv) uni m fuel s start) in wf s' /\ Coh filt s') /\
  (let s' := fst (dfs_rec_st state (nbs_cf filtf d u fv) uni m fuel s start) in wf s' /\ Coh filt s') /\
  (let s' := fst (dfs_iter_st state (nbs_cf filtf d u fv) uni m fuel s start) in wf s' /\ Coh filt s').
Proof.
  intros R W C. cbv zeta.
  set (P := fun x : state => wf x /\ Coh filt x).
  assert (HP : forall s1 v, P s1 -> P (fst (nbs_cf filtf d u fv s1 v))).
  { intros s1 v [W1 C1]. exact (nbs_cf_keeps_coherence filtf filt d u fv s1 v R W1 C1). }
  assert (H0 : P s) by (split; assumption).
  split; [exact (bft_st_frame state (nbs_cf filtf d u fv) uni fr P HP fuel s start H0)|].
  split; [exact (dft_rec_st_frame state (nbs_cf filtf d u fv) uni fr P HP fuel s start H0)|].
  split; [exact (dft_iter_st_frame state (nbs_cf filtf d u fv) uni fr P HP fuel s start H0)|].
  split; [exact (bfs_st_frame state (nbs_cf filtf d u fv) uni m P HP fuel s start H0)|].
  split; [exact (dfs_rec_st_frame state (nbs_cf filtf d u fv) uni m P HP fuel s start H0)|].
  exact (dfs_iter_st_frame state (nbs_cf filtf d u fv) uni m P HP fuel s start H0).
Qed.

(* ====================================================================================== *)
(* 5. THE C13 STATEMENT for traversals                                                    *)
(* ====================================================================================== *)
Definition after_faulty_call (filtf : nat -> nat -> option nat -> option bool) (s s' : state) : Prop :=
  exists d u fv uni fr m fuel start,
    s' = fst (bft_st state (nbs_cf filtf d u fv) uni fr fuel s start) \/
    s' = fst (dft_rec_st state (nbs_cf filtf d u fv) uni fr fuel s start) \/
    s' = fst (dft_iter_st state (nbs_cf filtf d u fv) uni fr fuel s start) \/
    s' = fst (bfs_st state (nbs_cf filtf d u fv) uni m fuel s start) \/
    s' = fst (dfs_rec_st state (nbs_cf filtf d u fv) uni m fuel s start) \/
    s' = fst (dfs_iter_st state (nbs_cf filtf d u fv) uni m fuel s start).

Lemma after_faulty_call_inv filtf filt s s' :
  refines filtf filt -> wf s -> Coh filt s -> after_faulty_call filtf s s' ->
  same_graph s s' /\ wf s' /\ Coh filt s'.
Proof.
  intros R W C (d & u & fv & uni & fr & m & fuel & start & H).
  pose proof (faulty_traversals_leave_the_graph_unchanged filtf d u fv uni fr m fuel s start)
    as (G1 & G2 & G3 & G4 & G5 & G6).
  pose proof (faulty_traversals_keep_the_memo_coherent filtf filt d u fv uni fr m fuel s start R W C)
    as (K1 & K2 & K3 & K4 & K5 & K6).
  cbv zeta in K1, K2, K3, K4, K5, K6.
  destruct H as [->|[->|[->|[->|[->| ->]]]]]; split; assumption.
Qed.

Theorem retry_after_faulty_call_gives_the_normal_answer filtf filt s s' :
  refines filtf filt -> wf s -> Coh filt s -> after_faulty_call filtf s s' ->
  forall ou start d u fv fr m fuel,
  snd (bft_st state (nbs_c filt d u fv) (t_uni s' ou) fr fuel s' start)
    = snd (bft_st state (nbs_c filt d u fv) (t_uni s ou) fr fuel s start) /\
  snd (dft_rec_st state (nbs_c filt d u fv) (t_uni s' ou) fr fuel s' start)
    = snd (dft_rec_st state (nbs_c filt d u fv) (t_uni s ou) fr fuel s start) /\
  snd (dft_iter_st state (nbs_c filt d u fv) (t_uni s' ou) fr fuel s' start)
    = snd (dft_iter_st state (nbs_c filt d u fv) (t_uni s ou) fr fuel s start) /\
  snd (bfs_st state (nbs_c filt Fwd UErr None) (t_uni s' ou) m fuel s' start)
    = snd (bfs_st state (nbs_c filt Fwd UErr None) (t_uni s ou) m fuel s start) /\
  snd (dfs_rec_st state (nbs_c filt Fwd UErr None) (t_uni s' ou) m fuel s' start)
    = snd (dfs_rec_st state (nbs_c filt Fwd UErr None) (t_uni s ou) m fuel s start) /\
  snd (dfs_iter_st state (nbs_c filt Fwd UErr None) (t_uni s' ou) m fuel s' start)
    = snd (dfs_iter_st state (nbs_c filt Fwd UErr None) (t_uni s ou) m fuel s start) /\
  snd (neighbors_c filt s' start d u fv) = snd (neighbors_c filt s start d u fv).
Proof.
  intros R W C A ou start d u fv fr m fuel.
  destruct (after_faulty_call_inv filtf filt s s' R W C A) as (G & W' & C').
  destruct G as (Evl & Elv & _ & Euv & _ & _ & Ek & _ & _).
  pose proof (cached_traversal_independent_of_memo_and_flag filt s' s ou start d u fv fr m fuel
                W' C' W C Evl Elv Ek Euv) as (T1 & T2 & T3 & T4 & T5 & T6).
  repeat (split; [assumption|]).
  pose proof (Coh_query_total filt s' start d u fv W' C') as Q'.
  pose proof (Coh_query_total filt s start d u fv W C) as Q.
  destruct (neighbors_c filt s' start d u fv) as [x' r']. destruct (neighbors_c filt s start d u fv) as [x r].
  cbn [snd]. destruct Q' as [-> _]. destruct Q as [-> _].
  apply neighbors_pure_reads; assumption.
Qed.

(* ====================================================================================== *)
(* 6. a callback that never raises: the faulty model IS the ordinary model                 *)
(* ====================================================================================== *)
Section Ext.
  Variable St : Type.
  Variable nbs1 nbs2 : St -> nat -> St * nres.
  Variable uni : option (list nat).
  Variable fres : node -> bool.
  Variable m : node -> bool.
  Hypothesis Hext : forall s v, nbs1 s v = nbs2 s v.

  Lemma nbos_ext s v : nbos St nbs1 s v = nbos St nbs2 s v.
  Proof. destruct v as [x|]; cbn; auto. Qed.

  Lemma bft_loop_st_ext f : forall s q vis out,
    bft_loop_st St nbs1 uni fres f s q vis out = bft_loop_st St nbs2 uni fres f s q vis out.
  Proof.
    induction f as [|f IH]; intros s q vis out; cbn [bft_loop_st]; [reflexivity|].
    destruct q as [|x q]; [reflexivity|].
    rewrite nbos_ext. destruct (nbos St nbs2 s x) as [s1 [ns|e]]; [|reflexivity].
    destruct (fold_left (bft_discover uni fres) ns (q, vis, out)) as [[q2 vis2] out2]. apply IH.
  Qed.
  Theorem bft_st_ext fuel s start :
    bft_st St nbs1 uni fres fuel s start = bft_st St nbs2 uni fres fuel s start.
  Proof.
    unfold bft_st. destruct uni as [[|u0 us]|] eqn:EU; try reflexivity; rewrite <- EU;
      (destruct (negb _); [reflexivity|apply bft_loop_st_ext]).
  Qed.

  Lemma dfr_list_st_ext rec1 rec2 :
    (forall s w vis out, rec1 s w vis out = rec2 s w vis out) ->
    forall ws s vis out, dfr_list_st St uni rec1 ws s vis out = dfr_list_st St uni rec2 ws s vis out.
  Proof.
    intro H. induction ws as [|w r IH]; intros s vis out; [reflexivity|].
    rewrite !dfr_list_st_cons.
    destruct (inU uni w && negb (nmem w vis)); [|apply IH].
    rewrite H. destruct (rec2 s w vis out) as [s' vis' out'|s' e|s']; [apply IH|reflexivity|reflexivity].
  Qed.
  Lemma dfr_st_ext f : forall s v vis out,
    dfr_st St nbs1 uni fres f s v vis out = dfr_st St nbs2 uni fres f s v vis out.
  Proof.
    induction f as [|f IH]; intros s v vis out; [reflexivity|].
    rewrite !dfr_st_S. rewrite nbos_ext.
    destruct (nbos St nbs2 s v) as [s1 [ns|e]]; [|reflexivity].
    apply dfr_list_st_ext. exact IH.
  Qed.
  Theorem dft_rec_st_ext fuel s start :
    dft_rec_st St nbs1 uni fres fuel s start = dft_rec_st St nbs2 uni fres fuel s start.
  Proof.
    unfold dft_rec_st. destruct (df_preflight uni start) as [e|]; [reflexivity|].
    rewrite dfr_st_ext. reflexivity.
  Qed.

  Lemma dfi_loop_st_ext f : forall s st disc out,
    dfi_loop_st St nbs1 uni fres f s st disc out = dfi_loop_st St nbs2 uni fres f s st disc out.
  Proof.
    induction f as [|f IH]; intros s st disc out; cbn [dfi_loop_st]; [reflexivity|].
    destruct st as [|v st]; [reflexivity|].
    destruct (nmem v disc); [apply IH|].
    destruct (negb (inU uni v)); [apply IH|].
    rewrite nbos_ext. destruct (nbos St nbs2 s v) as [s1 [ns|e]]; [|reflexivity]. apply IH.
  Qed.
  Theorem dft_iter_st_ext fuel s start :
    dft_iter_st St nbs1 uni fres fuel s start = dft_iter_st St nbs2 uni fres fuel s start.
  Proof.
    unfold dft_iter_st. destruct (df_preflight uni start) as [e|]; [reflexivity|]. apply dfi_loop_st_ext.
  Qed.

  Lemma bfs_loop_st_ext f : forall s q vis,
    bfs_loop_st St nbs1 uni m f s q vis = bfs_loop_st St nbs2 uni m f s q vis.
  Proof.
    induction f as [|f IH]; intros s q vis; cbn [bfs_loop_st]; [reflexivity|].
    destruct q as [|x q]; [reflexivity|].
    rewrite nbos_ext. destruct (nbos St nbs2 s x) as [s1 [ns|e]]; [|reflexivity].
    destruct (bfs_scan uni m ns q vis) as [v|q2 vis2]; [reflexivity|]. apply IH.
  Qed.
  Theorem bfs_st_ext fuel s start :
    bfs_st St nbs1 uni m fuel s start = bfs_st St nbs2 uni m fuel s start.
  Proof.
    unfold bfs_st. destruct uni as [[|u0 us]|] eqn:EU; try reflexivity; rewrite <- EU;
      (destruct (negb _); [reflexivity|]; destruct (m (Some start)); [reflexivity|]; apply bfs_loop_st_ext).
  Qed.

  Lemma dfs_list_st_ext rec1 rec2 :
    (forall s w vis, rec1 s w vis = rec2 s w vis) ->
    forall ws s vis, dfs_list_st St uni m rec1 ws s vis = dfs_list_st St uni m rec2 ws s vis.
  Proof.
    intro H. induction ws as [|w r IH]; intros s vis; [reflexivity|].
    rewrite !dfs_list_st_cons.
    destruct (inU uni w && negb (nmem w vis)); [|apply IH].
    destruct (m w); [reflexivity|].
    rewrite H. destruct (rec2 s w vis) as [s' v'|s' vis'|s' e|s']; [reflexivity|apply IH|reflexivity|reflexivity].
  Qed.
  Lemma dfs_recur_st_ext f : forall s v vis,
    dfs_recur_st St nbs1 uni m f s v vis = dfs_recur_st St nbs2 uni m f s v vis.
  Proof.
    induction f as [|f IH]; intros s v vis; [reflexivity|].
    rewrite !dfs_recur_st_S. rewrite nbos_ext.
    destruct (nbos St nbs2 s v) as [s1 [ns|e]]; [|reflexivity].
    apply dfs_list_st_ext. exact IH.
  Qed.
  Theorem dfs_rec_st_ext fuel s start :
    dfs_rec_st St nbs1 uni m fuel s start = dfs_rec_st St nbs2 uni m fuel s start.
  Proof.
    unfold dfs_rec_st. destruct (df_preflight uni start) as [e|]; [reflexivity|].
    destruct (m (Some start)); [reflexivity|]. rewrite dfs_recur_st_ext. reflexivity.
  Qed.

  Lemma dfsi_loop_st_ext f : forall s st disc,
    dfsi_loop_st St nbs1 uni m f s st disc = dfsi_loop_st St nbs2 uni m f s st disc.
  Proof.
    induction f as [|f IH]; intros s st disc; cbn [dfsi_loop_st]; [reflexivity|].
    destruct st as [|v st]; [reflexivity|].
    destruct (negb (inU uni v)); [apply IH|].
    destruct (nmem v disc); [apply IH|].
    destruct (m v); [reflexivity|].
    rewrite nbos_ext. destruct (nbos St nbs2 s v) as [s1 [ns|e]]; [|reflexivity]. apply IH.
  Qed.
  Theorem dfs_iter_st_ext fuel s start :
    dfs_iter_st St nbs1 uni m fuel s start = dfs_iter_st St nbs2 uni m fuel s start.
  Proof.
    unfold dfs_iter_st. destruct (df_preflight uni start) as [e|]; [reflexivity|]. apply dfsi_loop_st_ext.
  Qed.
End Ext.

Lemma nbs_cf_calm filt d u fv s v : nbs_cf (calm filt) d u fv s v = nbs_c filt d u fv s v.
Proof.
  unfold nbs_cf, nbs_c.
  rewrite (neighbors_cf_total_agrees filt (calm filt) (fun _ _ _ => eq_refl) s v d u fv).
  destruct (neighbors_c filt s v d u fv) as [s' [l|e]]; reflexivity.
Qed.

Theorem calm_callback_is_the_ordinary_traversal filt d u fv uni fr m fuel s start :
  bft_st state (nbs_cf (calm filt) d u fv) uni fr fuel s start = bft_st state (nbs_c filt d u fv) uni fr fuel s start /\
  dft_rec_st state (nbs_cf (calm filt) d u fv) uni fr fuel s start = dft_rec_st state (nbs_c filt d u fv) uni fr fuel s start /\
  dft_iter_st state (nbs_cf (calm filt) d u fv) uni fr fuel s start = dft_iter_st state (nbs_c filt d u fv) uni fr fuel s start /\
  bfs_st state (nbs_cf (calm filt) d u fv) uni m fuel s start = bfs_st state (nbs_c filt d u fv) uni m fuel s start /\
  dfs_rec_st state (nbs_cf (calm filt) d u fv) uni m fuel s start = dfs_rec_st state (nbs_c filt d u fv) uni m fuel s start /\
  dfs_iter_st state (nbs_cf (calm filt) d u fv) uni m fuel s start = dfs_iter_st state (nbs_c filt d u fv) uni m fuel s start.
Proof.
  pose proof (nbs_cf_calm filt d u fv) as E.
  split; [apply bft_st_ext; exact E|].
  split; [apply dft_rec_st_ext; exact E|].
  split; [apply dft_iter_st_ext; exact E|].
  split; [apply bfs_st_ext; exact E|].
  split; [apply dfs_rec_st_ext; exact E|].
  apply dfs_iter_st_ext; exact E.
Qed.

(* ====================================================================================== *)
(* 7. non-vacuity                                                                         *)
(* ====================================================================================== *)
(* vertices 0 1 2; directed edges 3 : 0 -> 1 and 4 : 1 -> 2; caching switched on.
   The callback raises on link 4: the bft from 0 memoises the neighbours of 0, then the loop over
   the links of 1 (3, then 4) is aborted by the callback's exception. *)
Definition tf_ex_heap : state :=
  run [NewVertex false [] []; NewVertex false [] []; NewVertex false [] [];
       NewEdge KDir (Some 0) (Some 1); NewEdge KDir (Some 1) (Some 2); SetCaching true] empty.
Definition tf_ex_filtf (fid l : nat) (o : option nat) : option bool :=
  if Nat.eqb l 4 then None else Some true.
Definition tf_ex_filt (fid l : nat) (o : option nat) : bool := true.

Example faulty_traversal_example : exists filtf filt s,
  refines filtf filt /\ wf s /\ Coh filt s /\
  snd (bft_st state (nbs_cf filtf AnyDir UNb (Some 0)) None (fun _ => true) 20 s 0) = TErr UserError /\
  fst (bft_st state (nbs_cf filtf AnyDir UNb (Some 0)) None (fun _ => true) 20 s 0) <> s /\
  exists l, length l >= 3 /\
    snd (bft_st state (nbs_c filt AnyDir UNb (Some 0)) None (fun _ => true) 20
           (fst (bft_st state (nbs_cf filtf AnyDir UNb (Some 0)) None (fun _ => true) 20 s 0)) 0) = TOk l.
Proof.
  exists tf_ex_filtf, tf_ex_filt, tf_ex_heap.
  split.
  { intros fid l o b. unfold tf_ex_filtf, tf_ex_filt. destruct (Nat.eqb l 4); [discriminate|].
    intro H; inversion H; reflexivity. }
  split; [vm_compute; repeat split|].
  split.
  { intros v k ans H.
    assert (E : ca tf_ex_heap v = []).
    { do 6 (destruct v as [|v]; [vm_compute; reflexivity|]). vm_compute. destruct v; reflexivity. }
    rewrite E in H. discriminate H. }
  split; [vm_compute; reflexivity|].
  split; [vm_compute; discriminate|].
  exists [Some 0; Some 1; Some 2]. split; [cbn; lia|]. vm_compute. reflexivity.
Qed.

Print Assumptions faulty_traversals_leave_the_graph_unchanged.
Print Assumptions faulty_traversals_keep_the_memo_coherent.
Print Assumptions retry_after_faulty_call_gives_the_normal_answer.
Print Assumptions calm_callback_is_the_ordinary_traversal.
Print Assumptions faulty_traversal_example.
