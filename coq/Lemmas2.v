(* Lemmas2.v — more list lemmas (positional update, removal). *)
From EG Require Import Base Lemmas.

(* positional update *)
Lemma in_set_cases {A} (i : nat) (a x : A) (X : list A) : In x (set i a X) -> x = a \/ In x X.
Proof. revert i. induction X as [|y X IH]; intros [|i]; cbn; try tauto.
  - intros [H|H]; auto.
  - intros [H|H]; auto. apply IH in H. tauto. Qed.
Lemma in_set_new {A} (i : nat) (a : A) (X : list A) : i < length X -> In a (set i a X).
Proof. revert i. induction X as [|y X IH]; intros [|i]; cbn; try lia; auto. intro. right. apply IH. lia. Qed.
Lemma in_set_keep {A} (i : nat) (a x : A) (X : list A) : In x X -> nth_error X i <> Some x -> In x (set i a X).
Proof. revert i. induction X as [|y X IH]; intros [|i]; cbn; try tauto.
  - intros [H|H] Hn; [congruence|auto].
  - intros [H|H] Hn; auto. Qed.
Lemma nth_error_set_same {A} (i : nat) (a : A) (X : list A) : i < length X -> nth_error (set i a X) i = Some a.
Proof. revert i. induction X as [|y X IH]; intros [|i]; cbn; try lia; auto. intro. apply IH. lia. Qed.
Lemma nth_error_set_other {A} (i j : nat) (a : A) (X : list A) : i <> j -> nth_error (set i a X) j = nth_error X j.
Proof. revert i j. induction X as [|y X IH]; intros [|i] [|j]; cbn; try congruence; auto. Qed.
Lemma oremove_all_oremove1 x l : oremove_all x (oremove1 x l) = oremove_all x l.
Proof. unfold oremove_all. induction l as [|y l IH]; cbn; auto. destruct (oeqb x y) eqn:E; cbn; auto. rewrite E. cbn. now rewrite IH. Qed.
Lemma in_remove1_iff x y l : NoDup l -> (In y (remove1 x l) <-> In y l /\ y <> x).
Proof. intro Hnd. split.
  - intro H. split; [eapply in_remove1; eauto|]. intro E. subst. now apply remove1_notin in H.
  - intros [H Hn]. apply in_remove1_neq; auto. Qed.
Lemma in_oremove1_iff x y l : x <> y -> (In y (oremove1 x l) <-> In y l).
Proof. intro Hn. split; [apply in_oremove1 | now apply in_oremove1_neq]. Qed.
