(* LawsProofs.v -- the universe <-> laws binding (Universe.laws / UniverseLaws.applies_to).

   Invariant   laws_inv s :  forall u L, ul s u = Some L <-> la s L = Some u
   (u._laws is L  iff  L._applies_to is u, over all object ids; reads outside the heap give None).

   Contents
     - reads of ulaws / lapp through setters, alloc and outside the heap;
     - symbolic execution of the fuelled mutual recursion u_set_laws / l_set_applies by case
       analysis (no induction): leaf calls (l_detach_leaf, u_detach_leaf), two-level calls
       (l_attach, u_attach), and the top-level calls set_laws_exec / set_applies_exec, which give
       the result state in closed form (set_laws_result / set_applies_result) for any fuel >= 3;
     - set_laws_ok / set_applies_ok: with FUEL the setters return normally (no OutOfFuel, no
       exception), re-establish laws_inv and have the documented effect; set_laws_frame /
       set_applies_frame say which other bindings change (only the previous partner of the
       object being moved); set_laws_full / set_applies_full bundle both;
     - laws_inv_step: every operation except UniverseLaws(applies_to=u) (NewLaws (Some u), which
       stores the back pointer without telling u) preserves laws_inv; new_laws_some_breaks shows
       the exclusion is necessary; laws_inv_run / laws_inv_reachable lift this to histories;
     - set_laws_never_raises / set_applies_never_raises: well-typed setter calls return None.

   Proof file: stdlib + the model files only; no axioms (see Print Assumptions at the end). *)
From EG Require Import Base Lemmas State StateLemmas Nbrs Struct Footprint.


Definition laws_inv (s : state) : Prop := forall u L, ul s u = Some L <-> la s L = Some u.

(* ---- reads ------------------------------------------------------------------------------- *)
Lemma ul_outside s i : wf s -> next s <= i -> ul s i = None.
Proof. intros W H. unfold ul. apply get_default. wf_crush. Qed.
Lemma la_outside s i : wf s -> next s <= i -> la s i = None.
Proof. intros W H. unfold la. apply get_default. wf_crush. Qed.
Lemma ul_Some_lt s u L : wf s -> ul s u = Some L -> u < next s.
Proof. intros W E. destruct (Nat.lt_ge_cases u (next s)) as [H|H]; auto.
  rewrite (ul_outside s u W H) in E. discriminate. Qed.
Lemma la_Some_lt s L u : wf s -> la s L = Some u -> L < next s.
Proof. intros W E. destruct (Nat.lt_ge_cases L (next s)) as [H|H]; auto.
  rewrite (la_outside s L W H) in E. discriminate. Qed.

Lemma ul_set_la s i x j : ul (set_la s i x) j = ul s j. Proof. reflexivity. Qed.
Lemma la_set_ul s i x j : la (set_ul s i x) j = la s j. Proof. reflexivity. Qed.
Lemma ul_set_ul s i x j : wf s -> i < next s -> ul (set_ul s i x) j = if Nat.eqb i j then x else ul s j.
Proof. intros W V. destruct (Nat.eqb_spec i j) as [->|N].
  - now apply ul_set_ul_same. - now apply ul_set_ul_other. Qed.
Lemma la_set_la s i x j : wf s -> i < next s -> la (set_la s i x) j = if Nat.eqb i j then x else la s j.
Proof. intros W V. destruct (Nat.eqb_spec i j) as [->|N].
  - now apply la_set_la_same. - now apply la_set_la_other. Qed.
(* clearing needs no bound: outside the heap the entry reads None anyway *)
Lemma ul_set_ul_None s i j : wf s -> ul (set_ul s i None) j = if Nat.eqb i j then None else ul s j.
Proof. intros W. destruct (Nat.lt_ge_cases i (next s)) as [H|H]; [now apply ul_set_ul|].
  destruct (Nat.eqb_spec i j) as [->|N]; [|now apply ul_set_ul_other].
  apply ul_outside; [auto with st|exact H]. Qed.
Lemma la_set_la_None s i j : wf s -> la (set_la s i None) j = if Nat.eqb i j then None else la s j.
Proof. intros W. destruct (Nat.lt_ge_cases i (next s)) as [H|H]; [now apply la_set_la|].
  destruct (Nat.eqb_spec i j) as [->|N]; [|now apply la_set_la_other].
  apply la_outside; [auto with st|exact H]. Qed.

(* ---- one-level execution lemmas ----------------------------------------------------------- *)
Lemma u_set_laws_same f s u oL : ul s u = oL -> u_set_laws (S f) s u oL = Ok s.
Proof. intro E. cbn [u_set_laws]. rewrite E, oeqb_refl. reflexivity. Qed.
Lemma l_set_applies_same f s L ou : la s L = ou -> l_set_applies (S f) s L ou = Ok s.
Proof. intro E. cbn [l_set_applies]. rewrite E, oeqb_refl. reflexivity. Qed.

Lemma l_detach_leaf f s L u : wf s -> la s L = Some u -> ul s u <> Some L ->
  l_set_applies (S f) s L None = Ok (set_la s L None).
Proof.
  intros W E N. pose proof (la_Some_lt _ _ _ W E) as V.
  cbn [l_set_applies]. rewrite E. cbn [oeqb]. rewrite ul_set_la.
  destruct (oeqb (ul s u) (Some L)) eqn:G; [apply oeqb_eq in G; contradiction|].
  cbn [bind]. rewrite la_set_la_same by assumption. reflexivity.
Qed.
Lemma u_detach_leaf f s u L : wf s -> ul s u = Some L -> la s L <> Some u ->
  u_set_laws (S f) s u None = Ok (set_ul s u None).
Proof.
  intros W E N. cbn [u_set_laws]. rewrite E. cbn [oeqb]. rewrite la_set_ul.
  destruct (oeqb (la s L) (Some u)) eqn:G; [apply oeqb_eq in G; contradiction|].
  cbn [bind]. reflexivity.
Qed.

Definition detach_la s (o : option nat) := match o with Some L0 => set_la s L0 None | None => s end.
Definition detach_ul s (o : option nat) := match o with Some u0 => set_ul s u0 None | None => s end.

(* attaching L to u when u already points at L: L's previous universe (if any, and if it still
   points at L) is told to forget L *)
Lemma l_attach f s L u : wf s -> L < next s -> la s L <> Some u -> ul s u = Some L ->
  (forall u0, la s L = Some u0 -> ul s u0 = Some L) ->
  l_set_applies (S (S f)) s L (Some u) = Ok (detach_ul (set_la s L (Some u)) (la s L)).
Proof.
  intros W V N E B.
  assert (W1 : wf (set_la s L (Some u))) by auto with st.
  assert (R : la (set_la s L (Some u)) L = Some u) by now apply la_set_la_same.
  cbn [l_set_applies].
  destruct (oeqb (Some u) (la s L)) eqn:G; [apply oeqb_eq in G; congruence|].
  destruct (la s L) as [u0|] eqn:E0; cbn [detach_ul].
  - assert (u0 <> u) by congruence.
    rewrite ul_set_la, (B u0 eq_refl), oeqb_refl.
    rewrite (u_detach_leaf f _ u0 L W1) by (rewrite ?ul_set_la, ?R; auto; congruence).
    cbn [bind]. rewrite la_set_ul, R.
    apply u_set_laws_same. rewrite ul_set_ul_None by assumption.
    destruct (Nat.eqb_spec u0 u); [contradiction|]. now rewrite ul_set_la.
  - cbn [bind]. rewrite R. apply u_set_laws_same. now rewrite ul_set_la.
Qed.

Lemma u_attach f s u L : wf s -> u < next s -> ul s u <> Some L -> la s L = Some u ->
  (forall L0, ul s u = Some L0 -> la s L0 = Some u) ->
  u_set_laws (S (S f)) s u (Some L) = Ok (detach_la (set_ul s u (Some L)) (ul s u)).
Proof.
  intros W V N E B.
  assert (W1 : wf (set_ul s u (Some L))) by auto with st.
  assert (R : ul (set_ul s u (Some L)) u = Some L) by now apply ul_set_ul_same.
  cbn [u_set_laws].
  destruct (oeqb (Some L) (ul s u)) eqn:G; [apply oeqb_eq in G; congruence|].
  destruct (ul s u) as [L0|] eqn:E0; cbn [detach_la].
  - assert (L0 <> L) by congruence.
    rewrite la_set_ul, (B L0 eq_refl), oeqb_refl.
    rewrite (l_detach_leaf f _ L0 u W1) by (rewrite ?la_set_ul, ?R; auto; congruence).
    cbn [bind]. apply l_set_applies_same. rewrite la_set_la_None by assumption.
    destruct (Nat.eqb_spec L0 L); [contradiction|]. now rewrite la_set_ul.
  - cbn [bind]. apply l_set_applies_same. now rewrite la_set_ul.
Qed.

Lemma wf_detach_la s o : wf s -> wf (detach_la s o).
Proof. destruct o; cbn; auto with st. Qed.
Lemma wf_detach_ul s o : wf s -> wf (detach_ul s o).
Proof. destruct o; cbn; auto with st. Qed.
Lemma next_detach_la s o : next (detach_la s o) = next s. Proof. now destruct o. Qed.
Lemma next_detach_ul s o : next (detach_ul s o) = next s. Proof. now destruct o. Qed.
Lemma ul_detach_la s o j : ul (detach_la s o) j = ul s j. Proof. now destruct o. Qed.
Lemma la_detach_ul s o j : la (detach_ul s o) j = la s j. Proof. now destruct o. Qed.
Lemma la_detach_la s o K : wf s -> la (detach_la s o) K = if oeqb o (Some K) then None else la s K.
Proof. intro W. destruct o as [L0|]; cbn [detach_la oeqb]; [now apply la_set_la_None | reflexivity]. Qed.
Lemma ul_detach_ul s o j : wf s -> ul (detach_ul s o) j = if oeqb o (Some j) then None else ul s j.
Proof. intro W. destruct o as [L0|]; cbn [detach_ul oeqb]; [now apply ul_set_ul_None | reflexivity]. Qed.
#[local] Hint Resolve wf_detach_la wf_detach_ul : st.

Definition set_laws_result s u oL :=
  if oeqb oL (ul s u) then s else
  let s2 := detach_la (set_ul s u oL) (ul s u) in
  match oL with None => s2 | Some L => detach_ul (set_la s2 L (Some u)) (la s L) end.
Definition set_applies_result s L ou :=
  if oeqb ou (la s L) then s else
  let s2 := detach_ul (set_la s L ou) (la s L) in
  match ou with None => s2 | Some u => detach_la (set_ul s2 u (Some L)) (ul s u) end.

Lemma set_laws_exec f s u oL : wf s -> laws_inv s -> u < next s -> (forall L, oL = Some L -> L < next s) ->
  u_set_laws (S (S (S f))) s u oL = Ok (set_laws_result s u oL).
Proof.
  intros W I V VL. unfold set_laws_result. cbn [u_set_laws].
  destruct (oeqb oL (ul s u)) eqn:G; [reflexivity|]. apply oeqb_neq in G.
  assert (W1 : wf (set_ul s u oL)) by auto with st.
  assert (R : ul (set_ul s u oL) u = oL) by now apply ul_set_ul_same.
  match goal with |- bind ?X _ = _ => assert (H1 : X = Ok (detach_la (set_ul s u oL) (ul s u))) end.
  { destruct (ul s u) as [L0|] eqn:E0; cbn [detach_la]; [|reflexivity].
    rewrite la_set_ul, (proj1 (I u L0) E0), oeqb_refl.
    apply (l_detach_leaf (S f) _ L0 u W1); rewrite ?la_set_ul, ?R; [now apply I | congruence]. }
  rewrite H1. cbn [bind]. cbv zeta.
  destruct oL as [L|]; [|reflexivity].
  set (s2 := detach_la (set_ul s u (Some L)) (ul s u)).
  assert (W2 : wf s2) by (unfold s2; auto with st).
  assert (EL : la s2 L = la s L).
  { unfold s2. rewrite la_detach_la, la_set_ul by assumption.
    destruct (oeqb (ul s u) (Some L)) eqn:G2; [apply oeqb_eq in G2; congruence | reflexivity]. }
  assert (Eu : forall j, ul s2 j = ul (set_ul s u (Some L)) j) by (intro; unfold s2; apply ul_detach_la).
  rewrite (l_attach f s2 L u).
  - now rewrite EL.
  - exact W2.
  - unfold s2. rewrite next_detach_la. apply VL; reflexivity.
  - rewrite EL. intro C. apply I in C. congruence.
  - now rewrite Eu.
  - intros u0 C. rewrite EL in C. rewrite Eu, ul_set_ul by assumption.
    destruct (Nat.eqb_spec u u0); [reflexivity | now apply I].
Qed.

Lemma set_applies_exec f s L ou : wf s -> laws_inv s -> L < next s -> (forall u, ou = Some u -> u < next s) ->
  l_set_applies (S (S (S f))) s L ou = Ok (set_applies_result s L ou).
Proof.
  intros W I V VL. unfold set_applies_result. cbn [l_set_applies].
  destruct (oeqb ou (la s L)) eqn:G; [reflexivity|]. apply oeqb_neq in G.
  assert (W1 : wf (set_la s L ou)) by auto with st.
  assert (R : la (set_la s L ou) L = ou) by now apply la_set_la_same.
  match goal with |- bind ?X _ = _ => assert (H1 : X = Ok (detach_ul (set_la s L ou) (la s L))) end.
  { destruct (la s L) as [u0|] eqn:E0; cbn [detach_ul]; [|reflexivity].
    rewrite ul_set_la, (proj2 (I u0 L) E0), oeqb_refl.
    apply (u_detach_leaf (S f) _ u0 L W1); rewrite ?ul_set_la, ?R; [now apply I | congruence]. }
  rewrite H1. cbn [bind]. cbv zeta.
  set (s2 := detach_ul (set_la s L ou) (la s L)).
  assert (W2 : wf s2) by (unfold s2; auto with st).
  assert (EL : la s2 L = ou) by (unfold s2; now rewrite la_detach_ul).
  rewrite EL.
  destruct ou as [u|]; [|reflexivity].
  assert (Eu : ul s2 u = ul s u).
  { unfold s2. rewrite ul_detach_ul, ul_set_la by assumption.
    destruct (oeqb (la s L) (Some u)) eqn:G2; [apply oeqb_eq in G2; congruence | reflexivity]. }
  assert (El : forall K, la s2 K = la (set_la s L (Some u)) K) by (intro; unfold s2; apply la_detach_ul).
  rewrite (u_attach f s2 u L).
  - now rewrite Eu.
  - exact W2.
  - unfold s2. rewrite next_detach_ul. apply VL; reflexivity.
  - rewrite Eu. intro C. apply I in C. congruence.
  - exact EL.
  - intros L0 C. rewrite Eu in C. rewrite El, la_set_la by assumption.
    destruct (Nat.eqb_spec L L0); [reflexivity | now apply I].
Qed.


Ltac sat I := repeat match goal with
  | E : ul ?s ?a = Some ?b |- _ =>
      lazymatch goal with _ : la s b = Some a |- _ => fail | _ => pose proof (proj1 (I a b) E) end
  | E : la ?s ?b = Some ?a |- _ =>
      lazymatch goal with _ : ul s a = Some b |- _ => fail | _ => pose proof (proj2 (I a b) E) end
  end.
Ltac obool := repeat match goal with
  | H : oeqb _ _ = true |- _ => apply oeqb_eq in H
  | H : oeqb _ _ = false |- _ => apply oeqb_neq in H
  end.
Ltac split_guards := repeat match goal with
  | |- context [oeqb ?a ?b] => let G := fresh "G" in destruct (oeqb a b) eqn:G
  | |- context [Nat.eqb ?a ?b] => destruct (Nat.eqb_spec a b)
  end.

Lemma set_laws_result_reads s u oL : wf s -> u < next s -> (forall L, oL = Some L -> L < next s) ->
  oL <> ul s u ->
  (forall j, ul (set_laws_result s u oL) j =
     if match oL with Some L => oeqb (la s L) (Some j) | None => false end then None
     else if Nat.eqb u j then oL else ul s j) /\
  (forall K, la (set_laws_result s u oL) K =
     if oeqb oL (Some K) then Some u else if oeqb (ul s u) (Some K) then None else la s K).
Proof.
  intros W V VL G. unfold set_laws_result.
  destruct (oeqb oL (ul s u)) eqn:G1; [apply oeqb_eq in G1; contradiction|]. cbv zeta.
  assert (W1 : wf (set_ul s u oL)) by auto with st.
  destruct oL as [L|].
  - assert (VL' : L < next s) by now apply VL.
    assert (W2 : wf (detach_la (set_ul s u (Some L)) (ul s u))) by auto with st.
    assert (W3 : wf (set_la (detach_la (set_ul s u (Some L)) (ul s u)) L (Some u))) by auto with st.
    split; intro.
    + rewrite ul_detach_ul by assumption. rewrite ul_set_la, ul_detach_la. rewrite ul_set_ul by assumption. reflexivity.
    + rewrite la_detach_ul. rewrite la_set_la by (rewrite ?next_detach_la; assumption).
      rewrite la_detach_la by assumption. rewrite la_set_ul. cbn [oeqb]. reflexivity.
  - split; intro.
    + rewrite ul_detach_la. rewrite ul_set_ul by assumption. reflexivity.
    + rewrite la_detach_la by assumption. rewrite la_set_ul. reflexivity.
Qed.

Lemma set_laws_result_inv s u oL : wf s -> laws_inv s -> u < next s -> (forall L, oL = Some L -> L < next s) ->
  laws_inv (set_laws_result s u oL).
Proof.
  intros W I V VL. destruct (oeqb oL (ul s u)) eqn:G.
  { unfold set_laws_result. now rewrite G. }
  apply oeqb_neq in G. destruct (set_laws_result_reads s u oL W V VL G) as [RU RL].
  intros j K. rewrite RU, RL. clear RU RL.
  destruct oL as [L|]; split_guards; obool; subst; split; intro; sat I; try congruence.
Qed.

Lemma set_applies_result_reads s L ou : wf s -> L < next s -> (forall u, ou = Some u -> u < next s) ->
  ou <> la s L ->
  (forall K, la (set_applies_result s L ou) K =
     if match ou with Some u => oeqb (ul s u) (Some K) | None => false end then None
     else if Nat.eqb L K then ou else la s K) /\
  (forall j, ul (set_applies_result s L ou) j =
     if oeqb ou (Some j) then Some L else if oeqb (la s L) (Some j) then None else ul s j).
Proof.
  intros W V VL G. unfold set_applies_result.
  destruct (oeqb ou (la s L)) eqn:G1; [apply oeqb_eq in G1; contradiction|]. cbv zeta.
  assert (W1 : wf (set_la s L ou)) by auto with st.
  destruct ou as [u|].
  - assert (VL' : u < next s) by now apply VL.
    assert (W2 : wf (detach_ul (set_la s L (Some u)) (la s L))) by auto with st.
    assert (W3 : wf (set_ul (detach_ul (set_la s L (Some u)) (la s L)) u (Some L))) by auto with st.
    split; intro.
    + rewrite la_detach_la by assumption. rewrite la_set_ul, la_detach_ul. rewrite la_set_la by assumption. reflexivity.
    + rewrite ul_detach_la. rewrite ul_set_ul by (rewrite ?next_detach_ul; assumption).
      rewrite ul_detach_ul by assumption. rewrite ul_set_la. cbn [oeqb]. reflexivity.
  - split; intro.
    + rewrite la_detach_ul. rewrite la_set_la by assumption. reflexivity.
    + rewrite ul_detach_ul by assumption. rewrite ul_set_la. reflexivity.
Qed.

Lemma set_applies_result_inv s L ou : wf s -> laws_inv s -> L < next s -> (forall u, ou = Some u -> u < next s) ->
  laws_inv (set_applies_result s L ou).
Proof.
  intros W I V VL. destruct (oeqb ou (la s L)) eqn:G.
  { unfold set_applies_result. now rewrite G. }
  apply oeqb_neq in G. destruct (set_applies_result_reads s L ou W V VL G) as [RL RU].
  intros j K. rewrite RU, RL. clear RU RL.
  destruct ou as [u|]; split_guards; obool; subst; split; intro; sat I; try congruence.
Qed.

Lemma FUEL_3 : exists f, FUEL = S (S (S (S f))).
Proof. exists 4. reflexivity. Qed.

Theorem set_laws_full : forall s u oL, wf s -> laws_inv s -> u < next s -> (forall L, oL = Some L -> L < next s) ->
  exists s', u_set_laws FUEL s u oL = Ok s' /\ laws_inv s' /\ ul s' u = oL /\
             (forall L, oL = Some L -> la s' L = Some u) /\
             (forall u', u' <> u -> ul s' u' = ul s u' \/ (ul s u' = oL /\ oL <> None /\ ul s' u' = None)).
Proof.
  intros s u oL W I V VL. exists (set_laws_result s u oL).
  destruct FUEL_3 as [f ->].
  split; [now apply set_laws_exec|]. split; [now apply set_laws_result_inv|].
  destruct (oeqb oL (ul s u)) eqn:G.
  - unfold set_laws_result. rewrite G. apply oeqb_eq in G. subst oL.
    split; [reflexivity|]. split; [intros L E; now apply I | auto].
  - apply oeqb_neq in G. destruct (set_laws_result_reads s u oL W V VL G) as [RU RL].
    split; [|split].
    + rewrite RU, Nat.eqb_refl. destruct oL as [L|]; [|reflexivity].
      destruct (oeqb (la s L) (Some u)) eqn:G2; [|reflexivity].
      apply oeqb_eq, I in G2. congruence.
    + intros L ->. rewrite RL, oeqb_refl. reflexivity.
    + intros u' N. rewrite RU. destruct (Nat.eqb_spec u u'); [congruence|].
      destruct oL as [L|]; [|now left].
      destruct (oeqb (la s L) (Some u')) eqn:G2; [|now left].
      apply oeqb_eq, I in G2. right. repeat split; auto. discriminate.
Qed.

Theorem set_applies_full : forall s L ou, wf s -> laws_inv s -> L < next s -> (forall u, ou = Some u -> u < next s) ->
  exists s', l_set_applies FUEL s L ou = Ok s' /\ laws_inv s' /\ la s' L = ou /\
             (forall u, ou = Some u -> ul s' u = Some L) /\
             (forall L', L' <> L -> la s' L' = la s L' \/ (la s L' = ou /\ ou <> None /\ la s' L' = None)).
Proof.
  intros s L ou W I V VL. exists (set_applies_result s L ou).
  destruct FUEL_3 as [f ->].
  split; [now apply set_applies_exec|]. split; [now apply set_applies_result_inv|].
  destruct (oeqb ou (la s L)) eqn:G.
  - unfold set_applies_result. rewrite G. apply oeqb_eq in G. subst ou.
    split; [reflexivity|]. split; [intros u E; now apply I | auto].
  - apply oeqb_neq in G. destruct (set_applies_result_reads s L ou W V VL G) as [RL RU].
    split; [|split].
    + rewrite RL, Nat.eqb_refl. destruct ou as [u|]; [|reflexivity].
      destruct (oeqb (ul s u) (Some L)) eqn:G2; [|reflexivity].
      apply oeqb_eq, I in G2. congruence.
    + intros u ->. rewrite RU, oeqb_refl. reflexivity.
    + intros L' N. rewrite RL. destruct (Nat.eqb_spec L L'); [congruence|].
      destruct ou as [u|]; [|now left].
      destruct (oeqb (ul s u) (Some L')) eqn:G2; [|now left].
      apply oeqb_eq, I in G2. right. repeat split; auto. discriminate.
Qed.


Theorem set_laws_ok : forall s u oL, wf s -> laws_inv s -> u < next s -> (forall L, oL = Some L -> L < next s) ->
  exists s', u_set_laws FUEL s u oL = Ok s' /\ laws_inv s' /\ ul s' u = oL /\
             (forall L, oL = Some L -> la s' L = Some u).
Proof.
  intros s u oL W I V VL. destruct (set_laws_full s u oL W I V VL) as (s' & H1 & H2 & H3 & H4 & _).
  exists s'. auto.
Qed.
Theorem set_applies_ok : forall s L ou, wf s -> laws_inv s -> L < next s -> (forall u, ou = Some u -> u < next s) ->
  exists s', l_set_applies FUEL s L ou = Ok s' /\ laws_inv s' /\ la s' L = ou /\
             (forall u, ou = Some u -> ul s' u = Some L).
Proof.
  intros s L ou W I V VL. destruct (set_applies_full s L ou W I V VL) as (s' & H1 & H2 & H3 & H4 & _).
  exists s'. auto.
Qed.
(* the only other universe touched by u.laws = L is the one that previously held L (it ends with None) *)
Theorem set_laws_frame : forall s u oL s', wf s -> laws_inv s -> u < next s -> (forall L, oL = Some L -> L < next s) ->
  u_set_laws FUEL s u oL = Ok s' ->
  forall u', u' <> u -> ul s' u' = ul s u' \/ (ul s u' = oL /\ oL <> None /\ ul s' u' = None).
Proof.
  intros s u oL s' W I V VL E. destruct (set_laws_full s u oL W I V VL) as (s'' & H1 & _ & _ & _ & H5).
  rewrite E in H1. injection H1 as <-. exact H5.
Qed.
Theorem set_applies_frame : forall s L ou s', wf s -> laws_inv s -> L < next s -> (forall u, ou = Some u -> u < next s) ->
  l_set_applies FUEL s L ou = Ok s' ->
  forall L', L' <> L -> la s' L' = la s L' \/ (la s L' = ou /\ ou <> None /\ la s' L' = None).
Proof.
  intros s L ou s' W I V VL E. destruct (set_applies_full s L ou W I V VL) as (s'' & H1 & _ & _ & _ & H5).
  rewrite E in H1. injection H1 as <-. exact H5.
Qed.

Lemma wf_set_laws_result s u oL : wf s -> wf (set_laws_result s u oL).
Proof. intro W. unfold set_laws_result. destruct (oeqb _ _); auto. destruct oL; cbv zeta; auto with st. Qed.
Lemma wf_set_applies_result s L ou : wf s -> wf (set_applies_result s L ou).
Proof. intro W. unfold set_applies_result. destruct (oeqb _ _); auto. destruct ou; cbv zeta; auto with st. Qed.

Lemma ul_alloc s k i : wf s -> ul (alloc k s) i = ul s i.
Proof.
  intro W. destruct (lt_eq_lt_dec i (next s)) as [[H|H]|H].
  - now apply ul_alloc_old.
  - subst i. rewrite ul_alloc_new by assumption. symmetry. apply ul_outside; auto.
  - rewrite !ul_outside; auto with st. + lia. + rewrite next_alloc. lia.
Qed.
Lemma la_alloc s k i : wf s -> la (alloc k s) i = la s i.
Proof.
  intro W. destruct (lt_eq_lt_dec i (next s)) as [[H|H]|H].
  - now apply la_alloc_old.
  - subst i. rewrite la_alloc_new by assumption. symmetry. apply la_outside; auto.
  - rewrite !la_outside; auto with st. + lia. + rewrite next_alloc. lia.
Qed.
Lemma laws_inv_alloc s k : wf s -> laws_inv s -> laws_inv (alloc k s).
Proof. intros W I u L. rewrite ul_alloc, la_alloc by assumption. apply I. Qed.

Definition PI (s : state) : Prop := wf s /\ laws_inv s.
Lemma PI_vl s v x : PI s -> PI (set_vl s v x). Proof. intros [W I]; split; [auto with st | exact I]. Qed.
Lemma PI_lv s v x : PI s -> PI (set_lv s v x). Proof. intros [W I]; split; [auto with st | exact I]. Qed.
Lemma PI_ca s v x : PI s -> PI (set_ca s v x). Proof. intros [W I]; split; [auto with st | exact I]. Qed.
Lemma PI_vu s v x : PI s -> PI (set_vu s v x). Proof. intros [W I]; split; [auto with st | exact I]. Qed.
Lemma PI_uv s v x : PI s -> PI (set_uv s v x). Proof. intros [W I]; split; [auto with st | exact I]. Qed.
Lemma PI_cg s b : PI s -> PI (set_caching s b). Proof. intros [W I]; split; [auto with st | exact I]. Qed.
Lemma PI_al s k : PI s -> PI (alloc k s). Proof. intros [W I]; split; [auto with st | now apply laws_inv_alloc]. Qed.

Lemma u_set_laws_fresh f s u L : ul s u = None ->
  u_set_laws (S f) s u (Some L) = l_set_applies f (set_ul s u (Some L)) L (Some u).
Proof. intro E. cbn [u_set_laws]. rewrite E. cbn [oeqb bind]. reflexivity. Qed.

Lemma link_fresh_inv s u L : wf s -> laws_inv s -> u < next s -> L < next s -> ul s u = None -> la s L = None ->
  laws_inv (set_ul (set_la s L (Some u)) u (Some L)).
Proof.
  intros W I V VL Eu El j K.
  rewrite ul_set_ul by auto with st. rewrite ul_set_la, la_set_ul. rewrite la_set_la by assumption.
  split_guards; subst; split; intro; sat I; congruence.
Qed.

Lemma isu_lt s u : isu s u = true -> u < next s.
Proof. unfold isu. rewrite andb_true_iff. intros [H _]. now apply valid_lt. Qed.
Lemma isL_lt s u : isL s u = true -> u < next s.
Proof. unfold isL. rewrite andb_true_iff. intros [H _]. now apply valid_lt. Qed.
Lemma oisu_lt s o : oisu s o = true -> forall u, o = Some u -> u < next s.
Proof. intros H u ->. now apply isu_lt. Qed.
Lemma oisL_lt s o : oisL s o = true -> forall u, o = Some u -> u < next s.
Proof. intros H u ->. now apply isL_lt. Qed.

(* Universe(vertices, laws=L): the new universe u = next s points at L before L is told *)
Lemma new_universe_some s L : wf s -> laws_inv s -> L < next s ->
  let s0 := alloc KUniverse s in
  exists s2, l_set_applies FUEL (set_ul s0 (next s) (Some L)) L (Some (next s)) = Ok s2 /\ PI s2.
Proof.
  intros W I V s0.
  assert (W0 : wf s0) by (unfold s0; auto with st).
  assert (I0 : laws_inv s0) by (unfold s0; now apply laws_inv_alloc).
  assert (N0 : next s0 = S (next s)) by apply next_alloc.
  assert (E : ul s0 (next s) = None) by (unfold s0; now apply ul_alloc_new).
  exists (set_laws_result s0 (next s) (Some L)).
  rewrite <- (u_set_laws_fresh FUEL s0 (next s) L E).
  destruct FUEL_3 as [f ->]. split.
  - apply (set_laws_exec (S (S f))); auto; [lia | intros ? [= <-]; lia].
  - split; [now apply wf_set_laws_result|]. apply set_laws_result_inv; auto; [lia | intros ? [= <-]; lia].
Qed.

Lemma new_universe_none s : wf s -> laws_inv s ->
  let s0 := alloc KUniverse s in
  let s1 := set_ul (set_la (alloc KLaws s0) (next s0) (Some (next s))) (next s) (Some (next s0)) in
  l_set_applies FUEL s1 (next s0) (Some (next s)) = Ok s1 /\ PI s1.
Proof.
  intros W I s0 s1.
  assert (W0 : wf s0) by (unfold s0; auto with st).
  assert (I0 : laws_inv s0) by (unfold s0; now apply laws_inv_alloc).
  assert (N0 : next s0 = S (next s)) by apply next_alloc.
  assert (WA : wf (alloc KLaws s0)) by auto with st.
  assert (IA : laws_inv (alloc KLaws s0)) by now apply laws_inv_alloc.
  assert (NA : next (alloc KLaws s0) = S (next s0)) by apply next_alloc.
  split.
  - destruct FUEL_3 as [f ->]. apply l_set_applies_same. unfold s1.
    rewrite la_set_ul. apply la_set_la_same; auto. lia.
  - split; [unfold s1; auto with st|]. unfold s1. apply link_fresh_inv; auto; try lia.
    + rewrite ul_alloc by assumption. unfold s0. now apply ul_alloc_new.
    + now apply la_alloc_new.
Qed.


Lemma PI_new_edge s k a b : PI s -> PI (res_state (fst (new_edge s k a b))).
Proof.
  intro Hs. unfold new_edge. destruct (_ || _); cbn [fst res_state]; auto.
  cbn [seq_ores]. apply P_bind. { apply P_l_add_vertex; auto using PI_vl, PI_lv, PI_ca, PI_al. }
  intros s1 H1. apply P_bind. { apply P_l_add_vertex; auto using PI_vl, PI_lv, PI_ca. }
  intros; cbn [res_state]; auto.
Qed.

Lemma PI_step s o : PI s -> (forall u, o <> NewLaws (Some u)) -> PI (fst (step s o)).
Proof.
  intros Hs NL. pose proof Hs as [W I]. unfold step.
  destruct (negb (well_typed s o)) eqn:WT; [exact Hs|]. apply negb_false_iff in WT.
  destruct o; cbn [fst snd].
  - (* NewVertex *)
    match goal with |- PI (fst (let '(r, out) := ok_or ?R ?V in _)) => assert (HR : PI (res_state R)) end.
    { apply P_bind.
      - apply P_seq_res; auto using PI_vu, PI_al. intros. apply P_v_add_to_link; auto using PI_vl, PI_lv, PI_ca.
      - intros s1 H1. apply P_seq_res; auto. intros. apply P_u_add_vertex; auto using PI_vu, PI_uv. }
    destruct (bind _ _); cbn in *; auto.
  - (* NewUniverse *)
    cbn [well_typed] in WT. apply andb_true_iff in WT as [_ WT].
    destruct oL as [L|].
    + destruct (new_universe_some s L W I (isL_lt _ _ WT)) as (s2 & E & H2). cbv zeta in E.
      match goal with |- PI (fst (let '(r, out) := ok_or ?R ?V in _)) => assert (HR : PI (res_state R)) end.
      { rewrite E. cbn [bind]. apply P_seq_res; auto. intros. apply P_u_add_vertex; auto using PI_vu, PI_uv. }
      destruct (bind _ _); cbn in *; auto.
    + destruct (new_universe_none s W I) as (E & H2). cbv zeta in E, H2.
      match goal with |- PI (fst (let '(r, out) := ok_or ?R ?V in _)) => assert (HR : PI (res_state R)) end.
      { rewrite E. cbn [bind]. apply P_seq_res; auto. intros. apply P_u_add_vertex; auto using PI_vu, PI_uv. }
      destruct (bind _ _); cbn in *; auto.
  - (* NewLaws *)
    destruct ou as [u|]; [exfalso; now apply (NL u)|]. cbn [fst res_state].
    assert (WA : wf (alloc KLaws s)) by auto with st.
    split; [auto with st|]. intros j K. rewrite ul_set_la, la_set_la_None by assumption.
    rewrite ul_alloc, la_alloc by assumption.
    destruct (Nat.eqb_spec (next s) K); [|apply I]. subst K.
    split; [|discriminate]. intro C. apply I in C. rewrite la_outside in C; auto. 
  - pose proof (PI_new_edge s k a b Hs). destruct (new_edge s k a b). cbn in *. auto.
  - pose proof (P_l_set_end PI PI_vl PI_lv PI_ca FUEL s l 0 ov Hs). destruct (l_set_end _ _ _ _ _); cbn in *; auto.
  - pose proof (P_l_set_end PI PI_vl PI_lv PI_ca FUEL s l 1 ov Hs). destruct (l_set_end _ _ _ _ _); cbn in *; auto.
  - pose proof (P_v_add_to_link PI PI_vl PI_lv PI_ca FUEL s v l Hs). destruct (v_add_to_link _ _ _ _); cbn in *; auto.
  - pose proof (P_v_remove_from_link PI PI_vl PI_lv PI_ca FUEL s v l Hs). destruct (v_remove_from_link _ _ _ _); cbn in *; auto.
  - pose proof (P_l_add_vertex PI PI_vl PI_lv PI_ca FUEL s l ov Hs). destruct (l_add_vertex _ _ _ _); cbn in *; auto.
  - pose proof (P_l_unlink_from PI PI_vl PI_lv PI_ca FUEL s l ov Hs). destruct (l_unlink_from _ _ _ _); cbn in *; auto.
  - (* LinkFromTo *)
    destruct (if dontdup then _ else _) as [[l|]|]; cbn; auto.
    pose proof (PI_new_edge s k (Some a) (Some b) Hs). destruct (new_edge _ _ _ _). cbn in *. auto.
  - (* Unlink *)
    destruct (find_links _ _ _ _ _ _ _) as [links|e]; cbn; auto.
    match goal with |- PI (fst (let '(r, out) := ok_or ?R ?V in _)) => assert (HR : PI (res_state R)) end.
    { apply P_seq_res; auto. intros s1 l H1. cbn beta. apply P_bind.
      { cbn beta. apply P_l_unlink_from; auto using PI_vl, PI_lv, PI_ca. }
      intros. cbn beta. apply P_l_unlink_from; auto using PI_vl, PI_lv, PI_ca. }
    destruct (seq_res _ _ _); cbn in *; auto.
  - pose proof (P_u_add_vertex PI PI_vu PI_uv FUEL s u v Hs). destruct (u_add_vertex _ _ _ _); cbn in *; auto.
  - pose proof (P_u_remove_vertex PI PI_vu PI_uv FUEL s u v Hs). destruct (u_remove_vertex _ _ _ _); cbn in *; auto.
  - pose proof (P_v_add_to_universe PI PI_vu PI_uv FUEL s v u Hs). destruct (v_add_to_universe _ _ _ _); cbn in *; auto.
  - pose proof (P_v_remove_from_universe PI PI_vu PI_uv FUEL s v u Hs). destruct (v_remove_from_universe _ _ _ _); cbn in *; auto.
  - (* SetLaws *)
    cbn [well_typed] in WT. apply andb_true_iff in WT as [WT1 WT2].
    destruct (set_laws_ok s u oL W I (isu_lt _ _ WT1) (oisL_lt _ _ WT2)) as (s' & E & I' & _).
    pose proof (P_u_set_laws wf wf_set_ul wf_set_la FUEL s u oL W) as W'.
    rewrite E in *. cbn in *. split; auto.
  - (* SetAppliesTo *)
    cbn [well_typed] in WT. apply andb_true_iff in WT as [WT1 WT2].
    destruct (set_applies_ok s L ou W I (isL_lt _ _ WT1) (oisu_lt _ _ WT2)) as (s' & E & I' & _).
    pose proof (P_l_set_applies wf wf_set_ul wf_set_la FUEL s L ou W) as W'.
    rewrite E in *. cbn in *. split; auto.
  - cbn. now apply PI_cg.
Qed.


Theorem laws_inv_step : forall s o, wf s -> laws_inv s -> (forall u, o <> NewLaws (Some u)) -> laws_inv (fst (step s o)).
Proof. intros s o W I NL. apply PI_step; [split; auto | exact NL]. Qed.

Lemma laws_inv_empty : laws_inv empty.
Proof. intros u L. unfold ul, la, get, empty; cbn. destruct u, L; split; discriminate. Qed.

Lemma PI_run ops : forall s, PI s -> (forall o u, In o ops -> o <> NewLaws (Some u)) -> PI (run ops s).
Proof.
  induction ops as [|o r IH]; cbn [run fold_left]; intros s Hs NL; [exact Hs|].
  apply IH.
  - apply PI_step; [exact Hs | intro u; apply NL; now left].
  - intros o' u Hin. apply NL. now right.
Qed.

Theorem laws_inv_run : forall ops s, wf s -> laws_inv s ->
  (forall o u, In o ops -> o <> NewLaws (Some u)) -> laws_inv (run ops s).
Proof. intros ops s W I NL. apply PI_run; [split; auto | exact NL]. Qed.

Theorem laws_inv_reachable : forall ops, (forall o u, In o ops -> o <> NewLaws (Some u)) -> laws_inv (run ops empty).
Proof. intros ops NL. apply laws_inv_run; auto using wf_empty, laws_inv_empty. Qed.

Theorem set_laws_never_raises : forall s u oL, wf s -> laws_inv s ->
  well_typed s (SetLaws u oL) = true -> snd (step s (SetLaws u oL)) = Ret VNone.
Proof.
  intros s u oL W I WT. unfold step. rewrite WT. cbn [negb].
  cbn [well_typed] in WT. apply andb_true_iff in WT as [WT1 WT2].
  destruct (set_laws_ok s u oL W I (isu_lt _ _ WT1) (oisL_lt _ _ WT2)) as (s' & E & _).
  rewrite E. reflexivity.
Qed.
Theorem set_applies_never_raises : forall s L ou, wf s -> laws_inv s ->
  well_typed s (SetAppliesTo L ou) = true -> snd (step s (SetAppliesTo L ou)) = Ret VNone.
Proof.
  intros s L ou W I WT. unfold step. rewrite WT. cbn [negb].
  cbn [well_typed] in WT. apply andb_true_iff in WT as [WT1 WT2].
  destruct (set_applies_ok s L ou W I (isL_lt _ _ WT1) (oisu_lt _ _ WT2)) as (s' & E & _).
  rewrite E. reflexivity.
Qed.
(* the excluded constructor really breaks the invariant: Universe(); UniverseLaws(applies_to=that universe) *)
Lemma new_laws_some_breaks : ~ laws_inv (run [NewUniverse [] None; NewLaws (Some 0)] empty).
Proof. intro H. destruct (H 0 2) as [_ H2]. vm_compute in H2. discriminate (H2 eq_refl). Qed.

Print Assumptions laws_inv_reachable.
Print Assumptions set_laws_full.
Print Assumptions set_applies_full.
Print Assumptions laws_inv_step.
