(* TravState.v — the traversals and searches of Trav.v instantiated on a heap state:
   neighbours come from Nbrs.neighbors_pure, the universe from Universe._vertices.
   Model-side file: definitions only. *)
From EG Require Import Base State Nbrs Trav.

(* enough fuel for every loop on a heap with duplicate-free link lists: at most (n+2)^2 pops *)
Definition trav_fuel (s : state) : nat := (next s + 2) * (next s + 2).

Section OnState.
  Variable filt : nat -> nat -> option nat -> bool.
  Definition t_nb (s : state) (d : dirn) (u : unk) (fv : option nat) : nat -> nres :=
    fun v => neighbors_pure filt s v d u fv.
  Definition t_uni (s : state) (ou : option nat) : option (list nat) :=
    match ou with Some u => Some (uv s u) | None => None end.

  Definition s_bft s ou start d u fv (fr : node -> bool) := bft (t_nb s d u fv) (t_uni s ou) fr (trav_fuel s) start.
  Definition s_dft_rec s ou start d u fv (fr : node -> bool) := dft_rec (t_nb s d u fv) (t_uni s ou) fr (trav_fuel s) start.
  Definition s_dft_iter s ou start d u fv (fr : node -> bool) := dft_iter (t_nb s d u fv) (t_uni s ou) fr (trav_fuel s) start.
  (* the searches call neighbors() with its default settings *)
  Definition s_bfs s ou start (m : node -> bool) := bfs (t_nb s Fwd UErr None) (t_uni s ou) m (trav_fuel s) start.
  Definition s_dfs_rec s ou start (m : node -> bool) := dfs_rec (t_nb s Fwd UErr None) (t_uni s ou) m (trav_fuel s) start.
  Definition s_dfs_iter s ou start (m : node -> bool) := dfs_iter (t_nb s Fwd UErr None) (t_uni s ou) m (trav_fuel s) start.
End OnState.

(* ff_result tables of the generated cases (harness twin: queryh.std_fres): none = keep all *)
Definition std_fres (fid : option nat) (v : node) : bool :=
  match fid with
  | None | Some 0 => true
  | Some 1 => false
  | Some _ => match v with Some x => Nat.even x | None => false end
  end.
