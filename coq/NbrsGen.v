(* NbrsGen.v — proof obligations over the translator output (gen/GenNbrs.v, regenerated from
   /repo/edgegraph/traversal/helpers.py on every run): the regenerated per-link cascades decide
   exactly as the hand-written ones, on every row of the finite decision space; hence the loop
   bodies of the model (Nbrs.nb_link / fl_link), about which all C04/C09 theorems are stated,
   are the ones the source has now. *)
From EG Require Import Base State Nbrs NbrsDecide GenNbrs.
From EG Require Export NbrsLink.

Theorem gen_nb_decide_ok : forall d u k_und k_dir e1 e2 fk,
  gen_nb_decide d u k_und k_dir e1 e2 fk = nb_decide d u k_und k_dir e1 e2 fk.
Proof. intros [] [] [] [] [] [] []; reflexivity. Qed.

Theorem gen_fl_decide_ok : forall ds u k_und k_dir e1 joins fk,
  gen_fl_decide ds u k_und k_dir e1 joins fk = fl_decide ds u k_und k_dir e1 joins fk.
Proof. intros [] [] [] [] [] [] []; reflexivity. Qed.

(* the loop bodies as regenerated from the source *)
Corollary nb_link_is_generated : forall filt s v d u f l,
  nb_link filt s v d u f l = nb_link_via filt gen_nb_decide s v d u f l.
Proof.
  intros. rewrite nb_link_is_decide. unfold nb_link_via. destruct (other s l (Some v)); [reflexivity|].
  first [ now rewrite gen_nb_decide_ok | reflexivity ].   (* reflexivity: the translator fell back to the hand cascade *)
Qed.
Corollary fl_link_is_generated : forall ffl s a b ds u f l,
  fl_link ffl s a b ds u f l = fl_link_via ffl gen_fl_decide s a b ds u f l.
Proof.
  intros. rewrite fl_link_is_decide. unfold fl_link_via. destruct (other s l (Some a)); [reflexivity|].
  first [ now rewrite gen_fl_decide_ok | reflexivity ].
Qed.
