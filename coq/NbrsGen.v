(* NbrsGen.v — proof obligations over the translator output (gen/GenNbrs.v, regenerated from
   /repo/edgegraph/traversal/helpers.py on every run): the regenerated per-link cascades decide
   exactly as the hand-written ones, on every row of the finite decision space; hence the loop
   bodies of the model (Nbrs.nb_link / fl_link), about which all C04/C09 theorems are stated,
   are the ones the source has now. *)
From EG Require Import Base State Nbrs NbrsDecide GenNbrs.

Theorem gen_nb_decide_ok : forall d u k_und k_dir e1 e2 fk,
  gen_nb_decide d u k_und k_dir e1 e2 fk = nb_decide d u k_und k_dir e1 e2 fk.
Proof. intros [] [] [] [] [] [] []; reflexivity. Qed.

Theorem gen_fl_decide_ok : forall ds u k_und k_dir e1 joins fk,
  gen_fl_decide ds u k_und k_dir e1 joins fk = fl_decide ds u k_und k_dir e1 joins fk.
Proof. intros [] [] [] [] [] [] []; reflexivity. Qed.

Theorem nb_link_is_decide : forall filt s v d u f l,
  nb_link filt s v d u f l = nb_link_via filt nb_decide s v d u f l.
Proof.
  intros. unfold nb_link, nb_link_via. destruct (other s l (Some v)); [reflexivity|].
  unfold nb_decide. destruct d, u, (is_undirected (kd s l)), (is_directed (kd s l)), (is_end1 s l v), (is_end2 s l v),
    (fok filt f l o); reflexivity.
Qed.
Theorem fl_link_is_decide : forall ffl s a b ds u f l,
  fl_link ffl s a b ds u f l = fl_link_via ffl fl_decide s a b ds u f l.
Proof.
  intros. unfold fl_link, fl_link_via. destruct (other s l (Some a)); [reflexivity|].
  unfold fl_decide. destruct ds, u, (oeqb o (Some b)), (is_undirected (kd s l)), (is_directed (kd s l)), (is_end1 s l a),
    (ffok ffl f l); reflexivity.
Qed.

(* the loop bodies as regenerated from the source *)
Corollary nb_link_is_generated : forall filt s v d u f l,
  nb_link filt s v d u f l = nb_link_via filt gen_nb_decide s v d u f l.
Proof.
  intros. rewrite nb_link_is_decide. unfold nb_link_via. destruct (other s l (Some v)); [reflexivity|].
  now rewrite gen_nb_decide_ok.
Qed.
Corollary fl_link_is_generated : forall ffl s a b ds u f l,
  fl_link ffl s a b ds u f l = fl_link_via ffl gen_fl_decide s a b ds u f l.
Proof.
  intros. rewrite fl_link_is_decide. unfold fl_link_via. destruct (other s l (Some a)); [reflexivity|].
  now rewrite gen_fl_decide_ok.
Qed.
