(* UniProofs.v — universe membership (Vertex/BaseObject._universes  <->  Universe._vertices).

   What is proved here (all machine-checked, stdlib only, no axioms):

   1. Closed forms of the four fuelled mutually recursive methods of Struct.v
        u_add_vertex / v_add_to_universe / u_remove_vertex / v_remove_from_universe
      for every fuel >= 3 (u_add_vertex_spec, v_add_to_universe_spec, u_remove_vertex_spec,
      v_remove_from_universe_spec): the mutual recursion bottoms out after at most two
      nested calls, never runs out of fuel, and the only exception is the ValueError of
      list.remove on a non-member.  The two removals need duplicate-free lists.

   2. The invariant  uni_inv s  :=  membership is symmetric (v in u._vertices <-> u in
      v._universes, for ALL ids) and both kinds of lists are duplicate-free.
      It is preserved by every operation of the modelled API (uni_inv_step), on normal and
      on raising exits, hence holds in every reachable state (uni_inv_reachable).

   3. The documented effects of the eight membership operations at step level
      (uadd_new, uadd_member_noop, uremove_member, uremove_nonmember_raises and the four
      v* twins): insertion appends at the END of both lists and moves nothing else, adding a
      member is a no-op returning None, removing a member deletes exactly that entry on both
      sides, removing a non-member raises ValueError and leaves the state untouched.
      new_vertex_universes: Vertex(universes=us) ends with _universes = us de-duplicated
      (first occurrences, in order), is appended to each of those universes, and no other
      universe changes.                                                                    *)
From EG Require Import Base Lemmas State StateLemmas Nbrs Struct Footprint.

Definition uni_sym (s : state) : Prop := forall u v, In v (uv s u) <-> In u (vu s v).
Definition uni_nodup (s : state) : Prop := (forall u, NoDup (uv s u)) /\ (forall v, NoDup (vu s v)).
Definition uni_inv (s : state) : Prop := uni_sym s /\ uni_nodup s.

(* ---------------------------------------------------------------------------------------- *)
(* small read lemmas                                                                        *)
Lemma uv_set_vu s v x u : uv (set_vu s v x) u = uv s u. Proof. reflexivity. Qed.
Lemma vu_set_uv s u x v : vu (set_uv s u x) v = vu s v. Proof. reflexivity. Qed.
Lemma set_vu_uv_comm s u v X Y : set_uv (set_vu s v Y) u X = set_vu (set_uv s u X) v Y.
Proof. reflexivity. Qed.

Lemma FUEL_eq : FUEL = S (S (S 5)). Proof. reflexivity. Qed.

(* one-step unfoldings (definitional) *)
Lemma u_add_S f s u v : u_add_vertex (S f) s u v =
  if memn v (uv s u) then Ok s
  else let s1 := set_uv s u (uv s u ++ [v]) in
       if memn u (vu s1 v) then Ok s1 else v_add_to_universe f s1 v u.
Proof. reflexivity. Qed.
Lemma v_add_S f s v u : v_add_to_universe (S f) s v u =
  let s1 := if memn u (vu s v) then s else set_vu s v (vu s v ++ [u]) in
  if memn v (uv s1 u) then Ok s1 else u_add_vertex f s1 u v.
Proof. reflexivity. Qed.
Lemma u_rem_S f s u v : u_remove_vertex (S f) s u v =
  if memn v (uv s u) then
    let s1 := set_uv s u (remove1 v (uv s u)) in
    if memn u (vu s1 v) then v_remove_from_universe f s1 v u else Ok s1
  else Raise ValueError s.
Proof. reflexivity. Qed.
Lemma v_rem_S f s v u : v_remove_from_universe (S f) s v u =
  if memn u (vu s v) then
    let s1 := set_vu s v (remove1 u (vu s v)) in
    if memn v (uv s1 u) then u_remove_vertex f s1 u v else Ok s1
  else Raise ValueError s.
Proof. reflexivity. Qed.

(* ---------------------------------------------------------------------------------------- *)
(* 1. closed forms for fuel >= 3                                                            *)
Lemma u_add_vertex_spec f s u v : wf s -> u < next s -> v < next s ->
  u_add_vertex (S (S (S f))) s u v =
    if memn v (uv s u) then Ok s
    else let s1 := set_uv s u (uv s u ++ [v]) in
         if memn u (vu s v) then Ok s1 else Ok (set_vu s1 v (vu s v ++ [u])).
Proof.
  intros W Hu Hv. rewrite u_add_S.
  destruct (memn v (uv s u)) eqn:E1; [reflexivity|].
  cbv zeta. rewrite vu_set_uv. destruct (memn u (vu s v)) eqn:E2; [reflexivity|].
  rewrite v_add_S. cbv zeta. rewrite vu_set_uv, E2, uv_set_vu.
  rewrite uv_set_uv_same by auto. rewrite memn_snoc. reflexivity.
Qed.

Lemma v_add_to_universe_spec f s v u : wf s -> u < next s -> v < next s ->
  v_add_to_universe (S (S (S f))) s v u =
    let s1 := if memn u (vu s v) then s else set_vu s v (vu s v ++ [u]) in
    if memn v (uv s u) then Ok s1 else Ok (set_uv s1 u (uv s u ++ [v])).
Proof.
  intros W Hu Hv. rewrite v_add_S. cbv zeta.
  destruct (memn u (vu s v)) eqn:E2.
  - destruct (memn v (uv s u)) eqn:E1; [reflexivity|].
    rewrite u_add_S, E1. cbv zeta. rewrite vu_set_uv, E2. reflexivity.
  - rewrite uv_set_vu. destruct (memn v (uv s u)) eqn:E1; [reflexivity|].
    rewrite u_add_S, uv_set_vu, E1. cbv zeta. rewrite vu_set_uv.
    rewrite vu_set_vu_same by auto. rewrite memn_snoc. reflexivity.
Qed.

Lemma u_remove_vertex_spec f s u v : wf s -> u < next s -> v < next s -> uni_nodup s ->
  u_remove_vertex (S (S (S f))) s u v =
    if memn v (uv s u) then
      let s1 := set_uv s u (remove1 v (uv s u)) in
      if memn u (vu s v) then Ok (set_vu s1 v (remove1 u (vu s v))) else Ok s1
    else Raise ValueError s.
Proof.
  intros W Hu Hv [Nu Nv]. rewrite u_rem_S.
  destruct (memn v (uv s u)) eqn:E1; [|reflexivity].
  cbv zeta. rewrite vu_set_uv. destruct (memn u (vu s v)) eqn:E2; [|reflexivity].
  rewrite v_rem_S, vu_set_uv, E2. cbv zeta. rewrite uv_set_vu.
  rewrite uv_set_uv_same by auto. rewrite memn_remove1_nodup by auto. reflexivity.
Qed.

Lemma v_remove_from_universe_spec f s v u : wf s -> u < next s -> v < next s -> uni_nodup s ->
  v_remove_from_universe (S (S (S f))) s v u =
    if memn u (vu s v) then
      let s1 := set_vu s v (remove1 u (vu s v)) in
      if memn v (uv s u) then Ok (set_uv s1 u (remove1 v (uv s u))) else Ok s1
    else Raise ValueError s.
Proof.
  intros W Hu Hv [Nu Nv]. rewrite v_rem_S.
  destruct (memn u (vu s v)) eqn:E2; [|reflexivity].
  cbv zeta. rewrite uv_set_vu. destruct (memn v (uv s u)) eqn:E1; [|reflexivity].
  rewrite u_rem_S, uv_set_vu, E1. cbv zeta. rewrite vu_set_uv.
  rewrite vu_set_vu_same by auto. rewrite memn_remove1_nodup by auto. reflexivity.
Qed.

(* ---------------------------------------------------------------------------------------- *)
(* the four methods at the library's fuel, under the invariant                              *)
Section AtFuel.
  Variable s : state.
  Hypothesis W : wf s.
  Hypothesis I : uni_inv s.
  Variables u v : nat.
  Hypothesis Hu : u < next s.
  Hypothesis Hv : v < next s.

  Let added := set_vu (set_uv s u (uv s u ++ [v])) v (vu s v ++ [u]).
  Let removed := set_vu (set_uv s u (remove1 v (uv s u))) v (remove1 u (vu s v)).

  Lemma mem_sym_t : In v (uv s u) -> memn v (uv s u) = true /\ memn u (vu s v) = true.
  Proof. intro H. split; apply memn_In; auto. now apply I. Qed.
  Lemma mem_sym_f : ~ In v (uv s u) -> memn v (uv s u) = false /\ memn u (vu s v) = false.
  Proof. intro H. split; apply memn_nIn; auto. intro. apply H. now apply I. Qed.

  Lemma u_add_member : In v (uv s u) -> u_add_vertex FUEL s u v = Ok s.
  Proof. intro H. rewrite FUEL_eq, u_add_vertex_spec by auto. destruct (mem_sym_t H) as [-> _]. reflexivity. Qed.
  Lemma u_add_new : ~ In v (uv s u) -> u_add_vertex FUEL s u v = Ok added.
  Proof. intro H. rewrite FUEL_eq, u_add_vertex_spec by auto. destruct (mem_sym_f H) as [-> ->]. reflexivity. Qed.
  Lemma v_add_member : In v (uv s u) -> v_add_to_universe FUEL s v u = Ok s.
  Proof. intro H. rewrite FUEL_eq, v_add_to_universe_spec by auto. destruct (mem_sym_t H) as [-> ->]. reflexivity. Qed.
  Lemma v_add_new : ~ In v (uv s u) -> v_add_to_universe FUEL s v u = Ok added.
  Proof. intro H. rewrite FUEL_eq, v_add_to_universe_spec by auto. destruct (mem_sym_f H) as [-> ->]. reflexivity. Qed.
  Lemma u_rem_member : In v (uv s u) -> u_remove_vertex FUEL s u v = Ok removed.
  Proof. intro H. rewrite FUEL_eq, u_remove_vertex_spec by (auto; apply I). destruct (mem_sym_t H) as [-> ->]. reflexivity. Qed.
  Lemma u_rem_nonmember : ~ In v (uv s u) -> u_remove_vertex FUEL s u v = Raise ValueError s.
  Proof. intro H. rewrite FUEL_eq, u_remove_vertex_spec by (auto; apply I). destruct (mem_sym_f H) as [-> _]. reflexivity. Qed.
  Lemma v_rem_member : In v (uv s u) -> v_remove_from_universe FUEL s v u = Ok removed.
  Proof. intro H. rewrite FUEL_eq, v_remove_from_universe_spec by (auto; apply I). destruct (mem_sym_t H) as [-> ->]. reflexivity. Qed.
  Lemma v_rem_nonmember : ~ In v (uv s u) -> v_remove_from_universe FUEL s v u = Raise ValueError s.
  Proof. intro H. rewrite FUEL_eq, v_remove_from_universe_spec by (auto; apply I). destruct (mem_sym_f H) as [_ ->]. reflexivity. Qed.

  (* reads of a state written once at (u, uverts) and once at (v, vunis) *)
  Lemma reads_written X Y : let s' := set_vu (set_uv s u X) v Y in
    uv s' u = X /\ vu s' v = Y /\
    (forall u', u' <> u -> uv s' u' = uv s u') /\ (forall v', v' <> v -> vu s' v' = vu s v').
  Proof.
    cbv zeta. repeat split.
    - rewrite uv_set_vu. now apply uv_set_uv_same.
    - apply vu_set_vu_same; auto with st.
    - intros u' D. rewrite uv_set_vu. apply uv_set_uv_other. congruence.
    - intros v' D. rewrite vu_set_vu_other by congruence. apply vu_set_uv.
  Qed.
End AtFuel.

(* ---------------------------------------------------------------------------------------- *)
(* abstract preservation: a state that differs by one appended / removed pair               *)
Lemma in_remove1_iff x y l : NoDup l -> (In y (remove1 x l) <-> In y l /\ y <> x).
Proof.
  intro N. split.
  - intro H. split; [eapply in_remove1; eauto|]. intros ->. eapply remove1_notin; eauto.
  - intros [H D]. apply in_remove1_neq; auto.
Qed.

Lemma uni_inv_add s s' u v :
  uni_inv s -> ~ In v (uv s u) ->
  uv s' u = uv s u ++ [v] -> vu s' v = vu s v ++ [u] ->
  (forall u', u' <> u -> uv s' u' = uv s u') -> (forall v', v' <> v -> vu s' v' = vu s v') ->
  uni_inv s'.
Proof.
  intros [Sy [Nu Nv]] Hn Hu Hv Hou Hov. unfold uni_sym in Sy.
  assert (Hn' : ~ In u (vu s v)) by (rewrite <- Sy; auto).
  split; [|split].
  - intros u' v'. destruct (Nat.eq_dec u' u) as [->|Du]; destruct (Nat.eq_dec v' v) as [->|Dv].
    + rewrite Hu, Hv, !in_app_iff. cbn. tauto.
    + rewrite Hu, (Hov _ Dv), in_app_iff. cbn. specialize (Sy u v'). intuition congruence.
    + rewrite (Hou _ Du), Hv, in_app_iff. cbn. specialize (Sy u' v). intuition congruence.
    + rewrite Hou, Hov by auto. apply Sy.
  - intro u'. destruct (Nat.eq_dec u' u) as [->|Du].
    + rewrite Hu. apply NoDup_app_snoc; auto.
    + rewrite Hou; auto.
  - intro v'. destruct (Nat.eq_dec v' v) as [->|Dv].
    + rewrite Hv. apply NoDup_app_snoc; auto.
    + rewrite Hov; auto.
Qed.

Lemma uni_inv_remove s s' u v :
  uni_inv s ->
  uv s' u = remove1 v (uv s u) -> vu s' v = remove1 u (vu s v) ->
  (forall u', u' <> u -> uv s' u' = uv s u') -> (forall v', v' <> v -> vu s' v' = vu s v') ->
  uni_inv s'.
Proof.
  intros [Sy [Nu Nv]] Hu Hv Hou Hov. unfold uni_sym in Sy.
  split; [|split].
  - intros u' v'. destruct (Nat.eq_dec u' u) as [->|Du]; destruct (Nat.eq_dec v' v) as [->|Dv].
    + rewrite Hu, Hv, !in_remove1_iff by auto. intuition congruence.
    + rewrite Hu, (Hov _ Dv), in_remove1_iff by auto. specialize (Sy u v'). intuition congruence.
    + rewrite (Hou _ Du), Hv, in_remove1_iff by auto. specialize (Sy u' v). intuition congruence.
    + rewrite Hou, Hov by auto. apply Sy.
  - intro u'. destruct (Nat.eq_dec u' u) as [->|Du].
    + rewrite Hu. apply NoDup_remove1; auto.
    + rewrite Hou; auto.
  - intro v'. destruct (Nat.eq_dec v' v) as [->|Dv].
    + rewrite Hv. apply NoDup_remove1; auto.
    + rewrite Hov; auto.
Qed.

Lemma uni_inv_added s u v : wf s -> uni_inv s -> u < next s -> v < next s -> ~ In v (uv s u) ->
  uni_inv (set_vu (set_uv s u (uv s u ++ [v])) v (vu s v ++ [u])).
Proof.
  intros W I Hu Hv Hn.
  destruct (reads_written s W u v Hu Hv (uv s u ++ [v]) (vu s v ++ [u])) as (A & B & C & D).
  eapply uni_inv_add; eauto.
Qed.
Lemma uni_inv_removed s u v : wf s -> uni_inv s -> u < next s -> v < next s ->
  uni_inv (set_vu (set_uv s u (remove1 v (uv s u))) v (remove1 u (vu s v))).
Proof.
  intros W I Hu Hv.
  destruct (reads_written s W u v Hu Hv (remove1 v (uv s u)) (remove1 u (vu s v))) as (A & B & C & D).
  eapply uni_inv_remove; eauto.
Qed.

(* each of the four methods keeps wf, next and the invariant (also on the raising exit) *)
Definition good (n : nat) (s : state) : Prop := wf s /\ next s = n /\ uni_inv s.

Lemma good_added s u v : good (next s) s -> u < next s -> v < next s -> ~ In v (uv s u) ->
  good (next s) (set_vu (set_uv s u (uv s u ++ [v])) v (vu s v ++ [u])).
Proof. intros (W & _ & I) Hu Hv Hn. split; [|split]; auto with st. now apply uni_inv_added. Qed.
Lemma good_removed s u v : good (next s) s -> u < next s -> v < next s ->
  good (next s) (set_vu (set_uv s u (remove1 v (uv s u))) v (remove1 u (vu s v))).
Proof. intros (W & _ & I) Hu Hv. split; [|split]; auto with st. now apply uni_inv_removed. Qed.

Lemma in_dec_nat (x : nat) l : {In x l} + {~ In x l}.
Proof. apply in_dec, Nat.eq_dec. Qed.

Lemma good_u_add s u v : good (next s) s -> u < next s -> v < next s ->
  exists s', u_add_vertex FUEL s u v = Ok s' /\ good (next s) s'.
Proof.
  intros G Hu Hv. pose proof G as (W & _ & I). destruct (in_dec_nat v (uv s u)) as [H|H].
  - exists s. split; auto. now apply u_add_member.
  - eexists. split; [now apply u_add_new|]. now apply good_added.
Qed.
Lemma good_v_add s u v : good (next s) s -> u < next s -> v < next s ->
  exists s', v_add_to_universe FUEL s v u = Ok s' /\ good (next s) s'.
Proof.
  intros G Hu Hv. pose proof G as (W & _ & I). destruct (in_dec_nat v (uv s u)) as [H|H].
  - exists s. split; auto. now apply v_add_member.
  - eexists. split; [now apply v_add_new|]. now apply good_added.
Qed.
Lemma good_u_rem s u v : good (next s) s -> u < next s -> v < next s ->
  good (next s) (res_state (u_remove_vertex FUEL s u v)).
Proof.
  intros G Hu Hv. pose proof G as (W & _ & I). destruct (in_dec_nat v (uv s u)) as [H|H].
  - rewrite u_rem_member by auto. now apply good_removed.
  - rewrite u_rem_nonmember by auto. exact G.
Qed.
Lemma good_v_rem s u v : good (next s) s -> u < next s -> v < next s ->
  good (next s) (res_state (v_remove_from_universe FUEL s v u)).
Proof.
  intros G Hu Hv. pose proof G as (W & _ & I). destruct (in_dec_nat v (uv s u)) as [H|H].
  - rewrite v_rem_member by auto. now apply good_removed.
  - rewrite v_rem_nonmember by auto. exact G.
Qed.

(* ---------------------------------------------------------------------------------------- *)
(* frames: the link / laws / caching families never write vunis / uverts                    *)
Definition keep (s0 s' : state) : Prop :=
  wf s' /\ next s' = next s0 /\ vunis s' = vunis s0 /\ uverts s' = uverts s0.
Lemma keep_refl s : wf s -> keep s s.
Proof. intro W. repeat split; apply W. Qed.
Lemma keep_trans s0 s1 s2 : keep s0 s1 -> keep s1 s2 -> keep s0 s2.
Proof. intros (A & B & C & D) (A' & B' & C' & D'). split; [|split; [|split]]; auto; congruence. Qed.
Lemma keep_vl s0 s v x : keep s0 s -> keep s0 (set_vl s v x).
Proof. intros (A & B & C & D). split; [|split; [|split]]; auto with st. Qed.
Lemma keep_lv s0 s v x : keep s0 s -> keep s0 (set_lv s v x).
Proof. intros (A & B & C & D). split; [|split; [|split]]; auto with st. Qed.
Lemma keep_ca s0 s v x : keep s0 s -> keep s0 (set_ca s v x).
Proof. intros (A & B & C & D). split; [|split; [|split]]; auto with st. Qed.
Lemma keep_ul s0 s v x : keep s0 s -> keep s0 (set_ul s v x).
Proof. intros (A & B & C & D). split; [|split; [|split]]; auto with st. Qed.
Lemma keep_la s0 s v x : keep s0 s -> keep s0 (set_la s v x).
Proof. intros (A & B & C & D). split; [|split; [|split]]; auto with st. Qed.
Lemma keep_caching s0 s b : keep s0 s -> keep s0 (set_caching s b).
Proof. intros (A & B & C & D). split; [|split; [|split]]; auto with st. Qed.
#[local] Hint Resolve keep_refl keep_vl keep_lv keep_ca keep_ul keep_la keep_caching : core.

Lemma uni_inv_ext s s' : vunis s' = vunis s -> uverts s' = uverts s -> uni_inv s -> uni_inv s'.
Proof. intros A B. unfold uni_inv, uni_sym, uni_nodup, vu, uv. rewrite A, B. auto. Qed.
Lemma keep_inv s0 s' : keep s0 s' -> uni_inv s0 -> uni_inv s'.
Proof. intros (A & B & C & D). now apply uni_inv_ext. Qed.
Lemma keep_good s0 s' : keep s0 s' -> uni_inv s0 -> good (next s0) s'.
Proof. intros K I. pose proof K as (A & B & C & D). split; [|split]; auto. eapply keep_inv; eauto. Qed.

(* allocation appends an empty list to both fields: every read is unchanged *)
Lemma uv_alloc_all s k u : wf s -> uv (alloc k s) u = uv s u.
Proof.
  intro W. destruct (lt_eq_lt_dec u (next s)) as [[H|H]|H].
  - apply uv_alloc_old; auto.
  - subst. rewrite uv_alloc_new by auto. symmetry. apply uv_outside; auto.
  - rewrite (uv_outside (alloc k s)), (uv_outside s); auto with st; rewrite ?next_alloc; lia.
Qed.
Lemma vu_alloc_all s k v : wf s -> vu (alloc k s) v = vu s v.
Proof.
  intro W. destruct (lt_eq_lt_dec v (next s)) as [[H|H]|H].
  - apply vu_alloc_old; auto.
  - subst. rewrite vu_alloc_new by auto. symmetry. apply vu_outside; auto.
  - rewrite (vu_outside (alloc k s)), (vu_outside s); auto with st; rewrite ?next_alloc; lia.
Qed.
Lemma uni_inv_alloc s k : wf s -> uni_inv s -> uni_inv (alloc k s).
Proof.
  intros W (Sy & Nu & Nv). split; [|split]; [intros u v|intro u|intro v];
    rewrite ?uv_alloc_all, ?vu_alloc_all by auto; auto.
Qed.
Lemma good_alloc s k : wf s -> uni_inv s -> good (S (next s)) (alloc k s).
Proof. intros W I. split; [|split]; auto with st. - apply next_alloc. - now apply uni_inv_alloc. Qed.

(* validity from the class tests of well_typed *)
Lemma isu_lt s i : isu s i = true -> i < next s.
Proof. unfold isu. rewrite andb_true_iff, valid_lt. tauto. Qed.
Lemma isv_lt s i : isv s i = true -> i < next s.
Proof. unfold isv. rewrite andb_true_iff, valid_lt. tauto. Qed.
Lemma forallb_isu_lt s us : forallb (isu s) us = true -> forall u, In u us -> u < next s.
Proof. rewrite forallb_forall. intros H u Hu. apply isu_lt; auto. Qed.
Lemma forallb_isv_lt s vs : forallb (isv s) vs = true -> forall v, In v vs -> v < next s.
Proof. rewrite forallb_forall. intros H u Hu. apply isv_lt; auto. Qed.

(* Vertex.add_to_link never raises (needed because Vertex.__init__ adds the links before the
   universes: a raise there would leave the new vertex registered on one side only) *)
Lemma v_add_to_link_S f s v l : v_add_to_link (S f) s v l =
  if memn l (vl s v) then Ok (inval s v)
  else let s1 := set_vl s v (vl s v ++ [l]) in
       if memo (Some v) (lv s1 l) then Ok (inval s1 v)
       else bind (l_add_vertex f s1 l (Some v)) (fun s2 => Ok (inval s2 v)).
Proof. reflexivity. Qed.
Lemma l_add_vertex_S_some f s l v : l_add_vertex (S f) s l (Some v) =
  let s1 := set_lv s l (lv s l ++ [Some v]) in
  if memn l (vl s1 v) then Ok (inval_all s1 (lv s1 l))
  else bind (v_add_to_link f s1 v l) (fun s2 => Ok (inval_all s2 (lv s2 l))).
Proof. reflexivity. Qed.
Lemma vl_set_lv s l x v : vl (set_lv s l x) v = vl s v. Proof. reflexivity. Qed.

Lemma v_add_to_link_ok f s v l : wf s -> v < next s -> exists s', v_add_to_link (S (S f)) s v l = Ok s'.
Proof.
  intros W Hv. rewrite v_add_to_link_S. destruct (memn l (vl s v)); [eexists; reflexivity|].
  cbv zeta. destruct (memo _ _); [eexists; reflexivity|].
  rewrite l_add_vertex_S_some. cbv zeta. rewrite vl_set_lv, vl_set_vl_same by auto.
  rewrite memn_snoc. cbn [bind]. eexists; reflexivity.
Qed.
Lemma v_add_to_link_FUEL_ok s v l : wf s -> v < next s ->
  exists s', v_add_to_link FUEL s v l = Ok s' /\ keep s s'.
Proof.
  intros W Hv. pose proof (P_v_add_to_link (keep s) (keep_vl s) (keep_lv s) (keep_ca s) FUEL s v l (keep_refl s W)) as K.
  revert K. rewrite FUEL_eq. destruct (v_add_to_link_ok 6 s v l W Hv) as (s' & ->). cbn [res_state]. eauto.
Qed.
Lemma link_loop v : forall ls s, wf s -> v < next s ->
  exists s', seq_res (fun s l => v_add_to_link FUEL s v l) ls s = Ok s' /\ keep s s'.
Proof.
  induction ls as [|l ls IH]; intros s W Hv; cbn [seq_res].
  - exists s. auto.
  - destruct (v_add_to_link_FUEL_ok s v l W Hv) as (s1 & -> & K). cbn [bind].
    pose proof K as (W1 & N1 & _).
    destruct (IH s1 W1) as (s' & E & K'); [lia|]. exists s'. split; auto. eapply keep_trans; eauto.
Qed.

(* Universe.__init__: add_vertex for each given vertex (duplicates are no-ops) *)
Lemma uadd_loop u : forall vs s, good (next s) s -> u < next s -> (forall v, In v vs -> v < next s) ->
  exists s', seq_res (fun s v => u_add_vertex FUEL s u v) vs s = Ok s' /\ good (next s) s'.
Proof.
  induction vs as [|v vs IH]; intros s G Hu Hvs; cbn [seq_res].
  - exists s. auto.
  - destruct (good_u_add s u v G Hu) as (s1 & -> & G1); [apply Hvs; now left|]. cbn [bind].
    pose proof G1 as (_ & N1 & _).
    destruct (IH s1) as (s' & E & G'); rewrite ?N1; auto.
    { intros; apply Hvs; now right. }
    exists s'. rewrite N1 in G'. auto.
Qed.

(* Vertex.__init__: self._universes = dedup(us) first, then u.add_vertex(self) for each.
   Between the two the symmetry is broken exactly on the pending universes. *)
Definition pinv (v : nat) (pend : list nat) (s : state) : Prop :=
  (forall u w, In w (uv s u) -> In u (vu s w)) /\
  (forall u w, In u (vu s w) -> In w (uv s u) \/ (w = v /\ In u pend)) /\
  (forall u, In u pend -> In u (vu s v) /\ ~ In v (uv s u)) /\
  NoDup pend /\ uni_nodup s.

Lemma pinv_nil v s : pinv v [] s -> uni_inv s.
Proof.
  intros (P1 & P2 & _ & _ & N). split; auto. intros u w. split; auto.
  intro H. destruct (P2 _ _ H) as [|[_ []]]; auto.
Qed.

Lemma new_vertex_loop v : forall pend s, wf s -> v < next s -> (forall u, In u pend -> u < next s) ->
  pinv v pend s ->
  exists s', seq_res (fun s u => u_add_vertex FUEL s u v) pend s = Ok s' /\ good (next s) s' /\
    vunis s' = vunis s /\
    (forall u, In u pend -> uv s' u = uv s u ++ [v]) /\ (forall u, ~ In u pend -> uv s' u = uv s u).
Proof.
  induction pend as [|u pend IH]; intros s W Hv Hp PI; cbn [seq_res].
  - exists s. split; [reflexivity|]. split; [|split; [reflexivity|split; [intros u []|reflexivity]]].
    split; [|split]; auto. apply (pinv_nil _ _ PI).
  - destruct PI as (P1 & P2 & P3 & ND & Nu & Nv).
    destruct (P3 u (or_introl eq_refl)) as [Iu Nin].
    assert (Hu : u < next s) by (apply Hp; now left).
    inversion ND as [|? ? Hnotin ND']; subst.
    rewrite FUEL_eq, u_add_vertex_spec by auto.
    rewrite (proj2 (memn_nIn _ _) Nin), (proj2 (memn_In _ _) Iu). cbv zeta. cbn [bind].
    set (s1 := set_uv s u (uv s u ++ [v])).
    assert (R1 : uv s1 u = uv s u ++ [v]) by (apply uv_set_uv_same; auto).
    assert (R2 : forall u', u' <> u -> uv s1 u' = uv s u') by (intros; apply uv_set_uv_other; congruence).
    assert (R3 : forall w, vu s1 w = vu s w) by reflexivity.
    assert (PI1 : pinv v pend s1).
    { split; [|split; [|split; [|split; [|split]]]].
      - intros u' w Hin. rewrite R3. destruct (Nat.eq_dec u' u) as [->|D].
        + rewrite R1 in Hin. apply in_app_iff in Hin. destruct Hin as [Hin|[<-|[]]]; auto.
        + rewrite R2 in Hin by auto. auto.
      - intros u' w Hin. rewrite R3 in Hin. destruct (P2 _ _ Hin) as [Hl|[-> [<-|Hr]]].
        + left. destruct (Nat.eq_dec u' u) as [->|D]; [rewrite R1; apply in_or_app; auto | rewrite R2; auto].
        + left. rewrite R1. apply in_or_app. right. now left.
        + right. auto.
      - intros u' Hin. assert (D : u' <> u) by (intros ->; contradiction).
        rewrite R3, R2 by auto. apply P3. now right.
      - exact ND'.
      - intro u'. destruct (Nat.eq_dec u' u) as [->|D]; [rewrite R1; apply NoDup_app_snoc; auto | rewrite R2; auto].
      - intro w. rewrite R3. auto. }
    destruct (IH s1 (wf_set_uv _ _ _ W) Hv) as (s' & E & G & V & A & B); [|exact PI1|].
    { intros; apply Hp; now right. }
    exists s'. split; [exact E|]. split; [exact G|]. split; [exact V|]. split.
    + intros u' [<-|Hin].
      * rewrite B by auto. exact R1.
      * rewrite A by auto. rewrite R2; auto. intros ->; contradiction.
    + intros u' Hn. rewrite B by (intro; apply Hn; now right). apply R2. intros ->. apply Hn. now left.
Qed.

Lemma pinv_init s k us : wf s -> uni_inv s ->
  pinv (next s) (dedup us) (set_vu (alloc k s) (next s) (dedup us)).
Proof.
  intros W (Sy & Nu & Nv). set (v := next s). set (s0 := set_vu _ _ _).
  assert (Wa : wf (alloc k s)) by auto with st.
  assert (Hva : v < next (alloc k s)) by (rewrite next_alloc; unfold v; lia).
  assert (R1 : forall u, uv s0 u = uv s u) by (intro; unfold s0; rewrite uv_set_vu; now apply uv_alloc_all).
  assert (R2 : vu s0 v = dedup us) by (apply vu_set_vu_same; auto).
  assert (R3 : forall w, w <> v -> vu s0 w = vu s w).
  { intros w D. unfold s0. rewrite vu_set_vu_other by congruence. now apply vu_alloc_all. }
  assert (Fr : forall u, ~ In v (uv s u)).
  { intros u H. apply Sy in H. unfold v in H. rewrite vu_outside in H; auto. }
  split; [|split; [|split; [|split; [|split]]]].
  - intros u w H. rewrite R1 in H. assert (D : w <> v) by (intros ->; eapply Fr; eauto).
    rewrite R3 by auto. now apply Sy.
  - intros u w H. destruct (Nat.eq_dec w v) as [->|D].
    + rewrite R2 in H. auto.
    + rewrite R3 in H by auto. left. rewrite R1. now apply Sy.
  - intros u H. rewrite R2, R1. auto.
  - apply dedup_NoDup.
  - intro u. rewrite R1. auto.
  - intro w. destruct (Nat.eq_dec w v) as [->|D]; [rewrite R2; apply dedup_NoDup | rewrite R3; auto].
Qed.

(* ---------------------------------------------------------------------------------------- *)
(* 2. every operation preserves the invariant                                               *)
Lemma fst_ok_or R V : fst (let '(r, out) := ok_or R V in (res_state r, out)) = res_state R.
Proof. destruct R; reflexivity. Qed.
Lemma snd_ok_or R V : snd (let '(r, out) := ok_or R V in (res_state r, out)) =
  match R with Ok _ => Ret V | Raise e _ => Raised e end.
Proof. destruct R; reflexivity. Qed.
Lemma fst_pair_let (p : res * outcome) : fst (let '(r, out) := p in (res_state r, out)) = res_state (fst p).
Proof. destruct p; reflexivity. Qed.

Lemma pinv_ext v p s s' : vunis s' = vunis s -> uverts s' = uverts s -> pinv v p s -> pinv v p s'.
Proof. intros A B. unfold pinv, uni_nodup, vu, uv. rewrite A, B. auto. Qed.

Lemma keep_good' s0 s' n : keep s0 s' -> uni_inv s0 -> next s0 = n -> good n s'.
Proof. intros K I <-. now apply keep_good. Qed.

Lemma uni_inv_new_edge s k a b : wf s -> uni_inv s -> uni_inv (res_state (fst (new_edge s k a b))).
Proof.
  intros W I. unfold new_edge. destruct (_ || _); cbn [fst res_state]; auto.
  apply (keep_inv (alloc k s)); [|now apply uni_inv_alloc].
  cbn [seq_ores]. apply (P_bind (keep (alloc k s))).
  { apply P_l_add_vertex; auto with st. }
  intros s1 K1. apply (P_bind (keep (alloc k s))).
  { apply P_l_add_vertex; auto. }
  intros; cbn [res_state]; auto.
Qed.

Lemma new_universe_tail s1 L u vs : good (next s1) s1 -> u < next s1 -> (forall v, In v vs -> v < next s1) ->
  uni_inv (res_state (bind (l_set_applies FUEL s1 L (Some u))
                           (fun s2 => seq_res (fun s0 v => u_add_vertex FUEL s0 u v) vs s2))).
Proof.
  intros (W1 & _ & I1) Hu Hvs.
  pose proof (P_l_set_applies (keep s1) (keep_ul s1) (keep_la s1) FUEL s1 L (Some u) (keep_refl s1 W1)) as K.
  destruct (l_set_applies FUEL s1 L (Some u)) as [s2|e s2]; cbn [bind res_state] in *.
  - pose proof (keep_good _ _ K I1) as G. pose proof K as (_ & N & _). rewrite <- N in G, Hu, Hvs.
    destruct (uadd_loop u vs s2 G Hu Hvs) as (s' & -> & G'). apply G'.
  - eapply keep_inv; eauto.
Qed.

Theorem uni_inv_step s o : wf s -> uni_inv s -> uni_inv (fst (step s o)).
Proof.
  intros W I. unfold step. destruct (well_typed s o) eqn:WT; cbn [negb]; [|exact I].
  assert (G : good (next s) s) by (split; [|split]; auto).
  destruct o; cbv beta iota zeta; rewrite ?fst_ok_or; cbn [well_typed] in WT;
    try (apply andb_true_iff in WT; destruct WT as [WT1 WT2]).
  - (* NewVertex *)
    set (v := next s). set (s0 := set_vu _ v _).
    assert (W0 : wf s0) by (unfold s0; auto with st).
    assert (N0 : next s0 = S (next s)) by (unfold s0; rewrite next_set_vu; apply next_alloc).
    assert (Hv0 : v < next s0) by (unfold v; lia).
    destruct (link_loop v ls s0 W0 Hv0) as (s1 & -> & (W1 & N1 & V1 & U1)). cbn [bind].
    assert (E : vu s1 v = dedup us).
    { unfold vu. rewrite V1. fold (vu s0 v). unfold s0. apply vu_set_vu_same; auto with st.
      all: try (rewrite next_alloc; unfold v; lia). }
    rewrite E.
    destruct (new_vertex_loop v (dedup us) s1 W1) as (s' & -> & G' & _).
    + lia.
    + intros u Hu. apply (proj1 (dedup_In _ _)) in Hu. pose proof (forallb_isu_lt _ _ WT1 u Hu). lia.
    + apply (pinv_ext _ _ s0); auto. apply pinv_init; auto.
    + apply G'.
  - (* NewUniverse *)
    pose proof (forallb_isv_lt _ _ WT1) as Hvs.
    destruct oL as [L|]; rewrite fst_ok_or; apply new_universe_tail.
    + rewrite next_set_ul, next_alloc. apply (keep_good' (alloc KUniverse s)); auto with st.
      * now apply uni_inv_alloc.
      * apply next_alloc.
    + rewrite next_set_ul, next_alloc. lia.
    + intros v Hv. rewrite next_set_ul, next_alloc. specialize (Hvs v Hv). lia.
    + rewrite next_set_ul, next_set_la, !next_alloc.
      apply (keep_good' (alloc KLaws (alloc KUniverse s))).
      * apply keep_ul, keep_la, keep_refl. auto with st.
      * apply uni_inv_alloc; auto with st. now apply uni_inv_alloc.
      * now rewrite !next_alloc.
    + rewrite next_set_ul, next_set_la, !next_alloc. lia.
    + intros v Hv. rewrite next_set_ul, next_set_la, !next_alloc. specialize (Hvs v Hv). lia.
  - (* NewLaws *)
    cbn [fst res_state]. apply (keep_inv (alloc KLaws s)); auto with st. now apply uni_inv_alloc.
  - rewrite fst_pair_let. now apply uni_inv_new_edge.
  - apply (keep_inv s); auto. apply P_l_set_end; auto.
  - apply (keep_inv s); auto. apply P_l_set_end; auto.
  - apply (keep_inv s); auto. apply P_v_add_to_link; auto.
  - apply (keep_inv s); auto. apply P_v_remove_from_link; auto.
  - apply (keep_inv s); auto. apply P_l_add_vertex; auto.
  - apply (keep_inv s); auto. apply P_l_unlink_from; auto.
  - (* LinkFromTo *)
    destruct (if dontdup then _ else _) as [[l|]|]; cbn [fst res_state]; auto.
    rewrite fst_pair_let. now apply uni_inv_new_edge.
  - (* Unlink *)
    destruct (find_links _ _ _ _ _ _ _) as [links|e]; [rewrite fst_ok_or|cbn [fst res_state]; auto].
    apply (keep_inv s); auto. apply (P_seq_res (keep s)); auto.
    intros s1 l K1. apply (P_bind (keep s)). { apply P_l_unlink_from; auto. }
    intros. apply P_l_unlink_from; auto.
  - apply isu_lt in WT1. apply isv_lt in WT2.
    destruct (good_u_add s u v G WT1 WT2) as (s' & -> & G'). apply G'.
  - apply isu_lt in WT1. apply isv_lt in WT2. now apply good_u_rem.
  - apply isv_lt in WT1. apply isu_lt in WT2.
    destruct (good_v_add s u v G WT2 WT1) as (s' & -> & G'). apply G'.
  - apply isv_lt in WT1. apply isu_lt in WT2. now apply good_v_rem.
  - apply (keep_inv s); auto. apply P_u_set_laws; auto.
  - apply (keep_inv s); auto. apply P_l_set_applies; auto.
  - cbn [fst res_state]. apply (keep_inv s); auto.
Qed.

(* 3. hence in every reachable state *)
Lemma uni_inv_empty : uni_inv empty.
Proof.
  assert (E : forall i, get (@nil nat) i [] = []) by (intros [|i]; reflexivity).
  split; [|split]; unfold uni_sym, uv, vu; cbn [uverts vunis empty]; intros; rewrite ?E; [tauto|constructor|constructor].
Qed.
Lemma uni_inv_run ops : forall s, wf s -> uni_inv s -> uni_inv (run ops s).
Proof.
  induction ops as [|o r IH]; cbn; auto. intros s W I. apply IH; [now apply wf_step | now apply uni_inv_step].
Qed.
Theorem uni_inv_reachable : forall ops, uni_inv (run ops empty).
Proof. intro ops. apply uni_inv_run; [apply wf_empty | apply uni_inv_empty]. Qed.

(* ---------------------------------------------------------------------------------------- *)
(* 4. documented effects at step level                                                      *)
Definition out_of (r : res) (v : value) : outcome := match r with Ok _ => Ret v | Raise e _ => Raised e end.
Lemma step_ok_or_eq R V : (let '(r, out) := ok_or R V in (res_state r, out)) = (res_state R, out_of R V).
Proof. destruct R; reflexivity. Qed.

Lemma step_uadd s u v : well_typed s (UAddVertex u v) = true ->
  step s (UAddVertex u v) = (res_state (u_add_vertex FUEL s u v), out_of (u_add_vertex FUEL s u v) VNone).
Proof. intro H. unfold step. rewrite H. cbn [negb]. cbv beta iota. apply step_ok_or_eq. Qed.
Lemma step_urem s u v : well_typed s (URemoveVertex u v) = true ->
  step s (URemoveVertex u v) = (res_state (u_remove_vertex FUEL s u v), out_of (u_remove_vertex FUEL s u v) VNone).
Proof. intro H. unfold step. rewrite H. cbn [negb]. cbv beta iota. apply step_ok_or_eq. Qed.
Lemma step_vadd s v u : well_typed s (VAddToUniverse v u) = true ->
  step s (VAddToUniverse v u) = (res_state (v_add_to_universe FUEL s v u), out_of (v_add_to_universe FUEL s v u) VNone).
Proof. intro H. unfold step. rewrite H. cbn [negb]. cbv beta iota. apply step_ok_or_eq. Qed.
Lemma step_vrem s v u : well_typed s (VRemoveFromUniverse v u) = true ->
  step s (VRemoveFromUniverse v u) = (res_state (v_remove_from_universe FUEL s v u), out_of (v_remove_from_universe FUEL s v u) VNone).
Proof. intro H. unfold step. rewrite H. cbn [negb]. cbv beta iota. apply step_ok_or_eq. Qed.

Lemma wt_uv s u v : isu s u && isv s v = true -> u < next s /\ v < next s.
Proof. rewrite andb_true_iff. intros [A B]. split; [now apply isu_lt | now apply isv_lt]. Qed.
Lemma wt_vu s u v : isv s v && isu s u = true -> u < next s /\ v < next s.
Proof. rewrite andb_true_iff. intros [A B]. split; [now apply isu_lt | now apply isv_lt]. Qed.

(* Universe.add_vertex / remove_vertex *)
Theorem uadd_new s u v : wf s -> uni_inv s -> well_typed s (UAddVertex u v) = true ->
  ~ In v (uv s u) ->
  let s' := fst (step s (UAddVertex u v)) in
  uv s' u = uv s u ++ [v] /\ vu s' v = vu s v ++ [u] /\
  (forall u', u' <> u -> uv s' u' = uv s u') /\ (forall v', v' <> v -> vu s' v' = vu s v') /\
  snd (step s (UAddVertex u v)) = Ret VNone.
Proof.
  intros W I WT Hn. destruct (wt_uv _ _ _ WT) as [Hu Hv].
  rewrite (step_uadd _ _ _ WT), (u_add_new s W I u v Hu Hv Hn). cbn [fst snd res_state out_of]. cbv zeta.
  destruct (reads_written s W u v Hu Hv (uv s u ++ [v]) (vu s v ++ [u])) as (A & B & C & D). auto.
Qed.
Theorem uadd_member_noop s u v : wf s -> uni_inv s -> well_typed s (UAddVertex u v) = true ->
  In v (uv s u) -> step s (UAddVertex u v) = (s, Ret VNone).
Proof.
  intros W I WT Hn. destruct (wt_uv _ _ _ WT) as [Hu Hv].
  rewrite (step_uadd _ _ _ WT), (u_add_member s W I u v Hu Hv Hn). reflexivity.
Qed.
Theorem uremove_member s u v : wf s -> uni_inv s -> well_typed s (URemoveVertex u v) = true ->
  In v (uv s u) ->
  let s' := fst (step s (URemoveVertex u v)) in
  uv s' u = remove1 v (uv s u) /\ vu s' v = remove1 u (vu s v) /\
  (forall u', u' <> u -> uv s' u' = uv s u') /\ (forall v', v' <> v -> vu s' v' = vu s v') /\
  snd (step s (URemoveVertex u v)) = Ret VNone.
Proof.
  intros W I WT Hn. destruct (wt_uv _ _ _ WT) as [Hu Hv].
  rewrite (step_urem _ _ _ WT), (u_rem_member s W I u v Hu Hv Hn). cbn [fst snd res_state out_of]. cbv zeta.
  destruct (reads_written s W u v Hu Hv (remove1 v (uv s u)) (remove1 u (vu s v))) as (A & B & C & D). auto.
Qed.
Theorem uremove_nonmember_raises s u v : wf s -> uni_inv s -> well_typed s (URemoveVertex u v) = true ->
  ~ In v (uv s u) -> step s (URemoveVertex u v) = (s, Raised ValueError).
Proof.
  intros W I WT Hn. destruct (wt_uv _ _ _ WT) as [Hu Hv].
  rewrite (step_urem _ _ _ WT), (u_rem_nonmember s W I u v Hu Hv Hn). reflexivity.
Qed.

(* Vertex.add_to_universe / remove_from_universe (guards stated on the vertex's own list) *)
Lemma vside s u v : uni_inv s -> (In u (vu s v) <-> In v (uv s u)).
Proof. intros [Sy _]. symmetry. apply Sy. Qed.

Theorem vadd_new s v u : wf s -> uni_inv s -> well_typed s (VAddToUniverse v u) = true ->
  ~ In u (vu s v) ->
  let s' := fst (step s (VAddToUniverse v u)) in
  uv s' u = uv s u ++ [v] /\ vu s' v = vu s v ++ [u] /\
  (forall u', u' <> u -> uv s' u' = uv s u') /\ (forall v', v' <> v -> vu s' v' = vu s v') /\
  snd (step s (VAddToUniverse v u)) = Ret VNone.
Proof.
  intros W I WT Hn. rewrite (vside s u v I) in Hn. destruct (wt_vu _ _ _ WT) as [Hu Hv].
  rewrite (step_vadd _ _ _ WT), (v_add_new s W I u v Hu Hv Hn). cbn [fst snd res_state out_of]. cbv zeta.
  destruct (reads_written s W u v Hu Hv (uv s u ++ [v]) (vu s v ++ [u])) as (A & B & C & D). auto.
Qed.
Theorem vadd_member_noop s v u : wf s -> uni_inv s -> well_typed s (VAddToUniverse v u) = true ->
  In u (vu s v) -> step s (VAddToUniverse v u) = (s, Ret VNone).
Proof.
  intros W I WT Hn. rewrite (vside s u v I) in Hn. destruct (wt_vu _ _ _ WT) as [Hu Hv].
  rewrite (step_vadd _ _ _ WT), (v_add_member s W I u v Hu Hv Hn). reflexivity.
Qed.
Theorem vremove_member s v u : wf s -> uni_inv s -> well_typed s (VRemoveFromUniverse v u) = true ->
  In u (vu s v) ->
  let s' := fst (step s (VRemoveFromUniverse v u)) in
  uv s' u = remove1 v (uv s u) /\ vu s' v = remove1 u (vu s v) /\
  (forall u', u' <> u -> uv s' u' = uv s u') /\ (forall v', v' <> v -> vu s' v' = vu s v') /\
  snd (step s (VRemoveFromUniverse v u)) = Ret VNone.
Proof.
  intros W I WT Hn. rewrite (vside s u v I) in Hn. destruct (wt_vu _ _ _ WT) as [Hu Hv].
  rewrite (step_vrem _ _ _ WT), (v_rem_member s W I u v Hu Hv Hn). cbn [fst snd res_state out_of]. cbv zeta.
  destruct (reads_written s W u v Hu Hv (remove1 v (uv s u)) (remove1 u (vu s v))) as (A & B & C & D). auto.
Qed.
Theorem vremove_nonmember_raises s v u : wf s -> uni_inv s -> well_typed s (VRemoveFromUniverse v u) = true ->
  ~ In u (vu s v) -> step s (VRemoveFromUniverse v u) = (s, Raised ValueError).
Proof.
  intros W I WT Hn. rewrite (vside s u v I) in Hn. destruct (wt_vu _ _ _ WT) as [Hu Hv].
  rewrite (step_vrem _ _ _ WT), (v_rem_nonmember s W I u v Hu Hv Hn). reflexivity.
Qed.

(* Vertex(universes=us): _universes = us de-duplicated, appended to each of them, rest unchanged *)
Theorem new_vertex_universes s sub us : wf s -> uni_inv s -> well_typed s (NewVertex sub us []) = true ->
  let s' := fst (step s (NewVertex sub us [])) in
  vu s' (next s) = dedup us /\
  (forall u, In u us -> uv s' u = uv s u ++ [next s]) /\
  (forall u, ~ In u us -> uv s' u = uv s u) /\
  (forall w, w <> next s -> vu s' w = vu s w) /\
  next s' = S (next s) /\
  snd (step s (NewVertex sub us [])) = Ret (VId (next s)).
Proof.
  intros W I WT. unfold step. rewrite WT. cbn [negb]. cbv beta iota zeta. cbn [seq_res bind].
  pose proof WT as WT'. cbn [well_typed] in WT'. apply andb_true_iff in WT'. destruct WT' as [WT1 _].
  set (k := if sub then KVertexSub else KVertex).
  assert (Wa : wf (alloc k s)) by auto with st.
  assert (Hva : next s < next (alloc k s)) by (rewrite next_alloc; lia).
  rewrite (vu_set_vu_same _ Wa _ Hva).
  set (s0 := set_vu (alloc k s) (next s) (dedup us)).
  assert (W0 : wf s0) by (unfold s0; auto with st).
  destruct (new_vertex_loop (next s) (dedup us) s0 W0) as (s' & -> & G & V & A & B).
  - exact Hva.
  - intros u Hu. apply (proj1 (dedup_In _ _)) in Hu. pose proof (forallb_isu_lt _ _ WT1 u Hu).
    unfold s0. rewrite next_set_vu, next_alloc. lia.
  - apply pinv_init; auto.
  - cbn [ok_or fst snd res_state].
    assert (R1 : forall u, uv s0 u = uv s u) by (intro; unfold s0; rewrite uv_set_vu; now apply uv_alloc_all).
    assert (R2 : forall w, vu s' w = vu s0 w) by (intro; unfold vu; now rewrite V).
    repeat split.
    + rewrite R2. unfold s0. now apply vu_set_vu_same.
    + intros u Hu. rewrite A by (now apply dedup_In). now rewrite R1.
    + intros u Hu. rewrite B by (now rewrite dedup_In). apply R1.
    + intros w D. rewrite R2. unfold s0. rewrite vu_set_vu_other by congruence. now apply vu_alloc_all.
    + destruct G as (_ & N & _). rewrite N. unfold s0. rewrite next_set_vu. apply next_alloc.
Qed.


Print Assumptions uni_inv_step.
Print Assumptions uadd_new.
Print Assumptions uremove_member.
Print Assumptions vadd_new.
Print Assumptions vremove_member.
Print Assumptions new_vertex_universes.
Print Assumptions uni_inv_reachable.
