(* Trav.v — breadthfirst.py / depthfirst.py: the three traversals and the three searches, each
   modelled as its own loop, over an abstract neighbour function.  Nodes are `option nat`
   because a half-assigned edge makes neighbors() return None; asking for the neighbours of None
   raises AttributeError, exactly as `None._qa_neighbors_get` does.  All loops run on explicit
   fuel and answer TFuel when it runs out (TravProofs.v: never, for the fuel the callers pass).
   Model-side file: definitions only. *)
From EG Require Import Base State Nbrs.

Definition node := option nat.
Definition nmem (x : node) (l : list node) : bool := existsb (oeqb x) l.

Inductive tres := TOk (out : list node) | TErr (e : exn) | TFuel.
Inductive sres := SOk (r : option node) | SErr (e : exn) | SFuel.   (* SOk None = the search returned None *)

Section Trav.
  Variable nb : nat -> nres.                 (* neighbors(v, direction, unknown, ff_via) for this call's settings *)
  Variable uni : option (list nat).          (* None = no universe limit; Some vs = uni.vertices *)
  Variable fres : node -> bool.              (* ff_result (constantly true when absent)          *)

  Definition nbo (v : node) : nres := match v with Some x => nb x | None => NErr AttributeError end.
  (* `v in uni.vertices` (always true without a universe) *)
  Definition inU (v : node) : bool :=
    match uni with
    | None => true
    | Some vs => match v with Some x => memn x vs | None => false end
    end.
  Definition emit (v : node) (out : list node) : list node := if fres v then out ++ [v] else out.

  (* ---- ibft ---- *)
  Definition bft_discover (st : list node * list node * list node) (v : node) :=
    let '(q, vis, out) := st in
    if inU v then (if nmem v vis then st else (q ++ [v], v :: vis, emit v out)) else st.
  Fixpoint bft_loop (fuel : nat) (q vis out : list node) : tres :=
    match fuel with 0 => TFuel | S f =>
      match q with
      | [] => TOk out
      | u :: q' =>
          match nbo u with
          | NErr e => TErr e
          | NOk ns => let '(q2, vis2, out2) := fold_left bft_discover ns (q', vis, out) in bft_loop f q2 vis2 out2
          end
      end
    end.
  Definition bft (fuel : nat) (start : nat) : tres :=
    match uni with
    | Some [] => TOk []
    | _ => if negb (inU (Some start)) then TErr ValueError
           else bft_loop fuel [Some start] [Some start] (emit (Some start) [])
    end.

  (* ---- idft_recursive ---- *)
  Inductive dres := DOk (vis out : list node) | DErr (e : exn) | DFuel.
  Fixpoint dfr (fuel : nat) (v : node) (vis out : list node) : dres :=
    match fuel with 0 => DFuel | S f =>
      let vis1 := v :: vis in
      let out1 := emit v out in
      match nbo v with
      | NErr e => DErr e
      | NOk ns =>
          (fix go (ws : list node) (vis out : list node) : dres :=
             match ws with
             | [] => DOk vis out
             | w :: r =>
                 if inU w && negb (nmem w vis)
                 then match dfr f w vis out with
                      | DOk vis' out' => go r vis' out'
                      | e => e
                      end
                 else go r vis out
             end) ns vis1 out1
      end
    end.
  (* _df_preflight_checks: an empty universe is an error for the DFS family *)
  Definition df_preflight (start : nat) : option exn :=
    match uni with
    | Some [] => Some ValueError
    | _ => if negb (inU (Some start)) then Some ValueError else None
    end.
  Definition dft_rec (fuel : nat) (start : nat) : tres :=
    match df_preflight start with
    | Some e => TErr e
    | None => match dfr fuel (Some start) [] [] with
              | DOk _ out => TOk out | DErr e => TErr e | DFuel => TFuel
              end
    end.

  (* ---- idft_iterative: explicit stack (head = top), mark on pop, universe test on pop ---- *)
  Fixpoint dfi_loop (fuel : nat) (stack disc out : list node) : tres :=
    match fuel with 0 => TFuel | S f =>
      match stack with
      | [] => TOk out
      | v :: st =>
          if nmem v disc then dfi_loop f st disc out
          else if negb (inU v) then dfi_loop f st disc out
          else match nbo v with
               | NErr e => TErr e
               | NOk ns => dfi_loop f (rev ns ++ st) (disc ++ [v]) (emit v out)
               end
      end
    end.
  Definition dft_iter (fuel : nat) (start : nat) : tres :=
    match df_preflight start with
    | Some e => TErr e
    | None => dfi_loop fuel [Some start] [] []
    end.
End Trav.

Section Search.
  Variable nb : nat -> nres.                 (* neighbors(v) with the default settings *)
  Variable uni : option (list nat).
  Variable m : node -> bool.                 (* hasattr(v, attrib) and v[attrib] == val *)

  Notation inU := (inU uni).
  Notation nbo := (nbo nb).

  (* ---- bfs ---- *)
  Inductive bstep := BFound (v : node) | BCont (q vis : list node).
  Fixpoint bfs_scan (ns : list node) (q vis : list node) : bstep :=
    match ns with
    | [] => BCont q vis
    | v :: r =>
        if negb (inU v) then bfs_scan r q vis
        else if m v then BFound v
        else if nmem v vis then bfs_scan r q vis
        else bfs_scan r (q ++ [v]) (v :: vis)
    end.
  Fixpoint bfs_loop (fuel : nat) (q vis : list node) : sres :=
    match fuel with 0 => SFuel | S f =>
      match q with
      | [] => SOk None
      | u :: q' =>
          match nbo u with
          | NErr e => SErr e
          | NOk ns => match bfs_scan ns q' vis with
                      | BFound v => SOk (Some v)
                      | BCont q2 vis2 => bfs_loop f q2 vis2
                      end
          end
      end
    end.
  Definition bfs (fuel : nat) (start : nat) : sres :=
    match uni with
    | Some [] => SOk None
    | _ => if negb (inU (Some start)) then SErr ValueError
           else if m (Some start) then SOk (Some (Some start))
           else bfs_loop fuel [Some start] [Some start]
    end.

  (* ---- dfs_recursive / _dfs_recur (hit propagated with `is not None`) ---- *)
  Inductive rres := RFound (v : node) | RNone (vis : list node) | RErr (e : exn) | RFuel.
  Fixpoint dfs_recur (fuel : nat) (v : node) (vis : list node) : rres :=
    match fuel with 0 => RFuel | S f =>
      match nbo v with
      | NErr e => RErr e
      | NOk ns =>
          (fix go (ws : list node) (vis : list node) : rres :=
             match ws with
             | [] => RNone vis
             | w :: r =>
                 if inU w && negb (nmem w vis)
                 then if m w then RFound w
                      else match dfs_recur f w vis with
                           | RNone vis' => go r vis'
                           | x => x
                           end
                 else go r vis
             end) ns (v :: vis)
      end
    end.
  Definition dfs_rec (fuel : nat) (start : nat) : sres :=
    match df_preflight uni start with
    | Some e => SErr e
    | None => if m (Some start) then SOk (Some (Some start))
              else match dfs_recur fuel (Some start) [] with
                   | RFound v => SOk (Some v) | RNone _ => SOk None | RErr e => SErr e | RFuel => SFuel
                   end
    end.

  (* ---- dfs_iterative ---- *)
  Fixpoint dfsi_loop (fuel : nat) (stack disc : list node) : sres :=
    match fuel with 0 => SFuel | S f =>
      match stack with
      | [] => SOk None
      | v :: st =>
          if negb (inU v) then dfsi_loop f st disc
          else if nmem v disc then dfsi_loop f st disc
          else if m v then SOk (Some v)
          else match nbo v with
               | NErr e => SErr e
               | NOk ns => dfsi_loop f (rev ns ++ st) (disc ++ [v])
               end
      end
    end.
  Definition dfs_iter (fuel : nat) (start : nat) : sres :=
    match df_preflight uni start with
    | Some e => SErr e
    | None => dfsi_loop fuel [Some start] []
    end.
End Search.
