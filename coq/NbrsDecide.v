(* NbrsDecide.v — the per-link decisions of neighbors() / find_links() as functions of a finite
   "link view" (class flags, position of the vertex, filter verdict).  `nb_decide`/`fl_decide`
   are the hand-written cascades; gen/GenNbrs.v holds the ones the translator regenerates from
   helpers.py on every run, and NbrsGen.v proves the two equal.  Model-side: definitions only. *)
From EG Require Import Base State Nbrs.

Inductive dec := DSkip | DAdd | DRaise (e : exn).

(* neighbors(): k_und / k_dir = issubclass(type(link), UnDirectedEdge / DirectedEdge);
   e1 / e2 = link.v1 is vert / link.v2 is vert; fk = filterfunc is None or filterfunc(link, v2) *)
Definition nb_decide (d : dirn) (u : unk) (k_und k_dir e1 e2 fk : bool) : dec :=
  match d with
  | Fwd =>
      if k_und then (if fk then DAdd else DSkip)
      else if k_dir && e1 then (if fk then DAdd else DSkip)
      else if k_dir && e2 then DSkip
      else match u with UNon => DSkip | UNb => if fk then DAdd else DSkip | UErr => DRaise NotImplementedError end
  | Bwd =>
      if k_und then (if fk then DAdd else DSkip)
      else if k_dir && e2 then (if fk then DAdd else DSkip)
      else if k_dir && e1 then DSkip
      else match u with UNon => DSkip | UNb => if fk then DAdd else DSkip | UErr => DRaise NotImplementedError end
  | AnyDir => if fk then DAdd else DSkip
  end.

(* find_links(): joins = link.other(v1) is v2; e1 = link.v1 is v1; fk = filterfunc is None or filterfunc(link) *)
Definition fl_decide (ds : bool) (u : unk) (k_und k_dir e1 joins fk : bool) : dec :=
  if negb joins then DSkip
  else if ds then
    if k_und then (if fk then DAdd else DSkip)
    else if k_dir then (if negb e1 then DSkip else if fk then DAdd else DSkip)
    else match u with UNon => DSkip | UNb => if fk then DAdd else DSkip | UErr => DRaise NotImplementedError end
  else (if fk then DAdd else DSkip).

Definition lact_of (d : dec) (v2 : option nat) : lact :=
  match d with DSkip => LSkip | DAdd => LAdd v2 | DRaise e => LRaise e end.
Definition fact_of (d : dec) : fact :=
  match d with DSkip => FSkip | DAdd => FAdd | DRaise e => FRaise e end.

Section Views.
  Variable filt : nat -> nat -> option nat -> bool.
  Variable ffl : nat -> nat -> bool.
  (* the same two loop bodies, expressed through the decision functions *)
  Definition nb_link_via (dc : dirn -> unk -> bool -> bool -> bool -> bool -> bool -> dec)
             (s : state) (v : nat) (d : dirn) (u : unk) (f : option nat) (l : nat) : lact :=
    match other s l (Some v) with
    | OErr => LRaise IndexError
    | OVal v2 => lact_of (dc d u (is_undirected (kd s l)) (is_directed (kd s l)) (is_end1 s l v) (is_end2 s l v)
                             (fok filt f l v2)) v2
    end.
  Definition fl_link_via (dc : bool -> unk -> bool -> bool -> bool -> bool -> bool -> dec)
             (s : state) (a b : nat) (ds : bool) (u : unk) (f : option nat) (l : nat) : fact :=
    match other s l (Some a) with
    | OErr => FRaise IndexError
    | OVal o => fact_of (dc ds u (is_undirected (kd s l)) (is_directed (kd s l)) (is_end1 s l a) (oeqb o (Some b))
                            (ffok ffl f l))
    end.
End Views.
