(* RenderCheck.v — renderer queries on an imported heap state, compared with what the
   implementation produced (generated cases only). *)
From Coq Require Import String.
From EG Require Import Base State Nbrs Struct StructCheck Trav Render.

(* option tables of the generated cases (harness twin: renderh.CONFS) *)
Definition std_conf (i : nat) (c : pcls) : bool :=
  match i, c with
  | 0, (PK KVertex | PK KDir | PK KUnd) => true
  | 1, (PK KVertex | PK KDir | PK KUnd | PK KVertexSub | PK KDirSub | PK KUniverse) => true
  | 2, (PTwoEnded | PBase) => true
  | 3, (PK KVertex | PK KUnd) => true
  | 4, (PK KVertex | PK KDir | PK KUnd) => true        (* the base classes only, in the harness's own styles *)
  | _, _ => false
  end.
Definition pcls_code (c : pcls) : nat :=
  match c with
  | PK KVertex => 1 | PK KVertexSub => 2 | PK KUniverse => 3 | PK KDir => 4 | PK KDirSub => 5 | PK KUnd => 6 | PK KUndSub => 7
  | PK KOther => 8 | PK KLaws => 9 | PTwoEnded => 10 | PLink => 11 | PBase => 12 | PObject => 13 | PNoneType => 14
  end.

(* merged: an rfunc that is NOT injective (vertices rendered by the parity of their id) *)
Definition std_r_merged (v : node) : string := match v with Some x => "w" ++ dec (x mod 2) | None => "None" end.
Inductive rqry := RPlain (u : nat) (sorted : bool) (merged : bool) | RPyvis (u : nat) | RPuml (u : nat) (conf : nat).
Inductive rans :=
  | AText (o : option string)
  | ANet (nodes : list (nat * nat)) (edges : list (nat * nat * bool))
  | ADoc (o : option (list (nat * nat) * list (list nat))) (* decls (vertex, class code); sorted relation rows *)
  | ARaise (e : exn).

(* one relation as a row: ends, the link's configured class, and the configured classes whose
   title formats name the two ends *)
Definition rel_row (r : prel) : list nat := [r_v1 r; r_v2 r; pcls_code (r_class r); pcls_code (r_c1 r); pcls_code (r_c2 r)].
Fixpoint lex_leb (a b : list nat) : bool :=
  match a, b with
  | [], _ => true
  | _ :: _, [] => false
  | x :: a', y :: b' => if Nat.ltb x y then true else if Nat.ltb y x then false else lex_leb a' b'
  end.
Fixpoint lex_insert (x : list nat) (l : list (list nat)) : list (list nat) :=
  match l with [] => [x] | y :: t => if lex_leb x y then x :: l else y :: lex_insert x t end.
Definition lex_sort (l : list (list nat)) : list (list nat) := fold_right lex_insert [] l.
Definition run_rq (s : state) (q : rqry) : rans :=
  match q with
  | RPlain u sorted merged =>
      match basic_render std_filt (if merged then std_r_merged else std_r) (if sorted then Some std_key else None) s u with
      | POk o => AText o | PErr e => ARaise e end
  | RPyvis u => match make_pyvis_net s u with VOk n => ANet (pnodes n) (pedges n) | VErr e => ARaise e end
  | RPuml u c =>
      match render_puml (std_conf c) s u with
      | UOk None => ADoc None
      | UOk (Some d) => ADoc (Some (map (fun x => (d_vertex x, pcls_code (d_class x))) (decls d), lex_sort (map rel_row (rels d))))
      | UErr e => ARaise e
      end
  end.
Definition pairn_eqb (a b : nat * nat) := Nat.eqb (fst a) (fst b) && Nat.eqb (snd a) (snd b).
Definition edge_eqb (a b : nat * nat * bool) := pairn_eqb (fst a) (fst b) && Bool.eqb (snd a) (snd b).
Definition rans_eqb (a b : rans) : bool :=
  match a, b with
  | AText x, AText y => opt_eqb String.eqb x y
  | ANet n1 e1, ANet n2 e2 => list_eqb pairn_eqb n1 n2 && list_eqb edge_eqb e1 e2
  | ADoc x, ADoc y => opt_eqb (fun p q => list_eqb pairn_eqb (fst p) (fst q) && list_eqb (list_eqb Nat.eqb) (snd p) (snd q)) x y
  | ARaise e, ARaise f => exn_eqb e f
  | _, _ => false
  end.
Definition rcheck (c : state * list (rqry * rans)) : bool :=
  forallb (fun qe => rans_eqb (run_rq (fst c) (fst qe)) (snd qe)) (snd c).
Definition ranswers (c : state * list (rqry * rans)) : list rans := map (fun qe => run_rq (fst c) (fst qe)) (snd c).
(* the same universe rendered in several phases of one history (edits in between): every phase is judged on its own heap *)
Definition rcheck_phases (cs : list (state * list (rqry * rans))) : bool := forallb rcheck cs.
