(* C08 — each search returns the first match of its corresponding traversal, or None.
   Statements only; proofs in SearchProofs.v.  `m v` = "v has the named attribute with a value
   equal (==) to the one sought"; the searches of the model are the code's own early-exit loops
   (match test before the visited test in bfs; on discovery in _dfs_recur, a hit propagated
   with `is not None`; on pop in dfs_iterative). *)
From EG Require Import Base State Nbrs Trav SearchProofs StartMember.

Theorem C08_bfs_returns_first_match_of_bft : forall nb uni m f1 f2 start out r,
  bft nb uni all f1 start = TOk out -> bfs nb uni m f2 start = r -> r <> SFuel -> r = SOk (find m out).
Proof. exact bfs_is_first_match. Qed.
Theorem C08_dfs_recursive_returns_first_match_of_dft_recursive : forall nb uni m f1 f2 start out r,
  dft_rec nb uni all f1 start = TOk out -> dfs_rec nb uni m f2 start = r -> r <> SFuel -> r = SOk (find m out).
Proof. exact dfs_rec_is_first_match. Qed.
Theorem C08_dfs_iterative_returns_first_match_of_dft_iterative : forall nb uni m f1 f2 start out r,
  dft_iter nb uni all f1 start = TOk out -> dfs_iter nb uni m f2 start = r -> r <> SFuel -> r = SOk (find m out).
Proof. exact dfs_iter_is_first_match. Qed.

(* the fuel that lets the traversal finish lets the search finish *)
Theorem C08_bfs_terminates_with_bft : forall nb uni m f start,
  bft nb uni all f start <> TFuel -> bfs nb uni m f start <> SFuel.
Proof. exact bfs_fuel_suffices. Qed.
Theorem C08_dfs_recursive_terminates_with_dft_recursive : forall nb uni m f start,
  dft_rec nb uni all f start <> TFuel -> dfs_rec nb uni m f start <> SFuel.
Proof. exact dfs_rec_fuel_suffices. Qed.
Theorem C08_dfs_iterative_terminates_with_dft_iterative : forall nb uni m f start,
  dft_iter nb uni all f start <> TFuel -> dfs_iter nb uni m f start <> SFuel.
Proof. exact dfs_iter_fuel_suffices. Qed.

(* the start vertex itself is eligible *)
Theorem C08_start_is_eligible : forall nb uni m start,
  m (Some start) = true -> uni <> Some [] -> inU uni (Some start) = true ->
  (forall f, bfs nb uni m f start = SOk (Some (Some start))) /\
  (forall f, dfs_rec nb uni m f start = SOk (Some (Some start))) /\
  (forall f, 1 <= f -> dfs_iter nb uni m f start = SOk (Some (Some start))).
Proof. exact search_start_eligible. Qed.
(* whatever is returned is listed by the traversal (hence in the universe) and matches *)
Theorem C08_result_is_listed_and_matches : forall nb uni m f1 f2 start out v,
  (bft nb uni all f1 start = TOk out -> bfs nb uni m f2 start = SOk (Some v) -> In v out /\ m v = true) /\
  (dft_rec nb uni all f1 start = TOk out -> dfs_rec nb uni m f2 start = SOk (Some v) -> In v out /\ m v = true) /\
  (dft_iter nb uni all f1 start = TOk out -> dfs_iter nb uni m f2 start = SOk (Some v) -> In v out /\ m v = true).
Proof. exact search_result_listed. Qed.
(* None exactly when no listed vertex matches *)
Theorem C08_none_iff_no_listed_match : forall nb uni m f1 f2 start out r, r <> SFuel ->
  (bft nb uni all f1 start = TOk out -> bfs nb uni m f2 start = r -> r = SOk None <-> (forall x, In x out -> m x = false)) /\
  (dft_rec nb uni all f1 start = TOk out -> dfs_rec nb uni m f2 start = r -> r = SOk None <-> (forall x, In x out -> m x = false)) /\
  (dft_iter nb uni all f1 start = TOk out -> dfs_iter nb uni m f2 start = r -> r = SOk None <-> (forall x, In x out -> m x = false)).
Proof. exact search_none_iff. Qed.

(* non-vacuity: two vertices carry the sought value; "first" differs between the three orders *)
Definition ex_nb (v : nat) : nres :=
  NOk (match v with 0 => [Some 1; Some 2] | 1 => [Some 3] | 2 => [Some 4] | 3 => [Some 2] | _ => [] end).
Definition ex_m (v : node) : bool := match v with Some 3 | Some 4 => true | _ => false end.
Example C08_nonvacuous :
  bfs ex_nb None ex_m 20 0 = SOk (Some (Some 3)) /\ dfs_rec ex_nb None ex_m 20 0 = SOk (Some (Some 3)) /\
  dfs_iter ex_nb None ex_m 20 0 = SOk (Some (Some 4)) /\ bfs ex_nb (Some [0; 1; 2]) ex_m 20 0 = SOk None.
Proof. vm_compute. auto. Qed.

Print Assumptions C08_bfs_returns_first_match_of_bft.
Print Assumptions C08_dfs_recursive_returns_first_match_of_dft_recursive.
Print Assumptions C08_dfs_iterative_returns_first_match_of_dft_iterative.
Print Assumptions C08_bfs_terminates_with_bft.
Print Assumptions C08_dfs_recursive_terminates_with_dft_recursive.
Print Assumptions C08_dfs_iterative_terminates_with_dft_iterative.
Print Assumptions C08_start_is_eligible.
Print Assumptions C08_result_is_listed_and_matches.
Print Assumptions C08_none_iff_no_listed_match.
Print Assumptions C08_nonvacuous.

(* on heap states (the searches call neighbors() with its default settings), with termination *)
From EG Require Import StateLemmas LinkProofs TravState TravStateProofs.
Theorem C08_heap_bfs : forall filt s ou start m out,
  s_bft filt s ou start Fwd UErr None TravProofs.all = TOk out -> s_bfs filt s ou start m = SOk (find m out).
Proof. exact s_search_first_match_bfs. Qed.
Theorem C08_heap_dfs_recursive : forall filt s ou start m out,
  s_dft_rec filt s ou start Fwd UErr None TravProofs.all = TOk out -> s_dfs_rec filt s ou start m = SOk (find m out).
Proof. exact s_search_first_match_dfr. Qed.
Theorem C08_heap_dfs_iterative : forall filt s ou start m out,
  s_dft_iter filt s ou start Fwd UErr None TravProofs.all = TOk out -> s_dfs_iter filt s ou start m = SOk (find m out).
Proof. exact s_search_first_match_dfi. Qed.
Theorem C08_heap_searches_terminate : forall filt s ou start m, wf s -> link_inv s ->
  s_bfs filt s ou start m <> SFuel /\ s_dfs_rec filt s ou start m <> SFuel /\ s_dfs_iter filt s ou start m <> SFuel.
Proof. intros. repeat split; [apply s_bfs_terminates | apply s_dfs_rec_terminates | apply s_dfs_iter_terminates]; assumption. Qed.
Print Assumptions C08_heap_bfs.
Print Assumptions C08_heap_dfs_recursive.
Print Assumptions C08_heap_dfs_iterative.
Print Assumptions C08_heap_searches_terminate.

(* "a vertex outside the universe ... is never returned" - stated on the searches themselves (no appeal to a traversal
   that succeeds), for every fuel; and from a start vertex that is no member of the (non-empty) universe there is no listing
   to be first in: all three searches refuse it *)
Theorem C08_result_is_a_member_of_the_universe : forall nb uni m fuel start v,
  (bfs nb uni m fuel start = SOk (Some v) -> inU uni v = true) /\
  (dfs_rec nb uni m fuel start = SOk (Some v) -> inU uni v = true) /\
  (dfs_iter nb uni m fuel start = SOk (Some v) -> inU uni v = true).
Proof. exact search_result_is_member. Qed.
Theorem C08_start_outside_universe_is_refused : forall nb uni m fuel start,
  uni <> Some [] -> inU uni (Some start) = false ->
  bfs nb uni m fuel start = SErr ValueError /\
  dfs_rec nb uni m fuel start = SErr ValueError /\
  dfs_iter nb uni m fuel start = SErr ValueError.
Proof. exact nonmember_start_refused_search. Qed.
Print Assumptions C08_result_is_a_member_of_the_universe.
Print Assumptions C08_start_outside_universe_is_refused.
