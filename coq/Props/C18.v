(* C18 — true singletons: at most one live instance per class between clears.
   Statements only; each closed by `exact` of a lemma from TrueSingleProofs.v. *)
From EG Require Import Base TrueSingle TrueSingleProofs.

(* every state reachable by any history of constructions and clears is well-formed *)
Theorem C18_reachable_wf : forall ops, twf (trun ops ts_init).
Proof. exact twf_reachable. Qed.

(* all constructions of class c between two clears affecting c return the same object,
   whatever the arguments (a, b), and the later ones change nothing (no second __init__) —
   for any interleaving `ops` of constructions of any class and clears of other classes *)
Theorem C18_same_instance_between_clears : forall s c a ops b,
  (forall op, In op ops -> affects op c = false) ->
  let s1 := fst (tstep s (Construct c a)) in
  let s2 := trun ops s1 in
  tstep s2 (Construct c b) = (s2, snd (tstep s (Construct c a))).
Proof. exact same_instance_between_clears. Qed.

(* a construction that finds no live instance creates a new object (different from every live
   one) and runs __init__ exactly once, with that first call's arguments and for the class
   called; no later history `ops` (constructions, targeted or global clears) ever re-runs it *)
Theorem C18_init_exactly_once_first_args : forall s c a ops, twf s -> lookup c (tbl s) = None ->
  exists i, snd (tstep s (Construct c a)) = RInst i /\
            (forall c' j, In (c', j) (tbl s) -> j <> i) /\
            inits_of i (log (trun ops (fst (tstep s (Construct c a))))) = [(c, a)].
Proof. exact init_exactly_once. Qed.

(* each class (a subclass is just another class id: the table is keyed by the class object)
   has its own instance *)
Theorem C18_own_instance_per_class : forall s c c' i, twf s ->
  lookup c (tbl s) = Some i -> lookup c' (tbl s) = Some i -> c = c'.
Proof. exact one_instance_per_class. Qed.

Theorem C18_clear_one_leaves_others : forall s c c', c <> c' ->
  lookup c' (tbl (fst (tstep s (Clear (Some c))))) = lookup c' (tbl s).
Proof. exact clear_one_frame. Qed.
Theorem C18_clear_one_clears : forall s c, lookup c (tbl (fst (tstep s (Clear (Some c))))) = None.
Proof. exact clear_one_clears. Qed.
Theorem C18_clear_all_clears_every_class : forall s c, lookup c (tbl (fst (tstep s (Clear None)))) = None.
Proof. exact clear_all_clears. Qed.
Theorem C18_clear_absent_is_identity : forall s c, lookup c (tbl s) = None -> tstep s (Clear (Some c)) = (s, RNone).
Proof. exact clear_absent_identity. Qed.
Theorem C18_construct_after_clear_is_new : forall s op c a, twf s -> affects op c = true ->
  (exists oc, op = Clear oc) ->
  forall i, lookup c (tbl s) = Some i -> snd (tstep (fst (tstep s op)) (Construct c a)) <> RInst i.
Proof. exact construct_after_clear_is_new. Qed.

(* non-vacuity: a reachable state with two live classes, on which the hypotheses hold *)
Example C18_nonvacuous :
  let s := trun [Construct 0 7; Construct 1 8; Clear (Some 0); Construct 0 9] ts_init in
  twf s /\ lookup 0 (tbl s) = Some 2 /\ lookup 1 (tbl s) = Some 1 /\ lookup 2 (tbl s) = None /\
  inits_of 2 (log s) = [(0, 9)].
Proof. split; [apply twf_reachable | vm_compute; auto]. Qed.

Print Assumptions C18_reachable_wf.
Print Assumptions C18_same_instance_between_clears.
Print Assumptions C18_init_exactly_once_first_args.
Print Assumptions C18_own_instance_per_class.
Print Assumptions C18_clear_one_leaves_others.
Print Assumptions C18_clear_one_clears.
Print Assumptions C18_clear_all_clears_every_class.
Print Assumptions C18_clear_absent_is_identity.
Print Assumptions C18_construct_after_clear_is_new.
Print Assumptions C18_nonvacuous.
