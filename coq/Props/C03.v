(* C03 — every mutation has exactly its documented effect and no other (frame property);
   equality with the plain reference model after every history.
   Statements only; proofs in RefProofs.v.  `step` is the transliteration of the code
   (Struct.v), `r_step` the reference model (RefStep.v: direct list edits, no call-backs, no
   fuel); `Inv` = well-formed heap + the C01, C02, C19 invariants. *)
From EG Require Import Base State Nbrs Struct Ref RefStep LinkProofs RefProofs.
From Coq Require Import Permutation.

(* after ANY history, the whole heap (each vertex's ordered links and universes, each link's
   ordered ends, each universe's ordered members, the laws bindings, the memo) and every return
   value / exception equal those of the reference model replaying the same calls *)
Theorem C03_transcripts_equal_reference_model :
  forall ops, (forall o u, In o ops -> o <> NewLaws (Some u)) ->
  transcript_of step empty ops = transcript_of r_step empty ops.
Proof. exact transcripts_equal. Qed.
Theorem C03_every_step_equals_reference_step :
  forall s o, Inv s -> (forall u, o <> NewLaws (Some u)) -> step s o = r_step s o.
Proof. exact step_refines. Qed.
Theorem C03_invariants_hold_on_every_reachable_state :
  forall ops, (forall o u, In o ops -> o <> NewLaws (Some u)) -> Inv (run ops empty).
Proof. exact Inv_reachable. Qed.

(* creating an edge appends it to the links of both ends (once for a self-loop: the two equations
   coincide when a = b) and touches nothing else *)
Theorem C03_edge_creation_effect : forall s k a b, Inv s -> well_typed s (NewEdge k (Some a) (Some b)) = true ->
  isv s a = true -> isv s b = true ->
  let s' := fst (step s (NewEdge k (Some a) (Some b))) in
  snd (step s (NewEdge k (Some a) (Some b))) = Ret (VId (next s)) /\ next s' = S (next s) /\
  kd s' (next s) = k /\ (forall i, i < next s -> kd s' i = kd s i) /\
  lv s' (next s) = [Some a; Some b] /\ vl s' a = vl s a ++ [next s] /\ vl s' b = vl s b ++ [next s] /\
  (forall w, w <> a -> w <> b -> vl s' w = vl s w) /\ (forall l, l <> next s -> lv s' l = lv s l).
Proof. exact new_edge_effect. Qed.
(* constructor type checks precede any mutation *)
Theorem C03_edge_constructor_type_error_changes_nothing : forall s k a b i, Inv s -> well_typed s (NewEdge k a b) = true ->
  a = Some i \/ b = Some i -> is_vertex (kd s i) = false -> step s (NewEdge k a b) = (s, Raised TypeError).
Proof. exact new_edge_type_error. Qed.

(* assigning v1 (idx 0) or v2 (idx 1): that end, and only that end, becomes the assigned vertex;
   the previous vertex is detached only if it is no longer an end; the new one is attached (at the
   end of its links) only if it was not attached; every other vertex's ordered links and every
   other link are untouched *)
Theorem C03_end_assignment_effect : forall s l idx new e1 e2, Inv s -> idx <= 1 ->
  well_typed s (SetEnd idx l new) = true -> lv1 s l = Some e1 -> lv2 s l = Some e2 ->
  let X := lv s l in let old := if Nat.eqb idx 0 then e1 else e2 in
  let s' := fst (step s (SetEnd idx l new)) in
  snd (step s (SetEnd idx l new)) = Ret VNone /\ nth_error X idx = Some old /\
  lv s' l = set idx new X /\ (forall k, k <> l -> lv s' k = lv s k) /\
  (forall w, vl s' w =
     if oeqb (Some w) old && negb (memo old (set idx new X)) then remove1 l (vl s w)
     else if oeqb (Some w) new && negb (memn l (vl s w)) then vl s w ++ [l] else vl s w) /\
  next s' = next s /\ (forall i, kd s' i = kd s i).
Proof. exact set_end_effect. Qed.
Theorem C03_end_assignment_of_same_vertex_changes_nothing : forall s l idx new, Inv s -> idx <= 1 ->
  well_typed s (SetEnd idx l new) = true -> nth_error (lv s l) idx = Some new ->
  let s' := fst (step s (SetEnd idx l new)) in vlinks s' = vlinks s /\ lverts s' = lverts s.
Proof. exact set_end_same_vertex_noop. Qed.
Theorem C03_end_assignment_on_edge_that_lost_an_end_raises : forall s l idx new, Inv s -> idx <= 1 ->
  well_typed s (SetEnd idx l new) = true -> lv1 s l = None \/ lv2 s l = None ->
  step s (SetEnd idx l new) = (s, Raised IndexError).
Proof. exact set_end_index_error. Qed.

(* unlink(a, b) removes exactly the links joining a and b (every type, both directions), from both
   ends, keeping the order of everything else, and returns exactly those when destroy=False *)
Theorem C03_unlink_effect : forall s a b destroy links, Inv s -> well_typed s (Unlink a b destroy) = true ->
  find_links (fun _ _ => true) s a b false UErr None = FOk links ->
  let s' := fst (step s (Unlink a b destroy)) in
  links = filter (fun l => joins s l a b) (vl s a) /\
  snd (step s (Unlink a b destroy)) = Ret (if destroy then VNone else VSet links) /\
  (forall l, In l links -> ~ In l (vl s' a) /\ ~ In l (vl s' b) /\ ~ In (Some a) (lv s' l) /\ ~ In (Some b) (lv s' l)) /\
  (forall w, vl s' w = if Nat.eqb w a || Nat.eqb w b then filter (fun l => negb (memn l links)) (vl s w) else vl s w) /\
  (forall l, ~ In l links -> lv s' l = lv s l) /\
  (forall l, In l links -> lv s' l = oremove_all (Some b) (oremove_all (Some a) (lv s l))) /\
  next s' = next s /\ (forall i, kd s' i = kd s i).
Proof. exact unlink_effect. Qed.
(* the code iterates a Python set of joining links: the result does not depend on that order *)
Theorem C03_unlink_independent_of_set_iteration_order : forall s a b links links', Inv s ->
  a < next s -> b < next s -> (forall l, In l links -> l < next s) -> Permutation links links' ->
  exists s1 s2,
    seq_res (fun s0 l => bind (l_unlink_from FUEL s0 l (Some a)) (fun s' => l_unlink_from FUEL s' l (Some b))) links s = Ok s1 /\
    seq_res (fun s0 l => bind (l_unlink_from FUEL s0 l (Some a)) (fun s' => l_unlink_from FUEL s' l (Some b))) links' s = Ok s2 /\
    vlinks s2 = vlinks s1 /\ lverts s2 = lverts s1.
Proof. exact unlink_order_independent_impl. Qed.

(* dontdup=True creates nothing when a joining link already exists, and returns the first one *)
Theorem C03_dontdup_creates_nothing : forall s a k b l, Inv s -> well_typed s (LinkFromTo a k b true) = true ->
  first_joining s a b (vl s a) = Some (Some l) -> step s (LinkFromTo a k b true) = (s, Ret (VId l)).
Proof. exact dontdup_creates_nothing. Qed.
Theorem C03_dontdup_returns_first_joining_link : forall s a b ls l, first_joining s a b ls = Some (Some l) ->
  exists pre post, ls = pre ++ l :: post /\ joins s l a b = true /\ (forall x, In x pre -> joins s x a b = false).
Proof. exact first_joining_spec. Qed.

(* non-vacuity: a reachable state with a self-loop, parallel links of three classes and a
   half-assigned edge; Inv holds and an unlink removes exactly the two joining links *)
Example C03_nonvacuous :
  let ops := [NewVertex false [] []; NewVertex false [] []; NewEdge KDir (Some 0) (Some 0); NewEdge KUnd (Some 1) (Some 0);
              LinkFromTo 0 KOther 1 false; NewEdge KDirSub (Some 1) None; SetV2 2 (Some 1)] in
  Inv (run ops empty) /\
  vl (run ops empty) 0 = [2; 3; 4] /\ vl (run ops empty) 1 = [3; 4; 5; 2] /\
  step (run ops empty) (Unlink 1 0 false) = (run (ops ++ [Unlink 1 0 false]) empty, Ret (VSet [3; 4; 2])) /\
  vl (run (ops ++ [Unlink 1 0 false]) empty) 1 = [5].
Proof. split; [apply Inv_reachable; intros o u [<-|[<-|[<-|[<-|[<-|[<-|[<-|[]]]]]]]]; discriminate | vm_compute; auto]. Qed.

Print Assumptions C03_transcripts_equal_reference_model.
Print Assumptions C03_every_step_equals_reference_step.
Print Assumptions C03_invariants_hold_on_every_reachable_state.
Print Assumptions C03_edge_creation_effect.
Print Assumptions C03_edge_constructor_type_error_changes_nothing.
Print Assumptions C03_end_assignment_effect.
Print Assumptions C03_end_assignment_of_same_vertex_changes_nothing.
Print Assumptions C03_end_assignment_on_edge_that_lost_an_end_raises.
Print Assumptions C03_unlink_effect.
Print Assumptions C03_unlink_independent_of_set_iteration_order.
Print Assumptions C03_dontdup_creates_nothing.
Print Assumptions C03_dontdup_returns_first_joining_link.
Print Assumptions C03_nonvacuous.
