(* C20 — randgraph always returns a universe of exactly `count` well-formed vertices.
   Statements only; proofs in BuildersProofs.v.  The `random` module is an oracle stream:
   `good_draws` is its contract (randint(1, max(1, i)) within bounds; sample(verts, k) a list of k
   distinct members, which exists because k <= count); `scale r` stands for int(r * connectivity),
   the only float operation of the repository — the theorems hold for EVERY scale, hence for
   every connectivity value, without any reasoning about floats. *)
From EG Require Import Base State Nbrs Struct RefProofs Builders BuildersProofs.

(* the per-vertex sample size never exceeds the population: random.sample cannot raise *)
Theorem C20_sample_size_bounded_by_count : forall scale ens count r, rg_k scale ens count r <= count.
Proof. exact rg_k_le_count. Qed.
(* for every count (>= 0, in particular 1..5 with the default connectivity 5/count > 1), every
   two-ended edge type, every connectivity, either ensurelink, every RNG stream: returns, never raises *)
Theorem C20_returns_a_universe_never_raises : forall s count k scale ens draws,
  Inv s -> is_link k = true -> good_draws scale ens count draws ->
  snd (randgraph s count k scale ens draws) = Ret (VId (next s + count)).
Proof. exact randgraph_returns. Qed.
(* exactly `count` members: the new vertices, each once *)
Theorem C20_exactly_count_members : forall s count k scale ens draws,
  Inv s -> is_link k = true -> good_draws scale ens count draws ->
  let s' := fst (randgraph s count k scale ens draws) in let u := next s + count in
  (forall v, In v (uv s' u) <-> next s <= v < next s + count) /\ NoDup (uv s' u) /\ length (uv s' u) = count /\
  (forall v, In v (uv s' u) -> kd s' v = KVertex) /\ kd s' u = KUniverse /\ Inv s'.
Proof. exact randgraph_members. Qed.
(* every link is of the requested type and has both ends inside the universe *)
Theorem C20_links_of_requested_type_inside_universe : forall s count k scale ens draws,
  Inv s -> is_link k = true -> good_draws scale ens count draws ->
  let s' := fst (randgraph s count k scale ens draws) in
  next s' = next s + count + 2 + length (adj_pairs (rg_adj_spec (next s) 0 draws)) /\
  (forall l, next s + count + 2 <= l < next s' ->
     kd s' l = k /\ exists a b, lv s' l = [Some a; Some b] /\ next s <= a < next s + count /\ next s <= b < next s + count).
Proof. exact randgraph_links_inside. Qed.
(* with ensurelink every vertex is the first end (v1) of at least one link *)
Theorem C20_ensurelink_every_vertex_is_v1_of_a_link : forall s count k scale ens draws,
  Inv s -> is_link k = true -> good_draws scale ens count draws -> ens = true -> 1 <= count ->
  forall v, next s <= v < next s + count ->
  let s' := fst (randgraph s count k scale ens draws) in
  exists l w, next s + count + 2 <= l < next s' /\ lv s' l = [Some v; Some w] /\ kd s' l = k.
Proof. exact randgraph_ensurelink. Qed.
(* nothing that existed before is touched *)
Theorem C20_existing_graph_untouched : forall s count k scale ens draws,
  Inv s -> is_link k = true -> good_draws scale ens count draws ->
  let s' := fst (randgraph s count k scale ens draws) in
  forall i, i < next s -> lv s' i = lv s i /\ kd s' i = kd s i /\ vl s' i = vl s i /\ uv s' i = uv s i /\ vu s' i = vu s i.
Proof. exact randgraph_frame. Qed.
(* reproducibility: the result is a function of the RNG stream (seeding fixes the stream) — a
   Gallina function; and of `scale` only through the values it is applied to *)
Theorem C20_result_is_a_function_of_the_rng_stream : forall s count k scale scale' ens draws,
  (forall r, scale r = scale' r) -> randgraph s count k scale ens draws = randgraph s count k scale' ens draws.
Proof. exact randgraph_scale_ext. Qed.
(* the pinned code (no clamp) asks sample() for 5 out of 1 with count = 1 and the default connectivity *)
Theorem C20_pinned_sample_size_exceeds_population :
  let scale := fun r => r * 5 in forall ens, rg_k_old scale ens 1 1 = 5 /\ rg_k_old scale ens 1 1 > 1 /\ rg_k scale ens 1 1 = 1.
Proof. exact randgraph_pinned_would_raise. Qed.

Print Assumptions C20_sample_size_bounded_by_count.
Print Assumptions C20_returns_a_universe_never_raises.
Print Assumptions C20_exactly_count_members.
Print Assumptions C20_links_of_requested_type_inside_universe.
Print Assumptions C20_ensurelink_every_vertex_is_v1_of_a_link.
Print Assumptions C20_existing_graph_untouched.
Print Assumptions C20_result_is_a_function_of_the_rng_stream.
Print Assumptions C20_pinned_sample_size_exceeds_population.
Print Assumptions randgraph_count1.
Print Assumptions randgraph_count4.
