(* C04 — neighbors() follows exactly the documented direction / unknown-type / filter rules.
   Statements only; proofs in NbrsProofs.v (hand-written cascade Nbrs.nb_link) and NbrsGen.v
   (the cascade regenerated from helpers.py by the translator equals the hand-written one). *)
From EG Require Import Base State Nbrs NbrsDecide GenNbrs NbrsGen LinkProofs NbrsProofs.

(* the loop body the source has NOW (regenerated on this run) is the one the theorems are about *)
Theorem C04_source_cascade_is_model_cascade : forall filt s v d u f l,
  nb_link filt s v d u f l = nb_link_via filt gen_nb_decide s v d u f l.
Proof. exact nb_link_is_generated. Qed.

(* per link: the documented rule table (rule_follows: undirected — always; directed — origin /
   destination / either as the direction says; any other two-ended type — per unknown_handling,
   always under ANY; NotImplementedError under ERROR), every entry subject to the filter *)
Theorem C04_per_link_decision_is_rule_table : forall filt s v d u f l,
  nb_link filt s v d u f l = spec_link filt s v d u f l.
Proof. exact nb_link_spec. Qed.

(* the answer: in the order of v.links, one entry (the opposite end) per qualifying link — so
   parallel edges repeat and nothing is de-duplicated — provided no listed link raises *)
Theorem C04_answer_is_ordered_one_entry_per_qualifying_link : forall filt s v d u f out,
  neighbors_pure filt s v d u f = NOk out <->
  (forall l, In l (vl s v) -> forall e, spec_link filt s v d u f l <> LRaise e) /\
  out = flat_map (fun l => match spec_link filt s v d u f l with LAdd o => [o] | _ => [] end) (vl s v).
Proof. exact neighbors_ok_iff. Qed.
(* it raises exactly the exception of the first raising link *)
Theorem C04_raises_iff_some_link_raises : forall filt s v d u f e,
  neighbors_pure filt s v d u f = NErr e <->
  exists pre l post, vl s v = pre ++ l :: post /\ spec_link filt s v d u f l = LRaise e /\
                     (forall l', In l' pre -> forall e', spec_link filt s v d u f l' <> LRaise e').
Proof. exact neighbors_err_iff. Qed.

(* readable instances of the table *)
Theorem C04_self_loop_yields_the_vertex_itself : forall filt s v d u f l,
  lv s l = [Some v; Some v] -> is_undirected (kd s l) || is_directed (kd s l) = true ->
  spec_link filt s v d u f l = if fok filt f l (Some v) then LAdd (Some v) else LSkip.
Proof. exact self_loop_edge_qualifies. Qed.
Theorem C04_undirected_followed_both_ways : forall filt s d u l a b,
  is_undirected (kd s l) = true -> lv s l = [Some a; Some b] ->
  spec_link filt s a d u None l = LAdd (Some b) /\ spec_link filt s b d u None l = LAdd (Some a).
Proof. exact undirected_other_end. Qed.
Theorem C04_directed_forward_from_origin_backward_from_destination : forall filt s u l a b,
  is_directed (kd s l) = true -> lv s l = [Some a; Some b] -> a <> b ->
  spec_link filt s a Fwd u None l = LAdd (Some b) /\ spec_link filt s b Fwd u None l = LSkip /\
  spec_link filt s b Bwd u None l = LAdd (Some a) /\ spec_link filt s a Bwd u None l = LSkip.
Proof. exact directed_forward_only_from_origin. Qed.
Theorem C04_any_direction_follows_every_type : forall filt s u l a b,
  lv s l = [Some a; Some b] ->
  spec_link filt s a AnyDir u None l = LAdd (Some b) /\ spec_link filt s b AnyDir u None l = LAdd (Some a).
Proof. exact any_direction_includes_every_type. Qed.
Theorem C04_unknown_type_per_unknown_handling : forall filt s l a b d,
  is_directed (kd s l) = false -> is_undirected (kd s l) = false -> lv s l = [Some a; Some b] -> d <> AnyDir ->
  spec_link filt s a d UErr None l = LRaise NotImplementedError /\
  spec_link filt s a d UNon None l = LSkip /\ spec_link filt s a d UNb None l = LAdd (Some b).
Proof. exact unknown_type_rule. Qed.

(* duality: w occurs k times among the FORWARD neighbours of v exactly when v occurs k times among
   the BACKWARD neighbours of w (filters that depend on the link only; both calls return) *)
Theorem C04_forward_backward_duality : forall filt s u f v w outF outB,
  link_inv s -> (forall l o o', fok filt f l o = fok filt f l o') ->
  neighbors_pure filt s v Fwd u f = NOk outF -> neighbors_pure filt s w Bwd u f = NOk outB ->
  length (filter (oeqb (Some w)) outF) = length (filter (oeqb (Some v)) outB).
Proof. exact forward_backward_duality. Qed.

(* non-vacuity: a reachable heap with a directed and an undirected edge between the same pair, a
   directed self-loop and an unknown-type link; the association invariant holds and the duality
   counts are 2 *)
From EG Require Import Struct LinkStep Footprint StateLemmas.
Example C04_nonvacuous :
  let s := run [NewVertex false [] []; NewVertex false [] []; NewEdge KDir (Some 0) (Some 1); NewEdge KUnd (Some 1) (Some 0);
                NewEdge KDir (Some 0) (Some 0); NewEdge KOther (Some 0) (Some 1)] empty in
  link_inv s /\ neighbors_pure std_filt s 0 Fwd UNon None = NOk [Some 1; Some 1; Some 0] /\
  neighbors_pure std_filt s 1 Bwd UNon None = NOk [Some 0; Some 0] /\
  neighbors_pure std_filt s 0 Fwd UErr None = NErr NotImplementedError /\
  neighbors_pure std_filt s 0 AnyDir UErr (Some 2) = NOk [Some 1; Some 0].
Proof. split; [apply link_inv_reachable | vm_compute; auto]. Qed.

Print Assumptions C04_source_cascade_is_model_cascade.
Print Assumptions C04_per_link_decision_is_rule_table.
Print Assumptions C04_answer_is_ordered_one_entry_per_qualifying_link.
Print Assumptions C04_raises_iff_some_link_raises.
Print Assumptions C04_self_loop_yields_the_vertex_itself.
Print Assumptions C04_undirected_followed_both_ways.
Print Assumptions C04_directed_forward_from_origin_backward_from_destination.
Print Assumptions C04_any_direction_follows_every_type.
Print Assumptions C04_unknown_type_per_unknown_handling.
Print Assumptions C04_forward_backward_duality.
Print Assumptions C04_nonvacuous.
