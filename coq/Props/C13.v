(* C13 — read-only operations never change the graph, even when a user callback raises.
   PARTIAL.  In the Coq model the only read-only entry point with a write effect is neighbors()
   (it fills the memo); for it the theorems below cover every fault point of the filter callback,
   and (second half of the file) for the three traversals and three searches RUN THROUGH THE MEMO
   with a callback that may raise at any invocation (TravFaults.v): the graph is as before however
   the call ends, and the repeated call with the callback behaving answers as on the original heap.
   The renderers of the model are pure functions of the heap, so for them "leaves the graph
   unchanged" is true by construction of the model; that the Python functions have no OTHER effect
   (e.g. temporary attributes) is exactly what the fault-point enumeration on the implementation
   decides (harness leg `faults`, complete per generated case).
   Statements only; proofs in FaultsProofs.v and TravFaultsProofs.v. *)
From EG Require Import Base State Nbrs Struct Cache Faults FaultsProofs.
From EG Require Import Trav TravState TravCached TravCachedProofs TravFaults TravFaultsProofs.

(* a neighbors() query never changes the observable graph, whatever the callback does *)
Theorem C13_query_never_changes_the_graph : forall filtf s v d u f s' r, neighbors_cf filtf s v d u f = (s', r) ->
  vlinks s' = vlinks s /\ lverts s' = lverts s /\ vunis s' = vunis s /\ uverts s' = uverts s /\
  ulaws s' = ulaws s /\ lapp s' = lapp s /\ kind s' = kind s /\ caching s' = caching s.
Proof. exact faulty_query_frame. Qed.
(* when the callback raises (at any of its invocations) the WHOLE state, memo included, is as before *)
Theorem C13_raising_callback_changes_nothing : forall filtf s v d u f s',
  neighbors_cf filtf s v d u f = (s', F3Boom) -> s' = s.
Proof. exact raising_filter_changes_nothing. Qed.
Theorem C13_raising_lookup_changes_nothing : forall filtf s v d u f s' e,
  neighbors_cf filtf s v d u f = (s', F3Err e) -> s' = s.
Proof. exact raising_lookup_changes_nothing. Qed.
(* so repeating the call with a well-behaved callback gives the normal answer *)
Theorem C13_retry_after_fault_gives_normal_answer : forall filtf filt s v d u f s',
  neighbors_cf filtf s v d u f = (s', F3Boom) -> neighbors_c filt s' v d u f = neighbors_c filt s v d u f.
Proof. exact retry_after_fault_gives_normal_answer. Qed.
(* the memo stays coherent through faulty queries; a hit is always the recomputation *)
Theorem C13_memo_stays_coherent : forall filtf s v d u f, wf s -> v < next s -> Coh_f filtf s ->
  Coh_f filtf (fst (neighbors_cf filtf s v d u f)).
Proof. exact Coh_f_query. Qed.
(* a callback that never raises gives the ordinary model *)
Theorem C13_well_behaved_callback_is_ordinary : forall filt filtf, (forall fid l o, filtf fid l o = Some (filt fid l o)) ->
  forall s v d u f, neighbors_pure_f filtf s v d u f = match neighbors_pure filt s v d u f with NOk l => F3Ok l | NErr e => F3Err e end.
Proof. exact faulty_total_agrees. Qed.
(* fault points: the call raises the callback's exception exactly when one of the invocations made
   (in order, up to the first raising one) raises — "a fault at the k-th invocation" for every k *)
Theorem C13_fault_points_are_the_invocations : forall filtf s v d u f,
  neighbors_pure_f filtf s v d u f = F3Boom <->
  exists l o fid, f = Some fid /\ In (l, o) (invocations filtf s v d u f) /\ filtf fid l o = None.
Proof. exact boom_iff_some_invocation_raises. Qed.

(* ---- traversals and searches through the memo, with an ff_via callback that may raise ---- *)
(* whatever the callback does and however the call ends (normally, with the callback's exception, with
   the loop's own exception, even out of fuel): every field of the heap but the memo is as before *)
Theorem C13_faulty_traversals_leave_the_graph_unchanged : forall filtf d u fv uni fr m fuel s start,
  same_graph s (fst (bft_st state (nbs_cf filtf d u fv) uni fr fuel s start)) /\
  same_graph s (fst (dft_rec_st state (nbs_cf filtf d u fv) uni fr fuel s start)) /\
  same_graph s (fst (dft_iter_st state (nbs_cf filtf d u fv) uni fr fuel s start)) /\
  same_graph s (fst (bfs_st state (nbs_cf filtf d u fv) uni m fuel s start)) /\
  same_graph s (fst (dfs_rec_st state (nbs_cf filtf d u fv) uni m fuel s start)) /\
  same_graph s (fst (dfs_iter_st state (nbs_cf filtf d u fv) uni m fuel s start)).
Proof. exact faulty_traversals_leave_the_graph_unchanged. Qed.
(* the memo entries written before the fault are truthful: the heap left behind is coherent for the
   behaving callback (filt answers what filtf answers wherever filtf answers at all) *)
Theorem C13_faulty_traversals_keep_the_memo_coherent : forall filtf filt d u fv uni fr m fuel s start,
  refines filtf filt -> wf s -> Coh filt s ->
  (let s' := fst (bft_st state (nbs_cf filtf d u fv) uni fr fuel s start) in wf s' /\ Coh filt s') /\
  (let s' := fst (dft_rec_st state (nbs_cf filtf d u fv) uni fr fuel s start) in wf s' /\ Coh filt s') /\
  (let s' := fst (dft_iter_st state (nbs_cf filtf d u fv) uni fr fuel s start) in wf s' /\ Coh filt s') /\
  (let s' := fst (bfs_st state (nbs_cf filtf d u fv) uni m fuel s start) in wf s' /\ Coh filt s') /\
  (let s' := fst (dfs_rec_st state (nbs_cf filtf d u fv) uni m fuel s start) in wf s' /\ Coh filt s') /\
  (let s' := fst (dfs_iter_st state (nbs_cf filtf d u fv) uni m fuel s start) in wf s' /\ Coh filt s').
Proof. exact faulty_traversals_keep_the_memo_coherent. Qed.
(* "repeating the call with a well-behaved callback gives the normal answer": on the heap s' left by ANY
   of the six entry points run with a raising callback, every traversal, search and neighbors() call with
   the callback behaving answers exactly as on the original heap s *)
Theorem C13_retry_after_faulty_call_gives_the_normal_answer : forall filtf filt s s',
  refines filtf filt -> wf s -> Coh filt s -> after_faulty_call filtf s s' ->
  forall ou start d u fv fr m fuel,
  snd (bft_st state (nbs_c filt d u fv) (t_uni s' ou) fr fuel s' start)
    = snd (bft_st state (nbs_c filt d u fv) (t_uni s ou) fr fuel s start) /\
  snd (dft_rec_st state (nbs_c filt d u fv) (t_uni s' ou) fr fuel s' start)
    = snd (dft_rec_st state (nbs_c filt d u fv) (t_uni s ou) fr fuel s start) /\
  snd (dft_iter_st state (nbs_c filt d u fv) (t_uni s' ou) fr fuel s' start)
    = snd (dft_iter_st state (nbs_c filt d u fv) (t_uni s ou) fr fuel s start) /\
  snd (bfs_st state (nbs_c filt Fwd UErr None) (t_uni s' ou) m fuel s' start)
    = snd (bfs_st state (nbs_c filt Fwd UErr None) (t_uni s ou) m fuel s start) /\
  snd (dfs_rec_st state (nbs_c filt Fwd UErr None) (t_uni s' ou) m fuel s' start)
    = snd (dfs_rec_st state (nbs_c filt Fwd UErr None) (t_uni s ou) m fuel s start) /\
  snd (dfs_iter_st state (nbs_c filt Fwd UErr None) (t_uni s' ou) m fuel s' start)
    = snd (dfs_iter_st state (nbs_c filt Fwd UErr None) (t_uni s ou) m fuel s start) /\
  snd (neighbors_c filt s' start d u fv) = snd (neighbors_c filt s start d u fv).
Proof. exact retry_after_faulty_call_gives_the_normal_answer. Qed.
(* a callback that never raises: the faulty model IS the ordinary one (heap and result) *)
Theorem C13_calm_callback_is_the_ordinary_traversal : forall filt d u fv uni fr m fuel s start,
  bft_st state (nbs_cf (calm filt) d u fv) uni fr fuel s start = bft_st state (nbs_c filt d u fv) uni fr fuel s start /\
  dft_rec_st state (nbs_cf (calm filt) d u fv) uni fr fuel s start = dft_rec_st state (nbs_c filt d u fv) uni fr fuel s start /\
  dft_iter_st state (nbs_cf (calm filt) d u fv) uni fr fuel s start = dft_iter_st state (nbs_c filt d u fv) uni fr fuel s start /\
  bfs_st state (nbs_cf (calm filt) d u fv) uni m fuel s start = bfs_st state (nbs_c filt d u fv) uni m fuel s start /\
  dfs_rec_st state (nbs_cf (calm filt) d u fv) uni m fuel s start = dfs_rec_st state (nbs_c filt d u fv) uni m fuel s start /\
  dfs_iter_st state (nbs_cf (calm filt) d u fv) uni m fuel s start = dfs_iter_st state (nbs_c filt d u fv) uni m fuel s start.
Proof. exact calm_callback_is_the_ordinary_traversal. Qed.

Print Assumptions C13_query_never_changes_the_graph.
Print Assumptions C13_raising_callback_changes_nothing.
Print Assumptions C13_raising_lookup_changes_nothing.
Print Assumptions C13_retry_after_fault_gives_normal_answer.
Print Assumptions C13_memo_stays_coherent.
Print Assumptions C13_well_behaved_callback_is_ordinary.
Print Assumptions C13_fault_points_are_the_invocations.
Print Assumptions fault_example.
Print Assumptions C13_faulty_traversals_leave_the_graph_unchanged.
Print Assumptions C13_faulty_traversals_keep_the_memo_coherent.
Print Assumptions C13_retry_after_faulty_call_gives_the_normal_answer.
Print Assumptions C13_calm_callback_is_the_ordinary_traversal.
Print Assumptions faulty_traversal_example.
