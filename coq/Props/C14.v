(* C14 — PlantUML source shows each member vertex and each internal link once, oriented.
   Statements only; proofs in RenderProofs.v.  The model is the structured document
   (declarations, relations); its text — str.format titles, dir(), regex-selected attribute lines,
   the @startuml/@enduml frame — is produced by Python and decided by the parse-back tie: PARTIAL
   for text. *)
From EG Require Import Base State Nbrs Trav Render RenderProofs.

Theorem C14_empty_universe_yields_None : forall conf s u, uv s u = [] -> render_puml conf s u = UOk None.
Proof. exact puml_empty. Qed.
(* each member vertex is declared exactly once, in universe order, with the options of the
   nearest configured class of its hierarchy *)
Theorem C14_each_member_declared_once_in_order : forall conf s u d, render_puml conf s u = UOk (Some d) ->
  map d_vertex (decls d) = uv s u /\
  forall x, In x (decls d) -> resolve conf (PK (kd s (d_vertex x))) = Some (d_class x).
Proof. exact puml_decls_exact. Qed.
Theorem C14_nearest_configured_class : forall conf c c', resolve conf c = Some c' ->
  In c' (mro c) /\ conf c' = true /\ forall c0 pre post, mro c = pre ++ c' :: post -> In c0 pre -> conf c0 = false.
Proof. exact resolve_spec. Qed.
(* exactly one relation per link listed by a member, in v1-to-v2 orientation, with the arrow ends
   configured for the link's nearest configured class *)
Theorem C14_one_relation_per_member_link_oriented : forall conf s u d, render_puml conf s u = UOk (Some d) ->
  map r_link (rels d) = member_links s (uv s u) /\ NoDup (map r_link (rels d)) /\
  forall x, In x (rels d) ->
    lv1 s (r_link x) = Some (Some (r_v1 x)) /\ lv2 s (r_link x) = Some (Some (r_v2 x)) /\
    resolve conf (PK (kd s (r_link x))) = Some (r_class x).
Proof. exact puml_rels_exact. Qed.
(* each link whose ends are members appears exactly once ... *)
Theorem C14_each_internal_link_exactly_once : forall conf s u d, render_puml conf s u = UOk (Some d) ->
  forall l a, In a (uv s u) -> In l (vl s a) -> count_occ Nat.eq_dec (map r_link (rels d)) l = 1.
Proof. exact puml_internal_link_count. Qed.
Theorem C14_relation_joins_v1_to_v2 : forall conf s u d, render_puml conf s u = UOk (Some d) ->
  forall l a b x, lv s l = [Some a; Some b] -> In x (rels d) -> r_link x = l -> r_v1 x = a /\ r_v2 x = b.
Proof. exact puml_internal_link_ends. Qed.
(* ... and no relation is emitted for a link that does not exist / that no member lists *)
Theorem C14_no_invented_relation : forall conf s u d, render_puml conf s u = UOk (Some d) ->
  forall x, In x (rels d) -> exists m, In m (uv s u) /\ In (r_link x) (vl s m).
Proof. exact puml_rels_real. Qed.
(* the code iterates a Python set of links: the relation multiset does not depend on that order *)
Theorem C14_independent_of_set_iteration_order : forall conf s ls ls', Permutation.Permutation ls' ls ->
  ((exists rs', puml_rels conf s ls' = inl rs') <-> (exists rs, puml_rels conf s ls = inl rs)) /\
  (forall rs rs', puml_rels conf s ls = inl rs -> puml_rels conf s ls' = inl rs' -> Permutation.Permutation rs' rs).
Proof. exact member_links_perm. Qed.
(* defaults: a DirectedEdge subclass renders with DirectedEdge's sides, a Universe as a Vertex; an
   unconfigured vertex class raises ValueError *)
Theorem C14_default_table_resolution :
  resolve conf0 (PK KDirSub) = Some (PK KDir) /\ resolve conf0 (PK KUniverse) = Some (PK KVertex) /\ resolve conf0 (PK KOther) = None.
Proof. split; [exact resolve_conf0_dirsub | split; [exact resolve_conf0_universe | exact resolve_conf0_other]]. Qed.
Theorem C14_unconfigured_vertex_class_raises : forall conf s u m, In m (uv s u) -> resolve conf (PK (kd s m)) = None ->
  render_puml conf s u = Render.UErr ValueError.
Proof. exact puml_unconfigured_vertex_raises. Qed.

Print Assumptions C14_empty_universe_yields_None.
Print Assumptions C14_each_member_declared_once_in_order.
Print Assumptions C14_nearest_configured_class.
Print Assumptions C14_one_relation_per_member_link_oriented.
Print Assumptions C14_each_internal_link_exactly_once.
Print Assumptions C14_relation_joins_v1_to_v2.
Print Assumptions C14_no_invented_relation.
Print Assumptions C14_independent_of_set_iteration_order.
Print Assumptions C14_default_table_resolution.
Print Assumptions C14_unconfigured_vertex_class_raises.
Print Assumptions render_example.
