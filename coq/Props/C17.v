(* C17 — semi-singletons: per class, instances correspond one-to-one to argument keys.
   Statements only; proofs in SemiSingleProofs.v.  Keys are the values of the metaclass's hash
   function up to ==; the instance maps are keyed by (class, key). *)
From EG Require Import Base SemiSingle SemiSingleProofs.

Theorem C17_every_reachable_state_is_well_formed : forall ops, swf (srun ops ss_init).
Proof. exact swf_reachable. Qed.
(* constructing with a key equal to a live key returns that key's instance; nothing else happens
   (no second __init__) *)
Theorem C17_live_key_returns_its_instance : forall s c k i,
  slookup (c, k) (stbl s) = Some i -> sstep s (SConstruct c k) = (s, SInst i).
Proof. exact construct_live_key_returns_it. Qed.
(* ... and keeps doing so through any history that does not drop / clear / re-map that key; the
   instance's __init__ log never grows *)
Theorem C17_same_instance_while_key_is_live : forall s ops c k i, swf s -> slookup (c, k) (stbl s) = Some i ->
  (forall o, In o ops -> touches_key o c k = false) ->
  slookup (c, k) (stbl (srun ops s)) = Some i /\
  sstep (srun ops s) (SConstruct c k) = (srun ops s, SInst i) /\
  sinits_of i (slog (fst (sstep (srun ops s) (SConstruct c k)))) = sinits_of i (slog s).
Proof. exact same_instance_while_key_live. Qed.
(* a different (non-live) key creates a brand-new instance of the class called; __init__ runs once *)
Theorem C17_new_key_creates_a_different_instance : forall s c k, swf s -> slookup (c, k) (stbl s) = None ->
  let s' := {| stbl := sset (c, k) (snxt s) (stbl s); snxt := S (snxt s); slog := slog s ++ [(snxt s, (c, k))] |} in
  exists i, sstep s (SConstruct c k) = (s', SInst i) /\ i = snxt s /\
            (forall kk j, In (kk, j) (stbl s) -> j <> i) /\ slookup (c, k) (stbl s') = Some i /\
            cls_of i (slog s') = Some c /\ sinits_of i (slog s') = [(c, k)].
Proof. exact construct_new_key_creates_fresh_instance. Qed.
(* the object returned is always an instance of the class that was called *)
Theorem C17_returned_instance_is_of_the_class_called : forall s c k i, swf s ->
  snd (sstep s (SConstruct c k)) = SInst i -> cls_of i (slog (fst (sstep s (SConstruct c k)))) = Some c.
Proof. exact returned_instance_is_of_the_class_called. Qed.
(* check / get_all report exactly the live mappings and create nothing *)
Theorem C17_check_and_get_all_are_read_only : forall s c k,
  fst (sstep s (SCheck c k)) = s /\ fst (sstep s (SGetAll c)) = s.
Proof. exact check_and_getall_are_readonly. Qed.
Theorem C17_check_reports_the_live_mapping : forall s c k,
  snd (sstep s (SCheck c k)) = match slookup (c, k) (stbl s) with Some i => SInst i | None => SNone end.
Proof. exact check_reports_live_mapping. Qed.
Theorem C17_get_all_reports_exactly_the_live_instances : forall s c l, swf s -> snd (sstep s (SGetAll c)) = SList l ->
  forall i, In i l <-> exists k, slookup (c, k) (stbl s) = Some i.
Proof. exact getall_reports_exactly_live_instances. Qed.
(* operations on one class never change what another class returns — including classes sharing a
   metaclass object and subclasses *)
Theorem C17_other_classes_unaffected : forall s o c c', swf s -> sop_class s o = Some c -> c' <> c ->
  forall k, slookup (c', k) (stbl (fst (sstep s o))) = slookup (c', k) (stbl s).
Proof. exact other_classes_unaffected. Qed.
Theorem C17_other_class_outcomes_unchanged : forall s o o' c c', swf s -> sop_class s o = Some c ->
  sop_class s o' = Some c' -> c' <> c -> (forall k, o' = SConstruct c' k -> slookup (c', k) (stbl s) <> None) ->
  snd (sstep (fst (sstep s o)) o') = snd (sstep s o').
Proof. exact other_class_outcome_unchanged. Qed.
Theorem C17_drop_absent_raises_keyerror : forall s c k, slookup (c, k) (stbl s) = None -> sstep s (SDrop c k) = (s, SKeyError).
Proof. exact drop_absent_raises_keyerror. Qed.
Theorem C17_construct_after_drop_is_new : forall s c k i, swf s -> slookup (c, k) (stbl s) = Some i ->
  snd (sstep (fst (sstep s (SDrop c k))) (SConstruct c k)) <> SInst i.
Proof. exact drop_then_construct_is_new. Qed.
Theorem C17_add_mapping_aliases : forall s i k c, swf s -> cls_of i (slog s) = Some c ->
  slookup (c, k) (stbl (fst (sstep s (SAddMapping i k)))) = Some i.
Proof. exact add_mapping_aliases. Qed.

Print Assumptions C17_every_reachable_state_is_well_formed.
Print Assumptions C17_live_key_returns_its_instance.
Print Assumptions C17_same_instance_while_key_is_live.
Print Assumptions C17_new_key_creates_a_different_instance.
Print Assumptions C17_returned_instance_is_of_the_class_called.
Print Assumptions C17_check_and_get_all_are_read_only.
Print Assumptions C17_check_reports_the_live_mapping.
Print Assumptions C17_get_all_reports_exactly_the_live_instances.
Print Assumptions C17_other_classes_unaffected.
Print Assumptions C17_other_class_outcomes_unchanged.
Print Assumptions C17_drop_absent_raises_keyerror.
Print Assumptions C17_construct_after_drop_is_new.
Print Assumptions C17_add_mapping_aliases.
Print Assumptions semi_example.
