(* C09 — find_links returns exactly the links neighbors() would follow from a to b.
   Statements only; proofs in NbrsProofs.v, NbrsGen.v (translator obligations), UnlinkFind.v. *)
From EG Require Import Base State Nbrs NbrsDecide GenNbrs NbrsGen Struct LinkProofs NbrsProofs RefProofs UnlinkFind.

(* the cascade the source has now (regenerated on this run) is the model's *)
Theorem C09_source_cascade_is_model_cascade : forall ffl s a b ds u f l,
  fl_link ffl s a b ds u f l = fl_link_via ffl gen_fl_decide s a b ds u f l.
Proof. exact fl_link_is_generated. Qed.

(* per link: it must join a and b (other end of l seen from a is b — a self-loop when a is b);
   with direction sensitivity the neighbors() rule table for FORWARD decides (undirected: yes;
   directed: only from a to b; other types per unknown_handling); without it every joining link;
   always subject to the filter *)
Theorem C09_per_link_decision : forall ffl s a b ds u f l,
  fl_link ffl s a b ds u f l = fl_spec_link ffl s a b ds u f l.
Proof. exact fl_link_spec. Qed.
(* the answer is exactly the set of qualifying links of a.links (no duplicates, nothing else) *)
Theorem C09_answer_is_exactly_the_qualifying_links : forall ffl s a b ds u f ls,
  find_links ffl s a b ds u f = FOk ls ->
  forall l, In l ls <-> In l (vl s a) /\ fl_spec_link ffl s a b ds u f l = FAdd.
Proof. exact find_links_complete. Qed.
Theorem C09_answer_has_no_duplicates : forall ffl s a b ds u f ls, find_links ffl s a b ds u f = FOk ls -> NoDup ls.
Proof. exact find_links_nodup. Qed.
Theorem C09_answer_links_join_a_and_b : forall ffl s a b ds u f ls,
  find_links ffl s a b ds u f = FOk ls -> forall l, In l ls -> In l (vl s a) /\ NbrsProofs.joins s l a b = true.
Proof. exact find_links_only_listed. Qed.
Theorem C09_answer_when_nothing_raises : forall ffl s a b ds u f, NoDup (vl s a) ->
  (forall l, In l (vl s a) -> forall e, fl_spec_link ffl s a b ds u f l <> FRaise e) ->
  find_links ffl s a b ds u f =
  FOk (filter (fun l => match fl_spec_link ffl s a b ds u f l with FAdd => true | _ => false end) (vl s a)).
Proof. exact find_links_ok. Qed.

(* size equation: whenever both calls return, |find_links(a, b)| = number of times b occurs in
   neighbors(a) under the corresponding settings (same link-only filter) *)
Theorem C09_size_equals_occurrences_in_neighbors : forall filt ffl s a b ds u f ls out,
  link_inv s -> (forall l o, fok filt f l o = ffok ffl f l) ->
  find_links ffl s a b ds u f = FOk ls -> neighbors_pure filt s a (if ds then Fwd else AnyDir) u f = NOk out ->
  length ls = length (filter (oeqb (Some b)) out).
Proof. exact find_links_size. Qed.

(* after unlink(a, b): empty for every setting (for b->a: unless a link that had already lost an
   end is still listed by b, in which case find_links(b, a) raises IndexError before and after);
   on graphs of proper two-ended links both directions are empty and every other ordered pair
   answers exactly as before *)
Theorem C09_empty_after_unlink : forall ffl s a b destroy links ds u f, Inv s -> well_typed s (Unlink a b destroy) = true ->
  find_links (fun _ _ => true) s a b false UErr None = FOk links ->
  let s' := fst (step s (Unlink a b destroy)) in
  find_links ffl s' a b ds u f = FOk [] /\
  (find_links ffl s' b a ds u f = FOk [] \/ find_links ffl s' b a ds u f = FErr IndexError).
Proof. exact find_links_empty_after_unlink. Qed.
Theorem C09_empty_after_unlink_proper_graphs : forall ffl s a b destroy links ds u f, Inv s ->
  well_typed s (Unlink a b destroy) = true -> find_links (fun _ _ => true) s a b false UErr None = FOk links -> proper s ->
  let s' := fst (step s (Unlink a b destroy)) in
  find_links ffl s' a b ds u f = FOk [] /\ find_links ffl s' b a ds u f = FOk [].
Proof. exact find_links_empty_after_unlink_proper. Qed.
Theorem C09_other_pairs_still_found_after_unlink : forall ffl s a b destroy links c d ds u f, Inv s ->
  well_typed s (Unlink a b destroy) = true -> find_links (fun _ _ => true) s a b false UErr None = FOk links -> proper s ->
  ~ (c = a /\ d = b) /\ ~ (c = b /\ d = a) ->
  let s' := fst (step s (Unlink a b destroy)) in find_links ffl s' c d ds u f = find_links ffl s c d ds u f.
Proof. exact find_links_other_pairs_unchanged. Qed.

Print Assumptions C09_source_cascade_is_model_cascade.
Print Assumptions C09_per_link_decision.
Print Assumptions C09_answer_is_exactly_the_qualifying_links.
Print Assumptions C09_answer_has_no_duplicates.
Print Assumptions C09_answer_links_join_a_and_b.
Print Assumptions C09_answer_when_nothing_raises.
Print Assumptions C09_size_equals_occurrences_in_neighbors.
Print Assumptions C09_empty_after_unlink.
Print Assumptions C09_empty_after_unlink_proper_graphs.
Print Assumptions C09_other_pairs_still_found_after_unlink.
Print Assumptions unlinkfind_example.
