(* C12 — containers handed out or taken in are snapshots; mutating them changes nothing.
   What is provable here: object identity of the containers the library RETAINS — the memo of
   neighbors() answers (MemoAlias.v).  Statements only; proofs in MemoAliasProofs.v.
   That the other accessors (links, vertices, universes, edge_whitelist, find_links, traversal
   results) and the constructor / builder arguments are copied is decided by the exhaustive
   accessor x edit matrix on the implementation (harness legs), not by a theorem: PARTIAL. *)
From EG Require Import Base MemoAlias MemoAliasProofs.

(* with copy-on-hit and copy-on-insert (the code as it is now), in every history of queries, graph
   mutations, flag toggles and ARBITRARY client edits of any list ever handed out, every query
   answers the recomputed truth of that moment *)
Theorem C12_client_edits_never_change_answers :
  forall c ops, manswers true (minit c) ops = mtruths true (minit c) ops.
Proof. exact client_edits_never_change_answers. Qed.
(* equivalently: the answers equal those of the same history with the client edits erased *)
Theorem C12_answers_independent_of_client_edits :
  forall c ops, filter_some (manswers true (minit c) ops) = filter_some (manswers true (minit c) (erase ops)).
Proof. exact answers_independent_of_client_edits. Qed.
(* the invariant behind it: no location reachable from the memo has ever escaped to the client *)
Theorem C12_memo_locations_never_escape : forall s o, minv s -> minv (fst (mstep true s o)).
Proof. exact minv_step. Qed.
Theorem C12_query_hands_out_the_truth : forall s k s' c, minv s -> mstep true s (MQuery k) = (s', Some c) ->
  get [] c (cells s') = get [] k (cur s).
Proof. exact query_returns_truth. Qed.
(* without the copies (the code as pinned) the statement is false: r = neighbors(a); r.append(x);
   neighbors(a) returns the corrupted list *)
Theorem C12_refuted_without_copies : exists c ops, manswers false (minit c) ops <> mtruths false (minit c) ops.
Proof. exact aliasing_refuted_without_copies. Qed.

Print Assumptions C12_client_edits_never_change_answers.
Print Assumptions C12_answers_independent_of_client_edits.
Print Assumptions C12_memo_locations_never_escape.
Print Assumptions C12_query_hands_out_the_truth.
Print Assumptions C12_refuted_without_copies.
Print Assumptions copies_example.
