(* C12 — containers handed out or taken in are snapshots; mutating them changes nothing.
   What is provable here: object identity of the containers the library RETAINS — the memo of
   neighbors() answers (MemoAlias.v).  Statements only; proofs in MemoAliasProofs.v.
   The containers kept in FIELDS (Universe.vertices, Link.vertices, Vertex.links, .universes),
   taken in by constructors and handed out by accessors are modelled in FieldAlias.v: with a copy
   on the way in and a copy on the way out, every history of client allocations, constructions from
   client lists, accessor reads, library mutations and ARBITRARY client edits of any list the client
   ever held answers like the value-only specification, in which client edits touch no field.
   Not modelled (decided by the exhaustive accessor x edit matrix on the implementation only): the
   nested mapping proxy of edge_whitelist, dict-valued attributes=, adjacency inputs: PARTIAL. *)
From EG Require Import Base MemoAlias MemoAliasProofs FieldAlias FieldAliasProofs.

(* with copy-on-hit and copy-on-insert (the code as it is now), in every history of queries, graph
   mutations, flag toggles and ARBITRARY client edits of any list ever handed out, every query
   answers the recomputed truth of that moment *)
Theorem C12_client_edits_never_change_answers :
  forall c ops, manswers true (minit c) ops = mtruths true (minit c) ops.
Proof. exact client_edits_never_change_answers. Qed.
(* equivalently: the answers equal those of the same history with the client edits erased *)
Theorem C12_answers_independent_of_client_edits :
  forall c ops, filter_some (manswers true (minit c) ops) = filter_some (manswers true (minit c) (erase ops)).
Proof. exact answers_independent_of_client_edits. Qed.
(* the invariant behind it: no location reachable from the memo has ever escaped to the client *)
Theorem C12_memo_locations_never_escape : forall s o, minv s -> minv (fst (mstep true s o)).
Proof. exact minv_step. Qed.
Theorem C12_query_hands_out_the_truth : forall s k s' c, minv s -> mstep true s (MQuery k) = (s', Some c) ->
  get [] c (cells s') = get [] k (cur s).
Proof. exact query_returns_truth. Qed.
(* without the copies (the code as pinned) the statement is false: r = neighbors(a); r.append(x);
   neighbors(a) returns the corrupted list *)
Theorem C12_refuted_without_copies : exists c ops, manswers false (minit c) ops <> mtruths false (minit c) ops.
Proof. exact aliasing_refuted_without_copies. Qed.

(* ---- containers kept in fields, taken in and handed out (FieldAlias.v) ---- *)
(* with both copies (the code as it is), every accessor call of every history answers what the value-only
   specification answers: the value the field has by the library's own mutators alone *)
Theorem C12_field_answers_refine_spec : forall ops, fanswers true true finit ops = sanswers sinit ops.
Proof. exact field_answers_refine_spec. Qed.
(* the invariant behind it: no list object the library keeps in a field is ever reachable by the client *)
Theorem C12_field_locations_never_owned :
  forall ops c, In c (fields (frun true true finit ops)) -> ~ In c (fowned (frun true true finit ops)).
Proof. exact field_locations_never_owned. Qed.
(* the field values themselves are the specification's after every history *)
Theorem C12_field_values_refine_spec :
  forall ops, map (fun c => get [] c (fcells (frun true true finit ops))) (fields (frun true true finit ops))
              = sfields (srun sinit ops).
Proof. exact field_values_refine_spec. Qed.
(* in the specification a client edit changes no field and answers nothing (the frame the refinement transports) *)
Theorem C12_spec_client_edit_frame :
  forall ss loc xs, sfields (fst (sstep ss (FClient loc xs))) = sfields ss /\ snd (sstep ss (FClient loc xs)) = None.
Proof. exact spec_client_edit_frame. Qed.
(* each copy is necessary: a constructor that keeps the caller's list, or an accessor that hands out the field *)
Theorem C12_refuted_without_copy_in : exists ops, fanswers false true finit ops <> sanswers sinit ops.
Proof. exact refuted_without_copy_in. Qed.
Theorem C12_refuted_without_copy_out : exists ops, fanswers true false finit ops <> sanswers sinit ops.
Proof. exact refuted_without_copy_out. Qed.

Print Assumptions C12_client_edits_never_change_answers.
Print Assumptions C12_answers_independent_of_client_edits.
Print Assumptions C12_memo_locations_never_escape.
Print Assumptions C12_query_hands_out_the_truth.
Print Assumptions C12_refuted_without_copies.
Print Assumptions copies_example.
Print Assumptions C12_field_answers_refine_spec.
Print Assumptions C12_field_locations_never_owned.
Print Assumptions C12_field_values_refine_spec.
Print Assumptions C12_spec_client_edit_frame.
Print Assumptions C12_refuted_without_copy_in.
Print Assumptions C12_refuted_without_copy_out.
Print Assumptions field_alias_example.
