(* C02 — universe membership is symmetric, ordered and duplicate-free after every history.
   Statements only; proofs are in UniProofs.v. *)
From EG Require Import Base State StateLemmas Nbrs Struct Footprint UniProofs.

(* after ANY history of well-typed calls (the four membership calls from either side, the
   constructors with universes= / vertices=, and every other mutator of the structure API),
   v is listed in u.vertices iff u is listed in v.universes, and neither list holds a duplicate;
   u and v range over all objects, so this covers universes that are members of universes,
   including of themselves *)
Theorem C02_membership_symmetric_and_duplicate_free :
  forall ops, let s := run ops empty in
  (forall u v, In v (uv s u) <-> In u (vu s v)) /\ (forall u, NoDup (uv s u)) /\ (forall v, NoDup (vu s v)).
Proof. intro ops. destruct (uni_inv_reachable ops) as [H1 [H2 H3]]. auto. Qed.

Theorem C02_every_step_preserves : forall s o, wf s -> uni_inv s -> uni_inv (fst (step s o)).
Proof. exact uni_inv_step. Qed.

(* insertion order: adding a non-member appends it at the end of Universe.vertices (and the
   universe at the end of the vertex's universes); nothing else moves *)
Theorem C02_add_appends_in_order : forall s u v, wf s -> uni_inv s -> well_typed s (UAddVertex u v) = true ->
  ~ In v (uv s u) ->
  let s' := fst (step s (UAddVertex u v)) in
  uv s' u = uv s u ++ [v] /\ vu s' v = vu s v ++ [u] /\
  (forall u', u' <> u -> uv s' u' = uv s u') /\ (forall v', v' <> v -> vu s' v' = vu s v') /\
  snd (step s (UAddVertex u v)) = Ret VNone.
Proof. exact uadd_new. Qed.
Theorem C02_add_member_is_noop : forall s u v, wf s -> uni_inv s -> well_typed s (UAddVertex u v) = true ->
  In v (uv s u) -> step s (UAddVertex u v) = (s, Ret VNone).
Proof. exact uadd_member_noop. Qed.
Theorem C02_remove_member_keeps_order : forall s u v, wf s -> uni_inv s -> well_typed s (URemoveVertex u v) = true ->
  In v (uv s u) ->
  let s' := fst (step s (URemoveVertex u v)) in
  uv s' u = remove1 v (uv s u) /\ vu s' v = remove1 u (vu s v) /\
  (forall u', u' <> u -> uv s' u' = uv s u') /\ (forall v', v' <> v -> vu s' v' = vu s v') /\
  snd (step s (URemoveVertex u v)) = Ret VNone.
Proof. exact uremove_member. Qed.
(* removing a non-member raises and changes nothing *)
Theorem C02_remove_nonmember_raises_and_changes_nothing : forall s u v, wf s -> uni_inv s ->
  well_typed s (URemoveVertex u v) = true -> ~ In v (uv s u) -> step s (URemoveVertex u v) = (s, Raised ValueError).
Proof. exact uremove_nonmember_raises. Qed.

(* the same from the vertex side *)
Theorem C02_vertex_side_add : forall s v u, wf s -> uni_inv s -> well_typed s (VAddToUniverse v u) = true ->
  ~ In u (vu s v) ->
  let s' := fst (step s (VAddToUniverse v u)) in
  uv s' u = uv s u ++ [v] /\ vu s' v = vu s v ++ [u] /\
  (forall u', u' <> u -> uv s' u' = uv s u') /\ (forall v', v' <> v -> vu s' v' = vu s v') /\
  snd (step s (VAddToUniverse v u)) = Ret VNone.
Proof. exact vadd_new. Qed.
Theorem C02_vertex_side_add_member_is_noop : forall s v u, wf s -> uni_inv s -> well_typed s (VAddToUniverse v u) = true ->
  In u (vu s v) -> step s (VAddToUniverse v u) = (s, Ret VNone).
Proof. exact vadd_member_noop. Qed.
Theorem C02_vertex_side_remove : forall s v u, wf s -> uni_inv s -> well_typed s (VRemoveFromUniverse v u) = true ->
  In u (vu s v) ->
  let s' := fst (step s (VRemoveFromUniverse v u)) in
  uv s' u = remove1 v (uv s u) /\ vu s' v = remove1 u (vu s v) /\
  (forall u', u' <> u -> uv s' u' = uv s u') /\ (forall v', v' <> v -> vu s' v' = vu s v') /\
  snd (step s (VRemoveFromUniverse v u)) = Ret VNone.
Proof. exact vremove_member. Qed.
Theorem C02_vertex_side_remove_nonmember_raises : forall s v u, wf s -> uni_inv s ->
  well_typed s (VRemoveFromUniverse v u) = true -> ~ In u (vu s v) -> step s (VRemoveFromUniverse v u) = (s, Raised ValueError).
Proof. exact vremove_nonmember_raises. Qed.

(* Vertex(universes=us): de-duplicated keeping first occurrences (dict.fromkeys), and the new
   vertex is appended to each named universe; nothing else moves *)
Theorem C02_constructor_with_universes : forall s sub us, wf s -> uni_inv s -> well_typed s (NewVertex sub us []) = true ->
  let s' := fst (step s (NewVertex sub us [])) in
  vu s' (next s) = dedup us /\
  (forall u, In u us -> uv s' u = uv s u ++ [next s]) /\
  (forall u, ~ In u us -> uv s' u = uv s u) /\
  (forall w, w <> next s -> vu s' w = vu s w) /\
  next s' = S (next s) /\
  snd (step s (NewVertex sub us [])) = Ret (VId (next s)).
Proof. exact new_vertex_universes. Qed.

(* non-vacuity: a nested, self-containing universe with a removed and re-added member *)
Example C02_nonvacuous :
  let s := run [NewUniverse [] None; NewVertex false [0; 0] []; UAddVertex 0 0; NewUniverse [2; 0] None;
                URemoveVertex 0 2; VAddToUniverse 2 0] empty in
  wf s /\ uni_inv s /\ uv s 0 = [0; 2] /\ vu s 0 = [0; 3] /\ vu s 2 = [3; 0] /\ uv s 3 = [2; 0].
Proof. split; [apply wf_run, wf_empty|]. split; [apply uni_inv_reachable|]. vm_compute. auto 10. Qed.

Print Assumptions C02_membership_symmetric_and_duplicate_free.
Print Assumptions C02_every_step_preserves.
Print Assumptions C02_add_appends_in_order.
Print Assumptions C02_add_member_is_noop.
Print Assumptions C02_remove_member_keeps_order.
Print Assumptions C02_remove_nonmember_raises_and_changes_nothing.
Print Assumptions C02_vertex_side_add.
Print Assumptions C02_vertex_side_add_member_is_noop.
Print Assumptions C02_vertex_side_remove.
Print Assumptions C02_vertex_side_remove_nonmember_raises.
Print Assumptions C02_constructor_with_universes.
Print Assumptions C02_nonvacuous.
