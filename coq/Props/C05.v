(* C05 — neighbour caching is transparent: cached answers always equal recomputed ones.
   Statements only; proofs in CacheProofs.v.  The mutators of Struct.v carry the invalidation
   calls of the code as it is (every vertex a link names or just stopped naming, whatever the
   flag); Cache.v is the memo (copy on hit, copy on insert, insert only while the flag is on). *)
From EG Require Import Base State Nbrs Struct RefProofs Cache CacheProofs.
From EG Require Import TravFaults ColdCopy.

(* THE PROPERTY: in every history interleaving every public mutator (called on either end, on the
   edge itself, explicit.unlink, builders being sequences of these), toggles of the caching flag
   at arbitrary points, and queries — every neighbors() call answers exactly what the uncached
   loop computes on the current graph *)
Theorem C05_cached_answers_equal_recomputed : forall filt cs s, Inv s -> Coh filt s ->
  (forall o u, In (CMut o) cs -> o <> NewLaws (Some u)) ->
  forall pre v d u f post, cs = pre ++ CNb v d u f :: post -> isv (crun filt pre s) v = true ->
  snd (cstep filt (crun filt pre s) (CNb v d u f)) =
  match neighbors_pure filt (crun filt pre s) v d u f with NOk l => Ret (VList l) | NErr e => Raised e end.
Proof. exact cached_answers_equal_recomputed. Qed.

(* every outcome of every call (mutators and queries) equals the one obtained with caching never
   enabled *)
Theorem C05_answers_independent_of_the_flag : forall filt cs,
  (forall o u, In (CMut o) cs -> o <> NewLaws (Some u)) ->
  answers filt cs empty = answers filt (map force_off cs) empty.
Proof. exact answers_independent_of_flag. Qed.

(* the invariant: every memo entry of every vertex equals the current recomputation, whatever
   the flag is; it holds on every reachable state *)
Theorem C05_coherence_on_every_reachable_state : forall filt cs,
  (forall o u, In (CMut o) cs -> o <> NewLaws (Some u)) -> Coh filt (crun filt cs empty).
Proof. exact Coh_reachable. Qed.
Theorem C05_every_mutator_preserves_coherence : forall filt s o, Inv s -> (forall u, o <> NewLaws (Some u)) ->
  Coh filt s -> Coh filt (fst (step s o)).
Proof. exact Coh_step. Qed.
Theorem C05_query_preserves_coherence_and_graph : forall filt s v d u f, wf s -> Coh filt s -> isv s v = true ->
  let '(s', r) := neighbors_c filt s v d u f in
  r = neighbors_pure filt s v d u f /\ Coh filt s' /\ vlinks s' = vlinks s /\ lverts s' = lverts s /\
  kind s' = kind s /\ caching s' = caching s.
Proof. exact Coh_query. Qed.
(* what a neighbors() answer depends on: v's ordered links and, for those, their ends and class *)
Theorem C05_answer_footprint : forall filt s s' v, vl s' v = vl s v ->
  (forall l, In l (vl s v) -> lv s' l = lv s l /\ kd s' l = kd s l) ->
  forall d u f, neighbors_pure filt s' v d u f = neighbors_pure filt s v d u f.
Proof. exact neighbors_pure_footprint. Qed.

(* non-vacuity: a history with a warm memo, a toggle, and an end re-assignment seen from the
   OPPOSITE end (the pinned code served the stale [1] here) *)
Example C05_nonvacuous :
  let cs := [CMut (NewVertex false [] []); CMut (NewVertex false [] []); CMut (NewVertex false [] []);
             CMut (SetCaching true); CMut (NewEdge KDir (Some 0) (Some 1)); CNb 0 Fwd UErr None;
             CMut (SetCaching false); CMut (SetV2 3 (Some 2)); CMut (SetCaching true); CNb 0 Fwd UErr None] in
  answers std_filt cs empty =
  [Ret (VId 0); Ret (VId 1); Ret (VId 2); Ret VNone; Ret (VId 3); Ret (VList [Some 1]); Ret VNone; Ret VNone; Ret VNone;
   Ret (VList [Some 2])] /\
  ca (crun std_filt cs empty) 0 <> [].
Proof. vm_compute. split; [reflexivity | discriminate]. Qed.

(* ---- traversals and searches run THROUGH the memo (TravCached.v threads the heap through every
   neighbors() call): on a coherent heap each returns exactly what the uncached traversal / search
   returns, and leaves a coherent heap that differs in the memo only ---- *)
From EG Require Import Trav TravState TravCached TravCachedProofs.
Theorem C05_cached_bft_equals_uncached : forall filt s ou start, wf s -> Coh filt s -> forall d u fv fr,
  snd (bft_st state (nbs_c filt d u fv) (t_uni s ou) fr (trav_fuel s) s start) = s_bft filt s ou start d u fv fr.
Proof. exact cached_bft_equals_s_bft. Qed.
Theorem C05_cached_dft_recursive_equals_uncached : forall filt s ou start, wf s -> Coh filt s -> forall d u fv fr,
  snd (dft_rec_st state (nbs_c filt d u fv) (t_uni s ou) fr (trav_fuel s) s start) = s_dft_rec filt s ou start d u fv fr.
Proof. exact cached_dft_rec_equals_s_dft_rec. Qed.
Theorem C05_cached_dft_iterative_equals_uncached : forall filt s ou start, wf s -> Coh filt s -> forall d u fv fr,
  snd (dft_iter_st state (nbs_c filt d u fv) (t_uni s ou) fr (trav_fuel s) s start) = s_dft_iter filt s ou start d u fv fr.
Proof. exact cached_dft_iter_equals_s_dft_iter. Qed.
Theorem C05_cached_bfs_equals_uncached : forall filt s ou start, wf s -> Coh filt s -> forall m,
  snd (bfs_st state (nbs_c filt Fwd UErr None) (t_uni s ou) m (trav_fuel s) s start) = s_bfs filt s ou start m.
Proof. exact cached_bfs_equals_s_bfs. Qed.
Theorem C05_cached_dfs_recursive_equals_uncached : forall filt s ou start, wf s -> Coh filt s -> forall m,
  snd (dfs_rec_st state (nbs_c filt Fwd UErr None) (t_uni s ou) m (trav_fuel s) s start) = s_dfs_rec filt s ou start m.
Proof. exact cached_dfs_rec_equals_s_dfs_rec. Qed.
Theorem C05_cached_dfs_iterative_equals_uncached : forall filt s ou start, wf s -> Coh filt s -> forall m,
  snd (dfs_iter_st state (nbs_c filt Fwd UErr None) (t_uni s ou) m (trav_fuel s) s start) = s_dfs_iter filt s ou start m.
Proof. exact cached_dfs_iter_equals_s_dfs_iter. Qed.
(* the traversal leaves the graph as it was and the memo coherent *)
Theorem C05_cached_traversal_leaves_graph_and_coherence : forall filt s ou start, wf s -> Coh filt s -> forall d u fv fr fuel,
  snd (bft_st state (nbs_c filt d u fv) (t_uni s ou) fr fuel s start) = bft (t_nb filt s d u fv) (t_uni s ou) fr fuel start /\
  (let s' := fst (bft_st state (nbs_c filt d u fv) (t_uni s ou) fr fuel s start) in
   wf s' /\ Coh filt s' /\ vlinks s' = vlinks s /\ lverts s' = lverts s /\ vunis s' = vunis s /\ uverts s' = uverts s /\
   ulaws s' = ulaws s /\ lapp s' = lapp s /\ kind s' = kind s /\ caching s' = caching s).
Proof. intros. apply cached_bft_equals_uncached; assumption. Qed.

(* a COPY of the graph (pickle round trip, copy.copy / deepcopy: Vertex.__getstate__ hands out the state with an empty
   memo) is the same heap with every memo emptied; it is well-formed and coherent, and answers every query, traversal and
   search exactly as the original does - whatever the original's memos held *)
Theorem C05_a_copy_is_the_same_graph_with_cold_memos : forall filt s,
  same_graph s (cold s) /\ (wf s -> wf (cold s)) /\ Coh filt (cold s).
Proof. intros; split; [apply cold_same_graph | split; [apply cold_wf | apply cold_Coh]]. Qed.
Theorem C05_a_copy_answers_like_the_original : forall filt s ou start d u fv fr m fuel,
  wf s -> Coh filt s ->
  snd (neighbors_c filt (cold s) start d u fv) = snd (neighbors_c filt s start d u fv) /\
  snd (bft_st state (nbs_c filt d u fv) (t_uni (cold s) ou) fr fuel (cold s) start)
    = snd (bft_st state (nbs_c filt d u fv) (t_uni s ou) fr fuel s start) /\
  snd (dft_rec_st state (nbs_c filt d u fv) (t_uni (cold s) ou) fr fuel (cold s) start)
    = snd (dft_rec_st state (nbs_c filt d u fv) (t_uni s ou) fr fuel s start) /\
  snd (dft_iter_st state (nbs_c filt d u fv) (t_uni (cold s) ou) fr fuel (cold s) start)
    = snd (dft_iter_st state (nbs_c filt d u fv) (t_uni s ou) fr fuel s start) /\
  snd (bfs_st state (nbs_c filt Fwd UErr None) (t_uni (cold s) ou) m fuel (cold s) start)
    = snd (bfs_st state (nbs_c filt Fwd UErr None) (t_uni s ou) m fuel s start) /\
  snd (dfs_rec_st state (nbs_c filt Fwd UErr None) (t_uni (cold s) ou) m fuel (cold s) start)
    = snd (dfs_rec_st state (nbs_c filt Fwd UErr None) (t_uni s ou) m fuel s start) /\
  snd (dfs_iter_st state (nbs_c filt Fwd UErr None) (t_uni (cold s) ou) m fuel (cold s) start)
    = snd (dfs_iter_st state (nbs_c filt Fwd UErr None) (t_uni s ou) m fuel s start).
Proof. exact cold_copy_answers_like_the_original. Qed.

Print Assumptions C05_cached_answers_equal_recomputed.
Print Assumptions C05_answers_independent_of_the_flag.
Print Assumptions C05_coherence_on_every_reachable_state.
Print Assumptions C05_every_mutator_preserves_coherence.
Print Assumptions C05_query_preserves_coherence_and_graph.
Print Assumptions C05_answer_footprint.
Print Assumptions C05_nonvacuous.
Print Assumptions C05_cached_bft_equals_uncached.
Print Assumptions C05_cached_dft_recursive_equals_uncached.
Print Assumptions C05_cached_dft_iterative_equals_uncached.
Print Assumptions C05_cached_bfs_equals_uncached.
Print Assumptions C05_cached_dfs_recursive_equals_uncached.
Print Assumptions C05_cached_dfs_iterative_equals_uncached.
Print Assumptions C05_cached_traversal_leaves_graph_and_coherence.
Print Assumptions cached_traversal_example.
Print Assumptions C05_a_copy_is_the_same_graph_with_cold_memos.
Print Assumptions C05_a_copy_answers_like_the_original.
Print Assumptions cold_copy_example.
