(* C15 — PyVis export: one node per member vertex, only real edges, correctly directed.
   Statements only; proofs in RenderProofs.v.  add_node / add_edge are transcribed from
   pyvis 0.3.2 (modelled, validated by the tie). *)
From EG Require Import Base State Nbrs Trav Struct LinkProofs Render RenderProofs.

(* exactly one node per member vertex: ids 0..n-1 in universe order, node i stands for member i *)
Theorem C15_one_node_per_member_in_order : forall s u n, NoDup (uv s u) -> make_pyvis_net s u = VOk n ->
  pnodes n = enum_from 0 (uv s u).
Proof. exact pyvis_nodes. Qed.
(* every edge i->j corresponds to a link listed by member i whose first end is member i and second
   end member j; it is arrowed iff that link is a directed edge (so an arrowed edge i->j is a
   directed link FROM vertex i TO vertex j, an arrow-less edge a link that is not directed) *)
Theorem C15_every_edge_is_a_real_correctly_oriented_link : forall s u n, make_pyvis_net s u = VOk n ->
  forall i j arr, In (i, j, arr) (pedges n) ->
  exists vi vj e, nth_error (uv s u) i = Some vi /\ nth_error (uv s u) j = Some vj /\ In e (vl s vi) /\
                  arr = is_directed (kd s e) /\ lv1 s e = Some (Some vi) /\ lv2 s e = Some (Some vj).
Proof. exact pyvis_edges_oriented. Qed.
(* no node or edge for a vertex outside the universe *)
Theorem C15_nothing_outside_the_universe : forall s u n, NoDup (uv s u) -> make_pyvis_net s u = VOk n ->
  (forall i v, In (i, v) (pnodes n) -> i < length (uv s u) /\ nth_error (uv s u) i = Some v) /\
  (forall i j arr, In (i, j, arr) (pedges n) -> i < length (uv s u) /\ j < length (uv s u)).
Proof. exact pyvis_no_outside_vertex. Qed.
(* one arrowed edge per directed link from member i to member j *)
Theorem C15_one_arrowed_edge_per_directed_link : forall s u n, NoDup (uv s u) -> make_pyvis_net s u = VOk n ->
  forall i j vi vj, nth_error (uv s u) i = Some vi -> nth_error (uv s u) j = Some vj ->
  count_occ edge_dec (pedges n) (i, j, true) = length (filter (dir_link s vi vj) (vl s vi)).
Proof. exact pyvis_directed_count. Qed.
(* conversely every link whose two ends are members — a self-loop included — leaves its pair of
   nodes joined by at least one edge *)
Theorem C15_every_internal_link_is_shown : forall s u n, link_inv s -> NoDup (uv s u) -> make_pyvis_net s u = VOk n ->
  forall i j vi vj e, nth_error (uv s u) i = Some vi -> nth_error (uv s u) j = Some vj -> In e (vl s vi) ->
  other s e (Some vi) = OVal (Some vj) -> exists a, In (i, j, a) (pedges n) \/ In (j, i, a) (pedges n).
Proof. exact pyvis_every_internal_link_joined. Qed.
(* all of it, unconditionally, on every state reachable through the API *)
Theorem C15_on_every_reachable_graph : forall ops u n, let s := run ops empty in make_pyvis_net s u = VOk n ->
  pnodes n = enum_from 0 (uv s u) /\
  (forall i j arr, In (i, j, arr) (pedges n) ->
     exists vi vj e, nth_error (uv s u) i = Some vi /\ nth_error (uv s u) j = Some vj /\ In e (vl s vi) /\
                     arr = is_directed (kd s e) /\ lv1 s e = Some (Some vi) /\ lv2 s e = Some (Some vj)) /\
  (forall i j vi vj e, nth_error (uv s u) i = Some vi -> nth_error (uv s u) j = Some vj -> In e (vl s vi) ->
     other s e (Some vi) = OVal (Some vj) -> exists a, In (i, j, a) (pedges n) \/ In (j, i, a) (pedges n)) /\
  (forall i j vi vj, nth_error (uv s u) i = Some vi -> nth_error (uv s u) j = Some vj ->
     count_occ edge_dec (pedges n) (i, j, true) = length (filter (dir_link s vi vj) (vl s vi))).
Proof. exact pyvis_reachable. Qed.

Print Assumptions C15_one_node_per_member_in_order.
Print Assumptions C15_every_edge_is_a_real_correctly_oriented_link.
Print Assumptions C15_nothing_outside_the_universe.
Print Assumptions C15_one_arrowed_edge_per_directed_link.
Print Assumptions C15_every_internal_link_is_shown.
Print Assumptions C15_on_every_reachable_graph.
Print Assumptions render_example.
