(* C01 — vertex-link association is symmetric and duplicate-free after every history.
   Statements only; proofs are in LinkProofs.v / LinkStep.v. *)
From EG Require Import Base State StateLemmas Nbrs Struct Footprint Ref LinkProofs LinkStep.

(* At every point of ANY history of well-typed calls of the structure / explicit-builder API
   (edge constructors with any ends — equal, None, or ill-kinded; assignment to v1/v2 with any
   vertex or None; add_to_link / remove_from_link; add_vertex / unlink_from; link_from_to with
   or without dontdup; unlink; Vertex(links=…); and every universe / laws mutator), for all
   objects v and l: l is listed in v's links iff v is listed among l's vertices, and no vertex
   lists a link twice.  Self-loops, parallel edges, None ends and vertices named several times by
   one link are ordinary states of the model. *)
Theorem C01_association_symmetric_and_duplicate_free :
  forall ops, let s := run ops empty in
  (forall v l, In l (vl s v) <-> In (Some v) (lv s l)) /\ (forall v, NoDup (vl s v)).
Proof. intro ops. exact (link_inv_reachable ops). Qed.

Theorem C01_every_step_preserves : forall s o, wf s -> link_inv s -> link_inv (fst (step s o)).
Proof. exact link_inv_step. Qed.

(* a call of a link operation that raised (TypeError from an edge constructor given a non-vertex,
   IndexError from end assignment / link_from_to(dontdup) / unlink on an edge that has lost an
   end) left the whole heap exactly as it was, so the association still holds *)
Theorem C01_raising_call_changes_nothing : forall s o e, wf s -> link_inv s -> link_op o = true ->
  snd (step s o) = Raised e -> fst (step s o) = s.
Proof. exact raising_link_step_changes_nothing. Qed.
Theorem C01_any_raising_call_leaves_link_lists : forall s o e, wf s -> link_inv s ->
  snd (step s o) = Raised e -> e <> OutOfFuel ->
  vlinks (fst (step s o)) = vlinks s /\ lverts (fst (step s o)) = lverts s.
Proof. exact raising_step_changes_nothing_links. Qed.

(* the mutual recursion vertex<->link always terminates within the model's fuel *)
Theorem C01_link_operations_terminate : forall s o, wf s -> link_inv s -> link_op o = true ->
  snd (step s o) <> Raised OutOfFuel.
Proof. exact step_never_out_of_fuel. Qed.

(* the fuelled transliteration computes the plain reference edits for ANY fuel >= 3 *)
Theorem C01_add_to_link_is_reference_edit : forall f s v l, wf s -> v < next s -> l < next s ->
  v_add_to_link (S (S f)) s v l = Ok (r_v_add_to_link s v l).
Proof. exact v_add_to_link_ref. Qed.
Theorem C01_remove_from_link_is_reference_edit : forall f s v l, wf s -> v < next s -> l < next s -> NoDup (vl s v) ->
  v_remove_from_link (S (S (S f))) s v l = Ok (r_v_remove_from_link s v l).
Proof. exact v_remove_from_link_ref. Qed.
Theorem C01_add_vertex_is_reference_edit : forall f s l ov, wf s -> l < next s -> (forall v, ov = Some v -> v < next s) ->
  l_add_vertex (S (S f)) s l ov = Ok (r_l_add_vertex s l ov).
Proof. exact l_add_vertex_ref. Qed.
Theorem C01_unlink_from_is_reference_edit : forall f s l ov, wf s -> l < next s -> (forall v, ov = Some v -> v < next s) ->
  l_unlink_from (S (S (S f))) s l ov = Ok (r_l_unlink_from s l ov).
Proof. exact l_unlink_from_ref. Qed.

(* non-vacuity: a reachable state with a re-pointed self-loop, a parallel link, a vertex named
   twice by one link, and a half-assigned edge *)
Example C01_nonvacuous :
  let s := run [NewVertex false [] []; NewVertex false [] []; NewEdge KDir (Some 0) (Some 0); SetV2 2 (Some 1);
                NewEdge KUnd (Some 1) (Some 0); LAddVertex 2 (Some 0); NewEdge KOther (Some 1) None;
                SetV1 4 None] empty in
  wf s /\ link_inv s /\ vl s 0 = [2; 3] /\ lv s 2 = [Some 0; Some 1; Some 0] /\ lv s 4 = [None; None] /\ vl s 1 = [2; 3].
Proof. split; [apply wf_run, wf_empty|]. split; [apply link_inv_reachable|]. vm_compute. auto 10. Qed.

Print Assumptions C01_association_symmetric_and_duplicate_free.
Print Assumptions C01_every_step_preserves.
Print Assumptions C01_raising_call_changes_nothing.
Print Assumptions C01_any_raising_call_leaves_link_lists.
Print Assumptions C01_link_operations_terminate.
Print Assumptions C01_add_to_link_is_reference_edit.
Print Assumptions C01_remove_from_link_is_reference_edit.
Print Assumptions C01_add_vertex_is_reference_edit.
Print Assumptions C01_unlink_from_is_reference_edit.
Print Assumptions C01_nonvacuous.
