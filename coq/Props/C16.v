(* C16 — plain-text rendering: one well-formed line per vertex listing its neighbours.
   Statements only; proofs in RenderProofs.v.  `r` = rfunc or repr, `key` = the sort key if given. *)
From Coq Require Import String.
From EG Require Import Base State Nbrs Trav Render RenderProofs.
Local Open Scope string_scope.

Theorem C16_empty_universe_yields_None : forall filt r key s u, uv s u = [] -> basic_render filt r key s u = POk None.
Proof. exact basic_render_empty. Qed.
(* one line per member, in universe order (or stably sorted order), each consisting of the vertex's
   rendering, " -> ", and the renderings of its FORWARD neighbours in neighbors() order (sorted by
   the key when given) joined by ", "; lines joined by newlines *)
Theorem C16_one_well_formed_line_per_member : forall filt r key s u ls, uv s u <> [] ->
  plain_lines filt r key s (plain_order key (uv s u)) = inl ls ->
  basic_render filt r key s u = POk (Some (join newline ls)) /\
  List.length ls = List.length (uv s u) /\
  forall i v, nth_error (plain_order key (uv s u)) i = Some v ->
    exists nbs, neighbors_pure filt s v Fwd State.UErr None = NOk nbs /\
                nth_error ls i = Some (plain_line r v (plain_nbs key nbs)).
Proof. exact basic_render_lines. Qed.
(* a vertex without neighbours still gets its rendering followed by the arrow *)
Theorem C16_isolated_vertex_keeps_its_arrow : forall r v, plain_line r v [] = r (Some v) ++ " -> ".
Proof. exact isolated_vertex_line. Qed.
(* the pinned code (append "x, " per neighbour, strip two characters unconditionally) did not *)
Theorem C16_refuted_pinned : plain_line_pinned (fun _ => "z") 0 [] = "z -".
Proof. exact pinned_line_eats_arrow. Qed.
Theorem C16_pinned_agrees_when_there_are_neighbours : forall r v nbs, nbs <> [] -> plain_line_pinned r v nbs = plain_line r v nbs.
Proof. exact pinned_line_ok_when_neighbours. Qed.
(* the sort is a stable sort by the key: a permutation, sorted, equal keys keep their order *)
Theorem C16_sort_is_permutation : forall (key : node -> nat) l, Permutation.Permutation (sort_by key l) l.
Proof. intros. apply sort_by_permutation. Qed.
Theorem C16_sort_is_sorted : forall (key : node -> nat) l, Sorted.Sorted (fun a b => key a <= key b) (sort_by key l).
Proof. intros. apply sort_by_sorted. Qed.
Theorem C16_sort_is_stable : forall (key : node -> nat) l k0,
  filter (fun x => Nat.eqb (key x) k0) (sort_by key l) = filter (fun x => Nat.eqb (key x) k0) l.
Proof. intros. apply sort_by_stable. Qed.
(* it raises exactly when neighbors() raises at some member: the first one in rendering order *)
Theorem C16_raises_iff_neighbors_raises : forall filt r key s u e,
  basic_render filt r key s u = PErr e <->
  exists pre v post, plain_order key (uv s u) = (pre ++ v :: post)%list /\
    (forall w, In w pre -> exists nbs, neighbors_pure filt s w Fwd State.UErr None = NOk nbs) /\
    neighbors_pure filt s v Fwd State.UErr None = NErr e.
Proof. exact basic_render_error_iff. Qed.

Print Assumptions C16_empty_universe_yields_None.
Print Assumptions C16_one_well_formed_line_per_member.
Print Assumptions C16_isolated_vertex_keeps_its_arrow.
Print Assumptions C16_refuted_pinned.
Print Assumptions C16_pinned_agrees_when_there_are_neighbours.
Print Assumptions C16_sort_is_permutation.
Print Assumptions C16_sort_is_sorted.
Print Assumptions C16_sort_is_stable.
Print Assumptions C16_raises_iff_neighbors_raises.
Print Assumptions render_example.
