(* C19 — a universe and its laws always point at each other, after any (re)assignments.
   Statements only; proofs are in LawsProofs.v. *)
From EG Require Import Base State StateLemmas Nbrs Struct Footprint LawsProofs.

(* after ANY history of well-typed calls of the whole structure API (assignments to Universe.laws
   and UniverseLaws.applies_to from either side, to another object or None; universe constructions
   with or without laws; bare law-set constructions; and every other mutator), `u.laws is L`
   exactly when `L.applies_to is u`.  The only excluded call is the constructor
   UniverseLaws(applies_to=u), which stores the back pointer without telling u (see below). *)
Theorem C19_binding_symmetric_after_any_history :
  forall ops, (forall o u, In o ops -> o <> NewLaws (Some u)) ->
  forall u L, ul (run ops empty) u = Some L <-> la (run ops empty) L = Some u.
Proof. exact laws_inv_reachable. Qed.

(* every assignment u.laws = oL succeeds (no exception; the mutual recursion of the two setters
   terminates within the fuel), re-establishes the binding, gives u exactly oL, points oL back at
   u, and the only other universe whose laws change is the one oL was taken from *)
Theorem C19_assign_laws_succeeds :
  forall s u oL, wf s -> laws_inv s -> u < next s -> (forall L, oL = Some L -> L < next s) ->
  exists s', u_set_laws FUEL s u oL = Ok s' /\ laws_inv s' /\ ul s' u = oL /\
             (forall L, oL = Some L -> la s' L = Some u) /\
             (forall u', u' <> u -> ul s' u' = ul s u' \/ (ul s u' = oL /\ oL <> None /\ ul s' u' = None)).
Proof. exact set_laws_full. Qed.

Theorem C19_assign_applies_to_succeeds :
  forall s L ou, wf s -> laws_inv s -> L < next s -> (forall u, ou = Some u -> u < next s) ->
  exists s', l_set_applies FUEL s L ou = Ok s' /\ laws_inv s' /\ la s' L = ou /\
             (forall u, ou = Some u -> ul s' u = Some L) /\
             (forall L', L' <> L -> la s' L' = la s L' \/ (la s L' = ou /\ ou <> None /\ la s' L' = None)).
Proof. exact set_applies_full. Qed.

Theorem C19_assign_laws_never_raises :
  forall s u oL, wf s -> laws_inv s -> well_typed s (SetLaws u oL) = true -> snd (step s (SetLaws u oL)) = Ret VNone.
Proof. exact set_laws_never_raises. Qed.
Theorem C19_assign_applies_to_never_raises :
  forall s L ou, wf s -> laws_inv s -> well_typed s (SetAppliesTo L ou) = true -> snd (step s (SetAppliesTo L ou)) = Ret VNone.
Proof. exact set_applies_never_raises. Qed.

(* the exclusion is necessary: UniverseLaws(applies_to=u) on a universe that has laws breaks the binding *)
Theorem C19_bare_constructor_with_applies_to_breaks_binding :
  ~ laws_inv (run [NewUniverse [] None; NewLaws (Some 0)] empty).
Proof. exact new_laws_some_breaks. Qed.

(* non-vacuity: a reachable state in which a law set has been moved between universes, one
   universe has been stripped of its laws and later given new ones *)
Example C19_nonvacuous :
  let s := run [NewUniverse [] None; NewUniverse [] None; SetLaws 2 (Some 1); SetLaws 0 None;
                NewLaws None; SetAppliesTo 4 (Some 0)] empty in
  wf s /\ ul s 0 = Some 4 /\ ul s 2 = Some 1 /\ la s 1 = Some 2 /\ la s 3 = None /\ la s 4 = Some 0.
Proof. split; [apply wf_run, wf_empty | vm_compute; auto 10]. Qed.

Print Assumptions C19_binding_symmetric_after_any_history.
Print Assumptions C19_assign_laws_succeeds.
Print Assumptions C19_assign_applies_to_succeeds.
Print Assumptions C19_assign_laws_never_raises.
Print Assumptions C19_assign_applies_to_never_raises.
Print Assumptions C19_bare_constructor_with_applies_to_breaks_binding.
Print Assumptions C19_nonvacuous.
