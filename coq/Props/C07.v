(* C07 — traversal order is the canonical BFS / DFS order induced by link order.
   Statements only; proofs in TravProofs.v. *)
From EG Require Import Base State Nbrs Trav TravProofs.

(* bft: hop distance from the start never decreases along the output, and each listed vertex sits
   at its shortest distance (dist = length of a shortest followed path) *)
Theorem C07_bft_shortest_distance_order : forall nb uni fuel start out,
  uni <> Some [] -> bft nb uni TravProofs.all fuel start = TOk out ->
  forall l1 x l2 y l3 dx dy, out = l1 ++ x :: l2 ++ y :: l3 ->
  dist nb uni (Some start) x dx -> dist nb uni (Some start) y dy -> dx <= dy.
Proof. exact bft_dist_monotone. Qed.
Theorem C07_bft_levels : forall nb uni fuel start out,
  uni <> Some [] -> bft nb uni TravProofs.all fuel start = TOk out ->
  exists lv, sorted_by lv out /\ (forall v, In v out -> dist nb uni (Some start) v (lv v)) /\
             (forall l1 x l2 y l3, out = l1 ++ x :: l2 ++ y :: l3 -> lv x <= lv y).
Proof. exact bft_level_order. Qed.
(* bft is the canonical scan: the neighbours (in neighbors() order) of the i-th listed vertex are
   examined in listing order, new in-universe ones appended *)
Theorem C07_bft_is_canonical_scan : forall nb uni fuel start,
  uni <> Some [] -> inU uni (Some start) = true ->
  bft nb uni TravProofs.all fuel start = scan nb uni fuel 0 [Some start].
Proof. exact bft_canonical. Qed.

(* dft_recursive lists vertices in depth-first pre-order: a vertex, then for each neighbour in
   order that is in the universe and not yet listed, that neighbour's whole subtree *)
Theorem C07_dft_recursive_is_preorder : forall nb uni fuel start out,
  dft_rec nb uni TravProofs.all fuel start = TOk out -> Pre nb uni [] (Some start) out.
Proof. exact dfr_preorder. Qed.
Theorem C07_preorder_is_dft_recursive : forall nb uni start out,
  inU uni (Some start) = true -> uni <> Some [] -> Pre nb uni [] (Some start) out ->
  exists fuel, dft_rec nb uni TravProofs.all fuel start = TOk out.
Proof. exact preorder_dfr. Qed.

(* dft_iterative is the explicit-stack DFS that expands the most recently pushed neighbour first:
   exactly the pre-order over reversed neighbour lists (the stack is the defunctionalised
   continuation of the recursion), in both directions *)
Theorem C07_dft_iterative_is_reversed_preorder : forall nb uni fres fuel start out,
  dft_iter nb uni fres fuel start = TOk out -> exists fuel', dft_rec (revnb nb) uni fres fuel' start = TOk out.
Proof. exact dfi_is_reversed_preorder. Qed.
Theorem C07_reversed_preorder_is_dft_iterative : forall nb uni fres fuel start out,
  dft_rec (revnb nb) uni fres fuel start = TOk out -> exists fuel', dft_iter nb uni fres fuel' start = TOk out.
Proof. exact reversed_preorder_is_dfi. Qed.

(* each order is a function of the neighbour lists (hence of link order) alone *)
Theorem C07_bft_deterministic : forall nb nb' uni fres, (forall v, nb v = nb' v) ->
  forall fuel start, bft nb uni fres fuel start = bft nb' uni fres fuel start.
Proof. exact bft_ext. Qed.
Theorem C07_dft_recursive_deterministic : forall nb nb' uni fres, (forall v, nb v = nb' v) ->
  forall fuel start, dft_rec nb uni fres fuel start = dft_rec nb' uni fres fuel start.
Proof. exact dft_rec_ext. Qed.
Theorem C07_dft_iterative_deterministic : forall nb nb' uni fres, (forall v, nb v = nb' v) ->
  forall fuel start, dft_iter nb uni fres fuel start = dft_iter nb' uni fres fuel start.
Proof. exact dft_iter_ext. Qed.

(* non-vacuity: a graph on which the three orders are pairwise different *)
Definition ex_nb (v : nat) : nres :=
  NOk (match v with 0 => [Some 1; Some 2] | 1 => [Some 3] | 2 => [Some 4] | 3 => [Some 2] | _ => [] end).
Example C07_nonvacuous :
  bft ex_nb None TravProofs.all 20 0 = TOk [Some 0; Some 1; Some 2; Some 3; Some 4] /\
  dft_rec ex_nb None TravProofs.all 20 0 = TOk [Some 0; Some 1; Some 3; Some 2; Some 4] /\
  dft_iter ex_nb None TravProofs.all 20 0 = TOk [Some 0; Some 2; Some 4; Some 1; Some 3].
Proof. vm_compute. auto. Qed.

Print Assumptions C07_bft_shortest_distance_order.
Print Assumptions C07_bft_levels.
Print Assumptions C07_bft_is_canonical_scan.
Print Assumptions C07_dft_recursive_is_preorder.
Print Assumptions C07_preorder_is_dft_recursive.
Print Assumptions C07_dft_iterative_is_reversed_preorder.
Print Assumptions C07_reversed_preorder_is_dft_iterative.
Print Assumptions C07_bft_deterministic.
Print Assumptions C07_dft_recursive_deterministic.
Print Assumptions C07_dft_iterative_deterministic.
Print Assumptions C07_nonvacuous.

(* on heap states: the order is a function of the link order alone — two heaps with the same
   ordered links / ends / classes / members give the same sequences (rebuilding the same graph in
   the same order, or repeating the call, gives the same answer) *)
From EG Require Import StateLemmas TravState TravStateProofs.
Theorem C07_heap_order_depends_on_link_order_only : forall filt s s' ou start d u fv fr,
  vlinks s = vlinks s' -> lverts s = lverts s' -> kind s = kind s' -> uverts s = uverts s' ->
  s_bft filt s ou start d u fv fr = s_bft filt s' ou start d u fv fr /\
  s_dft_rec filt s ou start d u fv fr = s_dft_rec filt s' ou start d u fv fr /\
  s_dft_iter filt s ou start d u fv fr = s_dft_iter filt s' ou start d u fv fr.
Proof. intros. repeat split; [apply s_determinism_bft | apply s_determinism_dfr | apply s_determinism_dfi]; assumption. Qed.
Print Assumptions C07_heap_order_depends_on_link_order_only.
