(* C06 — every traversal visits exactly the reachable in-universe vertices, once each.
   Statements only; proofs in TravProofs.v (abstract neighbour function) and TravStateProofs.v
   (heap states).  `nb` is neighbors() under the call's direction / unknown / ff_via settings. *)
From EG Require Import Base State Nbrs Trav TravProofs StartMember.
From Coq Require Import Permutation.

(* each traversal lists, without repetition and starting with the start vertex, exactly the
   vertices reachable from it along followed links through in-universe vertices *)
Theorem C06_bft_exact : forall nb uni fuel start out,
  inU uni (Some start) = true -> uni <> Some [] -> bft nb uni TravProofs.all fuel start = TOk out ->
  NoDup out /\ (exists tl, out = Some start :: tl) /\ (forall v, In v out <-> reach nb uni (Some start) v).
Proof. exact exact_bft. Qed.
Theorem C06_dft_recursive_exact : forall nb uni fuel start out,
  inU uni (Some start) = true -> uni <> Some [] -> dft_rec nb uni TravProofs.all fuel start = TOk out ->
  NoDup out /\ (exists tl, out = Some start :: tl) /\ (forall v, In v out <-> reach nb uni (Some start) v).
Proof. exact exact_dfr. Qed.
Theorem C06_dft_iterative_exact : forall nb uni fuel start out,
  inU uni (Some start) = true -> uni <> Some [] -> dft_iter nb uni TravProofs.all fuel start = TOk out ->
  NoDup out /\ (exists tl, out = Some start :: tl) /\ (forall v, In v out <-> reach nb uni (Some start) v).
Proof. exact exact_dfi. Qed.

(* the three traversals agree as sets *)
Theorem C06_three_traversals_agree : forall nb uni f1 f2 f3 s o1 o2 o3,
  bft nb uni TravProofs.all f1 s = TOk o1 -> dft_rec nb uni TravProofs.all f2 s = TOk o2 ->
  dft_iter nb uni TravProofs.all f3 s = TOk o3 -> Permutation o1 o2 /\ Permutation o2 o3.
Proof. exact three_agree. Qed.

(* ff_result only removes entries from the listing: same success / failure, output filtered *)
Theorem C06_ff_result_only_filters_bft : forall nb uni fres fuel start,
  bft nb uni fres fuel start = tmap fres (bft nb uni TravProofs.all fuel start).
Proof. exact ff_result_bft. Qed.
Theorem C06_ff_result_only_filters_dfr : forall nb uni fres fuel start,
  dft_rec nb uni fres fuel start = tmap fres (dft_rec nb uni TravProofs.all fuel start).
Proof. exact ff_result_dfr. Qed.
Theorem C06_ff_result_only_filters_dfi : forall nb uni fres fuel start,
  dft_iter nb uni fres fuel start = tmap fres (dft_iter nb uni TravProofs.all fuel start).
Proof. exact ff_result_dfi. Qed.

(* termination: on a graph whose vertex ids are below N the loops never run out of the stated fuel *)
Theorem C06_bft_terminates : forall nb uni fres N start, bounded nb N -> bft nb uni fres (N + 3) start <> TFuel.
Proof. exact bft_fuel_enough. Qed.
Theorem C06_dft_recursive_terminates : forall nb uni fres N start, bounded nb N -> dft_rec nb uni fres (N + 3) start <> TFuel.
Proof. exact dft_rec_fuel_enough. Qed.
Theorem C06_dft_iterative_terminates : forall nb uni fres N start,
  bounded nb N -> dft_iter nb uni fres (dfi_fuel nb N start) start <> TFuel.
Proof. exact dft_iter_fuel_enough. Qed.
Theorem C06_more_fuel_same_answer : forall nb uni fres fuel start r,
  bft nb uni fres fuel start = r -> r <> TFuel -> forall fuel', fuel <= fuel' -> bft nb uni fres fuel' start = r.
Proof. exact fuel_mono_bft. Qed.

(* a traversal raises only if the preflight fails or neighbors() raises at a reachable vertex *)
Theorem C06_bft_error_source : forall nb uni fres fuel start e,
  bft nb uni fres fuel start = TErr e ->
  inU uni (Some start) = false /\ e = ValueError \/ raises_at nb uni (Some start) e.
Proof. exact error_bft. Qed.

(* non-vacuity: a 5-vertex graph with a cycle, a self-loop, a parallel edge and one vertex outside
   the universe; reachability is neither empty nor everything and the three orders differ *)
Definition ex_nb (v : nat) : nres :=
  NOk (match v with 0 => [Some 1; Some 2; Some 1] | 1 => [Some 3; Some 1] | 2 => [Some 4; Some 0] | 3 => [Some 0] | _ => [] end).
Example C06_nonvacuous :
  bft ex_nb (Some [0; 1; 2; 3]) TravProofs.all 20 0 = TOk [Some 0; Some 1; Some 2; Some 3] /\
  dft_rec ex_nb (Some [0; 1; 2; 3]) TravProofs.all 20 0 = TOk [Some 0; Some 1; Some 3; Some 2] /\
  dft_iter ex_nb (Some [0; 1; 2; 3]) TravProofs.all 20 0 = TOk [Some 0; Some 1; Some 3; Some 2] /\
  dft_iter ex_nb None TravProofs.all 20 0 = TOk [Some 0; Some 1; Some 3; Some 2; Some 4].
Proof. vm_compute. auto. Qed.

Print Assumptions C06_bft_exact.
Print Assumptions C06_dft_recursive_exact.
Print Assumptions C06_dft_iterative_exact.
Print Assumptions C06_three_traversals_agree.
Print Assumptions C06_ff_result_only_filters_bft.
Print Assumptions C06_ff_result_only_filters_dfr.
Print Assumptions C06_ff_result_only_filters_dfi.
Print Assumptions C06_bft_terminates.
Print Assumptions C06_dft_recursive_terminates.
Print Assumptions C06_dft_iterative_terminates.
Print Assumptions C06_more_fuel_same_answer.
Print Assumptions C06_bft_error_source.
Print Assumptions C06_nonvacuous.

(* ---- the same, on heap states: neighbours from neighbors(), universe from Universe._vertices;
   the loops terminate on every well-formed heap satisfying the C01 invariant ---- *)
From EG Require Import StateLemmas LinkProofs TravState TravStateProofs.
Theorem C06_heap_bft_exact : forall filt s ou start d u fv out, wf s -> link_inv s ->
  inU (t_uni s ou) (Some start) = true -> t_uni s ou <> Some [] ->
  s_bft filt s ou start d u fv TravProofs.all = TOk out ->
  NoDup out /\ (exists tl, out = Some start :: tl) /\
  (forall v, In v out <-> reach (t_nb filt s d u fv) (t_uni s ou) (Some start) v).
Proof. exact s_exact_bft. Qed.
Theorem C06_heap_dft_recursive_exact : forall filt s ou start d u fv out, wf s -> link_inv s ->
  inU (t_uni s ou) (Some start) = true -> t_uni s ou <> Some [] ->
  s_dft_rec filt s ou start d u fv TravProofs.all = TOk out ->
  NoDup out /\ (exists tl, out = Some start :: tl) /\
  (forall v, In v out <-> reach (t_nb filt s d u fv) (t_uni s ou) (Some start) v).
Proof. exact s_exact_dfr. Qed.
Theorem C06_heap_dft_iterative_exact : forall filt s ou start d u fv out, wf s -> link_inv s ->
  inU (t_uni s ou) (Some start) = true -> t_uni s ou <> Some [] ->
  s_dft_iter filt s ou start d u fv TravProofs.all = TOk out ->
  NoDup out /\ (exists tl, out = Some start :: tl) /\
  (forall v, In v out <-> reach (t_nb filt s d u fv) (t_uni s ou) (Some start) v).
Proof. exact s_exact_dfi. Qed.
Theorem C06_heap_bft_terminates : forall filt s ou start d u fv fr, wf s -> link_inv s ->
  s_bft filt s ou start d u fv fr <> TFuel.
Proof. exact s_bft_terminates. Qed.
Theorem C06_heap_dft_recursive_terminates : forall filt s ou start d u fv fr, wf s -> link_inv s ->
  s_dft_rec filt s ou start d u fv fr <> TFuel.
Proof. exact s_dft_rec_terminates. Qed.
Theorem C06_heap_dft_iterative_terminates : forall filt s ou start d u fv fr, wf s -> link_inv s ->
  s_dft_iter filt s ou start d u fv fr <> TFuel.
Proof. exact s_dft_iter_terminates. Qed.
Print Assumptions C06_heap_bft_exact.
Print Assumptions C06_heap_dft_recursive_exact.
Print Assumptions C06_heap_dft_iterative_exact.
Print Assumptions C06_heap_bft_terminates.
Print Assumptions C06_heap_dft_recursive_terminates.
Print Assumptions C06_heap_dft_iterative_terminates.

(* "through vertices belonging to the universe": nothing outside the universe is ever listed (whatever ff_result is),
   and a start vertex that is no member of the (non-empty) universe is refused by all three traversals, for every fuel *)
Theorem C06_listing_stays_within_universe : forall nb uni fres fuel start out,
  (bft nb uni fres fuel start = TOk out -> forall v, In v out -> inU uni v = true) /\
  (dft_rec nb uni fres fuel start = TOk out -> forall v, In v out -> inU uni v = true) /\
  (dft_iter nb uni fres fuel start = TOk out -> forall v, In v out -> inU uni v = true).
Proof. exact trav_listing_within_universe. Qed.
Theorem C06_start_outside_universe_is_refused : forall nb uni fres fuel start,
  uni <> Some [] -> inU uni (Some start) = false ->
  bft nb uni fres fuel start = TErr ValueError /\
  dft_rec nb uni fres fuel start = TErr ValueError /\
  dft_iter nb uni fres fuel start = TErr ValueError.
Proof. exact nonmember_start_refused_trav. Qed.
Print Assumptions C06_listing_stays_within_universe.
Print Assumptions C06_start_outside_universe_is_refused.
