(* C10 — nrpickler round-trips any graph to an isomorphic, usable, detached copy.
   PARTIAL: what a Gallina model can carry is the one piece of logic in nrpickler.py — replacing
   dill's recursion by a queue while preserving stream order and memoisation order.  `expand`
   (what one invocation of dill's save() does on one object given the memo at entry) is an
   arbitrary parameter, so the theorems hold for every object graph: any size, depth, sharing and
   cycles.  That the bytes decode to an isomorphic graph is pickle's / dill's behaviour and is
   decided by the round-trip legs of the harness.  Statements only; proofs in PicklerProofs.v. *)
From EG Require Import Base Pickler PicklerProofs.

(* whenever the recursive pickler terminates with stream o' and memo m', the queue scheduler
   terminates with exactly the same stream and memo — and conversely *)
Theorem C10_scheduler_equals_recursive_pickler : forall expand root m0 o0 m' o',
  RunA expand (expand m0 root) m0 o0 m' o' <-> Drain expand [IS root] m0 o0 m' o'.
Proof. intros; split; [apply lazy_equals_recursive | apply recursive_equals_lazy]. Qed.
(* the same for the executable functions the tie runs on traced dill action lists *)
Theorem C10_nr_dump_equals_rec_dump : forall expand fuel root r,
  rec_dump expand fuel root = Some r -> exists fuel', nr_dump expand fuel' root = Some r.
Proof. exact nr_dump_equals_rec_dump. Qed.
Theorem C10_rec_dump_equals_nr_dump : forall expand fuel root r,
  nr_dump expand fuel root = Some r -> exists fuel', rec_dump expand fuel' root = Some r.
Proof. exact rec_dump_equals_nr_dump. Qed.
Theorem C10_scheduler_is_deterministic : forall expand q m o m1 o1, Drain expand q m o m1 o1 ->
  forall m2 o2, Drain expand q m o m2 o2 -> m1 = m2 /\ o1 = o2.
Proof. exact Drain_det. Qed.
(* the executable versions are sound and complete for the relations *)
Theorem C10_drain_f_sound : forall expand fuel q m o m' o', drain_f expand fuel q m o = Some (m', o') -> Drain expand q m o m' o'.
Proof. exact drain_f_sound. Qed.
Theorem C10_drain_f_complete : forall expand q m o m' o', Drain expand q m o m' o' -> exists fuel, drain_f expand fuel q m o = Some (m', o').
Proof. exact drain_f_complete. Qed.
(* no recursion however deep the graph: once one save() of a body is deferred, everything after it in
   that body is deferred (so realsave never descends); the drain loop is tail-shaped.  The recursive
   pickler's depth grows with the graph: 31 nested save() calls for a chain of 30 objects. *)
Theorem C10_everything_after_a_deferred_save_is_deferred : forall pre x post st lz1 m1 o1,
  fold_left lazy_act pre st = (lz1, m1, o1) ->
  fold_left lazy_act (pre ++ Save x :: post) st = (lz1 ++ IS x :: map item_of post, m1, o1).
Proof. exact realsave_defers_after_first_save. Qed.
Theorem C10_a_passing_case_is_a_real_run : forall tbl root em eo, pcheck (tbl, root, (em, eo)) = true ->
  nr_dump (table_expand tbl) (200 * 200) root = Some (em, eo) /\ rec_dump (table_expand tbl) (200 * 200) root = Some (em, eo).
Proof. exact pcheck_sound. Qed.

Print Assumptions C10_scheduler_equals_recursive_pickler.
Print Assumptions C10_nr_dump_equals_rec_dump.
Print Assumptions C10_rec_dump_equals_nr_dump.
Print Assumptions C10_scheduler_is_deterministic.
Print Assumptions C10_drain_f_sound.
Print Assumptions C10_drain_f_complete.
Print Assumptions C10_everything_after_a_deferred_save_is_deferred.
Print Assumptions C10_a_passing_case_is_a_real_run.
Print Assumptions chain_depth.
Print Assumptions shared_and_cyclic.
