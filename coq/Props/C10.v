(* C10 — nrpickler round-trips any graph to an isomorphic, usable, detached copy.
   PARTIAL: what a Gallina model can carry is the one piece of logic in nrpickler.py — replacing
   dill's recursion by a queue while preserving stream order and memoisation order.

   HYPOTHESIS of the whole development: `expand` — what one invocation of dill's save() does on
   one object — is a function of the memo at entry and of the object ONLY.  Under it `expand` is
   an arbitrary parameter, so the theorems hold for every object graph: any size, depth, sharing
   and cycles.  dill VIOLATES the hypothesis for classes and functions pickled by value: its
   `_postproc` bookkeeping follows the recursion stack, not the memo, and the scheduler, which
   has no such stack, looped forever on them.  The repaired code saves such objects atomically:
   when the turn of a class or a function comes, it and its whole subtree are saved the
   recursive way, nothing being deferred.  `atomic` (arbitrary too) says which objects those
   are.  The drain step of an atomic object is ONE run of the recursive relation RunA over its
   subtree (constructor D_a): the scheduler does nothing of its own there.  So for the real code
   the hypothesis is asked of each invocation of save() outside atomic subtrees, and of an
   atomic subtree only AS A WHOLE (what dill does in it, run recursively from the memo at its
   entry, does not depend on when its turn came); the individual invocations inside it, where
   the stack-dependent bookkeeping lives, are not constrained.  (In the model RunA is written
   with `expand` throughout; the theorems say that whatever RunA does, the scheduler does.)

   That the bytes decode to an isomorphic graph is pickle's / dill's behaviour and is decided by
   the round-trip legs of the harness.  Statements only; proofs in PicklerProofs.v. *)
From EG Require Import Base Pickler PicklerProofs.

(* whenever the recursive pickler terminates with stream o' and memo m', the queue scheduler
   terminates with exactly the same stream and memo — and conversely; whatever objects are atomic *)
Theorem C10_scheduler_equals_recursive_pickler : forall expand atomic root m0 o0 m' o',
  RunA expand (expand m0 root) m0 o0 m' o' <-> Drain expand atomic [IS root] m0 o0 m' o'.
Proof. intros; split; [apply lazy_equals_recursive | apply recursive_equals_lazy]. Qed.
(* the same for the executable functions the tie runs on traced dill action lists *)
Theorem C10_nr_dump_equals_rec_dump : forall expand atomic fuel root r,
  rec_dump expand fuel root = Some r -> exists fuel', nr_dump expand atomic fuel' root = Some r.
Proof. exact nr_dump_equals_rec_dump. Qed.
Theorem C10_rec_dump_equals_nr_dump : forall expand atomic fuel root r,
  nr_dump expand atomic fuel root = Some r -> exists fuel', rec_dump expand fuel' root = Some r.
Proof. exact rec_dump_equals_nr_dump. Qed.
Theorem C10_scheduler_is_deterministic : forall expand atomic q m o m1 o1, Drain expand atomic q m o m1 o1 ->
  forall m2 o2, Drain expand atomic q m o m2 o2 -> m1 = m2 /\ o1 = o2.
Proof. exact Drain_det. Qed.
(* the executable versions are sound and complete for the relations *)
Theorem C10_drain_f_sound : forall expand atomic fuel q m o m' o', drain_f expand atomic fuel q m o = Some (m', o') -> Drain expand atomic q m o m' o'.
Proof. exact drain_f_sound. Qed.
Theorem C10_drain_f_complete : forall expand atomic q m o m' o', Drain expand atomic q m o m' o' -> exists fuel, drain_f expand atomic fuel q m o = Some (m', o').
Proof. exact drain_f_complete. Qed.
(* with every object atomic the drain of [IS root] is one step, and that step is the recursive pickler *)
Theorem C10_atomic_everywhere_is_the_recursive_pickler : forall expand root m o m' o',
  Drain expand (fun _ => true) [IS root] m o m' o' <-> RunA expand (expand m root) m o m' o'.
Proof. exact atomic_everywhere_is_the_recursive_pickler. Qed.
(* with no object atomic it is the scheduler as it was before the repair (Drain0: PicklerProofs.v) *)
Theorem C10_atomic_nowhere_is_the_old_scheduler : forall expand q m o m' o',
  Drain expand (fun _ => false) q m o m' o' <-> Drain0 expand q m o m' o'.
Proof. exact atomic_nowhere_is_the_old_scheduler. Qed.
(* no recursion however deep the graph outside atomic subtrees: once one save() of a body is deferred,
   everything after it in that body is deferred (so realsave never descends); the drain loop is
   tail-shaped.  The recursive pickler's depth grows with the graph: 31 nested save() calls for a
   chain of 30 objects. *)
Theorem C10_everything_after_a_deferred_save_is_deferred : forall pre x post st lz1 m1 o1,
  fold_left lazy_act pre st = (lz1, m1, o1) ->
  fold_left lazy_act (pre ++ Save x :: post) st = (lz1 ++ IS x :: map item_of post, m1, o1).
Proof. exact realsave_defers_after_first_save. Qed.
Theorem C10_a_passing_case_is_a_real_run : forall tbl atoms root em eo, pcheck (tbl, atoms, root, (em, eo)) = true ->
  nr_dump (table_expand tbl) (fun x => existsb (Nat.eqb x) atoms) (200 * 200) root = Some (em, eo) /\ rec_dump (table_expand tbl) (200 * 200) root = Some (em, eo).
Proof. exact pcheck_sound. Qed.

Print Assumptions C10_scheduler_equals_recursive_pickler.
Print Assumptions C10_nr_dump_equals_rec_dump.
Print Assumptions C10_rec_dump_equals_nr_dump.
Print Assumptions C10_scheduler_is_deterministic.
Print Assumptions C10_drain_f_sound.
Print Assumptions C10_drain_f_complete.
Print Assumptions C10_atomic_everywhere_is_the_recursive_pickler.
Print Assumptions C10_atomic_nowhere_is_the_old_scheduler.
Print Assumptions C10_everything_after_a_deferred_save_is_deferred.
Print Assumptions C10_a_passing_case_is_a_real_run.
Print Assumptions chain_depth.
Print Assumptions shared_and_cyclic.
Print Assumptions mixed_atomic_example.
