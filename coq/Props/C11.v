(* C11 — adjacency builders build exactly the described graph; bad input rejected whole.
   Statements only; proofs in BuildersProofs.v.  load_adj_dict / load_adj_matrix of Builders.v
   are the sequences of structure-API calls the Python makes, run through Struct.step. *)
From EG Require Import Base State Nbrs Struct RefProofs Builders BuildersProofs.

(* load_adj_dict returns a NEW universe ... *)
Theorem C11_dict_returns_new_universe : forall s adj k, Inv s -> adj_ok s k adj = true ->
  let s' := fst (load_adj_dict s adj k) in let out := snd (load_adj_dict s adj k) in
  out = Ret (VId (next s)) /\ kd s' (next s) = KUniverse /\ Inv s'.
Proof. exact lad_returns_new_universe. Qed.
(* ... whose members are exactly the vertices named, in first-mention order *)
Theorem C11_dict_members_first_mention_order : forall s adj k, Inv s -> adj_ok s k adj = true ->
  let s' := fst (load_adj_dict s adj k) in
  uv s' (next s) = dedup (flat_map (fun kv => fst kv :: snd kv) adj).
Proof. exact lad_members. Qed.
(* exactly one new link of the requested type per listed pair, oriented key -> value, in input order *)
Theorem C11_dict_one_link_per_pair_in_order : forall s adj k, Inv s -> adj_ok s k adj = true ->
  let s' := fst (load_adj_dict s adj k) in let u := next s in
  let pairs := flat_map (fun kv => map (fun v => (fst kv, v)) (snd kv)) adj in
  next s' = u + 2 + length pairs /\ kd s' (u + 1) = KLaws /\
  (forall i, i < length pairs ->
     lv s' (u + 2 + i) = [Some (fst (nth i pairs (0, 0))); Some (snd (nth i pairs (0, 0)))] /\ kd s' (u + 2 + i) = k).
Proof. exact lad_links. Qed.
(* pre-existing links, universes and link lists stay in place: new links come after the old ones *)
Theorem C11_dict_leaves_existing_graph_in_place : forall s adj k, Inv s -> adj_ok s k adj = true ->
  let s' := fst (load_adj_dict s adj k) in let u := next s in
  forall i, i < next s ->
  lv s' i = lv s i /\ kd s' i = kd s i /\ uv s' i = uv s i /\
  vu s' i = vu s i ++ (if memn i (adj_mentions adj) then [u] else []) /\
  exists ext, vl s' i = vl s i ++ ext /\
              (forall l, In l ext <-> u + 2 <= l < next s' /\ In (Some i) (lv s' l)) /\
              NoDup ext /\ Sorted.StronglySorted lt ext.
Proof. exact lad_frame. Qed.
(* reading back with neighbors(): on fresh vertices and a directed link type, FORWARD neighbours of v
   are exactly adj[v], in order (a self entry gives v itself) *)
Theorem C11_dict_read_back : forall filt s adj k v un, Inv s -> adj_ok s k adj = true -> NoDup (map fst adj) ->
  is_directed k = true -> vl s v = [] ->
  neighbors_pure filt (fst (load_adj_dict s adj k)) v Fwd un None = NOk (map Some (adj_lookup v adj)).
Proof. exact lad_neighbors_readback. Qed.

(* load_adj_matrix: a non-square matrix or a side array of the wrong length raises ValueError
   before any vertex or link is touched *)
Theorem C11_matrix_bad_shape_rejected_whole : forall s m side k,
  length side <> length m \/ (exists row, In row m /\ length row <> length m) ->
  is_link k = true -> forallb (isv s) side = true -> load_adj_matrix s m side k = (s, Raised ValueError).
Proof. exact lam_bad_shape_raises. Qed.
(* a well-shaped matrix: members in side-array order, one link per truthy cell row-major, row -> column *)
Theorem C11_matrix_effect : forall s m side k, Inv s -> is_link k = true -> forallb (isv s) side = true -> well_shaped m side ->
  let s' := fst (load_adj_matrix s m side k) in let u := next s in let cells := true_cells m in
  snd (load_adj_matrix s m side k) = Ret (VId u) /\ Inv s' /\ kd s' u = KUniverse /\ uv s' u = dedup side /\
  next s' = u + 2 + length cells /\ kd s' (u + 1) = KLaws /\
  (forall n, n < length cells -> let '(i, j) := nth n cells (0, 0) in
     lv s' (u + 2 + n) = [Some (nth i side 0); Some (nth j side 0)] /\ kd s' (u + 2 + n) = k) /\
  (forall i, i < next s ->
     lv s' i = lv s i /\ kd s' i = kd s i /\ uv s' i = uv s i /\ vu s' i = vu s i ++ (if memn i side then [u] else []) /\
     exists ext, vl s' i = vl s i ++ ext /\ (forall l, In l ext <-> u + 2 <= l < next s' /\ In (Some i) (lv s' l)) /\
                 NoDup ext /\ Sorted.StronglySorted lt ext).
Proof. exact lam_effect. Qed.
Print Assumptions C11_dict_returns_new_universe.
Print Assumptions C11_dict_members_first_mention_order.
Print Assumptions C11_dict_one_link_per_pair_in_order.
Print Assumptions C11_dict_leaves_existing_graph_in_place.
Print Assumptions C11_dict_read_back.
Print Assumptions C11_matrix_bad_shape_rejected_whole.
Print Assumptions C11_matrix_effect.
