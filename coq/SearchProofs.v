(* SearchProofs.v — the three searches of Trav.v (bfs, dfs_rec, dfs_iter) characterised by the
   three traversals (bft, dft_rec, dft_iter) run with the constantly-true result filter `all`.

   Main theorems (for all nb uni m start and all fuels f1 f2):
     bfs_is_first_match      bft      nb uni all f1 start = TOk out -> bfs      nb uni m f2 start = r ->
                             r <> SFuel -> r = SOk (find m out)
     dfs_rec_is_first_match  the same for dft_rec  / dfs_rec
     dfs_iter_is_first_match the same for dft_iter / dfs_iter
   i.e. whenever the traversal returns normally with listing `out`, the search either runs out of
   fuel or returns exactly the first listed vertex satisfying m (None when there is none).

   The two machines are compared directly at *different* fuels f1, f2 (simulation by induction on
   the traversal's fuel, generalising the search's), so no fuel-monotonicity lemma is needed.
   Invariants: BFS — "find m out = None" and "no visited node matches" (which makes the order of the
   match test and the visited test immaterial); DFS (both) — "find m out = None" only, because the
   match test comes after the visited test there.

   Fuel adequacy (the fuel that suffices for the traversal suffices for the search):
     bfs_fuel_suffices / dfs_rec_fuel_suffices / dfs_iter_fuel_suffices
         traversal f start <> TFuel -> search f start <> SFuel
     bfs_complete / dfs_rec_complete / dfs_iter_complete
         traversal f start = TOk out -> search f start = SOk (find m out)

   Corollaries:
     search_result_listed   a returned vertex is listed by the traversal and matches
     search_none_iff        SOk None  <->  no listed vertex matches
     search_start_eligible  a matching start vertex that passes the preflight is returned
                            (bfs, dfs_rec: any fuel; dfs_iter: any fuel >= 1)

   Error direction:
     bfs_err_direction / dfs_rec_err_direction / dfs_iter_err_direction
         traversal f1 start = TErr e -> search f2 start = r -> r <> SFuel ->
         r = SErr e \/ exists v, r = SOk (Some v) /\ m v = true
     (the search raises the very same exception unless it exited early on a match).

   Stdlib only; every theorem is closed under the global context (see the end of the file). *)
From EG Require Import Base State Nbrs Trav.

Definition all : node -> bool := fun _ => true.

Section SearchProofs.
  Variable nb : nat -> nres.
  Variable uni : option (list nat).
  Variable m : node -> bool.

  (* ---------- generic facts ---------- *)
  Lemma sfind_app (a b : list node) :
    find m (a ++ b) = match find m a with Some x => Some x | None => find m b end.
  Proof. induction a as [|x a IH]; cbn; auto. destruct (m x); auto. Qed.

  Lemma find_none_iff (l : list node) : find m l = None <-> (forall x, In x l -> m x = false).
  Proof.
    split.
    - intros H x Hx. eapply find_none; eauto.
    - induction l as [|y l IH]; cbn; intro H; auto.
      rewrite (H y (or_introl eq_refl)). apply IH. intros x Hx. apply H. now right.
  Qed.

  Lemma nmem_In x l : nmem x l = true <-> In x l.
  Proof. exact (memo_In x l). Qed.

  Definition nomatch (l : list node) : Prop := forall x, In x l -> m x = false.

  Lemma app_nil_ex (out : list node) : exists l, out = out ++ l.
  Proof. exists []. now rewrite app_nil_r. Qed.

  Definition early_or_err (r : sres) (e : exn) : Prop :=
    r = SErr e \/ exists v, r = SOk (Some v) /\ m v = true.

  (* ================= BFS ================= *)
  Lemma bft_discover_eq q vis out v :
    bft_discover uni all (q, vis, out) v =
    if inU uni v && negb (nmem v vis) then (q ++ [v], v :: vis, out ++ [v]) else (q, vis, out).
  Proof. unfold bft_discover. destruct (inU uni v), (nmem v vis); reflexivity. Qed.

  Lemma bft_fold_ext ns : forall q vis out q2 vis2 out2,
    fold_left (bft_discover uni all) ns (q, vis, out) = (q2, vis2, out2) -> exists l, out2 = out ++ l.
  Proof.
    induction ns as [|v r IH]; intros q vis out q2 vis2 out2 H; cbn [fold_left] in H.
    - inversion H; subst. apply app_nil_ex.
    - rewrite bft_discover_eq in H. destruct (inU uni v && negb (nmem v vis)).
      + apply IH in H. destruct H as [l ->]. exists (v :: l). now rewrite <- app_assoc.
      + eauto.
  Qed.

  Lemma bft_loop_ext f : forall q vis out out',
    bft_loop nb uni all f q vis out = TOk out' -> exists l, out' = out ++ l.
  Proof.
    induction f as [|f IH]; intros q vis out out' H; cbn [bft_loop] in H; [discriminate|].
    destruct q as [|u q'].
    - inversion H; subst. apply app_nil_ex.
    - destruct (nbo nb u) as [ns|e]; [|discriminate].
      destruct (fold_left (bft_discover uni all) ns (q', vis, out)) as [[q2 vis2] out2] eqn:E.
      apply bft_fold_ext in E. destruct E as [l1 ->].
      apply IH in H. destruct H as [l2 ->]. exists (l1 ++ l2). now rewrite app_assoc.
  Qed.

  Lemma bfs_scan_sim ns : forall q vis out,
    find m out = None -> nomatch vis ->
    match bfs_scan uni m ns q vis with
    | BFound v => exists q2 vis2 l,
        fold_left (bft_discover uni all) ns (q, vis, out) = (q2, vis2, out ++ l) /\
        find m (out ++ l) = Some v
    | BCont q2 vis2 => exists out2,
        fold_left (bft_discover uni all) ns (q, vis, out) = (q2, vis2, out2) /\
        find m out2 = None /\ nomatch vis2
    end.
  Proof.
    induction ns as [|v r IH]; intros q vis out Hf Hv; cbn [bfs_scan fold_left].
    - exists out; auto.
    - rewrite bft_discover_eq. destruct (inU uni v) eqn:EU; cbn [negb andb].
      + destruct (m v) eqn:Em.
        * assert (Hn : nmem v vis = false).
          { destruct (nmem v vis) eqn:En; auto. apply nmem_In in En. apply Hv in En. congruence. }
          rewrite Hn. cbn [negb].
          destruct (fold_left (bft_discover uni all) r (q ++ [v], v :: vis, out ++ [v]))
            as [[q2 vis2] out2] eqn:E.
          destruct (bft_fold_ext _ _ _ _ _ _ _ E) as [l ->].
          exists q2, vis2, (v :: l). replace (out ++ v :: l) with ((out ++ [v]) ++ l) by now rewrite <- app_assoc.
          split; [reflexivity|]. rewrite <- app_assoc, sfind_app, Hf. cbn. now rewrite Em.
        * destruct (nmem v vis) eqn:En; cbn [negb].
          -- apply IH; auto.
          -- assert (Hf1 : find m (out ++ [v]) = None) by (rewrite sfind_app, Hf; cbn; now rewrite Em).
             assert (Hv1 : nomatch (v :: vis)) by (intros x [<-|Hx]; auto).
             pose proof (IH (q ++ [v]) (v :: vis) (out ++ [v]) Hf1 Hv1) as Hsc.
             destruct (bfs_scan uni m r (q ++ [v]) (v :: vis)) as [w|q2 vis2]; [|exact Hsc].
             destruct Hsc as (q2 & vis2 & l & E & Hfound).
             exists q2, vis2, (v :: l).
             replace (out ++ v :: l) with ((out ++ [v]) ++ l) by now rewrite <- app_assoc.
             auto.
      + apply IH; auto.
  Qed.

  Lemma bfs_loop_sim f1 : forall f2 q vis out out',
    bft_loop nb uni all f1 q vis out = TOk out' -> find m out = None -> nomatch vis ->
    bfs_loop nb uni m f2 q vis <> SFuel -> bfs_loop nb uni m f2 q vis = SOk (find m out').
  Proof.
    induction f1 as [|f1 IH]; intros f2 q vis out out' Ht Hf Hv Hs; cbn [bft_loop] in Ht; [discriminate|].
    destruct f2 as [|f2]; [now contradiction Hs|]. cbn [bfs_loop] in *.
    destruct q as [|u q'].
    - inversion Ht; subst. now rewrite Hf.
    - destruct (nbo nb u) as [ns|e]; [|discriminate].
      pose proof (bfs_scan_sim ns q' vis out Hf Hv) as Hsc.
      destruct (bfs_scan uni m ns q' vis) as [v|q2 vis2].
      + destruct Hsc as (q2 & vis2 & l & E & Hfound). rewrite E in Ht.
        apply bft_loop_ext in Ht. destruct Ht as [l2 ->]. now rewrite sfind_app, Hfound.
      + destruct Hsc as (out2 & E & Hf2 & Hv2). rewrite E in Ht. eapply IH; eassumption.
  Qed.

  (* the two scans agree on the (queue, visited) state whenever the search scan does not stop *)
  Lemma bfs_scan_cont ns : forall q vis out q2 vis2,
    bfs_scan uni m ns q vis = BCont q2 vis2 ->
    exists out2, fold_left (bft_discover uni all) ns (q, vis, out) = (q2, vis2, out2).
  Proof.
    induction ns as [|v r IH]; intros q vis out q2 vis2 H; cbn [bfs_scan fold_left] in *.
    - inversion H; subst; eauto.
    - rewrite bft_discover_eq. destruct (inU uni v); cbn [negb andb] in *; [|eauto].
      destruct (m v); [discriminate|]. destruct (nmem v vis); cbn [negb]; eauto.
  Qed.

  Lemma bfs_scan_found ns : forall q vis v, bfs_scan uni m ns q vis = BFound v -> m v = true.
  Proof.
    induction ns as [|w r IH]; intros q vis v H; cbn [bfs_scan] in H; [discriminate|].
    destruct (negb (inU uni w)); [eauto|]. destruct (m w) eqn:Em; [inversion H; subst; auto|].
    destruct (nmem w vis); eauto.
  Qed.

  Lemma bfs_loop_err f1 : forall f2 q vis out e,
    bft_loop nb uni all f1 q vis out = TErr e -> bfs_loop nb uni m f2 q vis <> SFuel ->
    early_or_err (bfs_loop nb uni m f2 q vis) e.
  Proof.
    induction f1 as [|f1 IH]; intros f2 q vis out e Ht Hs; cbn [bft_loop] in Ht; [discriminate|].
    destruct f2 as [|f2]; [now contradiction Hs|]. cbn [bfs_loop] in *.
    destruct q as [|u q']; [discriminate|].
    destruct (nbo nb u) as [ns|e0]; [|inversion Ht; subst; now left].
    destruct (bfs_scan uni m ns q' vis) as [v|q2 vis2] eqn:Es.
    - right. exists v. split; auto. eapply bfs_scan_found; eauto.
    - destruct (bfs_scan_cont _ _ _ out _ _ Es) as [out2 E]. rewrite E in Ht. eapply IH; eassumption.
  Qed.

  Lemma bfs_loop_fuel f : forall q vis out,
    bft_loop nb uni all f q vis out <> TFuel -> bfs_loop nb uni m f q vis <> SFuel.
  Proof.
    induction f as [|f IH]; intros q vis out Ht; cbn [bft_loop bfs_loop] in *; [now contradiction Ht|].
    destruct q as [|u q']; [discriminate|].
    destruct (nbo nb u) as [ns|e0]; [|discriminate].
    destruct (bfs_scan uni m ns q' vis) as [v|q2 vis2] eqn:Es; [discriminate|].
    destruct (bfs_scan_cont _ _ _ out _ _ Es) as [out2 E]. rewrite E in Ht. eapply IH; eassumption.
  Qed.

  (* ================= DFS, iterative ================= *)
  Lemma dfi_loop_ext f : forall st disc out out',
    dfi_loop nb uni all f st disc out = TOk out' -> exists l, out' = out ++ l.
  Proof.
    induction f as [|f IH]; intros st disc out out' H; cbn [dfi_loop] in H; [discriminate|].
    destruct st as [|v st].
    - inversion H; subst. apply app_nil_ex.
    - destruct (nmem v disc); [eauto|]. destruct (negb (inU uni v)); [eauto|].
      destruct (nbo nb v) as [ns|e]; [|discriminate].
      apply IH in H. destruct H as [l ->]. change (emit all v out) with (out ++ [v]).
      exists (v :: l). now rewrite <- app_assoc.
  Qed.

  Lemma dfsi_loop_sim f1 : forall f2 st disc out out',
    dfi_loop nb uni all f1 st disc out = TOk out' -> find m out = None ->
    dfsi_loop nb uni m f2 st disc <> SFuel -> dfsi_loop nb uni m f2 st disc = SOk (find m out').
  Proof.
    induction f1 as [|f1 IH]; intros f2 st disc out out' Ht Hf Hs; cbn [dfi_loop] in Ht; [discriminate|].
    destruct f2 as [|f2]; [now contradiction Hs|]. cbn [dfsi_loop] in *.
    destruct st as [|v st].
    - inversion Ht; subst. now rewrite Hf.
    - destruct (inU uni v) eqn:EU; cbn [negb] in *.
      + destruct (nmem v disc) eqn:En; [eapply IH; eassumption|].
        change (emit all v out) with (out ++ [v]) in Ht.
        destruct (m v) eqn:Em.
        * destruct (nbo nb v) as [ns|e]; [|discriminate].
          apply dfi_loop_ext in Ht. destruct Ht as [l ->].
          rewrite <- app_assoc, sfind_app, Hf. cbn. now rewrite Em.
        * destruct (nbo nb v) as [ns|e]; [|discriminate].
          eapply IH; try eassumption. rewrite sfind_app, Hf. cbn. now rewrite Em.
      + destruct (nmem v disc); eapply IH; eassumption.
  Qed.

  Lemma dfsi_loop_err f1 : forall f2 st disc out e,
    dfi_loop nb uni all f1 st disc out = TErr e -> dfsi_loop nb uni m f2 st disc <> SFuel ->
    early_or_err (dfsi_loop nb uni m f2 st disc) e.
  Proof.
    induction f1 as [|f1 IH]; intros f2 st disc out e Ht Hs; cbn [dfi_loop] in Ht; [discriminate|].
    destruct f2 as [|f2]; [now contradiction Hs|]. cbn [dfsi_loop] in *.
    destruct st as [|v st]; [discriminate|].
    destruct (inU uni v) eqn:EU; cbn [negb] in *.
    - destruct (nmem v disc) eqn:En; [eapply IH; eassumption|].
      destruct (m v) eqn:Em; [right; eauto|].
      destruct (nbo nb v) as [ns|e0]; [|inversion Ht; subst; now left].
      eapply IH; eassumption.
    - destruct (nmem v disc); eapply IH; eassumption.
  Qed.

  Lemma dfsi_loop_fuel f : forall st disc out,
    dfi_loop nb uni all f st disc out <> TFuel -> dfsi_loop nb uni m f st disc <> SFuel.
  Proof.
    induction f as [|f IH]; intros st disc out Ht; cbn [dfi_loop dfsi_loop] in *; [now contradiction Ht|].
    destruct st as [|v st]; [discriminate|].
    destruct (inU uni v) eqn:EU; cbn [negb] in *.
    - destruct (nmem v disc) eqn:En; [eapply IH; eassumption|].
      destruct (m v) eqn:Em; [discriminate|].
      destruct (nbo nb v) as [ns|e0]; [|discriminate].
      eapply IH; eassumption.
    - destruct (nmem v disc); eapply IH; eassumption.
  Qed.

  (* ================= DFS, recursive ================= *)
  (* the nested `fix go` of dfr / dfs_recur as list recursions over an abstract recursive call *)
  Definition dfr_list (rec : node -> list node -> list node -> dres) :=
    fix dfr_list (ws vis out : list node) {struct ws} : dres :=
    match ws with
    | [] => DOk vis out
    | w :: r =>
        if inU uni w && negb (nmem w vis)
        then match rec w vis out with
             | DOk vis' out' => dfr_list r vis' out'
             | e => e
             end
        else dfr_list r vis out
    end.
  Definition dfs_list (rec : node -> list node -> rres) :=
    fix dfs_list (ws vis : list node) {struct ws} : rres :=
    match ws with
    | [] => RNone vis
    | w :: r =>
        if inU uni w && negb (nmem w vis)
        then if m w then RFound w
             else match rec w vis with
                  | RNone vis' => dfs_list r vis'
                  | x => x
                  end
        else dfs_list r vis
    end.

  Lemma dfr_S f v vis out :
    dfr nb uni all (S f) v vis out =
    match nbo nb v with
    | NErr e => DErr e
    | NOk ns => dfr_list (dfr nb uni all f) ns (v :: vis) (out ++ [v])
    end.
  Proof. reflexivity. Qed.

  Lemma dfs_recur_S f v vis :
    dfs_recur nb uni m (S f) v vis =
    match nbo nb v with
    | NErr e => RErr e
    | NOk ns => dfs_list (dfs_recur nb uni m f) ns (v :: vis)
    end.
  Proof. reflexivity. Qed.

  Lemma dfr_list_ext rec :
    (forall w vis out vis' out', rec w vis out = DOk vis' out' -> exists l, out' = out ++ l) ->
    forall ws vis out vis' out', dfr_list rec ws vis out = DOk vis' out' -> exists l, out' = out ++ l.
  Proof.
    intros Hrec. induction ws as [|w r IH]; intros vis out vis' out' H; cbn [dfr_list] in H.
    - inversion H; subst. apply app_nil_ex.
    - destruct (inU uni w && negb (nmem w vis)); [|eauto].
      destruct (rec w vis out) as [vis1 out1| |] eqn:E; try discriminate.
      apply Hrec in E. destruct E as [l1 ->]. apply IH in H. destruct H as [l2 ->].
      exists (l1 ++ l2). now rewrite app_assoc.
  Qed.

  Lemma dfr_ext f : forall v vis out vis' out',
    dfr nb uni all f v vis out = DOk vis' out' -> exists l, out' = out ++ v :: l.
  Proof.
    induction f as [|f IH]; intros v vis out vis' out' H; [discriminate|].
    rewrite dfr_S in H. destruct (nbo nb v) as [ns|e]; [|discriminate].
    apply dfr_list_ext in H.
    - destruct H as [l ->]. exists l. now rewrite <- app_assoc.
    - intros w vis0 out0 vis0' out0' H0. apply IH in H0. destruct H0 as [l ->]. eauto.
  Qed.

  Lemma dfr_ext_weak f : forall v vis out vis' out',
    dfr nb uni all f v vis out = DOk vis' out' -> exists l, out' = out ++ l.
  Proof. intros v vis out vis' out' H. apply dfr_ext in H. destruct H as [l ->]. eauto. Qed.

  Definition rsim (r : rres) (vis' out' : list node) : Prop :=
    match r with
    | RFound w => find m out' = Some w
    | RNone vis2 => vis2 = vis' /\ find m out' = None
    | _ => False
    end.

  Lemma dfs_list_sim f f2
    (IHf : forall v vis out vis' out',
        dfr nb uni all f v vis out = DOk vis' out' -> m v = false -> find m out = None ->
        dfs_recur nb uni m f2 v vis <> RFuel -> rsim (dfs_recur nb uni m f2 v vis) vis' out') :
    forall ws vis out vis' out',
      dfr_list (dfr nb uni all f) ws vis out = DOk vis' out' -> find m out = None ->
      dfs_list (dfs_recur nb uni m f2) ws vis <> RFuel ->
      rsim (dfs_list (dfs_recur nb uni m f2) ws vis) vis' out'.
  Proof.
    induction ws as [|w r IH]; intros vis out vis' out' Ht Hf Hs; cbn [dfr_list dfs_list] in *.
    - inversion Ht; subst. cbn. auto.
    - destruct (inU uni w && negb (nmem w vis)); [|eapply IH; eassumption].
      destruct (dfr nb uni all f w vis out) as [vis1 out1| |] eqn:E; try discriminate.
      destruct (m w) eqn:Em.
      + cbn [rsim]. apply dfr_ext in E. destruct E as [l1 ->].
        apply (dfr_list_ext _ (dfr_ext_weak f)) in Ht. destruct Ht as [l2 ->].
        rewrite <- !app_assoc, sfind_app, Hf. cbn. now rewrite Em.
      + pose proof (IHf _ _ _ _ _ E Em Hf) as Hsub.
        destruct (dfs_recur nb uni m f2 w vis) as [x|vis2|e|] eqn:Er.
        * assert (Hx : find m out1 = Some x) by (apply Hsub; discriminate).
          cbn [rsim]. apply (dfr_list_ext _ (dfr_ext_weak f)) in Ht. destruct Ht as [l2 ->].
          now rewrite sfind_app, Hx.
        * assert (Hx : vis2 = vis1 /\ find m out1 = None) by (apply Hsub; discriminate).
          destruct Hx as [-> Hf1]. eapply IH; eassumption.
        * exfalso. apply Hsub. discriminate.
        * now contradiction Hs.
  Qed.

  Lemma dfs_recur_sim f1 : forall f2 v vis out vis' out',
    dfr nb uni all f1 v vis out = DOk vis' out' -> m v = false -> find m out = None ->
    dfs_recur nb uni m f2 v vis <> RFuel -> rsim (dfs_recur nb uni m f2 v vis) vis' out'.
  Proof.
    induction f1 as [|f1 IH]; intros f2 v vis out vis' out' Ht Hm Hf Hs; [discriminate|].
    destruct f2 as [|f2]; [now contradiction Hs|].
    rewrite dfr_S in Ht. rewrite dfs_recur_S in *.
    destruct (nbo nb v) as [ns|e]; [|discriminate].
    apply (dfs_list_sim f1 f2 (IH f2)) with (out := out ++ [v]); auto.
    rewrite sfind_app, Hf. cbn. now rewrite Hm.
  Qed.

  Definition rerr (r : rres) (e : exn) : Prop :=
    match r with
    | RErr e' => e' = e
    | RFound w => m w = true
    | _ => False
    end.

  Lemma dfs_list_err f f2
    (IHf : forall v vis out e,
        dfr nb uni all f v vis out = DErr e -> m v = false -> find m out = None ->
        dfs_recur nb uni m f2 v vis <> RFuel -> rerr (dfs_recur nb uni m f2 v vis) e) :
    forall ws vis out e,
      dfr_list (dfr nb uni all f) ws vis out = DErr e -> find m out = None ->
      dfs_list (dfs_recur nb uni m f2) ws vis <> RFuel ->
      rerr (dfs_list (dfs_recur nb uni m f2) ws vis) e.
  Proof.
    induction ws as [|w r IH]; intros vis out e Ht Hf Hs; cbn [dfr_list dfs_list] in *; [discriminate|].
    destruct (inU uni w && negb (nmem w vis)); [|eapply IH; eassumption].
    destruct (m w) eqn:Em; [exact Em|].
    destruct (dfr nb uni all f w vis out) as [vis1 out1|e1|] eqn:E; try discriminate.
    - pose proof (dfs_recur_sim f f2 _ _ _ _ _ E Em Hf) as Hsub.
      destruct (dfs_recur nb uni m f2 w vis) as [x|vis2|e2|] eqn:Er.
      + assert (Hx : find m out1 = Some x) by (apply Hsub; discriminate).
        apply find_some in Hx. cbn [rerr]. tauto.
      + assert (Hx : vis2 = vis1 /\ find m out1 = None) by (apply Hsub; discriminate).
        destruct Hx as [-> Hf1]. eapply IH; eassumption.
      + exfalso. apply Hsub. discriminate.
      + now contradiction Hs.
    - inversion Ht; subst e1.
      pose proof (IHf _ _ _ _ E Em Hf) as Hsub.
      destruct (dfs_recur nb uni m f2 w vis) as [x|vis2|e2|] eqn:Er.
      + apply Hsub; discriminate.
      + exfalso. apply Hsub. discriminate.
      + apply Hsub; discriminate.
      + now contradiction Hs.
  Qed.

  Lemma dfs_recur_err f1 : forall f2 v vis out e,
    dfr nb uni all f1 v vis out = DErr e -> m v = false -> find m out = None ->
    dfs_recur nb uni m f2 v vis <> RFuel -> rerr (dfs_recur nb uni m f2 v vis) e.
  Proof.
    induction f1 as [|f1 IH]; intros f2 v vis out e Ht Hm Hf Hs; [discriminate|].
    destruct f2 as [|f2]; [now contradiction Hs|].
    rewrite dfr_S in Ht. rewrite dfs_recur_S in *.
    destruct (nbo nb v) as [ns|e0]; [|inversion Ht; subst; reflexivity].
    apply (dfs_list_err f1 f2 (IH f2)) with (out := out ++ [v]); auto.
    rewrite sfind_app, Hf. cbn. now rewrite Hm.
  Qed.

  Lemma dfs_list_fuel f
    (IHf : forall v vis out,
        dfr nb uni all f v vis out <> DFuel -> m v = false -> find m out = None ->
        dfs_recur nb uni m f v vis <> RFuel) :
    forall ws vis out,
      dfr_list (dfr nb uni all f) ws vis out <> DFuel -> find m out = None ->
      dfs_list (dfs_recur nb uni m f) ws vis <> RFuel.
  Proof.
    induction ws as [|w r IH]; intros vis out Ht Hf; cbn [dfr_list dfs_list] in *; [discriminate|].
    destruct (inU uni w && negb (nmem w vis)); [|eapply IH; eassumption].
    destruct (m w) eqn:Em; [discriminate|].
    destruct (dfr nb uni all f w vis out) as [vis1 out1|e1|] eqn:E.
    - assert (Hne : dfs_recur nb uni m f w vis <> RFuel).
      { eapply IHf; try eassumption. rewrite E. discriminate. }
      pose proof (dfs_recur_sim f f _ _ _ _ _ E Em Hf Hne) as Hsub.
      destruct (dfs_recur nb uni m f w vis) as [x|vis2|e2|] eqn:Er; try discriminate.
      + cbn [rsim] in Hsub. destruct Hsub as [-> Hf1]. eapply IH; eassumption.
      + now contradiction Hne.
    - assert (Hne : dfs_recur nb uni m f w vis <> RFuel).
      { eapply IHf; try eassumption. rewrite E. discriminate. }
      pose proof (dfs_recur_err f f _ _ _ _ E Em Hf Hne) as Hsub.
      destruct (dfs_recur nb uni m f w vis) as [x|vis2|e2|] eqn:Er; try discriminate.
      + destruct Hsub.
      + now contradiction Hne.
    - now contradiction Ht.
  Qed.

  Lemma dfs_recur_fuel f : forall v vis out,
    dfr nb uni all f v vis out <> DFuel -> m v = false -> find m out = None ->
    dfs_recur nb uni m f v vis <> RFuel.
  Proof.
    induction f as [|f IH]; intros v vis out Ht Hm Hf; [now contradiction Ht|].
    rewrite dfr_S in Ht. rewrite dfs_recur_S.
    destruct (nbo nb v) as [ns|e0]; [|discriminate].
    apply (dfs_list_fuel f IH) with (out := out ++ [v]); auto.
    rewrite sfind_app, Hf. cbn. now rewrite Hm.
  Qed.
End SearchProofs.

(* ================= main theorems ================= *)

Theorem bfs_is_first_match nb uni m f1 f2 start out r :
  bft nb uni all f1 start = TOk out -> bfs nb uni m f2 start = r -> r <> SFuel ->
  r = SOk (find m out).
Proof.
  intros Ht Hr Hs. subst r. unfold bft in Ht. unfold bfs in *.
  destruct uni as [[|x vs]|].
  1: { inversion Ht; subst. reflexivity. }
  all: destruct (inU _ (Some start)) eqn:EU; cbn [negb] in *; [|discriminate].
  all: change (emit all (Some start) []) with [Some start] in Ht.
  all: destruct (m (Some start)) eqn:Em.
  1,3: apply bft_loop_ext in Ht; destruct Ht as [l ->]; cbn; now rewrite Em.
  all: eapply bfs_loop_sim; try eassumption.
  1,3: cbn; now rewrite Em.
  all: intros y [<-|[]]; auto.
Qed.

Theorem dfs_rec_is_first_match nb uni m f1 f2 start out r :
  dft_rec nb uni all f1 start = TOk out -> dfs_rec nb uni m f2 start = r -> r <> SFuel ->
  r = SOk (find m out).
Proof.
  intros Ht Hr Hs. subst r. unfold dft_rec in Ht. unfold dfs_rec in *.
  destruct (df_preflight uni start); [discriminate|].
  destruct (dfr nb uni all f1 (Some start) [] []) as [vis' out'| |] eqn:E; try discriminate.
  inversion Ht; subst out'.
  destruct (m (Some start)) eqn:Em.
  - apply dfr_ext in E. destruct E as [l ->]. cbn. now rewrite Em.
  - pose proof (dfs_recur_sim nb uni m f1 f2 _ _ _ _ _ E Em eq_refl) as H.
    destruct (dfs_recur nb uni m f2 (Some start) []) as [x|vis2|e|].
    + cbn [rsim] in H. rewrite H; [reflexivity|discriminate].
    + cbn [rsim] in H. destruct H as [_ ->]; [discriminate|reflexivity].
    + exfalso. apply H. discriminate.
    + now contradiction Hs.
Qed.

Theorem dfs_iter_is_first_match nb uni m f1 f2 start out r :
  dft_iter nb uni all f1 start = TOk out -> dfs_iter nb uni m f2 start = r -> r <> SFuel ->
  r = SOk (find m out).
Proof.
  intros Ht Hr Hs. subst r. unfold dft_iter in Ht. unfold dfs_iter in *.
  destruct (df_preflight uni start); [discriminate|].
  eapply dfsi_loop_sim; try eassumption. reflexivity.
Qed.

(* ================= fuel adequacy ================= *)

Theorem bfs_fuel_suffices nb uni m f start :
  bft nb uni all f start <> TFuel -> bfs nb uni m f start <> SFuel.
Proof.
  unfold bft, bfs. intros Ht.
  destruct uni as [[|x vs]|]; [discriminate| |].
  all: destruct (negb (inU _ (Some start))); [discriminate|].
  all: destruct (m (Some start)); [discriminate|].
  all: eapply bfs_loop_fuel; eassumption.
Qed.

Theorem dfs_rec_fuel_suffices nb uni m f start :
  dft_rec nb uni all f start <> TFuel -> dfs_rec nb uni m f start <> SFuel.
Proof.
  unfold dft_rec, dfs_rec. intros Ht.
  destruct (df_preflight uni start); [discriminate|].
  destruct (m (Some start)) eqn:Em; [discriminate|].
  assert (Hne : dfs_recur nb uni m f (Some start) [] <> RFuel).
  { eapply dfs_recur_fuel with (out := []); auto. intro E. rewrite E in Ht. now contradiction Ht. }
  destruct (dfs_recur nb uni m f (Some start) []); try discriminate. now contradiction Hne.
Qed.

Theorem dfs_iter_fuel_suffices nb uni m f start :
  dft_iter nb uni all f start <> TFuel -> dfs_iter nb uni m f start <> SFuel.
Proof.
  unfold dft_iter, dfs_iter. intros Ht.
  destruct (df_preflight uni start); [discriminate|].
  eapply dfsi_loop_fuel; eassumption.
Qed.

Theorem bfs_complete nb uni m f start out :
  bft nb uni all f start = TOk out -> bfs nb uni m f start = SOk (find m out).
Proof.
  intro Ht. eapply bfs_is_first_match; [eassumption|reflexivity|].
  apply bfs_fuel_suffices. rewrite Ht. discriminate.
Qed.

Theorem dfs_rec_complete nb uni m f start out :
  dft_rec nb uni all f start = TOk out -> dfs_rec nb uni m f start = SOk (find m out).
Proof.
  intro Ht. eapply dfs_rec_is_first_match; [eassumption|reflexivity|].
  apply dfs_rec_fuel_suffices. rewrite Ht. discriminate.
Qed.

Theorem dfs_iter_complete nb uni m f start out :
  dft_iter nb uni all f start = TOk out -> dfs_iter nb uni m f start = SOk (find m out).
Proof.
  intro Ht. eapply dfs_iter_is_first_match; [eassumption|reflexivity|].
  apply dfs_iter_fuel_suffices. rewrite Ht. discriminate.
Qed.

(* ================= corollaries ================= *)

Lemma first_match_listed (m : node -> bool) out v : SOk (Some v) = SOk (find m out) -> In v out /\ m v = true.
Proof. intro H. inversion H as [H1]. symmetry in H1. now apply find_some in H1. Qed.

Theorem search_result_listed nb uni m f1 f2 start out v :
  (bft nb uni all f1 start = TOk out -> bfs nb uni m f2 start = SOk (Some v) -> In v out /\ m v = true) /\
  (dft_rec nb uni all f1 start = TOk out -> dfs_rec nb uni m f2 start = SOk (Some v) -> In v out /\ m v = true) /\
  (dft_iter nb uni all f1 start = TOk out -> dfs_iter nb uni m f2 start = SOk (Some v) -> In v out /\ m v = true).
Proof.
  split; [|split]; intros Ht Hs; apply (first_match_listed m).
  - eapply bfs_is_first_match; [eassumption|eassumption|discriminate].
  - eapply dfs_rec_is_first_match; [eassumption|eassumption|discriminate].
  - eapply dfs_iter_is_first_match; [eassumption|eassumption|discriminate].
Qed.

Lemma first_match_none_iff (m : node -> bool) out r :
  r = SOk (find m out) -> (r = SOk None <-> (forall x, In x out -> m x = false)).
Proof.
  intros ->. rewrite <- find_none_iff. split; [intro H; now inversion H | now intros ->].
Qed.

Theorem search_none_iff nb uni m f1 f2 start out r :
  r <> SFuel ->
  (bft nb uni all f1 start = TOk out -> bfs nb uni m f2 start = r ->
     (r = SOk None <-> (forall x, In x out -> m x = false))) /\
  (dft_rec nb uni all f1 start = TOk out -> dfs_rec nb uni m f2 start = r ->
     (r = SOk None <-> (forall x, In x out -> m x = false))) /\
  (dft_iter nb uni all f1 start = TOk out -> dfs_iter nb uni m f2 start = r ->
     (r = SOk None <-> (forall x, In x out -> m x = false))).
Proof.
  intro Hs. split; [|split]; intros Ht Hr; apply first_match_none_iff.
  - eapply bfs_is_first_match; eassumption.
  - eapply dfs_rec_is_first_match; eassumption.
  - eapply dfs_iter_is_first_match; eassumption.
Qed.

Theorem search_start_eligible nb uni m start :
  m (Some start) = true -> uni <> Some [] -> inU uni (Some start) = true ->
  (forall f, bfs nb uni m f start = SOk (Some (Some start))) /\
  (forall f, dfs_rec nb uni m f start = SOk (Some (Some start))) /\
  (forall f, 1 <= f -> dfs_iter nb uni m f start = SOk (Some (Some start))).
Proof.
  intros Hm Hu HU.
  assert (Hp : df_preflight uni start = None).
  { unfold df_preflight. destruct uni as [[|x vs]|]; [now contradiction Hu| |]; now rewrite HU. }
  split; [|split].
  - intro f. unfold bfs. destruct uni as [[|x vs]|]; [now contradiction Hu| |]; now rewrite HU, Hm.
  - intro f. unfold dfs_rec. now rewrite Hp, Hm.
  - intros [|f] Hf; [lia|]. unfold dfs_iter. rewrite Hp. cbn [dfsi_loop]. rewrite HU. cbn. now rewrite Hm.
Qed.

(* ================= error direction ================= *)

Theorem bfs_err_direction nb uni m f1 f2 start e r :
  bft nb uni all f1 start = TErr e -> bfs nb uni m f2 start = r -> r <> SFuel ->
  r = SErr e \/ exists v, r = SOk (Some v) /\ m v = true.
Proof.
  intros Ht Hr Hs. subst r. unfold bft in Ht. unfold bfs in *.
  destruct uni as [[|x vs]|]; [discriminate| |].
  all: destruct (negb (inU _ (Some start))); [inversion Ht; subst; now left|].
  all: destruct (m (Some start)) eqn:Em; [right; eauto|].
  all: eapply bfs_loop_err; eassumption.
Qed.

Theorem dfs_rec_err_direction nb uni m f1 f2 start e r :
  dft_rec nb uni all f1 start = TErr e -> dfs_rec nb uni m f2 start = r -> r <> SFuel ->
  r = SErr e \/ exists v, r = SOk (Some v) /\ m v = true.
Proof.
  intros Ht Hr Hs. subst r. unfold dft_rec in Ht. unfold dfs_rec in *.
  destruct (df_preflight uni start); [inversion Ht; subst; now left|].
  destruct (m (Some start)) eqn:Em; [right; eauto|].
  destruct (dfr nb uni all f1 (Some start) [] []) as [vis' out'|e1|] eqn:E; try discriminate.
  inversion Ht; subst e1.
  pose proof (dfs_recur_err nb uni m f1 f2 _ _ _ _ E Em eq_refl) as H.
  destruct (dfs_recur nb uni m f2 (Some start) []) as [x|vis2|e2|].
  - right. exists x. split; auto. apply H. discriminate.
  - exfalso. apply H. discriminate.
  - left. f_equal. apply H. discriminate.
  - now contradiction Hs.
Qed.

Theorem dfs_iter_err_direction nb uni m f1 f2 start e r :
  dft_iter nb uni all f1 start = TErr e -> dfs_iter nb uni m f2 start = r -> r <> SFuel ->
  r = SErr e \/ exists v, r = SOk (Some v) /\ m v = true.
Proof.
  intros Ht Hr Hs. subst r. unfold dft_iter in Ht. unfold dfs_iter in *.
  destruct (df_preflight uni start); [inversion Ht; subst; now left|].
  eapply dfsi_loop_err; eassumption.
Qed.

Print Assumptions bfs_is_first_match.
Print Assumptions dfs_rec_is_first_match.
Print Assumptions dfs_iter_is_first_match.
Print Assumptions bfs_complete.
Print Assumptions dfs_rec_complete.
Print Assumptions dfs_iter_complete.
Print Assumptions search_result_listed.
Print Assumptions search_none_iff.
Print Assumptions search_start_eligible.
Print Assumptions bfs_err_direction.
Print Assumptions dfs_rec_err_direction.
Print Assumptions dfs_iter_err_direction.
