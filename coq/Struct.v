(* Struct.v — method-by-method transliteration of the mutating API of
   structure/{base,vertex,link,twoendedlink,universe}.py and builder/explicit.py.
   Same call structure, same membership guards, same order of list edits as the Python;
   the mutual recursion (vertex <-> link, vertex <-> universe, universe <-> laws) runs on
   explicit fuel and yields `Raise OutOfFuel` when it runs out (proved impossible for
   fuel >= 3: LinkStep.v, RefProofs.v).  Model-side file: definitions only.                         *)
From EG Require Import Base State Nbrs.

(* Vertex._qa_neighbors_invalidate: the memo of v is replaced by an empty dict (whatever the flag) *)
Definition inval (s : state) (v : nat) : state := set_ca s v [].
(* Link._invalidate_neighbor_caches(also...): for vert in self._vertices followed by also: if vert is not None: invalidate *)
Fixpoint inval_all (s : state) (vs : list (option nat)) : state :=
  match vs with
  | [] => s
  | None :: r => inval_all s r
  | Some v :: r => inval_all (inval s v) r
  end.

(* ---- vertex <-> link --------------------------------------------------------------------- *)
Fixpoint v_add_to_link (fuel : nat) (s : state) (v l : nat) : res :=
  match fuel with 0 => Raise OutOfFuel s | S f =>
    if memn l (vl s v) then Ok (inval s v)
    else
      let s1 := set_vl s v (vl s v ++ [l]) in
      if memo (Some v) (lv s1 l) then Ok (inval s1 v)
      else bind (l_add_vertex f s1 l (Some v)) (fun s2 => Ok (inval s2 v))
  end
with l_add_vertex (fuel : nat) (s : state) (l : nat) (ov : option nat) : res :=
  match fuel with 0 => Raise OutOfFuel s | S f =>
    let s1 := set_lv s l (lv s l ++ [ov]) in
    match ov with
    | None => Ok (inval_all s1 (lv s1 l))
    | Some v =>
        if memn l (vl s1 v) then Ok (inval_all s1 (lv s1 l))
        else bind (v_add_to_link f s1 v l) (fun s2 => Ok (inval_all s2 (lv s2 l)))
    end
  end.

Fixpoint v_remove_from_link (fuel : nat) (s : state) (v l : nat) : res :=
  match fuel with 0 => Raise OutOfFuel s | S f =>
    if memn l (vl s v)
    then bind (l_unlink_from f (set_vl s v (remove1 l (vl s v))) l (Some v)) (fun s2 => Ok (inval s2 v))
    else Ok (inval s v)
  end
with l_unlink_from (fuel : nat) (s : state) (l : nat) (ov : option nat) : res :=
  match fuel with 0 => Raise OutOfFuel s | S f =>
    if memo ov (lv s l) then
      let s1 := set_lv s l (oremove1 ov (lv s l)) in
      match ov with
      | None => Ok (inval_all s1 (lv s1 l))
      | Some v =>
          (* while kill in self._vertices: self._vertices.remove(kill) *)
          let s2 := set_lv s1 l (oremove_all (Some v) (lv s1 l)) in
          bind (v_remove_from_link f s2 v l) (fun s3 => Ok (inval_all s3 (lv s3 l ++ [Some v])))
      end
    else Ok s
  end.

(* TwoEndedLink._set_end(idx, new):
     ends = (self.v1, self.v2); old = ends[idx]; self._vertices[idx] = new
     if old is not None and old not in self._vertices: old.remove_from_link(self)
     if new is not None and self not in new.links: new.add_to_link(self)
     self._invalidate_neighbor_caches(ends[0], ends[1])                                                 *)
Definition l_set_end (fuel : nat) (s : state) (l : nat) (idx : nat) (new : option nat) : res :=
  match lv1 s l, lv2 s l with
  | Some e1, Some e2 =>
      let old := if Nat.eqb idx 0 then e1 else e2 in
      let s1 := set_lv s l (set idx new (lv s l)) in
      bind (match old with
            | Some ov => if memo (Some ov) (lv s1 l) then Ok s1 else v_remove_from_link fuel s1 ov l
            | None => Ok s1
            end) (fun s2 =>
      bind (match new with
            | Some nv => if memn l (vl s2 nv) then Ok s2 else v_add_to_link fuel s2 nv l
            | None => Ok s2
            end) (fun s3 =>
      Ok (inval_all s3 (lv s3 l ++ [e1; e2]))))
  | _, _ => Raise IndexError s
  end.

(* ---- vertex <-> universe ----------------------------------------------------------------- *)
Fixpoint u_add_vertex (fuel : nat) (s : state) (u v : nat) : res :=
  match fuel with 0 => Raise OutOfFuel s | S f =>
    if memn v (uv s u) then Ok s
    else
      let s1 := set_uv s u (uv s u ++ [v]) in
      if memn u (vu s1 v) then Ok s1 else v_add_to_universe f s1 v u
  end
with v_add_to_universe (fuel : nat) (s : state) (v u : nat) : res :=
  match fuel with 0 => Raise OutOfFuel s | S f =>
    let s1 := if memn u (vu s v) then s else set_vu s v (vu s v ++ [u]) in
    if memn v (uv s1 u) then Ok s1 else u_add_vertex f s1 u v
  end.

Fixpoint u_remove_vertex (fuel : nat) (s : state) (u v : nat) : res :=
  match fuel with 0 => Raise OutOfFuel s | S f =>
    if memn v (uv s u) then
      let s1 := set_uv s u (remove1 v (uv s u)) in
      if memn u (vu s1 v) then v_remove_from_universe f s1 v u else Ok s1
    else Raise ValueError s
  end
with v_remove_from_universe (fuel : nat) (s : state) (v u : nat) : res :=
  match fuel with 0 => Raise OutOfFuel s | S f =>
    if memn u (vu s v) then
      let s1 := set_vu s v (remove1 u (vu s v)) in
      if memn v (uv s1 u) then u_remove_vertex f s1 u v else Ok s1
    else Raise ValueError s
  end.

(* ---- universe <-> laws ------------------------------------------------------------------- *)
Fixpoint u_set_laws (fuel : nat) (s : state) (u : nat) (oL : option nat) : res :=
  match fuel with 0 => Raise OutOfFuel s | S f =>
    if oeqb oL (ul s u) then Ok s
    else
      let old := ul s u in
      let s1 := set_ul s u oL in
      bind (match old with
            | Some L0 => if oeqb (la s1 L0) (Some u) then l_set_applies f s1 L0 None else Ok s1
            | None => Ok s1
            end) (fun s2 =>
      match oL with
      | Some L => l_set_applies f s2 L (Some u)
      | None => Ok s2
      end)
  end
with l_set_applies (fuel : nat) (s : state) (L : nat) (ou : option nat) : res :=
  match fuel with 0 => Raise OutOfFuel s | S f =>
    if oeqb ou (la s L) then Ok s
    else
      let old := la s L in
      let s1 := set_la s L ou in
      bind (match old with
            | Some u0 => if oeqb (ul s1 u0) (Some L) then u_set_laws f s1 u0 None else Ok s1
            | None => Ok s1
            end) (fun s2 =>
      match la s2 L with
      | Some u => u_set_laws f s2 u (Some L)
      | None => Ok s2
      end)
  end.

(* ---- operations ---------------------------------------------------------------------------- *)
Inductive value := VNone | VId (i : nat) | VSet (l : list nat) | VList (l : list (option nat)).
Inductive outcome := Ret (v : value) | Raised (e : exn).

Inductive op :=
  | NewVertex (sub : bool) (us ls : list nat)          (* Vertex(universes=us, links=ls) / subclass *)
  | NewUniverse (vs : list nat) (oL : option nat)      (* Universe(vertices=vs, laws=oL)            *)
  | NewLaws (ou : option nat)                          (* UniverseLaws(applies_to=ou)               *)
  | NewEdge (k : cls) (a b : option nat)               (* k(a, b); a/b may be any object id or None *)
  | SetV1 (l : nat) (ov : option nat) | SetV2 (l : nat) (ov : option nat)
  | VAddToLink (v l : nat) | VRemoveFromLink (v l : nat)
  | LAddVertex (l : nat) (ov : option nat) | LUnlinkFrom (l : nat) (ov : option nat)
  | LinkFromTo (a : nat) (k : cls) (b : nat) (dontdup : bool)
  | Unlink (a b : nat) (destroy : bool)
  | UAddVertex (u v : nat) | URemoveVertex (u v : nat)
  | VAddToUniverse (v u : nat) | VRemoveFromUniverse (v u : nat)
  | SetLaws (u : nat) (oL : option nat) | SetAppliesTo (L : nat) (ou : option nat)
  | SetCaching (b : bool).

Definition FUEL : nat := 8.

Definition isv (s : state) (i : nat) : bool := valid s i && is_vertex (kd s i).
Definition isl (s : state) (i : nat) : bool := valid s i && is_link (kd s i).
Definition isu (s : state) (i : nat) : bool := valid s i && cls_eqb (kd s i) KUniverse.
Definition isL (s : state) (i : nat) : bool := valid s i && cls_eqb (kd s i) KLaws.
Definition oisv s (o : option nat) := match o with None => true | Some v => isv s v end.
Definition oisu s (o : option nat) := match o with None => true | Some v => isu s v end.
Definition oisL s (o : option nat) := match o with None => true | Some v => isL s v end.

(* is the call one the Python signatures admit?  (ids allocated and of the right class) *)
Definition well_typed (s : state) (o : op) : bool :=
  match o with
  | NewVertex _ us ls => forallb (isu s) us && forallb (isl s) ls
  | NewUniverse vs oL => forallb (isv s) vs && oisL s oL
  | NewLaws ou => oisu s ou
  | NewEdge k a b => is_link k && match a with None => true | Some i => valid s i end
                               && match b with None => true | Some i => valid s i end
  | SetV1 l ov | SetV2 l ov => isl s l && oisv s ov
  | VAddToLink v l | VRemoveFromLink v l => isv s v && isl s l
  | LAddVertex l ov | LUnlinkFrom l ov => isl s l && oisv s ov
  | LinkFromTo a k b _ => isv s a && isv s b && is_link k
  | Unlink a b _ => isv s a && isv s b
  | UAddVertex u v | URemoveVertex u v => isu s u && isv s v
  | VAddToUniverse v u | VRemoveFromUniverse v u => isv s v && isu s u
  | SetLaws u oL => isu s u && oisL s oL
  | SetAppliesTo L ou => isL s L && oisu s ou
  | SetCaching _ => true
  end.

Fixpoint seq_res (f : state -> nat -> res) (xs : list nat) (s : state) : res :=
  match xs with [] => Ok s | x :: r => bind (f s x) (seq_res f r) end.
Fixpoint seq_ores (f : state -> option nat -> res) (xs : list (option nat)) (s : state) : res :=
  match xs with [] => Ok s | x :: r => bind (f s x) (seq_ores f r) end.

(* TwoEndedLink(a, b): type checks first, then Link.__init__ adds both ends *)
Definition new_edge (s : state) (k : cls) (a b : option nat) : res * outcome :=
  let bad o := match o with Some i => negb (is_vertex (kd s i)) | None => false end in
  if bad a || bad b then (Ok s, Raised TypeError)
  else
    let l := next s in
    let r := seq_ores (fun s ov => l_add_vertex FUEL s l ov) [a; b] (alloc k s) in
    (r, Ret (VId l)).

(* explicit.link_from_to *)
Fixpoint first_joining (s : state) (a b : nat) (ls : list nat) : option (option nat) :=   (* None = IndexError *)
  match ls with
  | [] => Some None
  | l :: r => match other s l (Some a) with
              | OErr => None
              | OVal o => if oeqb o (Some b) then Some (Some l) else first_joining s a b r
              end
  end.

Definition ok_or (r : res) (v : value) : res * outcome :=
  match r with Ok s => (r, Ret v) | Raise e s => (r, Raised e) end.

Definition step (s : state) (o : op) : state * outcome :=
  if negb (well_typed s o) then (s, Raised IllTyped) else
  let '(r, out) :=
    match o with
    | NewVertex sub us ls =>
        let v := next s in
        let s0 := set_vu (alloc (if sub then KVertexSub else KVertex) s) v (dedup us) in
        let r := bind (seq_res (fun s l => v_add_to_link FUEL s v l) ls s0)
                      (fun s1 => seq_res (fun s u => u_add_vertex FUEL s u v) (vu s1 v) s1) in
        ok_or r (VId v)
    | NewUniverse vs oL =>
        let u := next s in
        let s0 := alloc KUniverse s in
        let '(s1, L) := match oL with
                        | Some L => (set_ul s0 u (Some L), L)
                        | None => let L := next s0 in (set_ul (set_la (alloc KLaws s0) L (Some u)) u (Some L), L)
                        end in
        let r := bind (l_set_applies FUEL s1 L (Some u))
                      (fun s2 => seq_res (fun s v => u_add_vertex FUEL s u v) vs s2) in
        ok_or r (VId u)
    | NewLaws ou => let L := next s in (Ok (set_la (alloc KLaws s) L ou), Ret (VId L))
    | NewEdge k a b => new_edge s k a b
    | SetV1 l ov => ok_or (l_set_end FUEL s l 0 ov) VNone
    | SetV2 l ov => ok_or (l_set_end FUEL s l 1 ov) VNone
    | VAddToLink v l => ok_or (v_add_to_link FUEL s v l) VNone
    | VRemoveFromLink v l => ok_or (v_remove_from_link FUEL s v l) VNone
    | LAddVertex l ov => ok_or (l_add_vertex FUEL s l ov) VNone
    | LUnlinkFrom l ov => ok_or (l_unlink_from FUEL s l ov) VNone
    | LinkFromTo a k b dontdup =>
        match (if dontdup then first_joining s a b (vl s a) else Some None) with
        | None => (Ok s, Raised IndexError)
        | Some (Some l) => (Ok s, Ret (VId l))
        | Some None => new_edge s k (Some a) (Some b)
        end
    | Unlink a b destroy =>
        match find_links (fun _ _ => true) s a b false UErr None with
        | FErr e => (Ok s, Raised e)
        | FOk links =>
            let r := seq_res (fun s l => bind (l_unlink_from FUEL s l (Some a))
                                              (fun s' => l_unlink_from FUEL s' l (Some b))) links s in
            ok_or r (if destroy then VNone else VSet links)
        end
    | UAddVertex u v => ok_or (u_add_vertex FUEL s u v) VNone
    | URemoveVertex u v => ok_or (u_remove_vertex FUEL s u v) VNone
    | VAddToUniverse v u => ok_or (v_add_to_universe FUEL s v u) VNone
    | VRemoveFromUniverse v u => ok_or (v_remove_from_universe FUEL s v u) VNone
    | SetLaws u oL => ok_or (u_set_laws FUEL s u oL) VNone
    | SetAppliesTo L ou => ok_or (l_set_applies FUEL s L ou) VNone
    | SetCaching b => (Ok (set_caching s b), Ret VNone)
    end in
  (res_state r, out).

Definition run (ops : list op) (s : state) : state := fold_left (fun s o => fst (step s o)) ops s.
