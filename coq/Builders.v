(* Builders.v — builder/adjlist.py, builder/adjmatrix.py and builder/randgraph.py.  Each builder is
   the sequence of structure-API calls the Python makes, in the same order, run through
   Struct.step; randgraph draws from an oracle stream standing for the `random` module.
   Model-side file: definitions only. *)
From EG Require Import Base State Nbrs Struct.

(* load_adj_dict(adjdict, linktype):
     uni = Universe()
     for v1, v2s in adjdict.items():
         v1.add_to_universe(uni)
         for v2 in v2s: explicit.link_from_to(v1, linktype, v2); v2.add_to_universe(uni)
     return uni                                                                            *)
Definition adj_dict_ops (u : nat) (k : cls) (adj : list (nat * list nat)) : list op :=
  flat_map (fun kv => VAddToUniverse (fst kv) u ::
                      flat_map (fun v2 => [LinkFromTo (fst kv) k v2 false; VAddToUniverse v2 u]) (snd kv)) adj.
Definition adj_ok (s : state) (k : cls) (adj : list (nat * list nat)) : bool :=
  is_link k && forallb (fun kv => isv s (fst kv) && forallb (isv s) (snd kv)) adj.
Definition load_adj_dict (s : state) (adj : list (nat * list nat)) (k : cls) : state * outcome :=
  if negb (adj_ok s k adj) then (s, Raised IllTyped)
  else let u := next s in
       (run (NewUniverse [] None :: adj_dict_ops u k adj) s, Ret (VId u)).

(* load_adj_matrix(matrix, vertices, linktype): shape checks first (ValueError, nothing touched),
   then Universe(), every side-array vertex added, then truthy cells row-major *)
Fixpoint indexed {A} (i : nat) (l : list A) : list (nat * A) :=
  match l with [] => [] | x :: r => (i, x) :: indexed (S i) r end.
Definition matrix_ops (u : nat) (k : cls) (m : list (list bool)) (side : list nat) : list op :=
  map (fun v => VAddToUniverse v u) side ++
  flat_map (fun ir : nat * list bool =>
              flat_map (fun jc : nat * bool =>
                          if snd jc then [LinkFromTo (nth (fst ir) side 0) k (nth (fst jc) side 0) false] else [])
                       (indexed 0 (snd ir))) (indexed 0 m).
Definition load_adj_matrix (s : state) (m : list (list bool)) (side : list nat) (k : cls) : state * outcome :=
  if negb (is_link k && forallb (isv s) side) then (s, Raised IllTyped)
  else if negb (Nat.eqb (length side) (length m)) then (s, Raised ValueError)
  else if negb (forallb (fun row => Nat.eqb (length row) (length m)) m) then (s, Raised ValueError)
  else let u := next s in
       (run (NewUniverse [] None :: matrix_ops u k m side) s, Ret (VId u)).

(* randgraph(count, edge, connectivity, ensurelink):
     verts = [Vertex(attributes={"i": i}) for i in range(count)]
     for i in range(count):
         k = int(random.randint(1, max(1, i)) * connectivity); if ensurelink: k = max(k, 1); k = min(k, count)
         adj[verts[i]] = random.sample(verts, k)
     return load_adj_dict(adj, edge)
   `scale r` = int(r * connectivity) (the only float operation of the repository: a parameter);
   the oracle stream gives, per vertex, the value of randint and the list sample() returned
   (as indices into verts).  sample() raises ValueError when k exceeds the population.        *)
Definition rg_k (scale : nat -> nat) (ens : bool) (count r : nat) : nat :=
  let k := scale r in let k := if ens then Nat.max k 1 else k in Nat.min k count.
Fixpoint rg_adj (scale : nat -> nat) (ens : bool) (count base i : nat) (draws : list (nat * list nat))
  : option (list (nat * list nat)) :=        (* None = the recorded draws do not fit the calls made *)
  match draws with
  | [] => Some []
  | (r, smp) :: rest =>
      if Nat.eqb (length smp) (rg_k scale ens count r) && forallb (fun j => Nat.ltb j count) smp
      then match rg_adj scale ens count base (S i) rest with
           | Some a => Some ((base + i, map (fun j => base + j) smp) :: a)
           | None => None
           end
      else None
  end.
Definition randgraph (s : state) (count : nat) (k : cls) (scale : nat -> nat) (ens : bool)
           (draws : list (nat * list nat)) : state * outcome :=
  if negb (is_link k && Nat.eqb (length draws) count) then (s, Raised IllTyped)
  else
    let base := next s in
    let s1 := run (repeat (NewVertex false [] []) count) s in
    match rg_adj scale ens count base 0 draws with
    | None => (s1, Raised IllTyped)
    | Some adj => load_adj_dict s1 adj k
    end.

(* ---- lock-step interface: histories mixing structure calls and builder calls ---- *)
Inductive bop :=
  | BStep (o : op)
  | BDict (adj : list (nat * list nat)) (k : cls)
  | BMatrix (m : list (list bool)) (side : list nat) (k : cls)
  | BRand (count : nat) (k : cls) (scale : list nat) (ens : bool) (draws : list (nat * list nat)).
Definition bstep (s : state) (b : bop) : state * outcome :=
  match b with
  | BStep o => step s o
  | BDict adj k => load_adj_dict s adj k
  | BMatrix m side k => load_adj_matrix s m side k
  | BRand count k scale ens draws => randgraph s count k (fun r => nth r scale 0) ens draws
  end.
