(* RefProofs.v — property C03 (refinement) and the documented effects of the link operations.

   PART 1 (refinement).  Inv s := wf s /\ link_inv s /\ uni_inv s /\ laws_inv s.
     step_refines       Inv s -> o is not NewLaws (Some _) -> step s o = r_step s o
                        (the fuelled transliteration Struct.step and the plain reference model
                        RefStep.r_step return the same outcome and the same whole state, memo included)
     Inv_step, Inv_empty, Inv_reachable     the invariant is inductive / holds in every reachable state
     transcripts_equal  transcript_of step empty ops = transcript_of r_step empty ops
     runs_equal         run ops empty = r_run ops empty
     (histories must not contain NewLaws (Some u): UniverseLaws(applies_to=u) leaves u unaware of
      the law set, which breaks laws_inv — see LawsProofs.new_laws_some_breaks.)
     Helper closed forms: vadd_eq / ladd_eq / lunl_eq (fuelled link methods at FUEL = reference edits,
     wf and next kept), nv_links_loop, uadd_loop_v / uadd_loop_u, new_edge_ref, unlink_loop.

   PART 2 (documented effects, about `step`, each under Inv s and well_typed s o = true).
     2a new_edge_effect            NewEdge k (Some a) (Some b), a b vertices: returns the fresh id n = next s;
                                   lv n = [Some a; Some b]; vl a and vl b get n appended (once if a = b);
                                   every other vl / lv entry and every kind unchanged; kd n = k
     2b new_edge_type_error        a non-vertex end: (s, Raised TypeError), nothing allocated
     2c set_end_effect             SetV1 / SetV2 (= SetEnd 0 / SetEnd 1) on a link with two ends: returns None;
                                   lv l = set idx new (lv s l); other links untouched; per vertex w the list
                                   vl w loses l iff w was the old end and is no longer listed, gains l (at
                                   the end) iff w is the new end and did not hold l, else is unchanged
        set_end_index_error        fewer than two ends: (s, Raised IndexError)
        set_end_same_vertex_noop   re-assigning the vertex already there leaves vlinks and lverts as they were
     2d unlink_effect              Unlink a b destroy with find_links = FOk links:
                                   links = filter (joins s _ a b) (vl s a) (find_links_joins); outcome;
                                   the links are gone from vl a, vl b and no longer name a or b;
                                   vl a / vl b = the old lists filtered (order kept), other vertices and
                                   links not in `links` untouched; lv l = old list without Some a, Some b
        unlink_error               find_links raises e: (s, Raised e)
        unlink_fold_reads          closed form of the unlink loop for any list of allocated links
     2e dontdup_creates_nothing    first_joining = Some (Some l): (s, Ret (VId l))
        first_joining_spec         that l is the first link of the list joining a to b
        dontdup_none_creates       no joining link: the step is exactly NewEdge k (Some a) (Some b)
     2f unlink_order_independent(_impl)   any permutation of the links yields the same vlinks / lverts

   Proof file: no axioms, stdlib only. *)
From EG Require Import Base Lemmas Lemmas2 State StateLemmas Nbrs Struct Footprint StateRw Ref RefStep.
From EG Require LinkProofs LawsProofs UniProofs LinkStep.
Import LinkProofs.
From Coq Require Import Permutation.

(* ====================================================================================== *)
(* PART 1 — refinement                                                                    *)
(* ====================================================================================== *)

Definition Inv (s : state) : Prop :=
  wf s /\ link_inv s /\ UniProofs.uni_inv s /\ LawsProofs.laws_inv s.

(* ---------- 1.0 the fuelled link methods at FUEL are the reference edits ---------- *)
Lemma vadd_eq s v l : wf s -> v < next s -> l < next s ->
  v_add_to_link FUEL s v l = Ok (r_v_add_to_link s v l) /\
  wf (r_v_add_to_link s v l) /\ next (r_v_add_to_link s v l) = next s.
Proof.
  intros W Hv Hl.
  assert (E : v_add_to_link FUEL s v l = Ok (r_v_add_to_link s v l)).
  { change FUEL with (S (S 6)). now apply v_add_to_link_ref. }
  pose proof (P_v_add_to_link wf wf_set_vl wf_set_lv wf_set_ca FUEL s v l W) as W'.
  pose proof (P_v_add_to_link (fun s' => next s' = next s) (LinkStep.next_keep_vl _) (LinkStep.next_keep_lv _)
                (LinkStep.next_keep_ca _) FUEL s v l eq_refl) as N'.
  rewrite E in W', N'. cbn [res_state] in W', N'. auto.
Qed.

Lemma ladd_eq s l ov : wf s -> l < next s -> (forall v, ov = Some v -> v < next s) ->
  l_add_vertex FUEL s l ov = Ok (r_l_add_vertex s l ov) /\
  wf (r_l_add_vertex s l ov) /\ next (r_l_add_vertex s l ov) = next s.
Proof.
  intros W Hl Hv.
  assert (E : l_add_vertex FUEL s l ov = Ok (r_l_add_vertex s l ov)).
  { change FUEL with (S (S 6)). now apply l_add_vertex_ref. }
  pose proof (P_l_add_vertex wf wf_set_vl wf_set_lv wf_set_ca FUEL s l ov W) as W'.
  pose proof (P_l_add_vertex (fun s' => next s' = next s) (LinkStep.next_keep_vl _) (LinkStep.next_keep_lv _)
                (LinkStep.next_keep_ca _) FUEL s l ov eq_refl) as N'.
  rewrite E in W', N'. cbn [res_state] in W', N'. auto.
Qed.

Lemma lunl_eq s l ov : wf s -> l < next s -> (forall v, ov = Some v -> v < next s) ->
  l_unlink_from FUEL s l ov = Ok (r_l_unlink_from s l ov) /\
  wf (r_l_unlink_from s l ov) /\ next (r_l_unlink_from s l ov) = next s.
Proof.
  intros W Hl Hv.
  assert (E : l_unlink_from FUEL s l ov = Ok (r_l_unlink_from s l ov)).
  { change FUEL with (S (S (S 5))). now apply l_unlink_from_ref. }
  pose proof (P_l_unlink_from wf wf_set_vl wf_set_lv wf_set_ca FUEL s l ov W) as W'.
  pose proof (P_l_unlink_from (fun s' => next s' = next s) (LinkStep.next_keep_vl _) (LinkStep.next_keep_lv _)
                (LinkStep.next_keep_ca _) FUEL s l ov eq_refl) as N'.
  rewrite E in W', N'. cbn [res_state] in W', N'. auto.
Qed.

(* the link edits never touch the universe tables *)
Lemma vu_r_v_add_to_link s v l w : vu (r_v_add_to_link s v l) w = vu s w.
Proof. unfold r_v_add_to_link. repeat match goal with |- context [if ?b then _ else _] => destruct b end; srw; reflexivity. Qed.

(* ---------- 1.1 the loops of the constructors ---------- *)
Lemma nv_links_loop v : forall ls s, wf s -> v < next s -> (forall l, In l ls -> l < next s) ->
  let s' := fold_left (fun s l => r_v_add_to_link s v l) ls s in
  seq_res (fun s l => v_add_to_link FUEL s v l) ls s = Ok s' /\ wf s' /\ next s' = next s /\
  (forall w, vu s' w = vu s w).
Proof.
  induction ls as [|l ls IH]; intros s W Hv Hls; cbn [seq_res fold_left].
  - auto.
  - destruct (vadd_eq s v l W Hv) as (E & W1 & N1); [apply Hls; now left|].
    rewrite E. cbn [bind].
    destruct (IH (r_v_add_to_link s v l) W1) as (E2 & W2 & N2 & U2).
    + now rewrite N1.
    + intros k Hk. rewrite N1. apply Hls. now right.
    + split; [exact E2|]. split; [exact W2|]. split; [congruence|].
      intro w. rewrite U2. apply vu_r_v_add_to_link.
Qed.

Lemma r_u_add_vertex_eq s u v : wf s -> u < next s -> v < next s ->
  u_add_vertex FUEL s u v = r_u_add_vertex s u v.
Proof. intros. rewrite UniProofs.FUEL_eq. now apply UniProofs.u_add_vertex_spec. Qed.

Lemma r_u_add_vertex_shape s u v : wf s ->
  exists s', r_u_add_vertex s u v = Ok s' /\ wf s' /\ next s' = next s.
Proof.
  intro W. unfold r_u_add_vertex. destruct (memn v (uv s u)); [eauto|].
  destruct (memn u (vu s v)); eexists; (split; [reflexivity|]); split; auto with st.
Qed.

(* loop over universes, vertex fixed (Vertex.__init__) *)
Lemma uadd_loop_v v : forall us s, wf s -> v < next s -> (forall u, In u us -> u < next s) ->
  seq_res (fun s u => u_add_vertex FUEL s u v) us s = seq_res (fun s u => r_u_add_vertex s u v) us s.
Proof.
  induction us as [|u us IH]; intros s W Hv Hus; cbn [seq_res]; [reflexivity|].
  rewrite r_u_add_vertex_eq by (auto; apply Hus; now left).
  destruct (r_u_add_vertex_shape s u v W) as (s1 & E & W1 & N1). rewrite E. cbn [bind].
  apply IH; auto; [now rewrite N1|]. intros k Hk. rewrite N1. apply Hus. now right.
Qed.
(* loop over vertices, universe fixed (Universe.__init__) *)
Lemma uadd_loop_u u : forall vs s, wf s -> u < next s -> (forall v, In v vs -> v < next s) ->
  seq_res (fun s v => u_add_vertex FUEL s u v) vs s = seq_res (fun s v => r_u_add_vertex s u v) vs s.
Proof.
  induction vs as [|v vs IH]; intros s W Hu Hvs; cbn [seq_res]; [reflexivity|].
  rewrite r_u_add_vertex_eq by (auto; apply Hvs; now left).
  destruct (r_u_add_vertex_shape s u v W) as (s1 & E & W1 & N1). rewrite E. cbn [bind].
  apply IH; auto; [now rewrite N1|]. intros k Hk. rewrite N1. apply Hvs. now right.
Qed.

(* ---------- 1.2 new_edge ---------- *)
Lemma new_edge_ref s k a b : wf s ->
  (forall i, a = Some i -> i < next s) -> (forall i, b = Some i -> i < next s) ->
  new_edge s k a b = r_new_edge s k a b.
Proof.
  intros W Ha Hb. unfold new_edge, r_new_edge. destruct (_ || _); [reflexivity|].
  cbn [seq_ores].
  assert (W0 : wf (alloc k s)) by auto with st.
  assert (N0 : next (alloc k s) = S (next s)) by apply next_alloc.
  destruct (ladd_eq (alloc k s) (next s) a W0) as (E1 & W1 & N1).
  { lia. } { intros v Hv. specialize (Ha v Hv). lia. }
  rewrite E1. cbn [bind].
  destruct (ladd_eq (r_l_add_vertex (alloc k s) (next s) a) (next s) b W1) as (E2 & W2 & N2).
  { lia. } { intros v Hv. specialize (Hb v Hv). lia. }
  rewrite E2. cbn [bind]. reflexivity.
Qed.

(* ---------- 1.3 unlink ---------- *)
Lemma unlink_loop a b : forall links s, wf s -> a < next s -> b < next s ->
  (forall l, In l links -> l < next s) ->
  seq_res (fun s l => bind (l_unlink_from FUEL s l (Some a)) (fun s' => l_unlink_from FUEL s' l (Some b))) links s =
  Ok (fold_left (fun s l => r_l_unlink_from (r_l_unlink_from s l (Some a)) l (Some b)) links s).
Proof.
  induction links as [|l links IH]; intros s W Ha Hb Hls; cbn [seq_res fold_left]; [reflexivity|].
  assert (Hl : l < next s) by (apply Hls; now left).
  destruct (lunl_eq s l (Some a) W Hl) as (E1 & W1 & N1). { intros v [= <-]. exact Ha. }
  rewrite E1. cbn [bind].
  destruct (lunl_eq (r_l_unlink_from s l (Some a)) l (Some b) W1) as (E2 & W2 & N2).
  { now rewrite N1. } { intros v [= <-]. now rewrite N1. }
  rewrite E2. cbn [bind].
  apply IH; auto; rewrite ?N2, ?N1; auto. intros k Hk. apply Hls. now right.
Qed.

Lemma next_r_set_laws s u oL : next (r_set_laws s u oL) = next s.
Proof.
  unfold r_set_laws. destruct (oeqb oL (ul s u)); [reflexivity|].
  destruct oL as [L|]; cbv zeta.
  - destruct (la s L); destruct (ul s u); reflexivity.
  - destruct (ul s u); reflexivity.
Qed.
Lemma next_r_set_applies s L ou : next (r_set_applies s L ou) = next s.
Proof.
  unfold r_set_applies. destruct (oeqb ou (la s L)); [reflexivity|].
  destruct ou as [u|]; cbv zeta.
  - destruct (la s L); destruct (ul s u); reflexivity.
  - destruct (la s L); reflexivity.
Qed.

(* ---------- 1a. one step ---------- *)
Theorem step_refines : forall s o, Inv s -> (forall u, o <> NewLaws (Some u)) -> step s o = r_step s o.
Proof.
  intros s o (W & I & U & LI) NL. unfold step, r_step.
  destruct (well_typed s o) eqn:WT; cbn [negb]; [|reflexivity].
  destruct o; cbn [well_typed] in WT.
  - (* NewVertex *)
    apply andb_true_iff in WT as [WT1 WT2].
    cbv zeta.
    set (v := next s). set (s0 := set_vu _ v _).
    assert (W0 : wf s0) by (unfold s0; auto with st).
    assert (N0 : next s0 = S (next s)) by (unfold s0; rewrite next_set_vu; apply next_alloc).
    destruct (nv_links_loop v ls s0 W0) as (E & W1 & N1 & U1).
    { unfold v; lia. }
    { intros l Hl. pose proof (LinkStep.forallb_isl_lt _ _ WT2 l Hl). lia. }
    rewrite E. cbn [bind].
    set (s1 := fold_left _ ls s0) in *.
    rewrite uadd_loop_v; [reflexivity|exact W1|unfold v; lia|].
    intros u Hu. rewrite U1 in Hu. unfold s0 in Hu.
    rewrite vu_set_vu_same in Hu; [|auto with st|rewrite next_alloc; unfold v; lia].
    apply (proj1 (dedup_In _ _)) in Hu. pose proof (UniProofs.forallb_isu_lt _ _ WT1 u Hu). lia.
  - (* NewUniverse *)
    apply andb_true_iff in WT as [WT1 WT2].
    pose proof (UniProofs.forallb_isv_lt _ _ WT1) as Hvs.
    cbv zeta.
    assert (W0 : wf (alloc KUniverse s)) by auto with st.
    assert (N0 : next (alloc KUniverse s) = S (next s)) by apply next_alloc.
    destruct oL as [L|].
    + cbn [oisL] in WT2. apply LawsProofs.isL_lt in WT2.
      assert (E : l_set_applies FUEL (set_ul (alloc KUniverse s) (next s) (Some L)) L (Some (next s))
                  = Ok (r_set_laws (alloc KUniverse s) (next s) (Some L))).
      { assert (E0 : ul (alloc KUniverse s) (next s) = None) by now apply ul_alloc_new.
        rewrite <- (LawsProofs.u_set_laws_fresh FUEL _ (next s) L E0).
        destruct LawsProofs.FUEL_3 as [f ->].
        apply (LawsProofs.set_laws_exec (S (S f))); auto.
        - now apply LawsProofs.laws_inv_alloc.
        - lia.
        - intros ? [= <-]; lia. }
      rewrite E. cbn [bind].
      rewrite uadd_loop_u; [reflexivity| | |].
      * apply (LawsProofs.wf_set_laws_result (alloc KUniverse s) (next s) (Some L)). exact W0.
      * rewrite next_r_set_laws. lia.
      * intros v Hv. rewrite next_r_set_laws. specialize (Hvs v Hv). lia.
    + destruct (LawsProofs.new_universe_none s W LI) as (E & (W1 & _)). cbv zeta in E, W1.
      rewrite E. cbn [bind].
      rewrite uadd_loop_u; [reflexivity|exact W1| |].
      * rewrite next_set_ul, next_set_la, !next_alloc. lia.
      * intros v Hv. rewrite next_set_ul, next_set_la, !next_alloc. specialize (Hvs v Hv). lia.
  - (* NewLaws *) reflexivity.
  - (* NewEdge *)
    apply andb_true_iff in WT as [WT WTb]. apply andb_true_iff in WT as [WTk WTa].
    rewrite new_edge_ref; auto.
    + intros i ->. now apply valid_lt.
    + intros i ->. now apply valid_lt.
  - (* SetV1 *)
    LinkStep.wt_facts.
    assert (E : l_set_end FUEL s l 0 ov = r_l_set_end s l 0 ov).
    { change FUEL with (S (S (S 5))). apply l_set_end_ref; auto.
      - intros v Hv. now apply (LinkStep.link_inv_valid s v l).
      - apply (proj2 I). }
    rewrite E. reflexivity.
  - (* SetV2 *)
    LinkStep.wt_facts.
    assert (E : l_set_end FUEL s l 1 ov = r_l_set_end s l 1 ov).
    { change FUEL with (S (S (S 5))). apply l_set_end_ref; auto.
      - intros v Hv. now apply (LinkStep.link_inv_valid s v l).
      - apply (proj2 I). }
    rewrite E. reflexivity.
  - (* VAddToLink *)
    LinkStep.wt_facts. destruct (vadd_eq s v l W) as (E & _); auto. rewrite E. reflexivity.
  - (* VRemoveFromLink *)
    LinkStep.wt_facts.
    assert (E : v_remove_from_link FUEL s v l = Ok (r_v_remove_from_link s v l)).
    { change FUEL with (S (S (S 5))). apply v_remove_from_link_ref; auto. apply (proj2 I). }
    rewrite E. reflexivity.
  - (* LAddVertex *)
    LinkStep.wt_facts. destruct (ladd_eq s l ov W) as (E & _); auto. rewrite E. reflexivity.
  - (* LUnlinkFrom *)
    LinkStep.wt_facts. destruct (lunl_eq s l ov W) as (E & _); auto. rewrite E. reflexivity.
  - (* LinkFromTo *)
    LinkStep.wt_facts.
    destruct (if dontdup then _ else _) as [[l|]|]; [reflexivity| |reflexivity].
    rewrite new_edge_ref; auto; intros i [= <-]; auto.
  - (* Unlink *)
    LinkStep.wt_facts.
    destruct (find_links _ s a b false UErr None) as [links|e] eqn:EF; [|reflexivity].
    rewrite unlink_loop; auto.
    intros l Hl. eapply LinkStep.find_links_sub in Hl; [|exact EF]. now apply (LinkStep.link_inv_valid' s a l).
  - (* UAddVertex *)
    apply UniProofs.wt_uv in WT as [Hu Hv]. rewrite r_u_add_vertex_eq by auto. reflexivity.
  - (* URemoveVertex *)
    apply UniProofs.wt_uv in WT as [Hu Hv].
    rewrite UniProofs.FUEL_eq, UniProofs.u_remove_vertex_spec by (auto; apply (proj2 U)). reflexivity.
  - (* VAddToUniverse *)
    apply UniProofs.wt_vu in WT as [Hu Hv].
    rewrite UniProofs.FUEL_eq, UniProofs.v_add_to_universe_spec by auto. reflexivity.
  - (* VRemoveFromUniverse *)
    apply UniProofs.wt_vu in WT as [Hu Hv].
    rewrite UniProofs.FUEL_eq, UniProofs.v_remove_from_universe_spec by (auto; apply (proj2 U)). reflexivity.
  - (* SetLaws *)
    apply andb_true_iff in WT as [WT1 WT2].
    destruct LawsProofs.FUEL_3 as [f ->].
    rewrite (LawsProofs.set_laws_exec (S f)); [reflexivity|exact W|exact LI|now apply LawsProofs.isu_lt|now apply LawsProofs.oisL_lt].
  - (* SetAppliesTo *)
    apply andb_true_iff in WT as [WT1 WT2].
    destruct LawsProofs.FUEL_3 as [f ->].
    rewrite (LawsProofs.set_applies_exec (S f)); [reflexivity|exact W|exact LI|now apply LawsProofs.isL_lt|now apply LawsProofs.oisu_lt].
  - (* SetCaching *) reflexivity.
Qed.

(* ---------- 1b. the invariant is inductive ---------- *)
Theorem Inv_step : forall s o, Inv s -> (forall u, o <> NewLaws (Some u)) -> Inv (fst (step s o)).
Proof.
  intros s o (W & I & U & LI) NL. split; [|split; [|split]].
  - now apply wf_step.
  - now apply LinkStep.link_inv_step.
  - now apply UniProofs.uni_inv_step.
  - now apply LawsProofs.laws_inv_step.
Qed.
Theorem Inv_empty : Inv empty.
Proof.
  split; [apply wf_empty|split; [apply LinkStep.link_inv_empty|split; [apply UniProofs.uni_inv_empty|apply LawsProofs.laws_inv_empty]]].
Qed.

(* ---------- 1c. whole histories ---------- *)
Lemma transcripts_equal_from : forall ops s, Inv s -> (forall o u, In o ops -> o <> NewLaws (Some u)) ->
  transcript_of step s ops = transcript_of r_step s ops.
Proof.
  induction ops as [|o ops IH]; intros s HI NL; cbn [transcript_of]; [reflexivity|].
  assert (NLo : forall u, o <> NewLaws (Some u)) by (intro u; apply NL; now left).
  pose proof (Inv_step s o HI NLo) as HI'.
  rewrite <- (step_refines s o HI NLo).
  destruct (step s o) as [s' out]. cbn [fst] in HI'.
  f_equal. apply IH; auto. intros o' u Ho'. apply NL. now right.
Qed.
Theorem transcripts_equal : forall ops, (forall o u, In o ops -> o <> NewLaws (Some u)) ->
  transcript_of step empty ops = transcript_of r_step empty ops.
Proof. intros ops NL. apply transcripts_equal_from; [apply Inv_empty|exact NL]. Qed.

Lemma runs_equal_from : forall ops s, Inv s -> (forall o u, In o ops -> o <> NewLaws (Some u)) ->
  run ops s = r_run ops s /\ Inv (run ops s).
Proof.
  induction ops as [|o ops IH]; intros s HI NL; cbn [run r_run fold_left]; [auto|].
  assert (NLo : forall u, o <> NewLaws (Some u)) by (intro u; apply NL; now left).
  rewrite <- (step_refines s o HI NLo).
  apply IH; [now apply Inv_step|]. intros o' u Ho'. apply NL. now right.
Qed.
Theorem runs_equal : forall ops, (forall o u, In o ops -> o <> NewLaws (Some u)) ->
  run ops empty = r_run ops empty.
Proof. intros ops NL. apply runs_equal_from; [apply Inv_empty|exact NL]. Qed.
Theorem Inv_reachable : forall ops, (forall o u, In o ops -> o <> NewLaws (Some u)) -> Inv (run ops empty).
Proof. intros ops NL. apply runs_equal_from; [apply Inv_empty|exact NL]. Qed.

(* ====================================================================================== *)
(* PART 2 — documented effects                                                            *)
(* ====================================================================================== *)

(* ---------- 2b. TwoEndedLink(a, b) with a non-vertex end: TypeError, nothing allocated ---------- *)
Theorem new_edge_type_error s k a b i : Inv s -> well_typed s (NewEdge k a b) = true ->
  a = Some i \/ b = Some i -> is_vertex (kd s i) = false ->
  step s (NewEdge k a b) = (s, Raised TypeError).
Proof.
  intros _ WT Hi Hk. unfold step. rewrite WT. cbn [negb]. unfold new_edge.
  assert (E : (match a with Some i => negb (is_vertex (kd s i)) | None => false end
            || match b with Some i => negb (is_vertex (kd s i)) | None => false end) = true).
  { apply orb_true_iff. destruct Hi as [->| ->]; [left|right]; now rewrite Hk. }
  rewrite E. reflexivity.
Qed.

(* ---------- 2e. link_from_to(..., dontdup=True) ---------- *)
Definition joins (s : state) (l a b : nat) : bool :=
  match other s l (Some a) with OVal o => oeqb o (Some b) | OErr => false end.

Theorem dontdup_creates_nothing s a k b l : Inv s -> well_typed s (LinkFromTo a k b true) = true ->
  first_joining s a b (vl s a) = Some (Some l) ->
  step s (LinkFromTo a k b true) = (s, Ret (VId l)).
Proof. intros _ WT E. unfold step. rewrite WT. cbn [negb]. rewrite E. reflexivity. Qed.

Theorem first_joining_spec s a b : forall ls l, first_joining s a b ls = Some (Some l) ->
  exists pre post, ls = pre ++ l :: post /\ joins s l a b = true /\
                   forall x, In x pre -> joins s x a b = false.
Proof.
  induction ls as [|x ls IH]; intros l H; cbn [first_joining] in H; [discriminate|].
  destruct (other s x (Some a)) as [|o] eqn:EO; [discriminate|].
  destruct (oeqb o (Some b)) eqn:EB.
  - inversion H; subst. exists [], ls. split; [reflexivity|]. split.
    + unfold joins. now rewrite EO.
    + intros ? [].
  - destruct (IH l H) as (pre & post & -> & J & Hpre).
    exists (x :: pre), post. split; [reflexivity|]. split; [exact J|].
    intros y [<-|Hy]; [unfold joins; now rewrite EO|auto].
Qed.
(* no joining link: a fresh edge is created exactly as by NewEdge *)
Theorem dontdup_none_creates s a k b : Inv s -> well_typed s (LinkFromTo a k b true) = true ->
  first_joining s a b (vl s a) = Some None ->
  (forall x, In x (vl s a) -> joins s x a b = false) /\
  step s (LinkFromTo a k b true) = step s (NewEdge k (Some a) (Some b)).
Proof.
  intros _ WT E. split.
  - revert E. induction (vl s a) as [|x ls IH]; intros E y Hy; [destruct Hy|].
    cbn [first_joining] in E. destruct (other s x (Some a)) as [|o] eqn:EO; [discriminate|].
    destruct (oeqb o (Some b)) eqn:EB; [discriminate|].
    destruct Hy as [<-|Hy]; [unfold joins; now rewrite EO, EB|auto].
  - unfold step. rewrite WT. cbn [negb]. rewrite E.
    assert (WT' : well_typed s (NewEdge k (Some a) (Some b)) = true).
    { cbn [well_typed] in *. apply andb_true_iff in WT as [WT Hk]. apply andb_true_iff in WT as [Ha Hb].
      unfold isv in Ha, Hb. apply andb_true_iff in Ha as [Ha _]. apply andb_true_iff in Hb as [Hb _].
      now rewrite Hk, Ha, Hb. }
    rewrite WT'. reflexivity.
Qed.

(* ---------- 2a. a new two-ended link between two vertices ---------- *)
Lemma r_l_add_vertex_reads s l ov : wf s -> l < next s -> (forall v, ov = Some v -> v < next s) ->
  (forall k, lv (r_l_add_vertex s l ov) k = if Nat.eqb k l then lv s l ++ [ov] else lv s k) /\
  (forall w, vl (r_l_add_vertex s l ov) w =
     if oeqb (Some w) ov && negb (memn l (vl s w)) then vl s w ++ [l] else vl s w) /\
  (forall i, kd (r_l_add_vertex s l ov) i = kd s i).
Proof.
  intros W Hl Hv. unfold r_l_add_vertex.
  destruct ov as [v|].
  - specialize (Hv v eq_refl). rewrite vl_set_lv.
    destruct (memn l (vl s v)) eqn:E1.
    + split; [|split].
      * intro k. srw. now apply lv_set_lv_if.
      * intro w. srw. cbn [oeqb]. destruct (Nat.eqb_spec w v) as [->|N]; [rewrite E1|]; reflexivity.
      * intro i. srw. reflexivity.
    + split; [|split].
      * intro k. srw. now apply lv_set_lv_if.
      * intro w. srw. rewrite vl_set_vl_if by (auto with st). srw. cbn [oeqb].
        destruct (Nat.eqb_spec w v) as [->|N]; [rewrite E1|]; reflexivity.
      * intro i. srw. reflexivity.
  - split; [|split].
    + intro k. srw. now apply lv_set_lv_if.
    + intro w. srw. reflexivity.
    + intro i. srw. reflexivity.
Qed.

Lemma not_in_vl_next s w : wf s -> link_inv s -> memn (next s) (vl s w) = false.
Proof. intros W I. apply memn_nIn. intro H. apply (LinkStep.link_inv_valid' s w (next s) W I) in H. lia. Qed.

Theorem new_edge_effect s k a b : Inv s -> well_typed s (NewEdge k (Some a) (Some b)) = true ->
  isv s a = true -> isv s b = true ->
  let s' := fst (step s (NewEdge k (Some a) (Some b))) in
  snd (step s (NewEdge k (Some a) (Some b))) = Ret (VId (next s)) /\
  next s' = S (next s) /\ kd s' (next s) = k /\ (forall i, i < next s -> kd s' i = kd s i) /\
  lv s' (next s) = [Some a; Some b] /\
  vl s' a = vl s a ++ [next s] /\ vl s' b = vl s b ++ [next s] /\
  (forall w, w <> a -> w <> b -> vl s' w = vl s w) /\
  (forall l, l <> next s -> lv s' l = lv s l).
Proof.
  intros HI WT Ha Hb. pose proof HI as (W & I & _ & _).
  rewrite step_refines by (auto; discriminate).
  unfold r_step. rewrite WT. cbn [negb]. unfold r_new_edge.
  pose proof Ha as Ha'. pose proof Hb as Hb'. unfold isv in Ha', Hb'.
  apply andb_true_iff in Ha' as [_ Ka]. apply andb_true_iff in Hb' as [_ Kb].
  rewrite Ka, Kb. cbn [negb orb fst snd res_state].
  apply LinkStep.isv_lt in Ha, Hb.
  set (n := next s). set (s0 := alloc k s).
  assert (W0 : wf s0) by (unfold s0; auto with st).
  assert (N0 : next s0 = S n) by apply next_alloc.
  destruct (r_l_add_vertex_reads s0 n (Some a) W0) as (L1 & V1 & K1); [lia|intros v [= <-]; lia|].
  destruct (ladd_eq s0 n (Some a) W0) as (_ & Wt & Nt); [lia|intros v [= <-]; lia|].
  set (t := r_l_add_vertex s0 n (Some a)) in *.
  destruct (r_l_add_vertex_reads t n (Some b) Wt) as (L2 & V2 & K2); [lia|intros v [= <-]; lia|].
  set (s' := r_l_add_vertex t n (Some b)) in *.
  assert (Z : forall w, memn n (vl s w) = false) by (intro; now apply not_in_vl_next).
  assert (V0 : forall w, vl s0 w = vl s w) by (intro; unfold s0; now apply LinkStep.vl_alloc_all).
  assert (L0 : forall w, lv s0 w = lv s w) by (intro; unfold s0; now apply LinkStep.lv_alloc_all).
  assert (Vt : forall w, vl t w = if Nat.eqb w a then vl s w ++ [n] else vl s w).
  { intro w. rewrite V1, V0, Z. cbn [oeqb negb]. now rewrite andb_true_r. }
  split; [reflexivity|]. split.
  { destruct (ladd_eq t n (Some b) Wt) as (_ & _ & N'); [lia|intros v [= <-]; lia|]. fold s' in N'. lia. }
  split. { rewrite K2, K1. unfold s0, n. apply kd_alloc_new. }
  split. { intros i Hi. rewrite K2, K1. unfold s0. now apply kd_alloc_old. }
  split. { rewrite L2, Nat.eqb_refl, L1, Nat.eqb_refl, L0. unfold n. rewrite lv_outside by auto. reflexivity. }
  split. { rewrite V2, Vt, Nat.eqb_refl. cbn [oeqb]. destruct (Nat.eqb_spec a b) as [->|N]; [|reflexivity].
           rewrite memn_snoc. reflexivity. }
  split. { rewrite V2, Vt. cbn [oeqb]. rewrite Nat.eqb_refl. destruct (Nat.eqb_spec b a) as [->|N].
           - rewrite memn_snoc. reflexivity.
           - rewrite Z. reflexivity. }
  split. { intros w Na Nb. rewrite V2, Vt. cbn [oeqb].
           destruct (Nat.eqb_spec w b); [contradiction|]. destruct (Nat.eqb_spec w a); [contradiction|]. reflexivity. }
  intros l Hl. rewrite L2. destruct (Nat.eqb_spec l n); [contradiction|]. rewrite L1. destruct (Nat.eqb_spec l n); [contradiction|]. apply L0.
Qed.

(* ---------- 2c. TwoEndedLink end assignment (v1 / v2 setters) ---------- *)

Lemma r_l_set_end_reads s l idx new e1 e2 : wf s -> link_inv s -> l < next s -> idx <= 1 ->
  (forall v, new = Some v -> v < next s) ->
  lv1 s l = Some e1 -> lv2 s l = Some e2 ->
  let X := lv s l in
  let old := if Nat.eqb idx 0 then e1 else e2 in
  exists s', r_l_set_end s l idx new = Ok s' /\
    nth_error X idx = Some old /\
    (forall k, lv s' k = if Nat.eqb k l then set idx new X else lv s k) /\
    (forall w, vl s' w =
       if oeqb (Some w) old && negb (memo old (set idx new X)) then remove1 l (vl s w)
       else if oeqb (Some w) new && negb (memn l (vl s w)) then vl s w ++ [l]
       else vl s w) /\
    next s' = next s /\ (forall i, kd s' i = kd s i).
Proof.
  intros W [Ha Hn] Hl Hidx Hnew E1 E2 X old.
  assert (Hends : forall v, In (Some v) (lv s l) -> v < next s).
  { intros v H. now apply (LinkStep.link_inv_valid s v l W (conj Ha Hn)). }
  unfold r_l_set_end. rewrite E1, E2. fold old. fold X.
  assert (Hold : nth_error X idx = Some old).
  { unfold lv1, lv2 in *. subst old. destruct idx as [|[|?]]; cbn; auto; lia. }
  assert (Hlen : idx < length X) by (apply nth_error_Some; congruence).
  set (s1 := set_lv s l (set idx new X)).
  assert (W1 : wf s1) by (subst s1; auto with st).
  assert (L1 : forall k, lv s1 k = if Nat.eqb k l then set idx new X else lv s k).
  { intro k. subst s1. now apply lv_set_lv_if. }
  assert (V1 : forall w, vl s1 w = vl s w) by (intro; subst s1; srw; reflexivity).
  set (s2 := match old with
             | Some ov => if memo (Some ov) (lv s1 l) then s1 else r_v_remove_from_link s1 ov l
             | None => s1 end).
  assert (S2 : wf s2 /\ next s2 = next s /\ (forall k, lv s2 k = lv s1 k) /\ (forall i, kd s2 i = kd s i) /\
               forall w, vl s2 w = if oeqb (Some w) old && negb (memo old (set idx new X))
                                   then remove1 l (vl s w) else vl s w).
  { subst s2. destruct old as [ov|] eqn:Eo.
    2:{ split; [auto|split; [auto|split; [auto|split; [auto|]]]]. intro w. cbn. apply V1. }
    rewrite L1, Nat.eqb_refl.
    destruct (memo (Some ov) (set idx new X)) eqn:Em.
    { split; [auto|split; [auto|split; [auto|split; [auto|]]]]. intro w. cbn [negb]. rewrite andb_false_r. apply V1. }
    assert (Hov : ov < next s) by (apply Hends; eapply nth_error_In; eauto).
    assert (Hin : In l (vl s ov)) by (apply Ha; eapply nth_error_In; eauto).
    unfold r_v_remove_from_link. rewrite V1.
    assert (memn l (vl s ov) = true) as -> by now apply memn_In.
    rewrite lv_set_vl, L1, Nat.eqb_refl, Em.
    split; [srw; auto with st|split; [srw; auto|split; [intro; srw; reflexivity|split; [intro; srw; reflexivity|]]]].
    intro w. srw. rewrite vl_set_vl_if by (auto; subst s1; srw; auto). rewrite V1. cbn [negb oeqb].
    rewrite andb_true_r. destruct (Nat.eqb_spec w ov) as [->|N]; auto. }
  destruct S2 as (W2 & N2 & L2 & K2 & V2).
  set (s3 := match new with
             | Some nv => if memn l (vl s2 nv) then s2 else r_v_add_to_link s2 nv l
             | None => s2 end).
  assert (S3 : next s3 = next s /\ (forall k, lv s3 k = lv s1 k) /\ (forall i, kd s3 i = kd s i) /\
               forall w, vl s3 w = if oeqb (Some w) new && negb (memn l (vl s2 w)) then vl s2 w ++ [l] else vl s2 w).
  { subst s3. destruct new as [nv|] eqn:En.
    2:{ split; [auto|split; [auto|split; [auto|]]]. reflexivity. }
    destruct (memn l (vl s2 nv)) eqn:Em.
    { split; [auto|split; [auto|split; [auto|]]]. intro w. cbn [oeqb].
      destruct (Nat.eqb_spec w nv) as [->|N]; [rewrite Em|]; reflexivity. }
    assert (Hnv : nv < next s) by now apply Hnew.
    unfold r_v_add_to_link. rewrite Em.
    rewrite lv_set_vl, L2, L1, Nat.eqb_refl.
    assert (memo (Some nv) (set idx (Some nv) X) = true) as -> by (apply memo_In; now apply in_set_new).
    split; [srw; auto|split; [intro; srw; apply L2|split; [intro; srw; apply K2|]]].
    intro w. srw. rewrite vl_set_vl_if by (auto; rewrite N2; auto). cbn [oeqb].
    destruct (Nat.eqb_spec w nv) as [->|N]; [rewrite Em|]; reflexivity. }
  destruct S3 as (N3 & L3 & K3 & V3).
  exists (inval_all s3 (lv s3 l ++ [e1; e2])). split; [reflexivity|]. split; [exact Hold|].
  split. { intro k. srw. rewrite L3. apply L1. }
  split.
  2:{ split; [srw; exact N3|]. intro i. srw. apply K3. }
  intro w. srw. rewrite V3, V2.
  destruct (oeqb (Some w) old && negb (memo old (set idx new X))) eqn:DD; [|reflexivity].
  apply andb_true_iff in DD as [D1 D2]. apply oeqb_eq in D1. apply negb_true_iff in D2. apply memo_nIn in D2.
  destruct (oeqb (Some w) new) eqn:EN; [|reflexivity].
  apply oeqb_eq in EN. exfalso. apply D2. rewrite <- D1, EN. now apply in_set_new.
Qed.

Lemma vlinks_ext s s' : wf s -> wf s' -> next s' = next s -> (forall w, vl s' w = vl s w) -> vlinks s' = vlinks s.
Proof.
  intros (H1 & _) (H1' & _) N H. apply (nth_ext _ _ [] []); [congruence|].
  intros n _. apply (H n).
Qed.
Lemma lverts_ext s s' : wf s -> wf s' -> next s' = next s -> (forall k, lv s' k = lv s k) -> lverts s' = lverts s.
Proof.
  intros (_ & H1 & _) (_ & H1' & _) N H. apply (nth_ext _ _ [] []); [congruence|].
  intros n _. apply (H n).
Qed.
Lemma set_nth_error_id {A} (i : nat) (a : A) (X : list A) : nth_error X i = Some a -> set i a X = X.
Proof. revert i. induction X as [|y X IH]; intros [|i]; cbn; try discriminate.
  - intros [= ->]. reflexivity. - intro H. unfold set in *. cbn. f_equal. now apply IH. Qed.

Definition SetEnd (idx : nat) : nat -> option nat -> op := if Nat.eqb idx 0 then SetV1 else SetV2.

Lemma step_set_end s l idx new : Inv s -> idx <= 1 -> well_typed s (SetEnd idx l new) = true ->
  step s (SetEnd idx l new) =
  (res_state (r_l_set_end s l idx new), UniProofs.out_of (r_l_set_end s l idx new) VNone).
Proof.
  intros HI Hidx WT.
  assert (NL : forall u, SetEnd idx l new <> NewLaws (Some u)) by (destruct idx as [|[|?]]; discriminate).
  rewrite (step_refines _ _ HI NL). unfold r_step. rewrite WT. cbn [negb].
  destruct idx as [|[|?]]; [| |lia]; cbn [SetEnd Nat.eqb]; apply UniProofs.step_ok_or_eq.
Qed.

Lemma wt_set_end s l idx new : well_typed s (SetEnd idx l new) = true -> isl s l = true /\ oisv s new = true.
Proof. unfold SetEnd. destruct (Nat.eqb idx 0); cbn [well_typed]; intro H; now apply andb_true_iff in H. Qed.

Theorem set_end_effect s l idx new e1 e2 : Inv s -> idx <= 1 -> well_typed s (SetEnd idx l new) = true ->
  lv1 s l = Some e1 -> lv2 s l = Some e2 ->
  let X := lv s l in
  let old := if Nat.eqb idx 0 then e1 else e2 in
  let s' := fst (step s (SetEnd idx l new)) in
  snd (step s (SetEnd idx l new)) = Ret VNone /\
  nth_error X idx = Some old /\
  lv s' l = set idx new X /\
  (forall k, k <> l -> lv s' k = lv s k) /\
  (forall w, vl s' w =
     if oeqb (Some w) old && negb (memo old (set idx new X)) then remove1 l (vl s w)
     else if oeqb (Some w) new && negb (memn l (vl s w)) then vl s w ++ [l]
     else vl s w) /\
  next s' = next s /\ (forall i, kd s' i = kd s i).
Proof.
  intros HI Hidx WT E1 E2 X old. pose proof HI as (W & I & _ & _).
  rewrite (step_set_end s l idx new HI Hidx WT). cbn [fst snd].
  apply wt_set_end in WT as [Hl Hv]. apply LinkStep.isl_lt in Hl. pose proof (LinkStep.oisv_lt _ _ Hv) as Hnew.
  destruct (r_l_set_end_reads s l idx new e1 e2 W I Hl Hidx Hnew E1 E2) as (s' & E & Ho & L & V & N & K).
  rewrite E. cbn [res_state UniProofs.out_of].
  split; [reflexivity|]. split; [exact Ho|]. split; [rewrite L, Nat.eqb_refl; reflexivity|].
  split. { intros k Hk. rewrite L. destruct (Nat.eqb_spec k l); [contradiction|reflexivity]. }
  split; [exact V|]. split; [exact N|exact K].
Qed.

Theorem set_end_index_error s l idx new : Inv s -> idx <= 1 -> well_typed s (SetEnd idx l new) = true ->
  lv1 s l = None \/ lv2 s l = None ->
  step s (SetEnd idx l new) = (s, Raised IndexError).
Proof.
  intros HI Hidx WT H. rewrite (step_set_end s l idx new HI Hidx WT). unfold r_l_set_end.
  destruct H as [-> | H]; [reflexivity|]. rewrite H. destruct (lv1 s l); reflexivity.
Qed.

Theorem set_end_same_vertex_noop s l idx new : Inv s -> idx <= 1 -> well_typed s (SetEnd idx l new) = true ->
  nth_error (lv s l) idx = Some new ->
  let s' := fst (step s (SetEnd idx l new)) in
  vlinks s' = vlinks s /\ lverts s' = lverts s.
Proof.
  intros HI Hidx WT Hn s'. pose proof HI as (W & I & _ & _).
  destruct (lv1 s l) as [e1|] eqn:E1.
  2:{ unfold s'. rewrite set_end_index_error; auto. }
  destruct (lv2 s l) as [e2|] eqn:E2.
  2:{ unfold s'. rewrite set_end_index_error; auto. }
  assert (NL : forall u, SetEnd idx l new <> NewLaws (Some u)) by (destruct idx as [|[|?]]; discriminate).
  assert (W' : wf s') by (apply wf_step; exact W).
  destruct (set_end_effect s l idx new e1 e2 HI Hidx WT E1 E2) as (_ & Ho & L & L' & V & N & _).
  fold s' in L, L', V, N. rewrite (set_nth_error_id _ _ _ Hn) in *.
  assert (Eo : (if Nat.eqb idx 0 then e1 else e2) = new) by congruence. rewrite Eo in V.
  split.
  - apply vlinks_ext; auto. intro w. rewrite V.
    destruct (oeqb (Some w) new) eqn:Ew; [|reflexivity]. apply oeqb_eq in Ew. cbn [andb].
    assert (Hin : In new (lv s l)) by (eapply nth_error_In; eauto).
    assert (memo new (lv s l) = true) as -> by now apply memo_In. cbn [negb].
    rewrite <- Ew in Hin. apply (proj1 I) in Hin.
    assert (memn l (vl s w) = true) as -> by now apply memn_In. reflexivity.
  - apply lverts_ext; auto. intro k. destruct (Nat.eq_dec k l) as [->|Nk]; auto.
Qed.

(* ---------- 2d. explicit.unlink(a, b): auxiliary list facts and closed forms ---------- *)

(* list facts *)
Lemma filter_filter {A} (f g : A -> bool) X : filter g (filter f X) = filter (fun x => f x && g x) X.
Proof. induction X as [|x X IH]; cbn; auto. destruct (f x); cbn; [destruct (g x); cbn; now rewrite IH|exact IH]. Qed.
Lemma filter_id {A} (f : A -> bool) X : (forall x, In x X -> f x = true) -> filter f X = X.
Proof. induction X as [|x X IH]; cbn; auto. intro H. rewrite (H x) by now left. f_equal. apply IH. intros; apply H; now right. Qed.
Lemma remove1_filter x X : NoDup X -> remove1 x X = filter (fun y => negb (Nat.eqb x y)) X.
Proof.
  induction 1 as [|y X Hy Hn IH]; cbn; auto.
  destruct (Nat.eqb_spec x y) as [->|N]; cbn.
  - symmetry. apply filter_id. intros z Hz. apply negb_true_iff, Nat.eqb_neq. intros ->. contradiction.
  - now rewrite IH.
Qed.
Lemma filter_remove1 l links X : NoDup X ->
  filter (fun x => negb (memn x links)) (remove1 l X) = filter (fun x => negb (memn x (l :: links))) X.
Proof.
  intro H. rewrite remove1_filter, filter_filter by exact H. apply filter_ext. intro x.
  unfold memn. cbn [existsb]. rewrite negb_orb, (Nat.eqb_sym x l). reflexivity.
Qed.
Lemma remove1_twice l X : NoDup X -> remove1 l (remove1 l X) = remove1 l X.
Proof. intro H. apply remove1_absent. now apply remove1_notin. Qed.
Definition orem2 (a b : nat) (X : list (option nat)) := oremove_all (Some b) (oremove_all (Some a) X).
Lemma orem2_idem a b X : orem2 a b (orem2 a b X) = orem2 a b X.
Proof.
  unfold orem2, oremove_all. rewrite !filter_filter. apply filter_ext. intro x.
  destruct (negb (oeqb (Some a) x)), (negb (oeqb (Some b) x)); reflexivity.
Qed.
Lemma in_orem2 a b x X : In x (orem2 a b X) <-> In x X /\ x <> Some a /\ x <> Some b.
Proof. unfold orem2. rewrite !in_oremove_all. tauto. Qed.

(* (i) pointwise effect of Link.unlink_from(v) *)
Lemma r_l_unlink_from_reads s l v : wf s -> link_inv s -> l < next s -> v < next s ->
  let s' := r_l_unlink_from s l (Some v) in
  (forall k, lv s' k = if Nat.eqb k l then oremove_all (Some v) (lv s l) else lv s k) /\
  (forall w, vl s' w = if Nat.eqb w v then remove1 l (vl s w) else vl s w) /\
  (forall i, kd s' i = kd s i).
Proof.
  intros W [Ha Hn] Hl Hv. cbv zeta. unfold r_l_unlink_from.
  destruct (memo (Some v) (lv s l)) eqn:E1.
  - apply memo_In in E1. pose proof (proj2 (Ha v l) E1) as Hin.
    rewrite !vl_set_lv. assert (memn l (vl s v) = true) as -> by now apply memn_In.
    split; [|split].
    + intro k. srw. rewrite !lv_set_lv_if by (auto with st). rewrite Nat.eqb_refl.
      destruct (Nat.eqb_spec k l) as [->|N]; [apply oremove_all_oremove1|reflexivity].
    + intro w. srw. rewrite vl_set_vl_if by (auto with st). srw.
      destruct (Nat.eqb_spec w v) as [->|N]; reflexivity.
    + intro i. srw. reflexivity.
  - apply memo_nIn in E1. split; [|split]; [| |reflexivity].
    + intro k. destruct (Nat.eqb_spec k l) as [->|N]; [|reflexivity]. symmetry. now apply oremove_all_absent.
    + intro w. destruct (Nat.eqb_spec w v) as [->|N]; [|reflexivity]. symmetry. apply remove1_absent.
      intro H. apply E1. now apply Ha.
Qed.

(* (iii) closed form of the unlink loop, for ANY list of allocated links *)
Definition unlink_fold (a b : nat) (links : list nat) (s : state) : state :=
  fold_left (fun s l => r_l_unlink_from (r_l_unlink_from s l (Some a)) l (Some b)) links s.

Lemma unlink_fold_reads a b : forall links s, wf s -> link_inv s -> a < next s -> b < next s ->
  (forall l, In l links -> l < next s) ->
  let s' := unlink_fold a b links s in
  wf s' /\ link_inv s' /\ next s' = next s /\
  (forall w, vl s' w = if Nat.eqb w a || Nat.eqb w b
                       then filter (fun l => negb (memn l links)) (vl s w) else vl s w) /\
  (forall k, lv s' k = if memn k links then orem2 a b (lv s k) else lv s k) /\
  (forall i, kd s' i = kd s i).
Proof.
  induction links as [|l links IH]; intros s W I Ha Hb Hls; cbv zeta; unfold unlink_fold; cbn [fold_left].
  - split; [exact W|split; [exact I|split; [reflexivity|split; [|split; [reflexivity|reflexivity]]]]].
    intro w. cbn [memn existsb negb]. rewrite filter_id by reflexivity. now destruct (_ || _).
  - assert (Hl : l < next s) by (apply Hls; now left).
    set (t := r_l_unlink_from s l (Some a)).
    destruct (lunl_eq s l (Some a) W Hl) as (_ & Wt & Nt). { intros v [= <-]. exact Ha. } fold t in Wt, Nt.
    assert (It : link_inv t) by (apply r_l_unlink_from_inv; auto; intros v [= <-]; exact Ha).
    destruct (r_l_unlink_from_reads s l a W I Hl Ha) as (Lt & Vt & Kt). fold t in Lt, Vt, Kt.
    set (s1 := r_l_unlink_from t l (Some b)).
    destruct (lunl_eq t l (Some b) Wt) as (_ & W1 & N1). { now rewrite Nt. } { intros v [= <-]. now rewrite Nt. }
    fold s1 in W1, N1.
    assert (I1 : link_inv s1).
    { apply r_l_unlink_from_inv; auto; [now rewrite Nt|]. intros v [= <-]. now rewrite Nt. }
    destruct (r_l_unlink_from_reads t l b Wt It) as (L1 & V1 & K1); [now rewrite Nt|now rewrite Nt|].
    fold s1 in L1, V1, K1.
    destruct (IH s1 W1 I1) as (W' & I' & N' & V' & L' & K').
    { rewrite N1, Nt; exact Ha. } { rewrite N1, Nt; exact Hb. }
    { intros k Hk. rewrite N1, Nt. apply Hls. now right. }
    unfold unlink_fold in *. set (s' := fold_left _ links s1) in *.
    split; [exact W'|split; [exact I'|split; [congruence|split; [|split]]]].
    + intro w. rewrite V', V1, Vt. pose proof (proj2 I w) as Nw.
      destruct (Nat.eqb_spec w a) as [Ea|Na]; destruct (Nat.eqb_spec w b) as [Eb|Nb]; cbn [orb].
      * rewrite remove1_twice by exact Nw. now apply filter_remove1.
      * now apply filter_remove1.
      * now apply filter_remove1.
      * reflexivity.
    + intro k. rewrite L', L1. unfold memn at 2. cbn [existsb]. fold (memn k links).
      destruct (Nat.eqb_spec k l) as [->|Nk]; cbn [orb].
      * rewrite Lt, Nat.eqb_refl. fold (orem2 a b (lv s l)).
        destruct (memn l links); [apply orem2_idem|reflexivity].
      * rewrite Lt. destruct (Nat.eqb_spec k l); [contradiction|]. reflexivity.
    + intro i. rewrite K', K1, Kt. reflexivity.
Qed.

(* (iv) helpers.find_links(a, b) with the default arguments = the links of a joining a to b, in order *)
Lemma fl_loop_filter (ffl : nat -> nat -> bool) s a b : forall ls acc r, NoDup ls -> (forall x, In x ls -> ~ In x acc) ->
  fl_loop ffl s a b false UErr None ls acc = FOk r ->
  r = acc ++ filter (fun l => joins s l a b) ls.
Proof.
  induction ls as [|l ls IH]; intros acc r Hnd Hacc H; cbn [fl_loop filter] in *.
  - inversion H. now rewrite app_nil_r.
  - inversion Hnd as [|? ? Hl Hnd']; subst.
    unfold fl_link, joins in *. destruct (other s l (Some a)) as [|o]; [discriminate|].
    destruct (oeqb o (Some b)); cbn [negb ffok] in H.
    + assert (memn l acc = false) as E by (apply memn_nIn; apply Hacc; now left). rewrite E in H.
      apply IH in H; auto.
      * rewrite H, <- app_assoc. reflexivity.
      * intros x Hx Hin. apply in_app_or in Hin. destruct Hin as [Hin|[<-|[]]]; [|contradiction].
        apply (Hacc x); [now right|exact Hin].
    + apply IH in H; auto. intros x Hx. apply Hacc. now right.
Qed.
Theorem find_links_joins s a b links : link_inv s ->
  find_links (fun _ _ => true) s a b false UErr None = FOk links ->
  links = filter (fun l => joins s l a b) (vl s a).
Proof.
  intros I H. unfold find_links in H. apply fl_loop_filter in H; auto. apply (proj2 I).
Qed.

(* ---------- 2d. explicit.unlink(a, b) ---------- *)
Lemma step_unlink s a b destroy links : Inv s -> well_typed s (Unlink a b destroy) = true ->
  find_links (fun _ _ => true) s a b false UErr None = FOk links ->
  step s (Unlink a b destroy) = (unlink_fold a b links s, Ret (if destroy then VNone else VSet links)).
Proof.
  intros HI WT EF. rewrite step_refines by (auto; discriminate).
  unfold r_step. rewrite WT. cbn [negb]. rewrite EF. reflexivity.
Qed.

Theorem unlink_effect s a b destroy links : Inv s -> well_typed s (Unlink a b destroy) = true ->
  find_links (fun _ _ => true) s a b false UErr None = FOk links ->
  let s' := fst (step s (Unlink a b destroy)) in
  links = filter (fun l => joins s l a b) (vl s a) /\
  snd (step s (Unlink a b destroy)) = Ret (if destroy then VNone else VSet links) /\
  (forall l, In l links ->
     ~ In l (vl s' a) /\ ~ In l (vl s' b) /\ ~ In (Some a) (lv s' l) /\ ~ In (Some b) (lv s' l)) /\
  (forall w, vl s' w = if Nat.eqb w a || Nat.eqb w b
                       then filter (fun l => negb (memn l links)) (vl s w) else vl s w) /\
  (forall l, ~ In l links -> lv s' l = lv s l) /\
  (forall l, In l links -> lv s' l = oremove_all (Some b) (oremove_all (Some a) (lv s l))) /\
  next s' = next s /\ (forall i, kd s' i = kd s i).
Proof.
  intros HI WT EF. pose proof HI as (W & I & _ & _).
  rewrite (step_unlink s a b destroy links HI WT EF). cbn [fst snd].
  cbn [well_typed] in WT. apply andb_true_iff in WT as [Ha Hb]. apply LinkStep.isv_lt in Ha, Hb.
  assert (Hls : forall l, In l links -> l < next s).
  { intros l Hl. eapply LinkStep.find_links_sub in Hl; [|exact EF]. now apply (LinkStep.link_inv_valid' s a l). }
  destruct (unlink_fold_reads a b links s W I Ha Hb Hls) as (W' & I' & N' & V' & L' & K').
  set (s' := unlink_fold a b links s) in *.
  split; [now apply find_links_joins|]. split; [reflexivity|].
  split.
  { intros l Hl. apply memn_In in Hl. repeat split.
    - rewrite V', Nat.eqb_refl. cbn [orb]. rewrite filter_In, Hl. cbn. intros [_ ?]; discriminate.
    - rewrite V', Nat.eqb_refl, orb_true_r. rewrite filter_In, Hl. cbn. intros [_ ?]; discriminate.
    - rewrite L', Hl, in_orem2. tauto.
    - rewrite L', Hl, in_orem2. tauto. }
  split; [exact V'|].
  split. { intros l Hl. apply memn_nIn in Hl. now rewrite L', Hl. }
  split. { intros l Hl. apply memn_In in Hl. now rewrite L', Hl. }
  split; [exact N'|exact K'].
Qed.

Theorem unlink_error s a b destroy e : Inv s -> well_typed s (Unlink a b destroy) = true ->
  find_links (fun _ _ => true) s a b false UErr None = FErr e ->
  step s (Unlink a b destroy) = (s, Raised e).
Proof. intros _ WT EF. unfold step. rewrite WT. cbn [negb]. rewrite EF. reflexivity. Qed.

(* ---------- 2f. the order in which the links are unlinked is immaterial ---------- *)
Lemma memn_perm x l l' : Permutation l l' -> memn x l = memn x l'.
Proof.
  intro P. destruct (memn x l') eqn:E.
  - apply memn_In. apply memn_In in E. eapply Permutation_in; [apply Permutation_sym|]; eauto.
  - apply memn_nIn. apply memn_nIn in E. intro H. apply E. eapply Permutation_in; eauto.
Qed.

Theorem unlink_order_independent s a b links links' : wf s -> link_inv s -> a < next s -> b < next s ->
  (forall l, In l links -> l < next s) -> Permutation links links' ->
  vlinks (unlink_fold a b links' s) = vlinks (unlink_fold a b links s) /\
  lverts (unlink_fold a b links' s) = lverts (unlink_fold a b links s).
Proof.
  intros W I Ha Hb Hls P.
  assert (Hls' : forall l, In l links' -> l < next s).
  { intros l Hl. apply Hls. eapply Permutation_in; [apply Permutation_sym|]; eauto. }
  destruct (unlink_fold_reads a b links s W I Ha Hb Hls) as (W1 & _ & N1 & V1 & L1 & _).
  destruct (unlink_fold_reads a b links' s W I Ha Hb Hls') as (W2 & _ & N2 & V2 & L2 & _).
  split.
  - apply vlinks_ext; auto; [congruence|]. intro w. rewrite V1, V2.
    destruct (_ || _); [|reflexivity]. apply filter_ext. intro x. now rewrite (memn_perm x links links').
  - apply lverts_ext; auto; [congruence|]. intro k. rewrite L1, L2. now rewrite (memn_perm k links links').
Qed.

(* the same for the implementation's loop (the Python iterates a set, in an unspecified order) *)
Corollary unlink_order_independent_impl s a b links links' : Inv s -> a < next s -> b < next s ->
  (forall l, In l links -> l < next s) -> Permutation links links' ->
  exists s1 s2,
    seq_res (fun s l => bind (l_unlink_from FUEL s l (Some a)) (fun s' => l_unlink_from FUEL s' l (Some b))) links s = Ok s1 /\
    seq_res (fun s l => bind (l_unlink_from FUEL s l (Some a)) (fun s' => l_unlink_from FUEL s' l (Some b))) links' s = Ok s2 /\
    vlinks s2 = vlinks s1 /\ lverts s2 = lverts s1.
Proof.
  intros (W & I & _ & _) Ha Hb Hls P.
  assert (Hls' : forall l, In l links' -> l < next s).
  { intros l Hl. apply Hls. eapply Permutation_in; [apply Permutation_sym|]; eauto. }
  exists (unlink_fold a b links s), (unlink_fold a b links' s).
  split; [now apply unlink_loop|]. split; [now apply unlink_loop|].
  now apply unlink_order_independent.
Qed.

Print Assumptions step_refines.
Print Assumptions Inv_step.
Print Assumptions transcripts_equal.
Print Assumptions runs_equal.
Print Assumptions Inv_reachable.
Print Assumptions new_edge_type_error.
Print Assumptions dontdup_creates_nothing.
Print Assumptions first_joining_spec.
Print Assumptions dontdup_none_creates.
Print Assumptions new_edge_effect.
Print Assumptions set_end_effect.
Print Assumptions set_end_index_error.
Print Assumptions set_end_same_vertex_noop.
Print Assumptions find_links_joins.
Print Assumptions unlink_effect.
Print Assumptions unlink_error.
Print Assumptions unlink_order_independent.
Print Assumptions unlink_order_independent_impl.
