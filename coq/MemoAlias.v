(* MemoAlias.v — object identity of the containers the library RETAINS (C12): the memo of
   neighbors() answers.  List objects live in a heap of cells; a query hands a location to the
   client, who may later overwrite any location it was ever handed.  `copying = true` models the
   repaired code (a hit returns a copy of the stored list, a miss stores a copy of the list it
   returns); `copying = false` the pinned code (the stored list object itself is handed out).
   Model-side file: definitions only. *)
From EG Require Import Base.

Record mstate := {
  cells   : list (list nat);        (* the list objects, by location                          *)
  memo    : list (nat * nat);       (* argument key -> location of the stored answer          *)
  cur     : list (list nat);        (* what the loop would compute now, per key               *)
  flag    : bool;                   (* NEIGHBOR_CACHING                                       *)
  escaped : list nat                (* locations ever handed to the client                    *)
}.
Definition minit (c : list (list nat)) : mstate := {| cells := []; memo := []; cur := c; flag := false; escaped := [] |}.

Inductive mop :=
  | MQuery (k : nat)                        (* neighbors(v, *key)                              *)
  | MMutate (c : list (list nat))           (* a graph mutation: new truth, memo invalidated   *)
  | MFlag (b : bool)
  | MClient (loc : nat) (xs : list nat).    (* the client edits a list it was handed           *)

Fixpoint mlookup (k : nat) (m : list (nat * nat)) : option nat :=
  match m with [] => None | (k', c) :: r => if Nat.eqb k k' then Some c else mlookup k r end.
Definition alloc_cell (s : mstate) (x : list nat) : mstate * nat :=
  ({| cells := cells s ++ [x]; memo := memo s; cur := cur s; flag := flag s; escaped := escaped s |}, length (cells s)).
Definition escape (s : mstate) (c : nat) : mstate :=
  {| cells := cells s; memo := memo s; cur := cur s; flag := flag s; escaped := c :: escaped s |}.
Definition set_memo (s : mstate) (m : list (nat * nat)) : mstate :=
  {| cells := cells s; memo := m; cur := cur s; flag := flag s; escaped := escaped s |}.

Section Alias.
  Variable copying : bool.

  (* returns the new state and, for a query, the location handed to the client *)
  Definition mstep (s : mstate) (o : mop) : mstate * option nat :=
    match o with
    | MQuery k =>
        let truth := get [] k (cur s) in
        if flag s then
          match mlookup k (memo s) with
          | Some c =>
              if copying then let '(s1, c') := alloc_cell s (get [] c (cells s)) in (escape s1 c', Some c')
              else (escape s c, Some c)
          | None =>
              let '(s1, a) := alloc_cell s truth in
              if copying then
                let '(s2, b) := alloc_cell s1 truth in
                (escape (set_memo s2 ((k, b) :: memo s2)) a, Some a)
              else (escape (set_memo s1 ((k, a) :: memo s1)) a, Some a)
          end
        else let '(s1, a) := alloc_cell s truth in (escape s1 a, Some a)
    | MMutate c => ({| cells := cells s; memo := []; cur := c; flag := flag s; escaped := escaped s |}, None)
    | MFlag b => ({| cells := cells s; memo := memo s; cur := cur s; flag := b; escaped := escaped s |}, None)
    | MClient loc xs =>
        if memn loc (escaped s)
        then ({| cells := set loc xs (cells s); memo := memo s; cur := cur s; flag := flag s; escaped := escaped s |}, None)
        else (s, None)
    end.

  (* what each query of a history answered: the CONTENT of the handed list at the time it is handed *)
  Fixpoint manswers (s : mstate) (ops : list mop) : list (option (list nat)) :=
    match ops with
    | [] => []
    | o :: r => let '(s', h) := mstep s o in
                match o, h with
                | MQuery _, Some c => Some (get [] c (cells s')) :: manswers s' r
                | _, _ => None :: manswers s' r
                end
    end.
  (* the truth at each query *)
  Fixpoint mtruths (s : mstate) (ops : list mop) : list (option (list nat)) :=
    match ops with
    | [] => []
    | o :: r => let '(s', _) := mstep s o in
                match o with
                | MQuery k => Some (get [] k (cur s)) :: mtruths s' r
                | _ => None :: mtruths s' r
                end
    end.
End Alias.
