(* Ref.v — the plain reference model of the vertex<->link mutators: direct list edits with no
   call-backs and no fuel.  RefProofs.v shows the fuelled transliteration (Struct.v) computes
   exactly these (C03), and the invariants are proved of these.  Model-side: definitions only. *)
From EG Require Import Base State Nbrs Struct.

(* Vertex.add_to_link: append l to v's links unless present; name v in l unless already named *)
Definition r_v_add_to_link (s : state) (v l : nat) : state :=
  if memn l (vl s v) then inval s v else
  let s1 := set_vl s v (vl s v ++ [l]) in
  if memo (Some v) (lv s1 l) then inval s1 v else
  let s2 := set_lv s1 l (lv s1 l ++ [Some v]) in
  inval (inval_all s2 (lv s2 l)) v.

(* Link.add_vertex: always append the end; attach the link to the vertex unless attached *)
Definition r_l_add_vertex (s : state) (l : nat) (ov : option nat) : state :=
  let s1 := set_lv s l (lv s l ++ [ov]) in
  match ov with
  | None => inval_all s1 (lv s1 l)
  | Some v =>
      if memn l (vl s1 v) then inval_all s1 (lv s1 l)
      else let s2 := inval (set_vl s1 v (vl s1 v ++ [l])) v in inval_all s2 (lv s2 l)
  end.

(* Vertex.remove_from_link: drop l from v's links and every mention of v from l *)
Definition r_v_remove_from_link (s : state) (v l : nat) : state :=
  if memn l (vl s v) then
    let s0 := set_vl s v (remove1 l (vl s v)) in
    if memo (Some v) (lv s0 l) then
      let s1 := set_lv s0 l (oremove1 (Some v) (lv s0 l)) in
      let s2 := set_lv s1 l (oremove_all (Some v) (lv s1 l)) in
      let s3 := inval s2 v in
      inval (inval_all s3 (lv s3 l ++ [Some v])) v
    else inval s0 v
  else inval s v.

(* Link.unlink_from: drop every mention of the vertex (one None for None) and detach the link *)
Definition r_l_unlink_from (s : state) (l : nat) (ov : option nat) : state :=
  if memo ov (lv s l) then
    let s1 := set_lv s l (oremove1 ov (lv s l)) in
    match ov with
    | None => inval_all s1 (lv s1 l)
    | Some v =>
        let s2 := set_lv s1 l (oremove_all (Some v) (lv s1 l)) in
        let s3 := if memn l (vl s2 v) then inval (set_vl s2 v (remove1 l (vl s2 v))) v else inval s2 v in
        inval_all s3 (lv s3 l ++ [Some v])
    end
  else s.

(* TwoEndedLink end assignment: replace position idx; detach the old vertex iff it is no longer
   listed; attach the new one iff it was not attached *)
Definition r_l_set_end (s : state) (l idx : nat) (new : option nat) : res :=
  match lv1 s l, lv2 s l with
  | Some e1, Some e2 =>
      let old := if Nat.eqb idx 0 then e1 else e2 in
      let s1 := set_lv s l (set idx new (lv s l)) in
      let s2 := match old with
                | Some ov => if memo (Some ov) (lv s1 l) then s1 else r_v_remove_from_link s1 ov l
                | None => s1
                end in
      let s3 := match new with
                | Some nv => if memn l (vl s2 nv) then s2 else r_v_add_to_link s2 nv l
                | None => s2
                end in
      Ok (inval_all s3 (lv s3 l ++ [e1; e2]))
  | _, _ => Raise IndexError s
  end.
