(* NbrsLink.v — the loop bodies of the model (Nbrs.nb_link / fl_link) are the per-link decision
   functions of NbrsDecide.v applied to the link's row.  Independent of the translator output
   (gen/GenNbrs.v): everything but C04 / C09 builds on this file, not on NbrsGen.v. *)
From EG Require Import Base State Nbrs NbrsDecide.

Theorem nb_link_is_decide : forall filt s v d u f l,
  nb_link filt s v d u f l = nb_link_via filt nb_decide s v d u f l.
Proof.
  intros. unfold nb_link, nb_link_via. destruct (other s l (Some v)); [reflexivity|].
  unfold nb_decide. destruct d, u, (is_undirected (kd s l)), (is_directed (kd s l)), (is_end1 s l v), (is_end2 s l v),
    (fok filt f l o); reflexivity.
Qed.
Theorem fl_link_is_decide : forall ffl s a b ds u f l,
  fl_link ffl s a b ds u f l = fl_link_via ffl fl_decide s a b ds u f l.
Proof.
  intros. unfold fl_link, fl_link_via. destruct (other s l (Some a)); [reflexivity|].
  unfold fl_decide. destruct ds, u, (oeqb o (Some b)), (is_undirected (kd s l)), (is_directed (kd s l)), (is_end1 s l a),
    (ffok ffl f l); reflexivity.
Qed.

