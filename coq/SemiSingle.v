(* SemiSingle.v — structure/singleton.py: semi_singleton_metaclass, add_mapping,
   drop_semi_singleton_mapping, check_semi_singleton_entry_exists, get_all_semi_singleton_instances,
   clear_semi_singleton.  Classes, argument keys and instances are ids.  The instance map of a
   metaclass object is a dict keyed by (class, key); classes sharing a metaclass object share the
   dict but never a key, so one global association list keyed by (class, key) is a faithful
   picture of all the dicts together.  `key` is the value of the metaclass's hash function on the
   call's arguments, up to == (the harness interns it by the intended equality: equal positional
   values and equal keyword dicts).  Model-side file: definitions only. *)
From EG Require Import Base.

Definition skey : Type := nat * nat.                         (* (class, argument key) *)
Definition skey_eqb (a b : skey) : bool := Nat.eqb (fst a) (fst b) && Nat.eqb (snd a) (snd b).

Record ss := {
  stbl : list (skey * nat);                 (* the instance maps, in dict insertion order       *)
  snxt : nat;                               (* next instance id                                 *)
  slog : list (nat * (nat * nat))           (* every run of __init__: instance, (class, key)    *)
}.
Definition ss_init : ss := {| stbl := []; snxt := 0; slog := [] |}.

Fixpoint slookup (k : skey) (t : list (skey * nat)) : option nat :=
  match t with [] => None | (k', i) :: r => if skey_eqb k k' then Some i else slookup k r end.
(* d[k] = i : an existing key keeps its position *)
Fixpoint sset (k : skey) (i : nat) (t : list (skey * nat)) : list (skey * nat) :=
  match t with
  | [] => [(k, i)]
  | (k', j) :: r => if skey_eqb k k' then (k', i) :: r else (k', j) :: sset k i r
  end.
Definition sdel (k : skey) (t : list (skey * nat)) := filter (fun p => negb (skey_eqb k (fst p))) t.
(* class of an instance: the class whose construction ran its __init__ *)
Fixpoint cls_of (i : nat) (l : list (nat * (nat * nat))) : option nat :=
  match l with [] => None | (j, (c, _)) :: r => if Nat.eqb i j then Some c else cls_of i r end.

Inductive sop :=
  | SConstruct (c k : nat)                  (* C(args, kwargs) with key k                       *)
  | SAddMapping (i k : nat)                 (* add_mapping(obj, args, kwargs)                   *)
  | SDrop (c k : nat)                       (* drop_semi_singleton_mapping(C, ...)              *)
  | SCheck (c k : nat)                      (* check_semi_singleton_entry_exists(C, ...)        *)
  | SGetAll (c : nat)                       (* list(get_all_semi_singleton_instances(C))        *)
  | SClear (c : nat).                       (* clear_semi_singleton(C)                          *)
Inductive sout := SInst (i : nat) | SNone | SList (l : list nat) | SKeyError | SIllTyped.

Definition sstep (s : ss) (o : sop) : ss * sout :=
  match o with
  | SConstruct c k =>
      match slookup (c, k) (stbl s) with
      | Some i => (s, SInst i)
      | None => let i := snxt s in
                ({| stbl := sset (c, k) i (stbl s); snxt := S i; slog := slog s ++ [(i, (c, k))] |}, SInst i)
      end
  | SAddMapping i k =>
      match cls_of i (slog s) with
      | Some c => ({| stbl := sset (c, k) i (stbl s); snxt := snxt s; slog := slog s |}, SNone)
      | None => (s, SIllTyped)
      end
  | SDrop c k =>
      match slookup (c, k) (stbl s) with
      | Some _ => ({| stbl := sdel (c, k) (stbl s); snxt := snxt s; slog := slog s |}, SNone)
      | None => (s, SKeyError)
      end
  | SCheck c k => (s, match slookup (c, k) (stbl s) with Some i => SInst i | None => SNone end)
  | SGetAll c => (s, SList (map snd (filter (fun p => Nat.eqb c (fst (fst p))) (stbl s))))
  | SClear c => ({| stbl := filter (fun p => negb (Nat.eqb c (fst (fst p)))) (stbl s); snxt := snxt s; slog := slog s |}, SNone)
  end.
Definition srun (ops : list sop) (s : ss) : ss := fold_left (fun s o => fst (sstep s o)) ops s.

(* class an operation acts on *)
Definition sop_class (s : ss) (o : sop) : option nat :=
  match o with
  | SConstruct c _ | SDrop c _ | SCheck c _ | SGetAll c | SClear c => Some c
  | SAddMapping i _ => cls_of i (slog s)
  end.
Definition sinits_of (i : nat) (l : list (nat * (nat * nat))) : list (nat * nat) :=
  map snd (filter (fun e => Nat.eqb i (fst e)) l).

(* ---- correspondence interface ---- *)
Definition sobs : Type := sout * list (nat * nat).        (* outcome, __init__ log of the returned instance *)
Fixpoint stranscript (ops : list sop) (s : ss) : list sobs :=
  match ops with
  | [] => []
  | o :: r => let '(s', out) := sstep s o in
              (out, match out with SInst i => sinits_of i (slog s') | _ => [] end) :: stranscript r s'
  end.
Definition sout_eqb (a b : sout) : bool :=
  match a, b with
  | SInst i, SInst j => Nat.eqb i j
  | SNone, SNone | SKeyError, SKeyError | SIllTyped, SIllTyped => true
  | SList x, SList y => list_eqb Nat.eqb x y
  | _, _ => false
  end.
Definition sobs_eqb (a b : sobs) : bool :=
  sout_eqb (fst a) (fst b) && list_eqb (fun p q => Nat.eqb (fst p) (fst q) && Nat.eqb (snd p) (snd q)) (snd a) (snd b).
Definition sscheck (c : list sop * list sobs) : bool := list_eqb sobs_eqb (stranscript (fst c) ss_init) (snd c).
