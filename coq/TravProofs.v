(* TravProofs.v — machine-checked facts about the three traversals of Trav.v (bft, dft_rec, dft_iter),
   stated about the fuelled functions themselves (nodes are `option nat`, the neighbour function may
   fail, the output passes through emit/fres).  Stdlib only; nothing admitted; every main theorem is
   "Closed under the global context" (see the Print Assumptions at the end).

   Vocabulary (Section TravProofs; after the section the parameters are `nb uni`):
     edge a b / reach s v      in-universe successor / reflexive-transitive closure
     all                       the constantly-true ff_result
     path s n v, dist s v d    edge path of length n; d is the shortest such length
     Pre vis v l / PreL        pre-order specification: v first, then for each neighbour in order
                               that is in the universe and not yet listed, its whole subtree
     revnb nb                  nb with every neighbour list reversed
     scan                      the canonical scan (i-th listed vertex, append its new neighbours)
     tmap fres r               r with its TOk output filtered by fres (errors / fuel untouched)
     bounded nb N              every vertex in a neighbour list is None or Some x, x < N
     raises_at nb uni s e      some vertex reachable from s has a neighbour computation raising e

   A (C06, fres = all)  exact_bft exact_dfr exact_dfi : T fuel start = TOk out, preflight passed ->
                          NoDup out /\ out = Some start :: _ /\ (In v out <-> reach (Some start) v)
                        three_agree : the three outputs are permutations of each other
   B (C06)              ff_result_bft ff_result_dfr ff_result_dfi :
                          T nb uni fres fuel s = tmap fres (T nb uni all fuel s)
                          (same TErr e / TFuel; TOk out becomes TOk (filter fres out))
                        ff_removes_bft ff_removes_dfr ff_removes_dfi : the out' = filter fres out form
   C (C06 termination)  fuel_mono_bft fuel_mono_dfr fuel_mono_dfi : an answer <> TFuel is stable under more fuel
                        bft_fuel_enough, dft_rec_fuel_enough : bounded N -> T (N + 3) start <> TFuel
                        dft_iter_fuel_enough : bounded N -> dft_iter (dfi_fuel nb N start) start <> TFuel,
                          dfi_fuel = 2 + the neighbour-list lengths of start and of 0 .. N-1
   D (C07 BFS)          bft_level_order : exists lv, out sorted by lv, lv v = dist from start (a path of
                          that length exists and none shorter), earlier-listed => lv not larger
                        bft_dist_monotone : the same without lv, with dist
                        bft_canonical : bft nb uni all fuel start = scan fuel 0 [Some start]
   E (C07 DFS)          dfi_is_reversed_preorder : dft_iter nb = TOk out -> exists fuel', dft_rec (revnb nb) = TOk out
                        reversed_preorder_is_dfi : the converse (both for arbitrary fres)
                        dfr_preorder : dft_rec nb uni all fuel start = TOk out -> Pre [] (Some start) out
                        preorder_dfr : conversely, Pre [] (Some start) out is produced with some fuel
   F                    bft_ext dft_rec_ext dft_iter_ext : pointwise-equal neighbour functions give equal results
   errors               error_bft error_dfr error_dfi : TErr e comes from the preflight or from a reachable vertex

   Method: B is a simulation per loop.  For fres = all the visited list is a function of the output
   (rev out for bft / dft_rec, out itself for dft_iter), so the loops become the relational machines of
   notes/sketches (Bfs, Iter) and the pre-order relation PreL; dfr is handled through dfr_list, the
   nested `fix go` as a function of the recursive call.  exact_dfr goes through
   dft_rec nb = pre-order over nb = dft_iter (revnb nb) and exact_dfi. *)
From EG Require Import Base State Nbrs Trav.
From Coq Require Import Permutation.

(* the neighbour function with every neighbour list reversed *)
Definition revnb (nb : nat -> nres) : nat -> nres :=
  fun v => match nb v with NOk l => NOk (rev l) | NErr e => NErr e end.

Lemma nmem_In x l : nmem x l = true <-> In x l.
Proof. exact (memo_In x l). Qed.
Lemma nmem_nIn x l : nmem x l = false <-> ~ In x l.
Proof. exact (memo_nIn x l). Qed.
Lemma nmem_rev x l : nmem x (rev l) = nmem x l.
Proof.
  destruct (nmem x l) eqn:E.
  - apply nmem_In. apply -> in_rev. now apply nmem_In.
  - apply nmem_nIn. intro H. apply in_rev in H. apply nmem_nIn in E. contradiction.
Qed.
Lemma nmem_ext x l l' : (forall y, In y l <-> In y l') -> nmem x l = nmem x l'.
Proof.
  intro H. destruct (nmem x l') eqn:E.
  - apply nmem_In. apply H. now apply nmem_In.
  - apply nmem_nIn. intro Hx. apply H in Hx. apply nmem_nIn in E. contradiction.
Qed.

Lemma NoDup_snoc : forall (d : list node) v, NoDup d -> ~ In v d -> NoDup (d ++ [v]).
Proof.
  induction d as [|a d IHd]; intros v Hd Hn; cbn.
  - constructor; [intros [] | constructor].
  - inversion Hd as [|? ? Ha Hd']; subst. constructor.
    + intro Hx. apply in_app_or in Hx. destruct Hx as [Hx|[<-|[]]]; [contradiction|].
      apply Hn. left; reflexivity.
    + apply IHd; [exact Hd' | intro Hx; apply Hn; right; exact Hx].
Qed.

Lemma NoDup_app_disj : forall (a b : list node), NoDup a -> NoDup b ->
  (forall x, In x b -> ~ In x a) -> NoDup (a ++ b).
Proof.
  induction a as [|x a IH]; cbn; intros b Ha Hb Hd; [exact Hb|].
  inversion Ha; subst. constructor.
  - intro Hx. apply in_app_or in Hx. destruct Hx as [?|Hx]; [contradiction|]. apply (Hd x Hx). left; reflexivity.
  - apply IH; auto. intros y Hy Hya. apply (Hd y Hy). right; exact Hya.
Qed.

Section TravProofs.
Set Default Proof Using "Type".
Variable nb : nat -> nres.
Variable uni : option (list nat).
Variable fres : node -> bool.

Notation nbo := (Trav.nbo nb).
Notation inU := (Trav.inU uni).

Definition edge (a b : node) : Prop := exists ns, nbo a = NOk ns /\ In b ns /\ inU b = true.
Inductive reach (s : node) : node -> Prop :=
| reach_refl : reach s s
| reach_step a b : reach s a -> edge a b -> reach s b.
Definition all (_ : node) := true.

(* ------------------------------------------------------------------------------------------ *)
(* unfolding lemmas                                                                            *)

(* the nested `fix go` of dfr, as a function of the recursive call *)
Definition dfr_list (rec : node -> list node -> list node -> dres) :=
  fix go (ws vis out : list node) : dres :=
  match ws with
  | [] => DOk vis out
  | w :: r =>
      if inU w && negb (nmem w vis)
      then match rec w vis out with
           | DOk vis' out' => go r vis' out'
           | e => e
           end
      else go r vis out
  end.

Lemma dfr_list_nil rec vis out : dfr_list rec [] vis out = DOk vis out.
Proof. reflexivity. Qed.
Lemma dfr_list_cons rec w r vis out :
  dfr_list rec (w :: r) vis out =
  if inU w && negb (nmem w vis)
  then match rec w vis out with
       | DOk vis' out' => dfr_list rec r vis' out'
       | e => e
       end
  else dfr_list rec r vis out.
Proof. reflexivity. Qed.

Lemma dfr_S fr f v vis out :
  dfr nb uni fr (S f) v vis out =
  match nbo v with
  | NErr e => DErr e
  | NOk ns => dfr_list (dfr nb uni fr f) ns (v :: vis) (emit fr v out)
  end.
Proof. reflexivity. Qed.

Lemma bft_loop_S fr f q vis out :
  bft_loop nb uni fr (S f) q vis out =
  match q with
  | [] => TOk out
  | u :: q' =>
      match nbo u with
      | NErr e => TErr e
      | NOk ns => let '(q2, vis2, out2) := fold_left (bft_discover uni fr) ns (q', vis, out) in
                  bft_loop nb uni fr f q2 vis2 out2
      end
  end.
Proof. reflexivity. Qed.

Lemma dfi_loop_S fr f stack disc out :
  dfi_loop nb uni fr (S f) stack disc out =
  match stack with
  | [] => TOk out
  | v :: st =>
      if nmem v disc then dfi_loop nb uni fr f st disc out
      else if negb (inU v) then dfi_loop nb uni fr f st disc out
      else match nbo v with
           | NErr e => TErr e
           | NOk ns => dfi_loop nb uni fr f (rev ns ++ st) (disc ++ [v]) (emit fr v out)
           end
  end.
Proof. reflexivity. Qed.

Lemma emit_all v out : emit all v out = out ++ [v].
Proof. reflexivity. Qed.

(* ------------------------------------------------------------------------------------------ *)
(* B. ff_result only removes entries: the fres run is the `all` run with out filtered          *)

Definition tmap (r : tres) : tres := match r with TOk o => TOk (filter fres o) | x => x end.
Definition dmap (r : dres) : dres := match r with DOk vis o => DOk vis (filter fres o) | x => x end.

Lemma emit_filter v out : emit fres v (filter fres out) = filter fres (emit all v out).
Proof.
  unfold emit, all. rewrite filter_app. cbn. destruct (fres v); [reflexivity | now rewrite app_nil_r].
Qed.

Lemma bft_discover_sim q vis out v :
  bft_discover uni fres (q, vis, filter fres out) v =
  let '(q2, vis2, out2) := bft_discover uni all (q, vis, out) v in (q2, vis2, filter fres out2).
Proof.
  unfold bft_discover. destruct (inU v); [|reflexivity]. destruct (nmem v vis); [reflexivity|].
  now rewrite emit_filter.
Qed.

Lemma bft_fold_sim ns : forall q vis out,
  fold_left (bft_discover uni fres) ns (q, vis, filter fres out) =
  let '(q2, vis2, out2) := fold_left (bft_discover uni all) ns (q, vis, out) in (q2, vis2, filter fres out2).
Proof.
  induction ns as [|a ns IH]; intros q vis out; cbn [fold_left]; [reflexivity|].
  rewrite bft_discover_sim.
  destruct (bft_discover uni all (q, vis, out) a) as [[q2 vis2] out2]. apply IH.
Qed.

Lemma bft_loop_sim f : forall q vis out,
  bft_loop nb uni fres f q vis (filter fres out) = tmap (bft_loop nb uni all f q vis out).
Proof.
  induction f as [|f IH]; intros q vis out; [reflexivity|].
  rewrite !bft_loop_S. destruct q as [|u q]; [reflexivity|].
  destruct (nbo u) as [ns|e]; [|reflexivity].
  rewrite bft_fold_sim.
  destruct (fold_left (bft_discover uni all) ns (q, vis, out)) as [[q2 vis2] out2]. apply IH.
Qed.

Theorem ff_result_bft fuel start :
  bft nb uni fres fuel start = tmap (bft nb uni all fuel start).
Proof.
  unfold bft.
  assert (H : (if negb (inU (Some start)) then TErr ValueError
               else bft_loop nb uni fres fuel [Some start] [Some start] (emit fres (Some start) [])) =
              tmap (if negb (inU (Some start)) then TErr ValueError
                    else bft_loop nb uni all fuel [Some start] [Some start] (emit all (Some start) []))).
  { destruct (negb (inU (Some start))); [reflexivity|].
    change (emit fres (Some start) []) with (emit fres (Some start) (filter fres [])).
    rewrite emit_filter. apply bft_loop_sim. }
  destruct uni as [[|x l]|]; [reflexivity | exact H | exact H].
Qed.

Lemma dfr_list_sim (rec rec' : node -> list node -> list node -> dres) :
  (forall w vis out, rec w vis (filter fres out) = dmap (rec' w vis out)) ->
  forall ws vis out, dfr_list rec ws vis (filter fres out) = dmap (dfr_list rec' ws vis out).
Proof.
  intros H. induction ws as [|w r IH]; intros vis out; [reflexivity|]. rewrite !dfr_list_cons.
  destruct (inU w && negb (nmem w vis)); [|apply IH].
  rewrite H. destruct (rec' w vis out) as [vis' out'| |]; cbn [dmap]; [apply IH | reflexivity | reflexivity].
Qed.

Lemma dfr_sim f : forall v vis out,
  dfr nb uni fres f v vis (filter fres out) = dmap (dfr nb uni all f v vis out).
Proof.
  induction f as [|f IH]; intros v vis out; [reflexivity|].
  rewrite !dfr_S. destruct (nbo v) as [ns|e]; [|reflexivity].
  rewrite emit_filter. apply dfr_list_sim. exact IH.
Qed.

Theorem ff_result_dfr fuel start :
  dft_rec nb uni fres fuel start = tmap (dft_rec nb uni all fuel start).
Proof.
  unfold dft_rec. destruct (df_preflight uni start); [reflexivity|].
  pose proof (dfr_sim fuel (Some start) [] []) as H. cbn [filter] in H. rewrite H.
  destruct (dfr nb uni all fuel (Some start) [] []); reflexivity.
Qed.

Lemma dfi_loop_sim f : forall st disc out,
  dfi_loop nb uni fres f st disc (filter fres out) = tmap (dfi_loop nb uni all f st disc out).
Proof.
  induction f as [|f IH]; intros st disc out; [reflexivity|].
  rewrite !dfi_loop_S. destruct st as [|v st]; [reflexivity|].
  destruct (nmem v disc); [apply IH|]. destruct (negb (inU v)); [apply IH|].
  destruct (nbo v) as [ns|e]; [|reflexivity]. rewrite emit_filter. apply IH.
Qed.

Theorem ff_result_dfi fuel start :
  dft_iter nb uni fres fuel start = tmap (dft_iter nb uni all fuel start).
Proof.
  unfold dft_iter. destruct (df_preflight uni start); [reflexivity|].
  exact (dfi_loop_sim fuel [Some start] [] []).
Qed.

(* ------------------------------------------------------------------------------------------ *)
(* reachability basics                                                                         *)

Lemma reach_edge_l a b c : edge a b -> reach b c -> reach a c.
Proof.
  intros He Hr. induction Hr as [|x y _ IH Hxy].
  - eapply reach_step; [constructor | exact He].
  - eapply reach_step; eauto.
Qed.

Lemma reach_trans a b c : reach a b -> reach b c -> reach a c.
Proof. intros Hab Hbc. induction Hbc; [exact Hab | eapply reach_step; eauto]. Qed.

Lemma preflight_ok start : inU (Some start) = true -> uni <> Some [] -> df_preflight uni start = None.
Proof.
  intros Hs Hu. unfold df_preflight. rewrite Hs. destruct uni as [[|x l]|]; try reflexivity. congruence.
Qed.

Lemma preflight_inv start : df_preflight uni start = None -> inU (Some start) = true /\ uni <> Some [].
Proof.
  unfold df_preflight. intro H. split.
  - destruct (inU (Some start)); [reflexivity|]. destruct uni as [[|x l]|]; discriminate.
  - intro E. rewrite E in H. discriminate.
Qed.

(* ------------------------------------------------------------------------------------------ *)
(* dft_iter, fres = all: the explicit-stack machine                                            *)

Inductive Iter : list node -> list node -> list node -> Prop :=
| I_nil d : Iter [] d d
| I_skip v rest d d' : (In v d \/ inU v = false) -> Iter rest d d' -> Iter (v :: rest) d d'
| I_go v ns rest d d' : ~ In v d -> inU v = true -> nbo v = NOk ns ->
    Iter (rev ns ++ rest) (d ++ [v]) d' -> Iter (v :: rest) d d'.

Lemma dfi_Iter f : forall st d d', dfi_loop nb uni all f st d d = TOk d' -> Iter st d d'.
Proof.
  induction f as [|f IH]; intros st d d' H; [discriminate|].
  rewrite dfi_loop_S in H. destruct st as [|v st].
  - injection H as <-. constructor.
  - destruct (nmem v d) eqn:Hm.
    + apply I_skip; [left; now apply nmem_In | now apply IH].
    + destruct (inU v) eqn:Hu; cbn [negb] in H.
      * destruct (nbo v) as [ns|e] eqn:Hn; [|discriminate].
        eapply I_go; [now apply nmem_nIn | exact Hu | exact Hn | apply IH; exact H].
      * apply I_skip; [right; exact Hu | now apply IH].
Qed.

Lemma Iter_dfi : forall st d d', Iter st d d' -> exists f, dfi_loop nb uni all f st d d = TOk d'.
Proof.
  induction 1 as [d | v rest d d' Hs _ [f IH] | v ns rest d d' Hn Hu Hnb _ [f IH]].
  - exists 1. reflexivity.
  - exists (S f). rewrite dfi_loop_S. destruct (nmem v d) eqn:Hm; [exact IH|].
    destruct Hs as [Hs|Hs]; [apply nmem_In in Hs; congruence|]. rewrite Hs. exact IH.
  - exists (S f). rewrite dfi_loop_S. apply nmem_nIn in Hn. rewrite Hn, Hu, Hnb. exact IH.
Qed.

Lemma Iter_prefix : forall st d d', Iter st d d' -> exists tl, d' = d ++ tl.
Proof.
  induction 1 as [d | ? ? ? ? _ _ IH | v ? ? ? ? _ _ _ _ IH].
  - exists []. now rewrite app_nil_r.
  - exact IH.
  - destruct IH as [tl ->]. exists (v :: tl). now rewrite <- app_assoc.
Qed.

Lemma Iter_incl : forall st d d', Iter st d d' -> incl d d'.
Proof. intros st d d' H. destruct (Iter_prefix _ _ _ H) as [tl ->]. intros x Hx. apply in_or_app; auto. Qed.

Lemma Iter_sound : forall st d d', Iter st d d' ->
  forall v, In v d' -> In v d \/ exists x, In x st /\ inU x = true /\ reach x v.
Proof.
  induction 1 as [d | v0 rest d d' Hs _ IH | v0 ns rest d d' Hn Hu Hnb _ IH]; intros v Hv.
  - auto.
  - destruct (IH v Hv) as [?|[x [Hx ?]]]; [auto | right; exists x; split; [right; exact Hx | assumption]].
  - destruct (IH v Hv) as [Hin|[x [Hx [Hux Hr]]]].
    + apply in_app_or in Hin. destruct Hin as [?|[->|[]]]; [auto|].
      right. exists v. split; [left; reflexivity | split; [exact Hu | constructor]].
    + apply in_app_or in Hx. destruct Hx as [Hx|Hx].
      * apply in_rev in Hx. right. exists v0. split; [left; reflexivity | split; [exact Hu|]].
        eapply reach_edge_l; [|exact Hr]. exists ns. auto.
      * right. exists x. split; [right; exact Hx | auto].
Qed.

Definition closed_upto (d st : list node) :=
  forall v, In v d -> forall w, edge v w -> In w d \/ In w st.

Lemma Iter_complete : forall st d d', Iter st d d' -> closed_upto d st ->
  closed_upto d' [] /\ (forall x, In x st -> inU x = true -> In x d').
Proof.
  induction 1 as [d | v0 rest d d' Hs Hit IH | v0 ns rest d d' Hn Hu Hnb Hit IH]; intros Hc.
  - split; [exact Hc | intros x []].
  - assert (Hc' : closed_upto d rest).
    { intros v Hv w Hw. destruct (Hc v Hv w Hw) as [?|[<-|?]]; auto.
      destruct Hs as [?|Hs]; [auto|]. destruct Hw as (? & _ & _ & Hw). congruence. }
    destruct (IH Hc') as [H1 H2]. split; [exact H1|].
    intros x [<-|Hx] Hxu; [| auto].
    destruct Hs as [Hs|Hs]; [| congruence]. eapply Iter_incl; eauto.
  - assert (Hc' : closed_upto (d ++ [v0]) (rev ns ++ rest)).
    { intros v Hv w Hw. apply in_app_or in Hv. destruct Hv as [Hv|[<-|[]]].
      - destruct (Hc v Hv w Hw) as [?|[<-|?]].
        + left; apply in_or_app; auto.
        + left; apply in_or_app; right; left; reflexivity.
        + right; apply in_or_app; auto.
      - right. apply in_or_app. left. destruct Hw as (ns' & Hns' & Hw & _).
        rewrite Hnb in Hns'. injection Hns' as <-. apply in_rev in Hw. exact Hw. }
    destruct (IH Hc') as [H1 H2]. split; [exact H1|].
    intros x [<-|Hx] Hxu.
    + eapply Iter_incl; [exact Hit|]. apply in_or_app; right; left; reflexivity.
    + apply H2; [apply in_or_app; auto | exact Hxu].
Qed.

Lemma Iter_nodup : forall st d d', Iter st d d' -> NoDup d -> NoDup d'.
Proof.
  induction 1 as [d | v rest d d' _ _ IH | v ns rest d d' Hn _ _ _ IH]; intro Hd; auto.
  apply IH. apply NoDup_snoc; assumption.
Qed.

Lemma Iter_exact s out : inU s = true -> Iter [s] [] out ->
  NoDup out /\ (exists tl, out = s :: tl) /\ (forall v, In v out <-> reach s v).
Proof.
  intros Hs H. split; [|split].
  - eapply Iter_nodup; [exact H | constructor].
  - inversion H as [| ? ? ? ? Hsk _ | ? ? ? ? ? _ _ _ Hgo]; subst.
    + destruct Hsk as [[]|Hsk]; congruence.
    + destruct (Iter_prefix _ _ _ Hgo) as [tl ->]. exists tl. reflexivity.
  - intro v. split.
    + intro Hv. destruct (Iter_sound _ _ _ H v Hv) as [[]|[x [[<-|[]] [_ Hr]]]]. exact Hr.
    + destruct (Iter_complete _ _ _ H) as [Hcl Hst]; [intros ? []|].
      intro Hr. induction Hr as [|x w _ IH Hw].
      * apply Hst; [left; reflexivity | exact Hs].
      * destruct (Hcl x IH w Hw) as [Hin|[]]. exact Hin.
Qed.

Theorem exact_dfi fuel start out :
  inU (Some start) = true -> uni <> Some [] ->
  dft_iter nb uni all fuel start = TOk out ->
  NoDup out /\ (exists tl, out = Some start :: tl) /\ (forall v, In v out <-> reach (Some start) v).
Proof.
  intros Hs Hu H. unfold dft_iter in H. rewrite (preflight_ok _ Hs Hu) in H.
  apply dfi_Iter in H. now apply Iter_exact.
Qed.

(* ------------------------------------------------------------------------------------------ *)
(* bft, fres = all: the queue machine                                                          *)

(* neighbours of the popped vertex that get enqueued, in order (mark on enqueue) *)
Fixpoint discover (ws seen : list node) : list node :=
  match ws with
  | [] => []
  | w :: ws' => if inU w && negb (nmem w seen)
                then w :: discover ws' (seen ++ [w]) else discover ws' seen
  end.

Lemma fold_discover ns : forall q out,
  fold_left (bft_discover uni all) ns (q, rev out, out) =
  (q ++ discover ns out, rev (out ++ discover ns out), out ++ discover ns out).
Proof.
  induction ns as [|a ns IH]; intros q out; cbn [fold_left discover].
  - now rewrite !app_nil_r.
  - assert (E : bft_discover uni all (q, rev out, out) a =
                if inU a && negb (nmem a out) then (q ++ [a], rev (out ++ [a]), out ++ [a])
                else (q, rev out, out)).
    { unfold bft_discover. rewrite nmem_rev. destruct (inU a), (nmem a out); cbn; try reflexivity.
      now rewrite rev_unit. }
    rewrite E. destruct (inU a && negb (nmem a out)); [|apply IH].
    rewrite IH. now rewrite <- !app_assoc.
Qed.

Inductive Bfs : list node -> list node -> list node -> Prop :=
| B_nil out : Bfs [] out out
| B_pop u ns q out out' : nbo u = NOk ns ->
    Bfs (q ++ discover ns out) (out ++ discover ns out) out' -> Bfs (u :: q) out out'.

Lemma bft_Bfs f : forall q out out', bft_loop nb uni all f q (rev out) out = TOk out' -> Bfs q out out'.
Proof.
  induction f as [|f IH]; intros q out out' H; [discriminate|].
  rewrite bft_loop_S in H. destruct q as [|u q].
  - injection H as <-. constructor.
  - destruct (nbo u) as [ns|e] eqn:Hn; [|discriminate].
    rewrite fold_discover in H. eapply B_pop; [exact Hn | apply IH; exact H].
Qed.

Lemma Bfs_bft : forall q out out', Bfs q out out' -> exists f, bft_loop nb uni all f q (rev out) out = TOk out'.
Proof.
  induction 1 as [out | u ns q out out' Hn _ [f IH]].
  - exists 1. reflexivity.
  - exists (S f). rewrite bft_loop_S, Hn, fold_discover. exact IH.
Qed.

Lemma discover_sound : forall ws seen w, In w (discover ws seen) ->
  In w ws /\ inU w = true /\ ~ In w seen.
Proof.
  induction ws as [|a ws IH]; intros seen w H; cbn in H; [contradiction|].
  destruct (inU a) eqn:Ha; cbn [andb] in H.
  - destruct (nmem a seen) eqn:Hm; cbn [negb] in H.
    + destruct (IH _ _ H) as (?&?&?); auto with datatypes.
    + destruct H as [<-|H].
      * split; [left; reflexivity | split; [exact Ha | now apply nmem_nIn]].
      * destruct (IH _ _ H) as (?&?&Hn). split; [right; assumption | split; [assumption|]].
        intro Hx. apply Hn. apply in_or_app; auto.
  - destruct (IH _ _ H) as (?&?&?); auto with datatypes.
Qed.

Lemma discover_nodup : forall ws seen, NoDup (discover ws seen).
Proof.
  induction ws as [|a ws IH]; intros seen; cbn; [constructor|].
  destruct (inU a && negb (nmem a seen)); [|apply IH].
  constructor; [|apply IH]. intro H. apply discover_sound in H. destruct H as (_&_&Hn).
  apply Hn. apply in_or_app; right; left; reflexivity.
Qed.

Lemma discover_complete : forall ws seen w, In w ws -> inU w = true ->
  In w seen \/ In w (discover ws seen).
Proof.
  induction ws as [|a ws IH]; intros seen w Hw Hu; [contradiction|]. cbn.
  destruct Hw as [->|Hw].
  - rewrite Hu. cbn [andb]. destruct (nmem w seen) eqn:Hm; cbn [negb].
    + left. now apply nmem_In.
    + right. left. reflexivity.
  - destruct (inU a && negb (nmem a seen)).
    + destruct (IH (seen ++ [a]) w Hw Hu) as [H|H].
      * apply in_app_or in H. destruct H as [H|[<-|[]]]; [left; exact H | right; left; reflexivity].
      * right. right. exact H.
    + apply IH; assumption.
Qed.

(* path s n v: there is an edge path of length n from s to v *)
Inductive path (s : node) : nat -> node -> Prop :=
| p0 : path s 0 s
| pS n v w : path s n v -> edge v w -> path s (S n) w.

(* dist s v d: d is the length of a shortest path from s to v *)
Definition dist (s v : node) (d : nat) : Prop := path s d v /\ forall m, path s m v -> d <= m.

Lemma path_reach s n v : path s n v -> reach s v.
Proof. induction 1; [constructor | eapply reach_step; eauto]. Qed.
Lemma reach_path s v : reach s v -> exists n, path s n v.
Proof. induction 1 as [|a b _ [n IH] He]; [exists 0; constructor | exists (S n); eapply pS; eauto]. Qed.
Lemma dist_unique s v d d' : dist s v d -> dist s v d' -> d = d'.
Proof. intros [H1 H2] [H3 H4]. apply Nat.le_antisymm; auto. Qed.

Fixpoint sorted_by (lv : node -> nat) (l : list node) : Prop :=
  match l with [] => True | x :: t => (forall y, In y t -> lv x <= lv y) /\ sorted_by lv t end.

Lemma sorted_app lv l r : sorted_by lv (l ++ r) <->
  sorted_by lv l /\ sorted_by lv r /\ (forall x y, In x l -> In y r -> lv x <= lv y).
Proof.
  induction l as [|a l IH]; cbn.
  - split; [intro H; repeat split; auto; intros ? ? [] | intros (_&H&_); exact H].
  - rewrite IH. split.
    + intros (Ha & Hl & Hr & Hlr). repeat split; auto.
      * intros y Hy. apply Ha. apply in_or_app; auto.
      * intros x y [<-|Hx] Hy; [apply Ha; apply in_or_app; auto | auto].
    + intros ((Ha & Hl) & Hr & Hlr). repeat split; auto.
      intros y Hy. apply in_app_or in Hy. destruct Hy; [auto | apply Hlr; [left; reflexivity | assumption]].
Qed.

Lemma sorted_ext lv lv' l : (forall x, In x l -> lv x = lv' x) -> sorted_by lv l -> sorted_by lv' l.
Proof.
  induction l as [|a l IH]; cbn; [auto|]. intros He (Ha & Hl). split.
  - intros y Hy. rewrite <- (He a), <- (He y); auto.
  - apply IH; auto.
Qed.

Lemma sorted_const lv l c : (forall x, In x l -> lv x = c) -> sorted_by lv l.
Proof.
  induction l as [|a l IH]; cbn; intro H; [exact I|]. split.
  - intros y Hy. rewrite (H a), (H y); auto.
  - apply IH. intros; apply H; auto.
Qed.

Record Inv (s : node) (lv : node -> nat) (P Q out : list node) : Prop := {
  i_split : out = P ++ Q;
  i_nodup : NoDup out;
  i_sorted : sorted_by lv out;
  i_bound : forall h, hd_error Q = Some h -> forall x, In x out -> lv x <= S (lv h);
  i_closed : forall u, In u P -> forall w, edge u w -> In w out /\ lv w <= S (lv u);
  i_path : forall x, In x out -> path s (lv x) x;
  i_start : In s out /\ lv s = 0
}.

Lemma Bfs_inv s : forall q out out', Bfs q out out' ->
  forall lv P, Inv s lv P q out -> exists lv', Inv s lv' out' [] out'.
Proof.
  induction 1 as [out | u ns q out out' Hnb _ IH]; intros lv P HI.
  - exists lv. destruct HI as [Hs Hn Hso Hb Hc Hp Hst]. rewrite app_nil_r in Hs. subst P.
    constructor; auto; try (now rewrite app_nil_r); try (intros h Hh; discriminate).
  - set (news := discover ns out) in *.
    set (lv' := fun x => if nmem x news then S (lv u) else lv x).
    destruct HI as [Hs Hn Hso Hb Hc Hp Hst].
    assert (Hold : forall x, In x out -> lv' x = lv x).
    { intros x Hx. unfold lv'. destruct (nmem x news) eqn:Hm; [|reflexivity].
      apply nmem_In in Hm. apply discover_sound in Hm. destruct Hm as (_&_&Hm). contradiction. }
    assert (Hnew : forall x, In x news -> lv' x = S (lv u)).
    { intros x Hx. unfold lv'. apply nmem_In in Hx. now rewrite Hx. }
    assert (Hu : In u out). { rewrite Hs. apply in_or_app. right. left. reflexivity. }
    assert (Hbu : forall x, In x out -> lv x <= S (lv u)). { apply Hb. reflexivity. }
    apply (IH lv' (P ++ [u])). constructor.
    + rewrite Hs. now rewrite <- !app_assoc.
    + apply NoDup_app_disj; [exact Hn | apply discover_nodup |].
      intros x Hx. apply discover_sound in Hx. destruct Hx as (_ & _ & Hx). exact Hx.
    + apply sorted_app. split; [|split].
      * eapply sorted_ext; [|exact Hso]. intros; symmetry; auto.
      * apply (sorted_const lv' news (S (lv u))). exact Hnew.
      * intros x y Hx Hy. rewrite (Hold x Hx), (Hnew y Hy). auto.
    + intros h Hh x Hx.
      assert (Hhge : lv u <= lv' h).
      { destruct q as [|q1 q'].
        - cbn in Hh. destruct news as [|n1 nw] eqn:En; [discriminate|]. cbn in Hh. injection Hh as <-.
          rewrite Hnew; [lia | left; reflexivity].
        - cbn in Hh. injection Hh as <-.
          assert (Hq1 : In q1 out). { rewrite Hs. apply in_or_app. right. right. left. reflexivity. }
          rewrite (Hold _ Hq1).
          rewrite Hs in Hso. apply sorted_app in Hso. destruct Hso as (_ & Hq & _).
          cbn in Hq. destruct Hq as [Hq _]. apply Hq. left; reflexivity. }
      apply in_app_or in Hx. destruct Hx as [Hx|Hx].
      * rewrite (Hold _ Hx). specialize (Hbu _ Hx). lia.
      * rewrite (Hnew _ Hx). lia.
    + intros v Hv w Hw. apply in_app_or in Hv. destruct Hv as [Hv|[<-|[]]].
      * destruct (Hc v Hv w Hw) as [Hin Hle]. split; [apply in_or_app; auto|].
        assert (In v out) by (rewrite Hs; apply in_or_app; auto).
        rewrite (Hold w Hin), (Hold v); auto.
      * destruct Hw as (ns' & Hns' & Hw & Hwu). rewrite Hnb in Hns'. injection Hns' as <-.
        destruct (discover_complete ns out w Hw Hwu) as [Hin|Hin].
        -- split; [apply in_or_app; auto|]. rewrite (Hold w Hin), (Hold u Hu). apply Hbu; exact Hin.
        -- split; [apply in_or_app; auto|]. fold news in Hin. rewrite (Hnew w Hin), (Hold u Hu). lia.
    + intros x Hx. apply in_app_or in Hx. destruct Hx as [Hx|Hx].
      * rewrite (Hold _ Hx). auto.
      * rewrite (Hnew _ Hx). pose proof Hx as Hx'. apply discover_sound in Hx'. destruct Hx' as (Hxn & Hxu & _).
        eapply pS; [apply Hp; exact Hu | exists ns; auto].
    + destruct Hst as [Hs1 Hs2]. split; [apply in_or_app; auto|]. now rewrite (Hold s Hs1).
Qed.

Lemma Bfs_prefix : forall q out out', Bfs q out out' -> exists tl, out' = out ++ tl.
Proof.
  induction 1 as [out | u ns q out out' _ _ [tl ->]].
  - exists []. now rewrite app_nil_r.
  - exists (discover ns out ++ tl). now rewrite app_assoc.
Qed.

Lemma Bfs_level s out : Bfs [s] [s] out ->
  exists lv, NoDup out /\ sorted_by lv out
    /\ (forall v, In v out -> path s (lv v) v)
    /\ (forall m v, path s m v -> In v out /\ lv v <= m).
Proof.
  intros H.
  assert (HI0 : Inv s (fun _ => 0) [] [s] [s]).
  { apply Build_Inv.
    - reflexivity.
    - constructor; [intros [] | constructor].
    - cbn. split; [intros ? [] | exact I].
    - intros h Hh x Hx. lia.
    - intros u [].
    - intros x [<-|[]]. constructor.
    - split; [left; reflexivity | reflexivity]. }
  destruct (Bfs_inv s _ _ _ H _ _ HI0) as [lv HI].
  exists lv. destruct HI as [_ Hnd Hso _ Hc Hp [Hs1 Hs2]].
  split; [exact Hnd | split; [exact Hso | split; [exact Hp|]]].
  induction 1 as [|n v w _ IHp Hw].
  - split; [exact Hs1 | lia].
  - destruct IHp as [Hv Hle]. destruct (Hc v Hv w Hw) as [Hin Hlw]. split; [exact Hin | lia].
Qed.

Lemma bft_unfold fr fuel start : uni <> Some [] ->
  bft nb uni fr fuel start =
  if negb (inU (Some start)) then TErr ValueError
  else bft_loop nb uni fr fuel [Some start] [Some start] (emit fr (Some start) []).
Proof. intro Hu. unfold bft. destruct uni as [[|x l]|]; try reflexivity. congruence. Qed.

Lemma bft_all_Bfs fuel start out : uni <> Some [] ->
  bft nb uni all fuel start = TOk out -> inU (Some start) = true /\ Bfs [Some start] [Some start] out.
Proof.
  intros Hu H. rewrite (bft_unfold _ _ _ Hu) in H.
  destruct (inU (Some start)); cbn [negb] in H; [|discriminate].
  split; [reflexivity|]. apply (bft_Bfs fuel [Some start] [Some start]). exact H.
Qed.

Theorem exact_bft fuel start out :
  inU (Some start) = true -> uni <> Some [] ->
  bft nb uni all fuel start = TOk out ->
  NoDup out /\ (exists tl, out = Some start :: tl) /\ (forall v, In v out <-> reach (Some start) v).
Proof.
  intros _ Hu H. destruct (bft_all_Bfs _ _ _ Hu H) as [_ HB].
  destruct (Bfs_level _ _ HB) as (lv & Hnd & _ & Hp & Hc). split; [exact Hnd | split].
  - destruct (Bfs_prefix _ _ _ HB) as [tl ->]. exists tl. reflexivity.
  - intro v. split.
    + intro Hv. eapply path_reach. apply Hp. exact Hv.
    + intro Hr. destruct (reach_path _ _ Hr) as [n Hn]. apply (Hc n v Hn).
Qed.

(* C07: vertices are listed in non-decreasing shortest distance from the start; lv is the distance *)
Theorem bft_level_order fuel start out :
  uni <> Some [] -> bft nb uni all fuel start = TOk out ->
  exists lv : node -> nat,
    sorted_by lv out /\
    (forall v, In v out -> dist (Some start) v (lv v)) /\
    (forall l1 x l2 y l3, out = l1 ++ x :: l2 ++ y :: l3 -> lv x <= lv y).
Proof.
  intros Hu H. destruct (bft_all_Bfs _ _ _ Hu H) as [_ HB].
  destruct (Bfs_level _ _ HB) as (lv & _ & Hso & Hp & Hc). exists lv. split; [exact Hso | split].
  - intros v Hv. split; [apply Hp; exact Hv | intros m Hm; apply (Hc m v Hm)].
  - intros l1 x l2 y l3 E. rewrite E in Hso. apply sorted_app in Hso. destruct Hso as (_ & Hx & _).
    cbn in Hx. destruct Hx as [Hx _]. apply Hx. apply in_or_app. right. left. reflexivity.
Qed.

(* the same without the level function: distances are non-decreasing along the listing *)
Corollary bft_dist_monotone fuel start out :
  uni <> Some [] -> bft nb uni all fuel start = TOk out ->
  forall l1 x l2 y l3 dx dy, out = l1 ++ x :: l2 ++ y :: l3 ->
    dist (Some start) x dx -> dist (Some start) y dy -> dx <= dy.
Proof.
  intros Hu H l1 x l2 y l3 dx dy E Hdx Hdy.
  destruct (bft_level_order _ _ _ Hu H) as (lv & _ & Hd & Hle).
  assert (Hx : In x out) by (rewrite E; apply in_or_app; right; left; reflexivity).
  assert (Hy : In y out).
  { rewrite E. apply in_or_app; right; right. apply in_or_app; right; left; reflexivity. }
  rewrite (dist_unique _ _ _ _ Hdx (Hd x Hx)), (dist_unique _ _ _ _ Hdy (Hd y Hy)). eapply Hle; exact E.
Qed.

(* ------------------------------------------------------------------------------------------ *)
(* dft_rec, fres = all: the pre-order specification                                            *)

(* PreL vis ws l: processing the candidate list ws in order, with vis already listed, lists l *)
Inductive PreL : list node -> list node -> list node -> Prop :=
| PL_nil vis : PreL vis [] []
| PL_skip vis w ws l : (In w vis \/ inU w = false) -> PreL vis ws l -> PreL vis (w :: ws) l
| PL_go vis w ns ws l1 l2 : ~ In w vis -> inU w = true -> nbo w = NOk ns ->
    PreL (vis ++ [w]) ns l1 -> PreL (vis ++ w :: l1) ws l2 -> PreL vis (w :: ws) (w :: l1 ++ l2).
(* Pre vis v l: visiting v with vis already listed lists l: v first, then, for each neighbour in
   order that is in the universe and not yet listed, its whole subtree *)
Inductive Pre : list node -> node -> list node -> Prop :=
| Pre_node vis v ns l : nbo v = NOk ns -> PreL (vis ++ [v]) ns l -> Pre vis v (v :: l).

Lemma Pre_PreL vis v l : Pre vis v l -> ~ In v vis -> inU v = true -> PreL vis [v] l.
Proof.
  intros H Hn Hu. destruct H as [vis v ns l Hnb HP].
  replace (v :: l) with (v :: l ++ []) by now rewrite app_nil_r.
  eapply PL_go; eauto. constructor.
Qed.

Lemma PreL_Pre vis v l : PreL vis [v] l -> ~ In v vis -> inU v = true -> Pre vis v l.
Proof.
  intros H Hn Hu. inversion H as [| ? ? ? ? Hs _ | ? ? ns ? l1 l2 _ _ Hnb H1 H2]; subst.
  - destruct Hs; [contradiction | congruence].
  - inversion H2; subst. rewrite app_nil_r. econstructor; eauto.
Qed.

Lemma dfr_list_PreL (rec : node -> list node -> list node -> dres) :
  (forall v out vis' out', rec v (rev out) out = DOk vis' out' ->
     exists l, Pre out v l /\ out' = out ++ l /\ vis' = rev out') ->
  forall ws out vis' out', dfr_list rec ws (rev out) out = DOk vis' out' ->
     exists l, PreL out ws l /\ out' = out ++ l /\ vis' = rev out'.
Proof.
  intros Hrec. induction ws as [|w r IH]; intros out vis' out' H.
  - rewrite dfr_list_nil in H. injection H as <- <-. exists []. rewrite app_nil_r. repeat split. constructor.
  - rewrite dfr_list_cons, nmem_rev in H.
    destruct (inU w) eqn:Hu; cbn [andb] in H.
    + destruct (nmem w out) eqn:Hm; cbn [negb] in H.
      * destruct (IH _ _ _ H) as (l & HP & -> & ->). exists l. repeat split.
        apply PL_skip; [left; now apply nmem_In | exact HP].
      * destruct (rec w (rev out) out) as [vis1 out1| |] eqn:Hr; try discriminate.
        apply Hrec in Hr. destruct Hr as (l1 & HP1 & -> & ->).
        destruct (IH _ _ _ H) as (l2 & HP2 & -> & ->).
        destruct HP1 as [out w ns l1 Hnb HP1].
        exists (w :: l1 ++ l2). split; [|split].
        -- eapply PL_go; eauto. now apply nmem_nIn.
        -- now rewrite <- app_assoc.
        -- reflexivity.
    + destruct (IH _ _ _ H) as (l & HP & -> & ->). exists l. repeat split.
      apply PL_skip; [right; exact Hu | exact HP].
Qed.

Lemma dfr_Pre f : forall v out vis' out',
  dfr nb uni all f v (rev out) out = DOk vis' out' ->
  exists l, Pre out v l /\ out' = out ++ l /\ vis' = rev out'.
Proof.
  induction f as [|f IH]; intros v out vis' out' H; [discriminate|].
  rewrite dfr_S in H. destruct (nbo v) as [ns|e] eqn:Hn; [|discriminate].
  change (emit all v out) with (out ++ [v]) in H. rewrite <- rev_unit in H.
  apply (dfr_list_PreL _ IH) in H. destruct H as (l & HP & -> & ->).
  exists (v :: l). split; [econstructor; eauto | split; [now rewrite <- app_assoc | reflexivity]].
Qed.

Lemma PreL_dfr : forall vis ws l, PreL vis ws l ->
  exists f, forall f', f <= f' ->
    dfr_list (dfr nb uni all f') ws (rev vis) vis = DOk (rev (vis ++ l)) (vis ++ l).
Proof.
  induction 1 as [vis | vis w ws l Hs _ [f IH] | vis w ns ws l1 l2 Hn Hu Hnb _ [f1 IH1] _ [f2 IH2]].
  - exists 0. intros f' _. now rewrite app_nil_r.
  - exists f. intros f' Hf. rewrite dfr_list_cons, nmem_rev.
    replace (inU w && negb (nmem w vis)) with false; [now apply IH|].
    destruct Hs as [Hs|Hs]; [apply nmem_In in Hs; rewrite Hs; now rewrite andb_false_r | now rewrite Hs].
  - exists (S (Nat.max f1 f2)). intros f' Hf. destruct f' as [|f']; [lia|].
    rewrite dfr_list_cons, nmem_rev. apply nmem_nIn in Hn. rewrite Hu, Hn. cbn [andb negb].
    rewrite dfr_S, Hnb. change (emit all w vis) with (vis ++ [w]). rewrite <- rev_unit.
    rewrite IH1 by lia. rewrite <- app_assoc. cbn [app]. rewrite IH2 by lia.
    rewrite <- app_assoc. reflexivity.
Qed.

Lemma Pre_dfr vis v l : Pre vis v l ->
  exists f, forall f', f <= f' -> dfr nb uni all f' v (rev vis) vis = DOk (rev (vis ++ l)) (vis ++ l).
Proof.
  intros [vis0 v0 ns l0 Hnb HP]. destruct (PreL_dfr _ _ _ HP) as [f Hf].
  exists (S f). intros f' Hle. destruct f' as [|f']; [lia|].
  rewrite dfr_S, Hnb. change (emit all v0 vis0) with (vis0 ++ [v0]). rewrite <- rev_unit.
  rewrite Hf by lia. rewrite <- app_assoc. reflexivity.
Qed.

(* C07: dft_rec lists the vertices in pre-order *)
Theorem dfr_preorder fuel start out :
  dft_rec nb uni all fuel start = TOk out -> Pre [] (Some start) out.
Proof.
  unfold dft_rec. destruct (df_preflight uni start); [discriminate|].
  destruct (dfr nb uni all fuel (Some start) [] []) as [vis' out'| |] eqn:E; try discriminate.
  intro H. injection H as <-. apply (dfr_Pre fuel (Some start) []) in E.
  destruct E as (l & HP & -> & _). exact HP.
Qed.

Theorem preorder_dfr start out :
  inU (Some start) = true -> uni <> Some [] ->
  Pre [] (Some start) out -> exists fuel, dft_rec nb uni all fuel start = TOk out.
Proof.
  intros Hs Hu HP. destruct (Pre_dfr _ _ _ HP) as [f Hf]. exists f.
  unfold dft_rec. rewrite (preflight_ok _ Hs Hu).
  change (@nil node) with (rev (@nil node)) at 1. rewrite (Hf f) by lia. reflexivity.
Qed.

Lemma PreL_fresh : forall vis ws l, PreL vis ws l -> forall x, In x l -> ~ In x vis.
Proof.
  induction 1 as [vis | vis w ws l _ _ IH | vis w ns ws l1 l2 Hn _ _ _ IH1 _ IH2]; intros x Hx.
  - destruct Hx.
  - auto.
  - destruct Hx as [<-|Hx]; [exact Hn|]. apply in_app_or in Hx. destruct Hx as [Hx|Hx].
    + intro Hv. apply (IH1 x Hx). apply in_or_app; auto.
    + intro Hv. apply (IH2 x Hx). apply in_or_app; auto.
Qed.

End TravProofs.

(* ------------------------------------------------------------------------------------------ *)
(* reversed neighbour lists: dft_iter is dft_rec over the reversed neighbour function          *)

Lemma nbo_revnb nb v :
  nbo (revnb nb) v = match nbo nb v with NOk l => NOk (rev l) | NErr e => NErr e end.
Proof. destruct v; reflexivity. Qed.

Lemma revnb_invol nb x : revnb (revnb nb) x = nb x.
Proof. unfold revnb. destruct (nb x); [now rewrite rev_involutive | reflexivity]. Qed.

Lemma nbo_ext nb nb' : (forall x, nb x = nb' x) -> forall v, nbo nb v = nbo nb' v.
Proof. intros H [x|]; cbn; auto. Qed.

Lemma edge_revnb nb uni a b : edge (revnb nb) uni a b <-> edge nb uni a b.
Proof.
  split; intros (ns & Hn & Hin & Hu).
  - rewrite nbo_revnb in Hn. destruct (nbo nb a) as [l|e] eqn:E; [|discriminate].
    injection Hn as <-. exists l. repeat split; auto. now apply in_rev.
  - exists (rev ns). rewrite nbo_revnb, Hn. repeat split; auto. now apply -> in_rev.
Qed.

Lemma reach_revnb nb uni s v : reach (revnb nb) uni s v <-> reach nb uni s v.
Proof.
  split; induction 1; try constructor; eapply reach_step; eauto; now apply edge_revnb.
Qed.

Lemma PreL_ext nb nb' uni : (forall x, nb x = nb' x) ->
  forall vis ws l, PreL nb uni vis ws l -> PreL nb' uni vis ws l.
Proof.
  intros He. induction 1; [constructor | now apply PL_skip | eapply PL_go; eauto].
  rewrite <- (nbo_ext _ _ He). eassumption.
Qed.

Section Rev.
Variable nb : nat -> nres.
Variable uni : option (list nat).
Variable fres : node -> bool.
Notation inU := (Trav.inU uni).

(* splitting an explicit-stack run at the point where the candidates ws have been dealt with:
   the stack is the defunctionalised continuation of the recursion *)
Lemma dfi_PreL n : forall f, f <= n -> forall ws rest vis d',
  dfi_loop nb uni all f (ws ++ rest) vis vis = TOk d' ->
  exists l f', f' <= f /\ PreL (revnb nb) uni vis ws l /\
               dfi_loop nb uni all f' rest (vis ++ l) (vis ++ l) = TOk d'.
Proof.
  induction n as [|n IHn]; intros f Hf ws rest vis d' H.
  - destruct f; [discriminate | lia].
  - destruct f as [|f]; [discriminate|]. destruct ws as [|w r].
    + exists [], (S f). rewrite app_nil_r. split; [lia | split; [constructor | exact H]].
    + cbn [app] in H. rewrite dfi_loop_S in H. destruct (nmem w vis) eqn:Hm.
      * destruct (IHn f ltac:(lia) r rest vis d' H) as (l & f' & Hle & HP & HD).
        exists l, f'. split; [lia | split; [|exact HD]].
        apply PL_skip; [left; now apply nmem_In | exact HP].
      * destruct (inU w) eqn:Hu; cbn [negb] in H.
        -- destruct (nbo nb w) as [ns|e] eqn:Hn; [|discriminate].
           change (emit all w vis) with (vis ++ [w]) in H.
           destruct (IHn f ltac:(lia) (rev ns) (r ++ rest) (vis ++ [w]) d' H) as (l1 & f1 & Hle1 & HP1 & HD1).
           destruct (IHn f1 ltac:(lia) r rest _ d' HD1) as (l2 & f2 & Hle2 & HP2 & HD2).
           rewrite <- app_assoc in HP2, HD2. cbn [app] in HP2, HD2. rewrite <- app_assoc in HD2.
           exists (w :: l1 ++ l2), f2. split; [lia | split; [|exact HD2]].
           eapply PL_go; [now apply nmem_nIn | exact Hu | | exact HP1 | exact HP2].
           now rewrite nbo_revnb, Hn.
        -- destruct (IHn f ltac:(lia) r rest vis d' H) as (l & f' & Hle & HP & HD).
           exists l, f'. split; [lia | split; [|exact HD]].
           apply PL_skip; [right; exact Hu | exact HP].
Qed.

Lemma PreL_dfi : forall vis ws l, PreL (revnb nb) uni vis ws l -> forall rest d' f0,
  dfi_loop nb uni all f0 rest (vis ++ l) (vis ++ l) = TOk d' ->
  exists f, dfi_loop nb uni all f (ws ++ rest) vis vis = TOk d'.
Proof.
  induction 1 as [vis | vis w ws l Hs _ IH | vis w ns ws l1 l2 Hn Hu Hnb _ IH1 _ IH2]; intros rest d' f0 H.
  - rewrite app_nil_r in H. exists f0. exact H.
  - destruct (IH _ _ _ H) as [f Hf]. exists (S f). cbn [app]. rewrite dfi_loop_S.
    destruct (nmem w vis) eqn:Hm; [exact Hf|].
    destruct Hs as [Hs|Hs]; [apply nmem_In in Hs; congruence|]. rewrite Hs. exact Hf.
  - rewrite nbo_revnb in Hnb. destruct (nbo nb w) as [ns0|e] eqn:Hn0; [|discriminate].
    injection Hnb as <-.
    assert (H' : dfi_loop nb uni all f0 rest ((vis ++ w :: l1) ++ l2) ((vis ++ w :: l1) ++ l2) = TOk d').
    { rewrite <- app_assoc. exact H. }
    destruct (IH2 _ _ _ H') as [f2 Hf2].
    assert (H'' : dfi_loop nb uni all f2 (ws ++ rest) ((vis ++ [w]) ++ l1) ((vis ++ [w]) ++ l1) = TOk d').
    { rewrite <- app_assoc. exact Hf2. }
    destruct (IH1 _ _ _ H'') as [f1 Hf1].
    exists (S f1). cbn [app]. rewrite dfi_loop_S. apply nmem_nIn in Hn. rewrite Hn, Hu, Hn0. exact Hf1.
Qed.

Lemma dfi_all_PreL fuel start out :
  dft_iter nb uni all fuel start = TOk out -> PreL (revnb nb) uni [] [Some start] out.
Proof.
  unfold dft_iter. destruct (df_preflight uni start); [discriminate|]. intro H.
  destruct (dfi_PreL fuel fuel (le_n _) [Some start] [] [] out H) as (l & f' & _ & HP & HD).
  destruct f'; [discriminate|]. cbn in HD. injection HD as <-. exact HP.
Qed.

Lemma PreL_dfi_all start out :
  inU (Some start) = true -> uni <> Some [] ->
  PreL (revnb nb) uni [] [Some start] out -> exists fuel, dft_iter nb uni all fuel start = TOk out.
Proof.
  intros Hs Hu HP. destruct (PreL_dfi _ _ _ HP [] out 1 eq_refl) as [f Hf].
  exists f. unfold dft_iter. rewrite (preflight_ok _ _ Hs Hu). exact Hf.
Qed.

(* C07, fres = all *)
Lemma dfi_is_reversed_preorder_all fuel start out :
  dft_iter nb uni all fuel start = TOk out ->
  exists fuel', dft_rec (revnb nb) uni all fuel' start = TOk out.
Proof.
  intro H. pose proof (dfi_all_PreL _ _ _ H) as HP.
  unfold dft_iter in H. destruct (df_preflight uni start) eqn:Hpf; [discriminate|].
  destruct (preflight_inv _ _ Hpf) as [Hs Hu].
  apply preorder_dfr; auto. apply PreL_Pre; auto.
Qed.

Lemma reversed_preorder_is_dfi_all fuel start out :
  dft_rec (revnb nb) uni all fuel start = TOk out ->
  exists fuel', dft_iter nb uni all fuel' start = TOk out.
Proof.
  intro H. pose proof (dfr_preorder _ _ _ _ _ H) as HP.
  unfold dft_rec in H. destruct (df_preflight uni start) eqn:Hpf; [discriminate|].
  destruct (preflight_inv _ _ Hpf) as [Hs Hu].
  apply PreL_dfi_all; auto. apply Pre_PreL; auto.
Qed.

(* C07: the iterative DFS is the recursive pre-order over the reversed neighbour lists *)
Theorem dfi_is_reversed_preorder fuel start out :
  dft_iter nb uni fres fuel start = TOk out ->
  exists fuel', dft_rec (revnb nb) uni fres fuel' start = TOk out.
Proof.
  rewrite ff_result_dfi. destruct (dft_iter nb uni all fuel start) as [o| |] eqn:E; try discriminate.
  cbn [tmap]. intro H. injection H as <-.
  destruct (dfi_is_reversed_preorder_all _ _ _ E) as [f Hf]. exists f.
  rewrite ff_result_dfr, Hf. reflexivity.
Qed.

Theorem reversed_preorder_is_dfi fuel start out :
  dft_rec (revnb nb) uni fres fuel start = TOk out ->
  exists fuel', dft_iter nb uni fres fuel' start = TOk out.
Proof.
  rewrite ff_result_dfr. destruct (dft_rec (revnb nb) uni all fuel start) as [o| |] eqn:E; try discriminate.
  cbn [tmap]. intro H. injection H as <-.
  destruct (reversed_preorder_is_dfi_all _ _ _ E) as [f Hf]. exists f.
  rewrite ff_result_dfi, Hf. reflexivity.
Qed.

End Rev.

(* C06 for dft_rec, through the iterative traversal of the reversed neighbour function *)
Theorem exact_dfr nb uni fuel start out :
  inU uni (Some start) = true -> uni <> Some [] ->
  dft_rec nb uni all fuel start = TOk out ->
  NoDup out /\ (exists tl, out = Some start :: tl) /\
  (forall v, In v out <-> reach nb uni (Some start) v).
Proof.
  intros Hs Hu H.
  apply dfr_preorder in H. apply Pre_PreL in H; auto.
  apply (PreL_ext nb (revnb (revnb nb))) in H; [|intro x; symmetry; apply revnb_invol].
  apply PreL_dfi_all in H; auto. destruct H as [f H].
  destruct (exact_dfi (revnb nb) uni f start out Hs Hu H) as (Hnd & Hhd & Hin).
  split; [exact Hnd | split; [exact Hhd|]]. intro v. rewrite Hin. apply reach_revnb.
Qed.

(* C06: the three traversals list the same vertices *)
Corollary three_agree nb uni f1 f2 f3 s o1 o2 o3 :
  bft nb uni all f1 s = TOk o1 -> dft_rec nb uni all f2 s = TOk o2 -> dft_iter nb uni all f3 s = TOk o3 ->
  Permutation o1 o2 /\ Permutation o2 o3.
Proof.
  intros H1 H2 H3.
  assert (Hpf : inU uni (Some s) = true /\ uni <> Some []).
  { unfold dft_iter in H3. destruct (df_preflight uni s) eqn:E; [discriminate|]. now apply preflight_inv. }
  destruct Hpf as [Hs Hu].
  destruct (exact_bft nb uni f1 s o1 Hs Hu H1) as (N1 & _ & E1).
  destruct (exact_dfr nb uni f2 s o2 Hs Hu H2) as (N2 & _ & E2).
  destruct (exact_dfi nb uni f3 s o3 Hs Hu H3) as (N3 & _ & E3).
  split; apply NoDup_Permutation; auto; intro v.
  - now rewrite E1, E2.
  - now rewrite E2, E3.
Qed.

(* ------------------------------------------------------------------------------------------ *)
(* C. fuel monotonicity;  F. extensionality in the neighbour function                          *)

Lemma dfr_list_mono uni (rec rec' : node -> list node -> list node -> dres) :
  (forall w vis out, rec w vis out <> DFuel -> rec' w vis out = rec w vis out) ->
  forall ws vis out, dfr_list uni rec ws vis out <> DFuel ->
    dfr_list uni rec' ws vis out = dfr_list uni rec ws vis out.
Proof.
  intros Hrec. induction ws as [|w r IH]; intros vis out H; [reflexivity|].
  rewrite dfr_list_cons in H. rewrite !dfr_list_cons.
  destruct (inU uni w && negb (nmem w vis)); [|now apply IH].
  destruct (rec w vis out) as [vis1 out1|e|] eqn:E.
  - rewrite Hrec, E by (rewrite E; discriminate). now apply IH.
  - rewrite Hrec, E by (rewrite E; discriminate). reflexivity.
  - contradiction.
Qed.

Lemma dfr_list_ext uni (rec rec' : node -> list node -> list node -> dres) :
  (forall w vis out, rec w vis out = rec' w vis out) ->
  forall ws vis out, dfr_list uni rec ws vis out = dfr_list uni rec' ws vis out.
Proof.
  intros Hrec. induction ws as [|w r IH]; intros vis out; [reflexivity|].
  rewrite !dfr_list_cons. destruct (inU uni w && negb (nmem w vis)); [|apply IH].
  rewrite Hrec. destruct (rec' w vis out); auto.
Qed.

Section Mono.
Variable nb : nat -> nres.
Variable uni : option (list nat).
Variable fres : node -> bool.

Lemma bft_loop_mono f : forall q vis out, bft_loop nb uni fres f q vis out <> TFuel ->
  forall f', f <= f' -> bft_loop nb uni fres f' q vis out = bft_loop nb uni fres f q vis out.
Proof.
  induction f as [|f IH]; intros q vis out H f' Hle; [now contradiction H|].
  destruct f' as [|f']; [lia|]. rewrite bft_loop_S in H. rewrite !bft_loop_S.
  destruct q as [|u q]; [reflexivity|]. destruct (nbo nb u) as [ns|e]; [|reflexivity].
  destruct (fold_left (bft_discover uni fres) ns (q, vis, out)) as [[q2 vis2] out2].
  apply IH; [exact H | lia].
Qed.

Lemma dfr_mono f : forall f', f <= f' -> forall v vis out, dfr nb uni fres f v vis out <> DFuel ->
  dfr nb uni fres f' v vis out = dfr nb uni fres f v vis out.
Proof.
  induction f as [|f IH]; intros f' Hle v vis out H; [now contradiction H|].
  destruct f' as [|f']; [lia|]. rewrite dfr_S in H. rewrite !dfr_S.
  destruct (nbo nb v) as [ns|e]; [|reflexivity].
  apply dfr_list_mono; [|exact H]. apply IH. lia.
Qed.

Lemma dfi_loop_mono f : forall st disc out, dfi_loop nb uni fres f st disc out <> TFuel ->
  forall f', f <= f' -> dfi_loop nb uni fres f' st disc out = dfi_loop nb uni fres f st disc out.
Proof.
  induction f as [|f IH]; intros st disc out H f' Hle; [now contradiction H|].
  destruct f' as [|f']; [lia|]. rewrite dfi_loop_S in H. rewrite !dfi_loop_S.
  destruct st as [|v st]; [reflexivity|].
  destruct (nmem v disc); [apply IH; [exact H | lia]|].
  destruct (negb (inU uni v)); [apply IH; [exact H | lia]|].
  destruct (nbo nb v) as [ns|e]; [|reflexivity]. apply IH; [exact H | lia].
Qed.

(* C06 termination, part 1: once a traversal answers, more fuel does not change the answer *)
Theorem fuel_mono_bft fuel start r :
  bft nb uni fres fuel start = r -> r <> TFuel ->
  forall fuel', fuel <= fuel' -> bft nb uni fres fuel' start = r.
Proof.
  intros <- Hr fuel' Hle. unfold bft in *.
  assert (H : (if negb (inU uni (Some start)) then TErr ValueError
               else bft_loop nb uni fres fuel [Some start] [Some start] (emit fres (Some start) [])) <> TFuel ->
              (if negb (inU uni (Some start)) then TErr ValueError
               else bft_loop nb uni fres fuel' [Some start] [Some start] (emit fres (Some start) [])) =
              (if negb (inU uni (Some start)) then TErr ValueError
               else bft_loop nb uni fres fuel [Some start] [Some start] (emit fres (Some start) []))).
  { destruct (negb (inU uni (Some start))); [reflexivity|]. intro H. now apply bft_loop_mono. }
  destruct uni as [[|x l]|]; [reflexivity | now apply H | now apply H].
Qed.

Theorem fuel_mono_dfr fuel start r :
  dft_rec nb uni fres fuel start = r -> r <> TFuel ->
  forall fuel', fuel <= fuel' -> dft_rec nb uni fres fuel' start = r.
Proof.
  intros <- Hr fuel' Hle. unfold dft_rec in *. destruct (df_preflight uni start); [reflexivity|].
  rewrite (dfr_mono fuel fuel' Hle); [reflexivity|].
  intro E. rewrite E in Hr. now apply Hr.
Qed.

Theorem fuel_mono_dfi fuel start r :
  dft_iter nb uni fres fuel start = r -> r <> TFuel ->
  forall fuel', fuel <= fuel' -> dft_iter nb uni fres fuel' start = r.
Proof.
  intros <- Hr fuel' Hle. unfold dft_iter in *. destruct (df_preflight uni start); [reflexivity|].
  now apply dfi_loop_mono.
Qed.

End Mono.

Section Ext.
Variable nb nb' : nat -> nres.
Variable uni : option (list nat).
Variable fres : node -> bool.
Hypothesis Hnb : forall v, nb v = nb' v.

Lemma bft_loop_ext f : forall q vis out,
  bft_loop nb uni fres f q vis out = bft_loop nb' uni fres f q vis out.
Proof using Hnb.
  induction f as [|f IH]; intros q vis out; [reflexivity|]. rewrite !bft_loop_S.
  destruct q as [|u q]; [reflexivity|]. rewrite (nbo_ext _ _ Hnb).
  destruct (nbo nb' u) as [ns|e]; [|reflexivity].
  destruct (fold_left (bft_discover uni fres) ns (q, vis, out)) as [[q2 vis2] out2]. apply IH.
Qed.

Lemma dfr_ext f : forall v vis out, dfr nb uni fres f v vis out = dfr nb' uni fres f v vis out.
Proof using Hnb.
  induction f as [|f IH]; intros v vis out; [reflexivity|]. rewrite !dfr_S.
  rewrite (nbo_ext _ _ Hnb). destruct (nbo nb' v) as [ns|e]; [|reflexivity].
  apply dfr_list_ext. exact IH.
Qed.

Lemma dfi_loop_ext f : forall st disc out,
  dfi_loop nb uni fres f st disc out = dfi_loop nb' uni fres f st disc out.
Proof using Hnb.
  induction f as [|f IH]; intros st disc out; [reflexivity|]. rewrite !dfi_loop_S.
  destruct st as [|v st]; [reflexivity|]. rewrite (nbo_ext _ _ Hnb), !IH.
  destruct (nbo nb' v) as [ns|e]; [rewrite IH|]; reflexivity.
Qed.

(* F: the traversals depend on the neighbour function only through its values *)
Theorem bft_ext fuel start : bft nb uni fres fuel start = bft nb' uni fres fuel start.
Proof using Hnb. unfold bft. rewrite bft_loop_ext. reflexivity. Qed.
Theorem dft_rec_ext fuel start : dft_rec nb uni fres fuel start = dft_rec nb' uni fres fuel start.
Proof using Hnb. unfold dft_rec. rewrite dfr_ext. reflexivity. Qed.
Theorem dft_iter_ext fuel start : dft_iter nb uni fres fuel start = dft_iter nb' uni fres fuel start.
Proof using Hnb. unfold dft_iter. rewrite dfi_loop_ext. reflexivity. Qed.
End Ext.

(* ------------------------------------------------------------------------------------------ *)
(* D. the canonical scan: bft is "take the i-th listed vertex, append its new neighbours"      *)

Section Canon.
Variable nb : nat -> nres.
Variable uni : option (list nat).

Fixpoint scan (fuel i : nat) (out : list node) : tres :=
  match fuel with
  | 0 => TFuel
  | S f =>
      match nth_error out i with
      | None => TOk out
      | Some u =>
          match nbo nb u with
          | NOk ns => scan f (S i) (out ++ discover uni ns out)
          | NErr e => TErr e
          end
      end
  end.

Lemma skipn_nth {A} : forall i (l : list A) u, nth_error l i = Some u -> skipn i l = u :: skipn (S i) l.
Proof.
  induction i as [|i IH]; intros [|a l] u H; cbn in H; try discriminate.
  - injection H as ->. reflexivity.
  - apply IH in H. exact H.
Qed.

Lemma bft_scan f : forall i out, i <= length out ->
  bft_loop nb uni all f (skipn i out) (rev out) out = scan f i out.
Proof.
  induction f as [|f IH]; intros i out Hi; [reflexivity|].
  rewrite bft_loop_S. cbn [scan]. destruct (nth_error out i) as [u|] eqn:E.
  - assert (Hlt : i < length out) by (apply nth_error_Some; congruence).
    rewrite (skipn_nth _ _ _ E). destruct (nbo nb u) as [ns|e]; [|reflexivity].
    rewrite fold_discover. rewrite <- IH by (rewrite app_length; lia).
    rewrite skipn_app. replace (S i - length out) with 0 by lia. reflexivity.
  - apply nth_error_None in E. rewrite skipn_all2 by exact E. reflexivity.
Qed.

(* C07: bft is the canonical scan (answers, errors and fuel exhaustion included) *)
Theorem bft_canonical fuel start :
  uni <> Some [] -> inU uni (Some start) = true ->
  bft nb uni all fuel start = scan fuel 0 [Some start].
Proof.
  intros Hu Hs. rewrite (bft_unfold _ _ _ _ _ Hu), Hs. cbn [negb].
  exact (bft_scan fuel 0 [Some start] (Nat.le_0_l _)).
Qed.
End Canon.

(* ------------------------------------------------------------------------------------------ *)
(* C. explicit fuel bounds                                                                     *)

Section Bound.
Variable nb : nat -> nres.
Variable uni : option (list nat).
Variable fres : node -> bool.
Variable N : nat.

(* every vertex appearing in a neighbour list is None or Some x with x < N *)
Definition bounded : Prop := forall x ns y, nb x = NOk ns -> In (Some y) ns -> y < N.

Definition Slist (start : nat) : list node := None :: Some start :: map Some (seq 0 N).

Lemma Slist_length start : length (Slist start) = N + 2.
Proof. unfold Slist. cbn. rewrite map_length, seq_length. lia. Qed.

Lemma nbo_in_S start v ns : bounded -> nbo nb v = NOk ns -> incl ns (Slist start).
Proof.
  intros Hb Hn [y|] Hy.
  - right; right. apply in_map. apply in_seq. destruct v as [x|]; [|discriminate].
    specialize (Hb x ns y Hn Hy). lia.
  - left; reflexivity.
Qed.

Lemma card start l : NoDup l -> incl l (Slist start) -> length l <= N + 2.
Proof. intros Hn Hi. rewrite <- (Slist_length start). now apply NoDup_incl_length. Qed.

Lemma tmap_fuel r : tmap fres r = TFuel -> r = TFuel.
Proof. destruct r; cbn; congruence. Qed.

(* --- bft --- *)
Lemma bft_loop_bound start : bounded -> forall f q out,
  NoDup out -> incl out (Slist start) -> N + 3 + length q <= f + length out ->
  bft_loop nb uni all f q (rev out) out <> TFuel.
Proof.
  intros Hb. induction f as [|f IH]; intros q out Hn Hi Hf.
  - pose proof (card _ _ Hn Hi). cbn in Hf. lia.
  - rewrite bft_loop_S. destruct q as [|u q]; [discriminate|].
    destruct (nbo nb u) as [ns|e] eqn:Hnb; [|discriminate].
    rewrite fold_discover. apply IH.
    + apply NoDup_app_disj; [exact Hn | apply discover_nodup |].
      intros x Hx. apply discover_sound in Hx. destruct Hx as (_ & _ & Hx). exact Hx.
    + intros x Hx. apply in_app_or in Hx. destruct Hx as [Hx|Hx]; [auto|].
      apply discover_sound in Hx. destruct Hx as (Hx & _). eapply nbo_in_S; eauto.
    + rewrite !app_length. cbn in Hf. lia.
Qed.

Theorem bft_fuel_enough start : bounded -> bft nb uni fres (N + 3) start <> TFuel.
Proof.
  intros Hb H. rewrite ff_result_bft in H. apply tmap_fuel in H. revert H.
  unfold bft.
  assert (G : (if negb (inU uni (Some start)) then TErr ValueError
               else bft_loop nb uni all (N + 3) [Some start] [Some start] (emit all (Some start) [])) <> TFuel).
  { destruct (negb (inU uni (Some start))); [discriminate|].
    apply (bft_loop_bound start Hb (N + 3) [Some start] [Some start]).
    - constructor; [intros [] | constructor].
    - intros x [<-|[]]. right; left; reflexivity.
    - cbn. lia. }
  destruct uni as [[|x l]|]; [discriminate | exact G | exact G].
Qed.

(* --- dft_rec --- *)
Lemma PreL_props (P : node -> Prop) :
  (forall x ns y, nbo nb x = NOk ns -> In y ns -> P y) ->
  forall vis ws l, PreL nb uni vis ws l -> NoDup vis -> (forall x, In x ws -> P x) ->
  NoDup (vis ++ l) /\ (forall x, In x l -> P x).
Proof.
  intros Hcl. induction 1 as [vis | vis w ws l _ _ IH | vis w ns ws l1 l2 Hn _ Hnb _ IH1 _ IH2]; intros Hnd Hws.
  - rewrite app_nil_r. split; [exact Hnd | intros x []].
  - apply IH; [exact Hnd | intros x Hx; apply Hws; right; exact Hx].
  - destruct IH1 as [N1 P1]; [now apply NoDup_snoc | intros x Hx; eapply Hcl; eauto |].
    rewrite <- app_assoc in N1. cbn [app] in N1.
    destruct IH2 as [N2 P2]; [exact N1 | intros x Hx; apply Hws; right; exact Hx |].
    rewrite <- app_assoc in N2. cbn [app] in N2. split; [exact N2|].
    intros x [<-|Hx]; [apply Hws; left; reflexivity|].
    apply in_app_or in Hx. destruct Hx; auto.
Qed.

Lemma Pre_props (P : node -> Prop) :
  (forall x ns y, nbo nb x = NOk ns -> In y ns -> P y) ->
  forall vis v l, Pre nb uni vis v l -> NoDup vis -> ~ In v vis -> P v ->
  NoDup (vis ++ l) /\ (forall x, In x l -> P x).
Proof.
  intros Hcl vis v l [vis0 v0 ns l0 Hnb HP] Hnd Hn Hv.
  destruct (PreL_props P Hcl _ _ _ HP) as [N1 P1]; [now apply NoDup_snoc | intros x Hx; eapply Hcl; eauto |].
  rewrite <- app_assoc in N1. cbn [app] in N1. split; [exact N1|].
  intros x [<-|Hx]; auto.
Qed.

Lemma dfr_bound start : bounded -> forall f v out,
  NoDup out -> ~ In v out -> incl (v :: out) (Slist start) -> N + 3 <= f + length out ->
  dfr nb uni all f v (rev out) out <> DFuel.
Proof.
  intros Hb. induction f as [|f IH]; intros v out Hnd Hn Hi Hf.
  - assert (Hc : NoDup (v :: out)) by (constructor; assumption).
    pose proof (card _ _ Hc Hi) as Hl. cbn in Hl, Hf. lia.
  - rewrite dfr_S. destruct (nbo nb v) as [ns|e] eqn:Hnb; [|discriminate].
    change (emit all v out) with (out ++ [v]). rewrite <- rev_unit.
    assert (Inner : forall ws out1, NoDup out1 -> incl out1 (Slist start) -> incl ws (Slist start) ->
              N + 3 <= f + length out1 ->
              dfr_list uni (dfr nb uni all f) ws (rev out1) out1 <> DFuel).
    { induction ws as [|w r IHws]; intros out1 Hnd1 Hi1 Hws Hf1; [discriminate|].
      rewrite dfr_list_cons, nmem_rev.
      assert (Hr : incl r (Slist start)) by (intros x Hx; apply Hws; right; exact Hx).
      destruct (inU uni w); cbn [andb]; [|now apply IHws].
      destruct (nmem w out1) eqn:Hm; cbn [negb]; [now apply IHws|].
      apply nmem_nIn in Hm.
      assert (Hiw : incl (w :: out1) (Slist start)).
      { intros x [<-|Hx]; [apply Hws; left; reflexivity | auto]. }
      destruct (dfr nb uni all f w (rev out1) out1) as [vis2 out2|e|] eqn:E.
      - apply dfr_Pre in E. destruct E as (l & HP & -> & ->).
        destruct (Pre_props (fun x => In x (Slist start)) (fun x ns y Hx Hy => nbo_in_S start x ns Hb Hx y Hy)
                    _ _ _ HP Hnd1 Hm) as [N2 P2]; [apply Hws; left; reflexivity|].
        apply IHws; auto.
        + intros x Hx. apply in_app_or in Hx. destruct Hx; auto.
        + rewrite app_length. lia.
      - discriminate.
      - exfalso. apply (IH w out1 Hnd1 Hm Hiw Hf1). exact E. }
    apply Inner.
    + now apply NoDup_snoc.
    + intros x Hx. apply in_app_or in Hx. destruct Hx as [Hx|[<-|[]]]; apply Hi; [right; exact Hx | left; reflexivity].
    + eapply nbo_in_S; eauto.
    + rewrite app_length. cbn. cbn in Hf. lia.
Qed.

Theorem dft_rec_fuel_enough start : bounded -> dft_rec nb uni fres (N + 3) start <> TFuel.
Proof.
  intros Hb H. rewrite ff_result_dfr in H. apply tmap_fuel in H. revert H.
  unfold dft_rec. destruct (df_preflight uni start); [discriminate|].
  destruct (dfr nb uni all (N + 3) (Some start) [] []) as [vis out|e|] eqn:E; try discriminate.
  intros _. revert E. apply (dfr_bound start Hb (N + 3) (Some start) []).
  - constructor.
  - intros [].
  - intros x [<-|[]]. right; left; reflexivity.
  - cbn. lia.
Qed.

(* --- dft_iter --- *)
Definition nblen (v : node) : nat := match nbo nb v with NOk l => length l | NErr _ => 0 end.

(* total length of the neighbour lists of the vertices of L not yet discovered *)
Fixpoint rem (L out : list node) : nat :=
  match L with
  | [] => 0
  | x :: t => (if nmem x out then 0 else nblen x) + rem t out
  end.

Definition Llist (start : nat) : list node := Some start :: map Some (seq 0 N).
(* the fuel that is always enough for dft_iter: 2 + the neighbour-list lengths of start and of 0..N-1 *)
Definition dfi_fuel (start : nat) : nat := 2 + list_sum (map nblen (Llist start)).

Lemma rem_nil L : rem L [] = list_sum (map nblen L).
Proof. induction L as [|x t IH]; cbn; [reflexivity | now rewrite IH]. Qed.

Lemma nmem_snoc x out v : nmem x (out ++ [v]) = nmem x out || oeqb x v.
Proof. unfold nmem. rewrite existsb_app. cbn. now rewrite orb_false_r. Qed.

Lemma rem_le L out v : rem L (out ++ [v]) <= rem L out.
Proof.
  induction L as [|x t IH]; cbn; [lia|]. rewrite nmem_snoc.
  destruct (nmem x out); cbn; [lia|]. destruct (oeqb x v); lia.
Qed.

Lemma rem_dec L out v : In v L -> nmem v out = false -> rem L (out ++ [v]) + nblen v <= rem L out.
Proof.
  induction L as [|x t IH]; intros Hin Hm; [destruct Hin|]. cbn. rewrite nmem_snoc.
  destruct Hin as [->|Hin].
  - rewrite Hm, oeqb_refl. cbn. pose proof (rem_le t out v). lia.
  - specialize (IH Hin Hm). destruct (nmem x out); cbn; [lia|]. destruct (oeqb x v); lia.
Qed.

Lemma dfi_loop_bound start : bounded -> forall f st out,
  incl st (Slist start) -> length st + 1 + rem (Llist start) out <= f ->
  dfi_loop nb uni all f st out out <> TFuel.
Proof.
  intros Hb. induction f as [|f IH]; intros st out Hi Hf; [lia|].
  rewrite dfi_loop_S. destruct st as [|v st]; [discriminate|].
  assert (Hst : incl st (Slist start)) by (intros x Hx; apply Hi; right; exact Hx).
  cbn [length] in Hf.
  destruct (nmem v out) eqn:Hm; [apply IH; [exact Hst | lia]|].
  destruct (negb (inU uni v)); [apply IH; [exact Hst | lia]|].
  destruct (nbo nb v) as [ns|e] eqn:Hnb; [|discriminate].
  change (emit all v out) with (out ++ [v]). apply IH.
  - intros x Hx. apply in_app_or in Hx. destruct Hx as [Hx|Hx]; [|auto].
    apply in_rev in Hx. eapply nbo_in_S; eauto.
  - assert (HvL : In v (Llist start)).
    { destruct (Hi v (or_introl eq_refl)) as [<-|HvL]; [discriminate | exact HvL]. }
    pose proof (rem_dec _ _ _ HvL Hm) as Hd. unfold nblen in Hd at 1. rewrite Hnb in Hd.
    rewrite app_length, rev_length. unfold node in *. lia.
Qed.

Theorem dft_iter_fuel_enough start : bounded -> dft_iter nb uni fres (dfi_fuel start) start <> TFuel.
Proof.
  intros Hb H. rewrite ff_result_dfi in H. apply tmap_fuel in H. revert H.
  unfold dft_iter. destruct (df_preflight uni start); [discriminate|].
  apply (dfi_loop_bound start Hb).
  - intros x [<-|[]]. right; left; reflexivity.
  - rewrite rem_nil. unfold dfi_fuel. cbn [length]. lia.
Qed.

End Bound.

(* ------------------------------------------------------------------------------------------ *)
(* errors: a traversal raises only at the preflight, or the neighbour error of a reachable node *)

Section Err.
Variable nb : nat -> nres.
Variable uni : option (list nat).
Variable fres : node -> bool.
Variable s : node.
Variable e : exn.

Definition raises_at : Prop := exists v, reach nb uni s v /\ nbo nb v = NErr e.

Lemma bft_loop_err f : forall q out, (forall x, In x q -> reach nb uni s x) ->
  bft_loop nb uni all f q (rev out) out = TErr e -> raises_at.
Proof.
  induction f as [|f IH]; intros q out Hq H; [discriminate|].
  rewrite bft_loop_S in H. destruct q as [|u q]; [discriminate|].
  destruct (nbo nb u) as [ns|e'] eqn:Hnb.
  - rewrite fold_discover in H. apply IH in H; [exact H|].
    intros x Hx. apply in_app_or in Hx. destruct Hx as [Hx|Hx]; [apply Hq; right; exact Hx|].
    apply discover_sound in Hx. destruct Hx as (Hx & Hu & _).
    eapply reach_step; [apply Hq; left; reflexivity | exists ns; auto].
  - injection H as ->. exists u. split; [apply Hq; left; reflexivity | exact Hnb].
Qed.

Lemma dfi_loop_err f : forall st out, (forall x, In x st -> inU uni x = true -> reach nb uni s x) ->
  dfi_loop nb uni all f st out out = TErr e -> raises_at.
Proof.
  induction f as [|f IH]; intros st out Hst H; [discriminate|].
  rewrite dfi_loop_S in H. destruct st as [|v st]; [discriminate|].
  assert (Hst' : forall x, In x st -> inU uni x = true -> reach nb uni s x).
  { intros x Hx. apply Hst. right; exact Hx. }
  destruct (nmem v out); [now apply IH in H|].
  destruct (inU uni v) eqn:Hu; cbn [negb] in H; [|now apply IH in H].
  destruct (nbo nb v) as [ns|e'] eqn:Hnb.
  - apply IH in H; [exact H|]. intros x Hx Hxu. apply in_app_or in Hx. destruct Hx as [Hx|Hx]; [|auto].
    apply in_rev in Hx. eapply reach_step; [apply Hst; [left; reflexivity | exact Hu] | exists ns; auto].
  - injection H as ->. exists v. split; [apply Hst; [left; reflexivity | exact Hu] | exact Hnb].
Qed.

Lemma dfr_err f : forall v vis out, reach nb uni s v ->
  dfr nb uni fres f v vis out = DErr e -> raises_at.
Proof.
  induction f as [|f IH]; intros v vis out Hv H; [discriminate|].
  rewrite dfr_S in H. destruct (nbo nb v) as [ns|e'] eqn:Hnb.
  - assert (Inner : forall ws vis out, (forall x, In x ws -> inU uni x = true -> reach nb uni s x) ->
              dfr_list uni (dfr nb uni fres f) ws vis out = DErr e -> raises_at).
    { induction ws as [|w r IHws]; intros vis1 out1 Hws H1; [discriminate|].
      rewrite dfr_list_cons in H1.
      assert (Hr : forall x, In x r -> inU uni x = true -> reach nb uni s x).
      { intros x Hx. apply Hws. right; exact Hx. }
      destruct (inU uni w) eqn:Hu; cbn [andb] in H1; [|now apply IHws in H1].
      destruct (negb (nmem w vis1)); [|now apply IHws in H1].
      destruct (dfr nb uni fres f w vis1 out1) as [vis2 out2|e'|] eqn:E.
      - now apply IHws in H1.
      - injection H1 as ->. apply IH in E; [exact E|]. apply Hws; [left; reflexivity | exact Hu].
      - discriminate. }
    apply Inner in H; [exact H|]. intros x Hx Hu. eapply reach_step; [exact Hv | exists ns; auto].
  - injection H as ->. exists v. split; assumption.
Qed.

End Err.

Lemma tmap_err fres r e : tmap fres r = TErr e -> r = TErr e.
Proof. destruct r; cbn; congruence. Qed.

Theorem error_bft nb uni fres fuel start e :
  bft nb uni fres fuel start = TErr e ->
  (inU uni (Some start) = false /\ e = ValueError) \/ raises_at nb uni (Some start) e.
Proof.
  rewrite ff_result_bft. intro H. apply tmap_err in H. revert H. unfold bft.
  assert (G : (if negb (inU uni (Some start)) then TErr ValueError
               else bft_loop nb uni all fuel [Some start] [Some start] (emit all (Some start) [])) = TErr e ->
              (inU uni (Some start) = false /\ e = ValueError) \/ raises_at nb uni (Some start) e).
  { destruct (inU uni (Some start)); cbn [negb]; intro H.
    - right. apply (bft_loop_err nb uni (Some start) e fuel [Some start] [Some start]); [|exact H].
      intros x [<-|[]]. constructor.
    - left. split; congruence. }
  destruct uni as [[|x l]|]; [discriminate | exact G | exact G].
Qed.

Theorem error_dfr nb uni fres fuel start e :
  dft_rec nb uni fres fuel start = TErr e ->
  df_preflight uni start = Some e \/ raises_at nb uni (Some start) e.
Proof.
  unfold dft_rec. destruct (df_preflight uni start) as [e'|]; [left; congruence|].
  destruct (dfr nb uni fres fuel (Some start) [] []) as [vis out|e'|] eqn:E; try discriminate.
  intro H. injection H as ->. right. eapply dfr_err; [constructor | exact E].
Qed.

Theorem error_dfi nb uni fres fuel start e :
  dft_iter nb uni fres fuel start = TErr e ->
  df_preflight uni start = Some e \/ raises_at nb uni (Some start) e.
Proof.
  rewrite ff_result_dfi. intro H. apply tmap_err in H. revert H.
  unfold dft_iter. destruct (df_preflight uni start) as [e'|]; [left; congruence|].
  intro H. right. apply (dfi_loop_err nb uni (Some start) e fuel [Some start] []); [|exact H].
  intros x [<-|[]] _. constructor.
Qed.

Lemma df_preflight_err uni start e : df_preflight uni start = Some e -> e = ValueError.
Proof.
  unfold df_preflight. destruct uni as [[|x l]|]; try congruence;
  match goal with |- context [negb ?b] => destruct (negb b) end; congruence.
Qed.

(* ------------------------------------------------------------------------------------------ *)
(* B in the "only removes entries" form                                                        *)

Lemma tmap_ok fres r out' out : tmap fres r = TOk out' -> r = TOk out -> out' = filter fres out.
Proof. intros H ->. cbn in H. congruence. Qed.

Corollary ff_removes_bft nb uni fres fuel start out' out :
  bft nb uni fres fuel start = TOk out' -> bft nb uni all fuel start = TOk out -> out' = filter fres out.
Proof. rewrite ff_result_bft. apply tmap_ok. Qed.
Corollary ff_removes_dfr nb uni fres fuel start out' out :
  dft_rec nb uni fres fuel start = TOk out' -> dft_rec nb uni all fuel start = TOk out -> out' = filter fres out.
Proof. rewrite ff_result_dfr. apply tmap_ok. Qed.
Corollary ff_removes_dfi nb uni fres fuel start out' out :
  dft_iter nb uni fres fuel start = TOk out' -> dft_iter nb uni all fuel start = TOk out -> out' = filter fres out.
Proof. rewrite ff_result_dfi. apply tmap_ok. Qed.

(* every listed vertex of a filtered run is reachable, each listed at most once *)
Corollary listed_reachable_bft nb uni fres fuel start out :
  uni <> Some [] -> bft nb uni fres fuel start = TOk out ->
  NoDup out /\ forall v, In v out <-> (reach nb uni (Some start) v /\ fres v = true).
Proof.
  intros Hu H. rewrite ff_result_bft in H.
  destruct (bft nb uni all fuel start) as [o| |] eqn:E; try discriminate. cbn in H. injection H as <-.
  destruct (bft_all_Bfs _ _ _ _ _ Hu E) as [Hs _].
  destruct (exact_bft nb uni fuel start o Hs Hu E) as (Hnd & _ & Hin).
  split; [now apply NoDup_filter|]. intro v. rewrite filter_In, Hin. reflexivity.
Qed.

Print Assumptions exact_bft.
Print Assumptions exact_dfr.
Print Assumptions exact_dfi.
Print Assumptions three_agree.
Print Assumptions ff_result_bft.
Print Assumptions ff_result_dfr.
Print Assumptions ff_result_dfi.
Print Assumptions ff_removes_bft.
Print Assumptions ff_removes_dfr.
Print Assumptions ff_removes_dfi.
Print Assumptions listed_reachable_bft.
Print Assumptions fuel_mono_bft.
Print Assumptions fuel_mono_dfr.
Print Assumptions fuel_mono_dfi.
Print Assumptions bft_fuel_enough.
Print Assumptions dft_rec_fuel_enough.
Print Assumptions dft_iter_fuel_enough.
Print Assumptions bft_level_order.
Print Assumptions bft_dist_monotone.
Print Assumptions bft_canonical.
Print Assumptions dfi_is_reversed_preorder.
Print Assumptions reversed_preorder_is_dfi.
Print Assumptions dfr_preorder.
Print Assumptions preorder_dfr.
Print Assumptions bft_ext.
Print Assumptions dft_rec_ext.
Print Assumptions dft_iter_ext.
Print Assumptions error_bft.
Print Assumptions error_dfr.
Print Assumptions error_dfi.
