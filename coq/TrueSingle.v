(* TrueSingle.v — model of edgegraph.structure.singleton.TrueSingleton / clear_true_singleton.
   Classes, instances and argument tuples are ids.  The table is the metaclass dict
   `_TrueSingleton__singleton_instances` (class -> instance), as an association list in
   insertion order.  `log` records every run of a class's __init__ (instance, class, args):
   it is the observable "how often and with what was __init__ run".                       *)
From EG Require Import Base.

Record ts := { tbl : list (nat * nat); nxt : nat; log : list (nat * (nat * nat)) }.
Definition ts_init : ts := {| tbl := []; nxt := 0; log := [] |}.

Fixpoint lookup (c : nat) (t : list (nat * nat)) : option nat :=
  match t with
  | [] => None
  | (c', i) :: r => if Nat.eqb c c' then Some i else lookup c r
  end.
Definition tdel (c : nat) (t : list (nat * nat)) : list (nat * nat) :=
  filter (fun p => negb (Nat.eqb c (fst p))) t.

Inductive top := Construct (c a : nat) | Clear (oc : option nat).
Inductive tout := RInst (i : nat) | RNone.

(* TrueSingleton.__call__ : `if cls not in table: table[cls] = super().__call__(args, kwargs)`;
   clear_true_singleton(cls): `if cls: if cls in table: del table[cls]  else: table = {}` *)
Definition tstep (s : ts) (op : top) : ts * tout :=
  match op with
  | Construct c a =>
      match lookup c (tbl s) with
      | Some i => (s, RInst i)
      | None => let i := nxt s in
                ({| tbl := tbl s ++ [(c, i)]; nxt := S i; log := log s ++ [(i, (c, a))] |}, RInst i)
      end
  | Clear (Some c) =>
      match lookup c (tbl s) with
      | Some _ => ({| tbl := tdel c (tbl s); nxt := nxt s; log := log s |}, RNone)
      | None => (s, RNone)
      end
  | Clear None => ({| tbl := []; nxt := nxt s; log := log s |}, RNone)
  end.

Definition trun (ops : list top) (s : ts) : ts := fold_left (fun s op => fst (tstep s op)) ops s.

(* every run of __init__ on instance i, in order: (class, args) *)
Definition inits_of (i : nat) (l : list (nat * (nat * nat))) : list (nat * nat) :=
  map snd (filter (fun e => Nat.eqb i (fst e)) l).

(* does op clear class c's entry? *)
Definition affects (op : top) (c : nat) : bool :=
  match op with
  | Construct _ _ => false
  | Clear None => true
  | Clear (Some c') => Nat.eqb c' c
  end.

(* ---- correspondence interface: what the harness observes after every call ---- *)
Definition tobs (s : ts) (o : tout) : option (nat * list (nat * nat)) :=
  match o with RInst i => Some (i, inits_of i (log s)) | RNone => None end.
Fixpoint ttranscript (ops : list top) (s : ts) : list (option (nat * list (nat * nat))) :=
  match ops with
  | [] => []
  | op :: r => let '(s', o) := tstep s op in tobs s' o :: ttranscript r s'
  end.
Definition pair_eqb (a b : nat * nat) := Nat.eqb (fst a) (fst b) && Nat.eqb (snd a) (snd b).
Definition tobs_eqb (a b : option (nat * list (nat * nat))) : bool :=
  opt_eqb (fun x y => Nat.eqb (fst x) (fst y) && list_eqb pair_eqb (snd x) (snd y)) a b.
Definition tcheck (c : list top * list (option (nat * list (nat * nat)))) : bool :=
  list_eqb tobs_eqb (ttranscript (fst c) ts_init) (snd c).
